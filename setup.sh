#!/bin/sh
# MANIFEST.setup_cmd: build the framework offline from files on disk.
set -e
cd "$(dirname "$0")"
export GOFLAGS=-mod=mod GOPROXY=off
mkdir -p .bin .work evidence replays
(cd tools/gen && go build -o ../../.bin/gen .)
./.bin/gen -repo "${VERIF_REPO:-/repo}" -out lean/CedarGen
(cd lean && lake build)
cp "${VERIF_REPO:-/repo}/go.sum" harness/go.sum
(cd harness && go build -tags verif -o ../.bin/corr ./cmd/corr)
echo setup ok
