# Per-property configuration of ./check : Lean module with the property theorems, the
# correspondence engines (sub-commands of harness/cmd/corr) and the texts for evidence.
SYMBOLIC_CRYPTO = "symbolic (Dolev-Yao) AEAD/hash: seal/H are free constructors (INT-CTXT, collision-freeness idealised; DESIGN §3)"

PROPS = {
    "C01": {
        "lean": "CedarProps.C01",
        "engines": ["framing", "codec"],
        "oracle_engine": {"framing": "stream", "codec": "codec"},
        "trusted": [SYMBOLIC_CRYPTO],
        "technique": "Lean 4 theorems (round-trip by induction over accepted frame chains; send-accepts-implies-receive-accepts by case analysis) + correspondence on real streams over boundary sizes and all short compositions",
        "level_text": "incremental_equals_complete (StartMessageRead + ReadMessageBytes(n) until end-of-message + EndMessageRead hands over exactly the message ReceiveCompleteMessage would, for every chunk size, consuming the same frames and leaving the stream clean) with readLoop_all; frame_roundtrip (bytes), send_accept_recv_accept (every frame a sender accepts passes the receiver's checks, both modes, first and later frames), messages_roundtrip_plain / _encrypted (ReceiveCompleteMessage loop returns exactly the sent messages for every accepted send history), buffered_roundtrip_plain / _encrypted (ANY sequence of messages each assembled by StartMessage, WriteMessage calls of any sizes with threshold flushes, EndMessage, is delivered as exactly one message per EndMessage = the concatenation of its writes) and buffered_incremental_plain (the same through the incremental API), typed-layer chunking theorems, typed_strbytes_any_length / typed_bytes_any_length (PutStringBytes and PutBytes of any length, including the >= 1 MiB branches, put exactly the reference bytes on the wire) and typed_rest_any_length (GetRemainingBytes returns exactly the unconsumed bytes of the message in any cut into frames; a truncated wire is an error); kernel-checked over the model. Tied to the code by the framing and codec engines on real streams (sizes around 4 KiB / 16 KiB / 1 MiB ± GCM overhead; every composition of short messages; one message of 1-3 MiB assembled from many partial sends / buffered writes / by the typed layer with position-dependent content; incremental, complete and typed receive APIs; large PutBytes/PutString/PutStringBytes followed by another value, GetRemainingBytes over several frames). typed_values_fit + typed_any_value_accepted (EVERY frame the typed layer emits for any list of values of any length - PutBytes, PutString, PutStringBytes chunking included - fits the frame bound and is accepted by the stream sender and the receiver's header check), typed_strbytes_any_length_i32 + strbytes_prefix_wraps (the encrypted string form carries an int32 length: the honest bound is 2^31; above it the prefix wrapped - found on the real code, fixed 204bb4c: the sender now refuses).",
        "level_note": "TCP delivery reliable and in order; symbolic AEAD; model hand-written, validated by correspondence; limits regenerated from source.",
        "assumptions": ["net.Conn delivers bytes reliably and in order"],
    },
    "C03": {
        "lean": "CedarProps.C03",
        "engines": ["hsadv", "token", "resume", "clientcache"],
        "accept_props": {"token": ["C11"]},
        "oracle_engine": {"hsadv": "hs", "token": "token", "resume": "sc", "clientcache": "sc"},
        "trusted": ["authentication sub-protocols are oracles (method m ran with this peer and succeeded / failed); ECDH/HKDF symbolic (symmetric free symbol)"],
        "technique": "Lean 4 theorems over client/server handshake machines with a universally quantified peer script + correspondence against scripted adversarial peers speaking raw CEDAR to the real ClientHandshake/ServerHandshake",
        "level_text": "client_resume_required_auth / client_explicit_required_auth / server_resume_required_auth (an endpoint whose policy marks authentication REQUIRED resumes only a session that was established WITH authentication), client_required_auth, client_required_enc, client_reported_enc_is_real, client_reported_auth_is_real, client_only_offered_methods_run, server_required_auth, server_required_enc, server_reported_is_real, decided_enc_is_keyed, server_percommand_required_auth / _required_enc / _ignores_authcommand (with per-command policies the policy met is the one of the command the negotiation is for, whatever AuthCommand names): for every local policy and EVERY peer (all field values, all bitmask replies, any key material, any post-auth ad) — kernel-checked over the model. Tied to the code by the hsadv engine: both roles x 4x4 policies (+integrity) x method shapes x the property's deviation catalogue + random peers; the scripted peer records which exchanges really completed and the harness reads the stream's real encryption state. Engines also send a canary after every successful handshake and re-open every protected frame with an independent codec under the reported key (all later traffic protected), read which method completed from a wire tap (reported method with two usable methods), and compare the reported Encryption with the stream state on both ends, resumed handshakes included. keyed_traffic_protected + client_/server_required_traffic_protected + reported_enc_traffic_protected: the handshake outcome's key IS what the stream is keyed with, and for any later op history without an explicit crypto-off every emitted frame is a seal under that key (bridge from the handshake model to the Stream model).",
        "level_note": "Resumed handshakes: that REQUIRED authentication is honoured on resumption is proved here over the session-cache model and exercised by the resume and clientcache engines (which therefore also run under this check); key possession and revival are C06. Sub-protocol soundness (did a 'successful' method deserve to succeed) is C11/C18; because C03's theorems assume it, the token engine (C11) also runs under this check and its violations count here. Only CLAIMTOBE/PASSWORD/NONE/TOKEN(no token)/unknown names are exercised on the wire; the theorems cover all methods via the oracle abstraction.",
        "assumptions": ["an authentication sub-protocol reports success only if it completed (C11, C18)"],
    },
    "C04": {
        "lean": "CedarProps.C04",
        "engines": ["relay"],
        "oracle_engine": {"relay": "stream"},
        "trusted": [SYMBOLIC_CRYPTO],
        "technique": "Lean 4 theorems over the stream model's digest tracking and first-frame AAD (free hash constructor) + correspondence with in-transit edits of cleartext frames at the stream level and a byte-editing relay between two real handshaking endpoints",
        "level_text": "transcript_determines_frames (the bytes fed to a digest determine the SEQUENCE of frames - number, flags, lengths, payloads - so splits, merges, inserted empty frames and rewritten end flags change the transcript), sent_frames_are_fed / received_frames_are_fed (every cleartext frame before key installation, empty ones included, is hashed header+payload), transcript_binding (accepting a sender's first protected frame forces the receiver's (received, sent) digests to equal the sender's (sent, received)), same_digest_same_bytes, tamper_kills_first_frame: kernel-checked. Tied to the code by the relay engine: (1) stream level, model-compared: cleartext frames edited in transit (bit flips, flag flips, empty-frame insertion, removal, splitting, appended bytes) then keys installed and a protected message each way; (2) whole handshakes (no authentication, CLAIMTOBE, resumed) through a relay editing every frame of the transcript (byte offsets x substitutes, insertion, removal, splitting). accept_means_same_frames (if the receiver accepts the first protected frame, the lists of cleartext frames the two ends saw in that direction are EQUAL - composition of transcript_binding, *_frames_are_fed and transcript_determines_frames; helpers sentIs_step, recvdIs_step, setKey_keeps_digests, digestOf_inj). The relay engine also runs TOKEN and FS handshakes, checks the resumed shape resumed, and merges adjacent cleartext frames. accept_means_same_frames_adv (+ recvFrame variant, tamper_kills_first_frame_adv): the hypothesis that the accepted frame is the sender's first seal is DERIVED for any frame of the C02 adversary's closure.",
        "level_note": "Downgrade to a plaintext session is outside C04's hypothesis (C03/C10). Plain ReceiveFrame (GetSecret/GetFile) does not hash a zero-length frame: declared exception, fails closed. TOKEN-authenticated shapes are exercised by the C11 engine, not the relay.",
        "assumptions": ["SHA-256 collision-free (free constructor)"],
    },
    "C05": {
        "lean": "CedarProps.C05",
        "engines": ["dispatch", "hsadv"],
        "accept_props": {"hsadv": ["C03"]},
        "oracle_engine": {"dispatch": "dispatch", "hsadv": "hs"},
        "trusted": ["handler bodies are opaque (they only decide keep-alive)", "session flags = handshake outcome; their truth is C03/C06"],
        "technique": "Lean 4 theorems (induction over the follow-on command list with the per-iteration re-check as invariant) composed with the handshake model + correspondence on a real server.Server with scripted command sequences, four kinds of client, reconnect-and-resume",
        "level_text": "levelOK_is_the_code (the model's level test EQUALS the definition tools/gen translates from server.commandLevelSatisfied on every run, for all level strings), satisfies_is_the_code / no_session_no_command (the gate Server.satisfies passes exactly when the definition translated from server.sessionSatisfies returns nil), switch_before_step / switch_after / switch_none / switch_late / switch_sound (reconfiguration DURING a kept-alive connection, model serveAuthSw: every command is judged by the server in force when it arrives), dispatch_sound (every invoked authenticated handler: registered, not raw, session meets the command's CURRENT level, identity currently authorized — all follow-on sequences, all keep-alive behaviours), levelOK_meaning, raw_path_only_raw, auth_path_never_raw, refuse_closes, raw_refuse_closes, valid_commands_sound (with the authorization conjunct), valid_commands_dispatchable, no_level_never_authorized: kernel-checked. The server-side close is observed before the harness closes anything; the post-auth ValidCommands advertisement is observed, judged and compared; commands without permission levels / without own policy under a non-OPTIONAL base configuration; follow-on commands on resumed connections. Tied to the code by the dispatch engine: real server with per-command policies/authorization levels and 3 authorizer tables, every command sequence of length <=3 (sampled above 2) over authenticated/raw/unknown commands with random keep-alive patterns, 4 client kinds, reconnect-and-resume with another command; invoked handlers (with the stream's real encryption state) compared with the model composed with honestRun. dispatch_sound_real: the session record is the outcome of serverFull / serverResume - auth REQUIRED => one of the server's own methods really completed (or the resumed entry was established authenticated), enc/integrity REQUIRED => the stream holds the key; serveAuthH / dispatch_sound_H / dispatch_ends / refuse_closes_H: the three-outcome handler model (close, keep-alive, KeepOpen) - a refusal or an unknown command always closes.",
        "level_note": "Handler bodies are opaque; the per-command policy function and authorizer are parameters (they may change between connections). The theorems assume the session flags are true (C03); the hsadv engine (C03) therefore also runs under this check and its violations count here.",
        "assumptions": ["reported session flags equal the real state (C03, C06)"],
    },
    "C06": {
        "lean": "CedarProps.C06",
        "engines": ["resume", "clientcache"],
        "oracle_engine": {"resume": "sc", "clientcache": "sc"},
        "trusted": [SYMBOLIC_CRYPTO, "time is a parameter of the model (virtual time in the engine: entries re-stored with a past expiry)"],
        "technique": "Lean 4 theorems over the cache-as-finite-map and the server resumption machine (+ replay rejection from the symbolic AAD binding) + correspondence on a real server cache with scripted requests and byte-for-byte replays",
        "level_text": "required_auth_not_resumed, resume_needs_key (a successful resumption found a live, keyed entry; the stream is switched to that key; identity/authentication are the entry's), dead_not_resumed, invalidated_is_dead, never_stored_is_dead, other_ops_do_not_revive, expired_lookup_removes, client_explicit_needs_key (a client handshake naming a cached session by id resumes only a keyed AES-GCM entry — did not hold of the code as found, F-C06-client-explicit-keyless), replay_rejected + digests_differ (a frame recorded on another connection does not authenticate once request/reply carry fresh values): kernel-checked. Tied to the code by the resume engine: histories over establish/expire/renew/invalidate/gc with scripted requests (right/wrong/no key, unknown id, one character off, with/without reply, other address) and replays of both directions of a recorded resumed connection (whole/truncated). resumed_connection_protected + resumed_keyless_requester_locked_out (wire level: after a successful resumption with key k every frame any receive API accepts is a seal under k and everything sent is sealed under k, for any later op history; a party without k gets nothing accepted and opens nothing), resumed_replay_prefix, dead_stays_dead + invalidate_wins_history + expired_stays_dead_history (inductive over ALL op histories on the cache model: a session invalidated or expired and not stored again is never resumed), reachable_wf.",
        "level_note": "Guessability of session identifiers is noted, not proved. Replay protection holds for peers that send the fresh ResumeNonce (cedar both sides after the fix); a legacy peer that requests no reply gets none, so the server contributes no fresh value and the recorded client->server bytes of such a connection re-authenticate on a fresh server connection while the session lives: driven by the engine (scripted key-holding requester with ResumeResponse=false, its byte stream replayed) and recorded as known finding F-C06-noreply-replay (key C06:replay-c2s-noreply); proved in the model as noreply_replay_fails (witness) with noreply_digests_repeat (the freshness hypothesis of replay_rejected is what fails) next to reply_replay_rejected (the part that holds).",
        "assumptions": ["a receive error is terminal"],
    },
    "C07": {
        "lean": "CedarProps.C07",
        "engines": ["clientcache"],
        "oracle_engine": {"clientcache": "sc"},
        "trusted": ["time is a parameter of the model"],
        "technique": "Lean 4 theorems (command-map key injectivity for all strings (prefix-code argument over the comma escaping), MapCommand touches exactly one route, resume only via the routed triple, drop on failure, invalidate/expire remove routes) + correspondence of real client handshakes over (tag, server, command) histories against model and an independent reference map",
        "level_text": "routes_lead_home + resume_only_same_triple (invariant over ALL histories of client operations, the server choosing the session identifier in every full handshake: a route leads only to sessions of its own tag and server for a command the server declared, and a resumption by route returns such a session's key and identity; legacy_store_breaks_routes is the history that broke it before fix 59f34db), key_injective (for ALL tags, addresses and commands: commas inside a part are escaped; comma_triples_distinct is the pair that collided before the fix), mapCommand_route, resume_only_routed, explicit_id_plants_no_route (a handshake that names a cached session by id never adds a command-map binding), drop_on_failure, next_is_full, invalidate_removes_routes, expire_removes_routes, WF preservation: kernel-checked. Tied to the code by the clientcache engine: histories of real ClientHandshake calls over 4 tags x 5 addresses x 3 commands with server restarts, broken connections, expiry, invalidation; all 60 routes compared after every step with the model and with a reference map kept by the spec rules. The RAW command map (VerifCommandMap) is compared with the model after every step and histories contain expire -> by-id lookup (entry dropped, mappings left) -> sweep / Invalidate: invalidate_leaves_no_route, sweep_leaves_no_dangling_route, sweep_routes_live (legacy_invalidate_leaves_route: the witness before fix 94c25e6).",
        "level_note": "No assumption on the characters of tags, addresses or commands remains (the comma collision found by the theorem was confirmed on the real cache and repaired).",
        "assumptions": [],
    },
    "C10": {
        "lean": "CedarProps.C10",
        "engines": ["matrix"],
        "oracle_engine": {"matrix": "hs"},
        "trusted": ["ECDH/HKDF symbolic; credentials of a method modelled as a predicate credOK"],
        "technique": "Lean 4 theorems (decision table = negotiateSecurity for all 4^4 levels by kernel evaluation, lifted to arbitrary lists; agreement of two honest machines) + exhaustive correspondence of two real endpoints over the full matrix x list shapes",
        "level_text": "core_is_the_code (the model's level logic EQUALS the definition tools/gen translates statement by statement from security.negotiateSecurity on every run, for all level strings), honest_matches_spec (negotiateSecurity fails / authenticates / encrypts exactly per the property's table, all 4^4 level combinations x existence of a usable method/cipher), negotiate_is_core + negotiated_method_common (lifting to arbitrary lists; unimplemented methods never count), client_view_consistent, jointLoop_success, retry_loop_complete + honest_auth_complete (the retry loop of two honest endpoints ends in success with a working method whenever one exists, any orders, any number of failing methods first), honest_agree (same auth/enc outcome, session id, key, exchanges). Tied to the code by the matrix engine: two real endpoints, all 256 cells x 5-8 list/cipher shapes, a message each way after success, compared with honestRun and with an independently written table. honest_run_matches_table (the whole honest run, not only the level core, succeeds iff the table does not say fail), server_denies_iff + client_reads_denial (on failure the server SENDS a denial and the client acts on that message), server_mints_sid + client_learns_sid (the session id is the server's draw, the client's is read from the post-authentication ad). The matrix engine detects the denial on the wire (not in error text), varies integrity, empty server lists and lists naming both SCITOKENS and IDTOKENS, shapes whose first common method fails on the wire, and compares user and method between the two ends.",
        "level_note": "Completeness of the bitmask retry loop is proved (retry_loop_complete, honest_auth_complete: success whenever some offered method works) for method sets with distinct single-bit mask values; SCITOKENS and IDTOKENS share one bit, so lists containing both are covered by the matrix engine only; methods exercised on the wire: CLAIMTOBE, PASSWORD, NONE.",
        "assumptions": ["credentials: CLAIMTOBE always succeeds between the two test endpoints"],
    },
    "C12": {
        "lean": "CedarProps.C12",
        "engines": ["gcmformat", "handoff"],
        "oracle_engine": {"gcmformat": "stream", "handoff": "stream"},
        "accept_props": {"handoff": ["C15"]},
        "trusted": [SYMBOLIC_CRYPTO, "refcodec: independent implementation of the documented frame format (same Go crypto primitives)"],
        "technique": "Lean 4 theorems (wire format by unfolding; nonce distinctness by invariant over arbitrary operation histories) + translation validation against an independent reference codec in both directions",
        "level_text": "wire_format, first_aad_digests, nonce_sequence / nonces_distinct (any interleaving of sends, buffered writes, secrets, crypto toggles and receives; imported counters), refuses_wrap, iv_once, lost_frame_nonce_not_reused (a frame whose socket write failed has consumed its counter value): kernel-checked over the model. ref_accepts_impl / impl_accepts_ref are discharged by the gcmformat engine: every frame real streams emit is opened by refcodec, refcodec-built frames are fed to the real receiver, counters near 2^32 via NewStreamWithCryptoState driven to the limit through every sending API (SendMessage, SendPartialMessage, WriteMessage flush, EndMessage, PutSecret, typed FlushFrame/FinishMessage) with the refusal judged on the bytes written to the connection; socket write failures (timeout / error / short write after every k bytes of a frame, through every sending API, first and later frames, keyed and imported sessions) followed by further sends, judged by refcodec on the bytes that reached the connection: later frames open at the next counter values, never under a consumed one, IV never announced again; IV freshness as an oracle on the implementation: base IVs of all key installations pairwise distinct also in their last 12 bytes, every byte position varying, every (key, 16-byte nonce) pair of the run used once across endpoints, directions, sessions and hand-offs. The handoff engine (shared with C15) also runs under this check: after a hand-off every frame must still open under the SESSION key by the reference codec (a key or state restored wrongly, e.g. from a caller buffer wiped since, is a C12 matter too). size_literals_are_the_code (the 16/16/32-byte sizes are the integer literals of stream.calculateEncryptedSize and message.maxFramePayload, regenerated on every run).",
        "level_note": "Distinct RNG draws are distinct (crypto/rand); symbolic AEAD in the model, real AES-256-GCM in the correspondence.",
        "assumptions": ["crypto/rand yields fresh IVs"],
    },
    "C14": {
        "lean": "CedarProps.C14",
        "engines": ["codec"],
        "oracle_engine": {"codec": "codec"},
        "trusted": ["Lean native Float (oracle only, for PutDouble/GetDouble correspondence; no theorem depends on it)"],
        "technique": "Lean 4 theorems (encoder layout = reference encoding; decoder as refinement of the pending byte sequence, hence independent of every frame cut; int/string round trips) + correspondence on real Message/Stream with re-cutting at every position",
        "level_text": "layout, int_roundtrip, cut_independence (every sequence of well-formed values, both string modes, every cut of the bytes into frames incl. mid-value and empty frames), same_bytes_same_values, double_precision_partial (integer inequality for the 31-bit fraction; float rounding not modelled), int_char_frames_fit: kernel-checked. Tied to the code by the codec engine (real encoder output vs independent spec encoder, decode as sent and after re-cut at every position / random positions, doubles from random bit patterns, subnormals, exponent extremes, both modes).",
        "level_note": "IEEE float multiply/divide, math.Frexp/Ldexp are Go's: represented by an integer inequality (partial) and compared on real values; strings: NUL-free, not starting with the BinNullChar byte (valid UTF-8 never does).",
        "assumptions": ["Go's math.Frexp/Ldexp and float64 arithmetic follow IEEE-754"],
    },
    "C15": {
        "lean": "CedarProps.C15",
        "engines": ["handoff"],
        "oracle_engine": {"handoff": "stream"},
        "trusted": [SYMBOLIC_CRYPTO],
        "technique": "Lean 4 theorems (refusal condition iff, field-exact restore, rejection lemmas) + correspondence over traffic histories with export attempted at every step, chains of hand-offs, all truncations and single-byte corruptions of a blob",
        "level_text": "(engine, round 8) export after StartMessageRead consumed the leading frames of a message and then failed must be refused - implementation-side property oracle, the stream model has no op for a receive that fails after consuming frames; export_refused_iff, export_contents, import_export (all crypto/framing fields restored verbatim), decode_encode + blob_roundtrip (parsing the bytes written gives back exactly the fields, for every key/IV/counter/flag/digest/peer value in range), handoff_transparent (for EVERY sequence of sends, buffered writes, message ends, secrets, crypto toggles and receives of arbitrary frames the imported stream emits the same frames and delivers the same messages as the exporting stream would - a simulation proved operation by operation), handoff_chain (hand-offs compose), import_rejects_truncated (EVERY strict prefix of a well-formed blob is rejected), import_rejects_{short,magic,version}, import_identity / import_around_eq (whatever connection the stream is rebuilt around, it reports the exporter's authentication status and the exporter's peer address; only a session that never knew its peer takes the new connection's): kernel-checked. With C02.recv_prefix_midstream and C12.nonce_sequence this gives the authentic-prefix and no-nonce-reuse guarantees after the hand-off. Tied to the code by the handoff engine (connections with remote addresses, authentication status and peer address set and changed, import around a connection with ANOTHER remote address and IsAuthenticated/GetPeerAddr compared with the exporter's; export at clean and unclean points on either end incl. a message in progress with nothing consumed (also an empty one), everything consumed but not ended, bytes buffered by WriteMessage, unread inbound messages waiting on the connection; chained hand-offs, continued two-way traffic checked by refcodec, every truncation/corruption of a valid blob, versions 0/2/3/0x0100/0x0101/0x7fff/0x8001/0xffff, case-flipped/rotated/shifted magic).",
        "level_note": "fd passing itself out of scope; digests are carried as opaque bytes after import (unused once both first frames passed).",
        "assumptions": ["the blob travels over a trusted local channel (as documented)"],
    },
    "C02": {
        "lean": "CedarProps.C02",
        "engines": ["tamper"],
        "oracle_engine": {"tamper": "stream"},
        "trusted": [SYMBOLIC_CRYPTO],
        "technique": "Lean 4 theorem (invariant + induction over adversarial wire, symbolic AEAD) + correspondence/tamper fault enumeration on real streams",
        "level_text": "recv_prefix / recv_prefix_midstream: for every send history in both directions and every Dolev-Yao rewriting of the wire (own bytes, the sender's seals replayed/re-headed, the RECEIVER's own seals reflected), ReceiveCompleteMessage delivers a prefix of the sent messages, under one stated session hypothesis (the two fresh IVs differ in their last 12 bytes: two independent random draws); a reflected first frame announces the receiver's own IV and is refused (reflection_rejected is the concrete case that failed before the fix) (model theorem, kernel-checked); recv_prefix_incremental / _midstream: the same prefix guarantee for the incremental API (StartMessageRead -> readNextFrame, ReadMessageBytes(n) until end-of-message for every n, EndMessageRead): a wire that ends inside a multi-frame message is an error, never a truncated message; recv_prefix_frames: plain ReceiveFrame (GetSecret/GetFile) hands over only a prefix of the frame payloads sent; no_bypass / no_bypass_recvFrame: no frame is accepted without AES-GCM open. Model tied to the code by the tamper engine (single-fault catalogue incl. end flags 0..10 + multi-faults on real keyed streams, every fault presented to ReceiveCompleteMessage, Message.GetRemainingBytes, the incremental API, ReceiveFrame and GetSecret, transcripts of secrets with encryption switched off around them; compared with the model). recv_prefix_typed (+ _midstream): the same prefix theorem for the typed layer's receive path (GetRemainingBytes / ensureData, end flags 2..10); recv_prefix_resumed (+ typed / incremental / frames variants): the adversary may additionally inject every frame recorded on EARLIER connections of the same session (same key) - explicit hypotheses: the old connections' IV tails differ from this one's and their first-frame digests differ (the reply-mode freshness of C06).",
        "level_note": "Symbolic AEAD (free constructors); receive errors terminal; model hand-written and validated by correspondence; constants regenerated from source.",
        "assumptions": ["a receive error is terminal (the application stops reading)", "crypto/aes, crypto/cipher GCM are correct"],
    },
}

NOT_APPLICABLE = {p: "check exists (model, theorems, engine committed) but is being reconciled with the merged tree: two repairs landed in the same receiver loop and the model must follow before the check is claimed (DESIGN.md §9)" for p in
                  ["C%02d" % i for i in range(1, 21)]}
# properties whose check exists but is being reconciled with the current tree (not claimed in MANIFEST meanwhile)
HOLD = []
HOOK_COMMITS = ["c6f7867", "24f55f1", "656796a", "f1896ba", "c241426", "32a0d71"]

PROPS["C16"] = {'assumptions': ['HKDF-SHA256 is injective on the secrets in use (collision resistance)',
                 'crypto/rand yields the 64 lowercase hex characters randomHexKey documents'],
 'engines': ['claim'],
 'lean': 'CedarProps.C16',
 'level_note': "Well-formedness for policy_carried / info_roundtrip / expiry_lockstep: cipher names without ';' and '.', version absent, compact or '<token> "
               "<compact> ...', expiry second positive and within int64. strings.TrimSpace/Fields modelled for ASCII white space. 'Same expiry' holds whenever "
               "the id carries an expiry; without one each side applies only its own local fallback (importer's Duration is the importer's configuration, not "
               "a minting option). A resumption handshake has no key confirmation: 'cannot' = no application data delivered in either direction. time.Now is "
               'sampled once per mint.',
 'level_text': "parse_mint (every sinful incl. '#', '[', ']'; every hex secret), same_session (import of a minted id never fails; same id, key = HKDF(secret), "
               'cipher, and every policy attribute except User), expiry_agrees / expiry_lockstep, policy_carried, info_roundtrip / export_import_export (text '
               'survives parse+render; expiry as integer or string), different_secret_different_key, corrupt_secret (every single-character corruption incl. '
               "'#' and ']'), resumes_both_directions, wrong_secret_never_delivers, public_independent_of_secret (non-interference), filetrans_shared: "
               'kernel-checked over the model for all options. Tied to the code by the claim engine: options from the sinful/cipher/version/command/lifetime '
               'grammar, cache entries on both ends compared field by field with the model and with each other, session_info text compared with an independent '
               'spec rendering, real handshakes naming the session explicitly in both directions with application data, one secret corruption per case, '
               'malformed ids/texts/policies.',
 'oracle_engine': {'claim': 'claim'},
 'technique': "Lean 4 theorems (grammar lemma for the split on the last '#'; parse-after-render of the session_info text by induction over the rendered "
              'fields; decimal round trip; policy lookups) + correspondence on the real MintClaimSession / ImportClaimSession / ImportFileTransferSession / '
              'Export+ImportSecSessionInfo with real handshakes in both directions',
 'trusted': ['HKDF-SHA256 is a free constructor in the model (distinct secrets give distinct keys; DESIGN §3); the claim engine evaluates it with an HKDF '
             'written out by hand (hmac+sha256) and compares real key bytes',
             'resumption handshake modelled as: both ends key their streams from their cache entries, data delivered iff the keys agree (symbolic AEAD); tied '
             'to the code by real client/server handshakes']}

PROPS["C18"] = {'assumptions': ["the transport delivers the client's result code (otherwise the directory may stay: observation recorded by the engine, outside the quantifier)",
                 '/tmp is a real directory; mkdir/rmdir/lstat behave as documented'],
 'engines': ['fspath'],
 'lean': 'CedarProps.C18',
 'level_note': "Quantifier: path strings (and first messages) with a working transport; the kernel's os.Root confinement is the second layer and is not "
               'modelled (the model shows the first layer alone suffices). The base directory itself is assumed not to be a symlink planted by an adversary.',
 'level_text': "validate_shape (accepted => path = base/leaf, single safe component, recognised shape, address-qualified names only for the connection's own "
               'endpoint), addr_qualified_names_peer, rejects_everything_else with rejects_{relative,noncanonical,nested,other_parent,traversal}, '
               'client_effects / client_mkdir_confined / at_most_one_mkdir / client_refuses / client_no_path_no_effect (every first message, every '
               'environment), client_cleanup (every environment and every continuation, a cancelled context while waiting for the verdict included: whatever '
               'was created is removed), server_accepts_only / server_identity_only_on_accept / '
               'server_success_means_verdict_zero: kernel-checked over the model. Tied to the code by the fspath engine: path grammar + mutations through '
               'validateFSAuthPath, fsAddrLeaf, verifyFSPathEndpoint (hooks), filepath and net.ParseIP against the transcriptions, whole client exchanges '
               'against a scripted server with before / at-reply / after filesystem snapshots, whole server exchanges against 25 kinds of object left at the '
               'path, honest exchanges over TCP loopback (IPv4, IPv6); every accepted path also judged by a reference recogniser written from the statement.',
 'oracle_engine': {'fspath': 'fspath'},
 'technique': 'Lean 4 theorems (lexical characterisation of Clean/Dir/Base-accepted paths, leaf-shape recognisers refined to existential shape specifications, '
              'effect log of the client exchange by case analysis over every environment) + correspondence through hooks (validator, address recogniser, '
              'endpoint check at volume) and through the whole client and server exchanges with filesystem snapshots',
 'trusted': ['os.Root / kernel (mkdir, rmdir, lstat), user.LookupId, net.SplitHostPort and net.Addr.String are parameters of the model (any outcome); regex, '
             'filepath and net.ParseIP are transcribed as byte-level recognisers and compared with the real ones on every run']}

PROPS["C11"] = {'assumptions': ['HMAC-SHA1/HMAC-SHA256/HKDF-SHA256 are unforgeable / one-way (terms are free)',
                 'crypto/rand nonces are fresh',
                 'the wall clock does not step backwards during one exchange'],
 'engines': ['token'],
 'lean': 'CedarProps.C11',
 'level_note': "Symbolic crypto (free constructors) in the theorems, real HMAC/HKDF in the correspondence; JSON/base64 decoding is Go's (Env); time claims "
               "beyond +-4e18 (Go's float->int64 conversion is platform-defined) are compared with the model but carry no property claim; the client's choice "
               'among several token sources (TokenFile/TokenDir, issuer filtering) is outside the model - only the directly configured token is driven; '
               'SessionKey derivation (hkdf of the public RB) is not part of C11; strings in the exchange are NUL-free (C strings).',
 'level_text': 'server_accept_iff (accept <=> message 1 = OK,id,token,RA with no trailing bytes; token of two segments under a held key, now < exp, iat >= now  replay_rejected_server / replay_rejected_client (a recorded exchange does not verify against fresh nonces); the engine checks all RA/RB of a run pairwise distinct, replays recorded honest exchanges into fresh endpoints, generates nbf, varied key files and subjects.'
               "- maxAge, non-empty string sub; message 3 = OK, id = sub, RB echo = own RB, proof = HMAC_K(sub|0|RB) with K derived from the server's own "
               'recomputation of the token signature, no trailing bytes; recorded identity = user part of sub, independent of the announced id), '
               'identity_from_token, possession_server / possession_client (a peer whose proof bytes are terms it can build knows the signature or relays a '
               "proof over this run's fresh nonce), refused_stays_refused / client_refused_stays_refused (stored errors are final although the comparison key "
               'is then empty), server_proof_only_for_valid_token, client_accept_iff, no_reflection, verify_accepts_exactly (VerifyIDToken accepts <=> 3 '
               'segments, held key for kid, signature = sign(key, header.payload), time claims valid now, non-empty sub), '
               'verify_accepts_what_the_exchange_accepts: kernel-checked for ALL decoders/term readings (Env), frames and key stores. Tied to the code by '
               'engine token: security.PerformTokenAuthenticationDemo (both roles) and VerifyIDToken against a scripted peer over an in-memory connection: '
               '~110 server, ~60 client, ~40 verify single deviations (every check of the three messages, token bit flips incl. every single bit of short '
               'tokens, other/unknown/unreadable keys, kid forms, exp/iat at the boundary relative to the wall clock, max-age sources, announced id vs sub, '
               'wrong/truncated/empty/reflected/mis-keyed proofs, echoes, status codes, trailing bytes, missing EOM, truncation, frame cuts), '
               'refused-message-1 followed by the publicly computable proof, pairs of deviations, malformed byte streams; verdict, error class, recorded '
               'identity and the messages the implementation sends compared with the model; property oracle recomputes the required proof with the reference '
               'crypto. expired_or_too_old_is_forever / validity_window_convex (the time test is a function of the clock of EACH presentation: no later '
               'clock revives an expired or over-age token; the validity window is an interval); the engine presents the same token twice with the clock '
               'moving in between (reaches its maximum age / expires / stays valid): accepted earlier is no licence to accept now.',
 'oracle_engine': {'token': 'token'},
 'technique': 'Lean 4 theorems (accept-iff characterisations of server, client and VerifyIDToken obtained by inverting every monadic step of the transcribed '
              'functions; Dolev-Yao possession corollaries over free MAC/signature terms; concrete necessity witnesses by kernel evaluation) + correspondence '
              "of the real client/server/VerifyIDToken against scripted peers performing the property's single-field deviations",
 'trusted': ['symbolic (Dolev-Yao) AEAD/hash: seal/H are free constructors (INT-CTXT, collision-freeness idealised; DESIGN §3); for C11: Sig/MKey/Mac terms '
             '(HMAC-SHA256 over HKDF = token signature, HKDF with the HTCondor seed = MAC key, HMAC-SHA1 = proofs), adversary = CanSend closure',
             'token_ref.go: independent reference of the IDTOKEN/AKEP2 cryptography and message layout (Go crypto/hmac, sha1, sha256; HKDF by hand) used to '
             'play the scripted peer and to name proof bytes as terms',
             'Go encoding/base64 + encoding/json + strings.Split/TrimSpace: JWT segments reach the model already decoded (Env tables: kid, exp/iat/sub, '
             'signature term)']}

PROPS["C20"] = {'assumptions': ['crypto/rand draws do not repeat and cannot be guessed',
                 'closing a listener resets the connections still in its backlog (kernel behaviour)',
                 'context cancellation closes a connection blocked in a stream read (stream.readWithContext)'],
 'engines': ['ccb'],
 'lean': 'CedarProps.C20',
 'level_note': 'Real scheduling is sampled, the theorems are over the event model (schedules = arbitrary event lists). A connection that presented the right '
               'id but lost (failure reply taken first, or another broker won) may stay open unreturned: observed and counted, not a clause of C20. '
               "Unguessability of the id is crypto/rand's; the model proves one own draw per attempt.",
 'level_text': 'returns_only_matching, rogues_closed_never_returned (every arrival order and interleaving: the returned connection presented exactly the  proxied_ignores_reply_claim + broker_cannot_choose_id (in proxied mode the id expected in the hello is the own id of the requester, whatever the reply of the broker names).'
               'generated id under CCB_REVERSE_CONNECT, everything else is closed and not returned), broker_failure_ends / broker_failure_genuine / '
               'attempt_result_final, proxied_returns_iff / proxied_failure_ends, dial_returns_only_matching (any number of brokers, any subset working, any '
               'completion order), at_most_one, id_fresh, connect_id_source (GenerateConnectID draws from crypto/rand and reads no package-level state: regenerated table), connect_id_origins (every ClaimId ccb/ puts on the wire or matches a hello against is traced to a GenerateConnectID call or to the ad received from the peer; math/rand only for the declared non-cryptographic uses), other_requests_id_never_returned: kernel-checked over the event model. Tied to the code by the ccb '
               'engine: every arrival order of <=3 (thorough <=4) connections over 8 greeting classes plus random longer sequences with byte-level varieties '
               'on the real accept loop; broker reply x replayed hello on the real proxied request; real ccb.Dial with rogue connections around the legitimate '
               'one, success/failure/no reply racing the reverse connection, proxied and nested contacts, 1-3 brokers (working, failing, refusing, dead), '
               'staggered and sequential; observables = far end of the returned connection, closed state of every other scripted connection, freshness of '
               'every request id.',
 'oracle_engine': {'ccb': 'ccb'},
 'technique': 'Lean 4 theorems (invariant of accept goroutine || reply goroutine || select loop preserved by every event; invariant of the multi-broker Dial '
              'over all interleavings of its attempts; proxied mode by case analysis) + correspondence on the real acceptReversed / proxyRequestOnStream '
              '(hooks) and real ccb.Dial over loopback TCP against scripted brokers and rogue peers',
 'trusted': ['RNG symbolic: one fresh symbol per draw; distinct draws are distinct (crypto/rand; DESIGN §3)',
             'frame / ClassAd decoding of a greeting is a parameter of the model (a reverse connection is presented as closed | garbage | silent | hello cmd '
             'claim); the engine ties the classes to real bytes',
             'Go scheduler, network and timers are an explicit event list (the schedule) the theorems quantify over']}

PROPS["C19"] = {'assumptions': ['net.Conn.Close makes a pending Read/Write return with an error and later ones fail (runtime contract, DESIGN §3)',
                 'context.AfterFunc runs f in its own goroutine when the context fires; stop() reports false exactly then'],
 'engines': ['stall'],
 'lean': 'CedarProps.C19',
 'level_note': "Partial by nature: 'promptly' is wall-clock time; the theorems prove return WITHOUT FURTHER PEER ACTION (Ret.blocked is the only non-returning "
               'outcome), the engine measures time-to-return against a generous bound (1.5 s) as a liveness detector only. Handshakes are modelled as '
               'sequences of readWithContext/writeWithContext calls whose errors abort or are swallowed (retry loops); that every swallowing site is followed '
               'by an aborting step or an unconditional error return is read off the code and observed by the engine for every k, not proved. For handshakes '
               "the property promises 'an error'; the engine records whether it Is the context's error. Kerberos and SciTokens need a KDC / issuer and are not "
               'run; two cedar endpoints cannot complete SSL with each other, so SSL runs as the failing first method of a fallback and alone (ends in its own '
               'error). After the entry-guard fix the connection is closed at all three cancellation positions; in the stop() window the close is asynchronous '
               '(watcher goroutine).',
 'level_text': 'unblocks (blocked => the context has not fired, any operation, any environment), cancelled_before, stall_cancel_during / stall_cancel_before /  no_contextless_blocking (regenerated table of calls in security/ to blocking APIs that take no context is within a justified allow-list: Kerberos GetServiceTicket is the one declared open site) + no_contextless_blocking_prefix_fails (the pre-fix table violates it). fact_tables_not_vacuous (the regenerated I/O and context tables are inhabited and contain the two wrapped primitives).'
               "cancel_in_stop_window (every k, every prefix, both error kinds), plain_error_is_ctx (all-abort operations return exactly the context's error "
               'once it has fired), closed_on_cancel (Close has run or the watcher was started, all three positions), guard_without_close_leaves_open (record '
               'of the defect: before the fix the entry guard returned with the connection open), never_cancellable_adds_nothing / unfired_adds_nothing '
               '(refinement to the bare I/O), stall_blocks_without_cancel, all_io_wrapped + ctx_threaded (fact tables regenerated from stream/ security/ '
               'message/): kernel-checked over the event model. Tied to the code by the stall engine: real handshakes (no-auth, CLAIMTOBE, FS, TOKEN, SSL as '
               'failing first method and alone, resumption, negotiation failure; both roles) and plain exchanges (every send/receive API, secrets, files, '
               'typed messages; clear and AES-GCM) over a connection whose k-th read or write stalls / fails / fires the cancel, for every k, schedules guard '
               '/ during / deadline / stop-window / never / unfired / after / already-fired.',
 'oracle_engine': {'stall': 'cancel'},
 'technique': 'Lean 4 theorems over an event model of readWithContext/writeWithContext (guard -> fast path | AfterFunc watch -> io -> stop) with an '
              'adversarial per-step environment (peer completes / fails / stalls; cancellation before the guard or while the request is outstanding), '
              'step-level case analysis lifted to operations by induction; fact tables (connection I/O sites, context provenance) decided by `decide` against '
              'declared lists; + correspondence on real streams and handshakes through a stalling net.Conn wrapper and a scripted context',
 'trusted': ['Go runtime contracts of net.Conn.Close and context.AfterFunc/stop (parameters of the model)',
             'facts_io.go is syntactic (identifier resolution only); over-approximate: a new connection use or foreign context breaks the inclusion theorem']}

PROPS["C09"] = {'assumptions': ['attribute names are ASCII; strings are NUL-free and shorter than 2 GiB (layout / roundtrip theorems)',
                 'the classad library lists each attribute of the ad once (names distinct up to case)'],
 'engines': ['privacy'],
 'lean': 'CedarProps.C09',
 'level_note': "Scope: the ad's own attributes. A private-named attribute inside a NESTED ad value is rendered by the classad library and does travel "
               '(recorded observation, DESIGN §4 C09); a public expression may mention a private NAME (that is public data). PutClassAdRaw / '
               "PutClassAdRawBytes take pre-rendered strings and filter nothing (the caller's duty). Names are ASCII in the model (Go also folds U+212A / "
               'U+0130 onto k / i and then withholds more). EncryptedAttrs are treated as the code treats them: an extra, exactly-matched list of fixed '
               'private names. Errors of WriteFrame are not modelled at this layer.',
 'level_text': 'case_insensitive, fixed_names_private, prefix_names_private / prefix_needed (tables regenerated from the classad dependency), sent_iff (the '
               'complete decision for every option word, whitelist, EncryptedAttrs list and peer), default_deny, v2_gate with tooOld_iff / cutoff_is_9_9_0 '
               '(regenerated literals), sent_sublist, wire_independent_of_private / message_independent_of_private / same_as_redacted (non-interference: '
               "without the opt-in the serialiser's whole behaviour is a function of the public attributes; every evaluator, stream state and prior buffer), "
               'unredacted_types_fails (the defect found: evaluating the type trailer in the whole ad breaks it), sealed_iff_ciphertext (tie to the L2 stream '
               'model), secrets_only_sealed (keyed, not encrypting: unprotected payload bytes = count, public expressions, bare markers, redacted type '
               'trailer; protected payload bytes = the secret expressions), encrypting_all_sealed, secret_roundtrip (the receiver reassembles the expression '
               'list and types in all stream states): kernel-checked over the model. Tied to the code by the privacy engine: the full option matrix on a '
               '4-attribute ad x whitelist shapes x peers x stream states, then generated ads (every fixed name and the prefix in random case variants, '
               'near-miss names, nested ads, type expressions over private attributes, canaries) x option bits x whitelists x EncryptedAttrs x peer versions '
               'around 9.9.0 x four stream states; frames (payload, end flag, protected or not — protected frames opened by refcodec), attribute selection, '
               'predicates, version comparison and GetClassAdRaw (as sent, re-cut by a reference sender, truncated, secret dropped / in clear) compared with '
               'the model.',
 'oracle_engine': {'privacy': 'privacy'},
 'technique': 'Lean 4 theorems (both filters reduced to one per-attribute decision, spelled out as an iff; non-interference by showing the item list is a '
              'function of the public part; byte layout of the unprotected and of the protected frames on the marker path by induction over the item list, '
              'reusing the C14 layout lemmas; receiver refinement over frame runs) + correspondence of the real PutClassAdWithOptions / GetClassAdRaw on real '
              'streams over a recording connection with the model, plus a property oracle on the implementation (canary search over every byte and opened '
              'plaintext, twin serialisation, cleartext-only search, reconstruction by GetClassAd)',
 'trusted': ['symbolic (Dolev-Yao) AEAD/hash: seal/H are free constructors (INT-CTXT, collision-freeness idealised; DESIGN §3)',
             "the PelicanPlatform classad library: GetAttributes/Lookup/Expr.String list the ad's own attributes with names distinct up to case; its evaluator "
             '(EvaluateAttrString) is an arbitrary function parameter of the model; Redacted/Delete remove exactly the named attributes',
             'time (getCurrentUnixTime) is a parameter of the model, read back from the wire by the engine']}

PROPS["C13"] = {'assumptions': ['a receive error of the frame layer is terminal (the connection is dropped)',
                 'the ClassAd expression parser (PelicanPlatform/classad) and the Go standard library routines the text parsers are built from (strings, '
                 'strconv, net/url, encoding/base64) terminate without panicking; they are exercised, not modelled'],
 'engines': ['decode'],
 'lean': 'CedarProps.C13',
 'level_note': 'Quantifier: every decoder state (any buffered bytes, any frames still to come, both string modes, key or no key) for the typed, ClassAd and '
               'handshake-record readers; every wire byte string for the frame readers, the shared-port header, the session-info text and the crypto-state '
               'blob. Allocation is counted in the model (buffer appends, make sizes, result growth, text builder) and bounded by 4x the bytes received (+ one '
               'MaxMessageSize frame buffer at the frame layer); real allocation (runtime.MemStats) and stack are measured by the engine, not proved. Leaf '
               'text parsers (ParseClaimID, ParseCondorPrivateInherit, ParseSinful, ParseHTCondorAddress, version.Parse, watch.Decode*) are compositions of Go '
               'standard-library calls: exercised by the engine for panics and super-linear time, not modelled. exchangeSciToken (token size read inside an '
               'established TLS session) is bounded by the fix but not driven by the engine. The model is of the library AFTER seven small fixes; the pre-fix '
               'behaviours are kept as Legacy definitions with _fails theorems.',
 'level_text': 'total_typed / total_classad / total_handshake / total_framing / total_text_blob (no decoder entry point reaches a panicking operation, for all '
               'inputs: negative / huge length and count fields, missing terminators, premature end-of-message, exhausted wire, secret markers anywhere), '
               'linear_typed / linear_classad / linear_handshake / linear_framing (frames taken <= frames on the wire; loop rounds <= bytes of the message + '
               '4, independent of any announced count; bytes allocated <= 4 x bytes received (+ one maximal frame buffer); constant stack in the multi-frame '
               'reader), buffer_bound + cap_string / cap_classad / cap_handshake (a capped reader never asks the wire for more than max(cap, 8) bytes at once, '
               'never holds a value longer than the cap, consumes <= cap + 8 bytes per string, returns <= cap bytes - secret marker branch included), '
               'legacy_*_fails (each of the five pre-fix behaviours violates its clause, by witness): kernel-checked over the Decode model. Tied to the code '
               'by the decode engine: the wire grammar of typed values / ClassAds / handshake records with one field mutated from the length catalogue, random '
               'framing, truncation, missing EOM, both string modes, over a counting mock stream (loop rounds observable as IsEncrypted queries), a real '
               'keyless stream and a real keyed stream; capped readers against 10-400x oversize; raw wire bytes through the real frame readers; claim-id text, '
               'crypto-state blobs, shared-port headers; results, error classes, frames taken, rounds performed and the rest of the message compared op by op; '
               'independently no panic / rounds <= input + 8 / allocation <= 64 x input + 1 MiB / capped readers take <= 16 x cap + 64 + one frame; '
               'process-killing inputs (2^31..2^63 announced lengths, 400 000 empty partial frames) in a child process under RLIMIT_AS, GOMEMLIMIT and '
               'SetMaxStack.',
 'oracle_engine': {'decode': 'decode'},
 'technique': 'Lean 4 theorems (conservation laws of ensureData; a potential argument: every loop round that continues is paid for by consumed bytes, so '
              'rounds, frames and allocation are bounded by the input; cap bookkeeping as an invariant; Lean structural recursion / explicit fuel as the '
              'termination obligation) + correspondence of the real decoders with the metered model on structured mutated inputs, with loop rounds made '
              'observable through a counting stream, + implementation-side oracle incl. child-process runs for fatal inputs',
 'timeout': 5400,
 'trusted': ['frames reach the typed layer already opened (symbolic AEAD; a frame that does not authenticate is a receive error, C02)',
             'the verdict of the external ClassAd expression parser is a parameter of the model (index of the first rejected expression), read back from the '
             'real run',
             'Go runtime: allocation and stack figures are measured with runtime.MemStats in the engine']}

PROPS["C17"] = {'assumptions': ["sync.Mutex / sync.RWMutex mutual exclusion, sync.Once, sync/atomic and the Go memory model's DRF-SC guarantee (a program whose conflicting "
                 'accesses are ordered by locks behaves sequentially consistently)',
                 'net.Conn Read/Write/Close may be called from different goroutines (net package contract); cipher.AEAD Seal/Open do not mutate the AEAD',
                 'once the handshake is over the application does not reconfigure the stream (SetCryptoMode, SetEncrypted, SetSymmetricKey, SetConnection, '
                 'ExportCryptoState) while traffic is in flight'],
 'engines': ['race'],
 'lean': 'CedarProps.C17',
 'level_note': 'Partial by nature: the theorems are lock discipline, atomic sections, configuration copies and field disjointness over a model; the runtime  One stream state is NOT covered and recorded as a known finding (F-C17-keyed-plain-secret-toggle): a stream that holds a key but is not encrypting, where the crypto-for-secret switch is one flag for both directions (keyed_plain_secret_writes_shared; directions_independent assumes Established, which excludes that state).'
               '(mutexes, maps, scheduler) is not modelled and the race detector is only the SEARCH for a failing schedule (its coverage is what the workloads '
               'reach). Fact tables are syntactic: an access is attributed to the object expression it is written with (one object per type per method), '
               "constructors are exempt (writes before publication), 'guarded write' means lexically under an if/for/switch. DebugDump / InvalidateExpired "
               'read each entry under its own lock, so with concurrent RenewLease they are atomic per entry, not a snapshot across entries (the workloads keep '
               "an entry's expiry class fixed so that histories stay linearizable). Established stream = digests frozen, keyed => encrypting, no secret toggle "
               'open; the base IV (encryptIV) is in the shared read-only part: both directions read it (the receiver for the reflection check of fix D16), '
               'only SetSymmetricKey writes it. Outside the property: a secret toggle left open; toggling the crypto mode (SetCryptoMode(false) + PutSecret) '
               'while the other goroutine receives is outside the property.',
 'level_text': 'lockset_sound (Eraser soundness for any number of threads over mutexes with a shared mode), cache_discipline (every method of SessionCache / '
               'SessionEntry in the regenerated fact table obeys the declared guard policy and releases its locks, hence no interleaving of any threads '
               'calling any of them on any objects has a data race on any field), cache_atomic_sections (each cache method is one critical section), '
               'globals_once, counter_minted_in_one_step + atomic_mints_distinct (the session counter advances by ONE atomic read-modify-write in the regenerated table, hence all identifiers minted under any interleaving are distinct; split_mint_collides: load+store collides without a data race), client_store_files_entry_first + store_then_map_survives_sweep (storeClientSession files the entry before it maps commands, so a concurrent expiry sweep leaves the routes; map_then_store_loses_route: the other order), invalidate_wins + wf_reachable (in every linearization nothing returns an invalidated id until it is stored again), resumption_path_never_stores + invalidate_wins_resumption (the stored-again hypothesis discharged from the code for resumptions in flight: regenerated table of cache calls on both resumption paths lists no Store), fact_tables_inhabited, sweep_count, '
               'config_not_written (every library NewAuthenticator call site hands over a copy; only declared writes through configurations), '
               'handshakes_isolated (all interleavings, one copy per connection) with sharing_disturbs as the recorded reason, established_after_handshake, '
               'directions_independent (every interleaving of send and receive operations on an established stream shows each goroutine exactly what it sees '
               'running alone) with send_/recv_touches_*_side_only, footprint_covers_code, broker_writers_serialised (every write to a CCB broker stream is in register or inside writeToBroker under writeMu: regenerated site table) + footprints_disjoint (regenerated field footprints of all exported '
               'Stream methods within the declaration; the declaration keeps the directions apart): kernel-checked. Tied to the code by the fact tables '
               '(tools/gen/facts_lock.go) and by the race engine: concurrent cache histories whose linearization the Lean cache replays, configuration-cell '
               'schedules and the resume-vs-Invalidate schedule on real Authenticators, two-goroutine stream interleavings compared per direction with the '
               'model and end to end with the peer, many simultaneous client connections sharing one SecurityConfig and one cache against one server over '
               'loopback with maintenance sweeps, all under the race detector with GOMAXPROCS 1/2/4/8 and injected yields.',
 'oracle_engine': {'race': 'conc'},
 'race': True,
 'race_engines': ['race'],
 'technique': 'Lean 4 theorems (Eraser lockset soundness over a trace semantics with reader/writer mutexes, lifted from the regenerated per-method lock/access '
              'table to arbitrary threads of method calls by decide + a composition lemma; the cache as a sequential object with an absence invariant; a '
              'locality calculus showing every send operation factors through the send side and every receive operation through the receive side of an '
              'established stream, hence any interleaving equals the sequential composition; syntactic footprint inclusion by decide) + correspondence and '
              'randomized stress of the real code in child processes built with -race (the race detector as search, linearizability of concurrent histories '
              'checked by exhaustive search and replayed by the model, post-conditions after quiescence)',
 'timeout': 3600,
 'trusted': ['Go runtime: mutex exclusion, sync.Once, atomics, DRF-SC; the race detector finds only races on schedules the workloads reach',
             'the fact extractor tools/gen/facts_lock.go (typed-AST, syntactic) and the reviewed allow-list of methods on interface-typed Stream fields '
             '(cipher.AEAD.Seal/Open, hash.Hash.Sum, net.Conn.* read-only; hash.Hash.Write writing)',
             'expiry is a class (never / past / future = now -/+ 1h) fixed per entry object; symbolic AEAD/hash in the stream model (DESIGN §3)']}

PROPS["C08"] = {'assumptions': ['the classad library (github.com/PelicanPlatform/classad v0.4.0: ParseExpr, ast rendering, Insert) is correct; its literal syntax is '
                 'described by LitGrammar and compared with it on every run',
                 'strconv.ParseFloat is a function of its text and symmetric in the sign (the shortcut parses "-1.5", the parser negates the value of "1.5")',
                 'a receive error is terminal'],
 'engines': ['literal', 'adwire'],
 'lean': 'CedarProps.C08',
 'level_note': "The external parser is a parameter of the model (verdict + symbolic result); 'the expression the parser assigns' is compared up to one "
               'equivalence: a minus sign in front of a numeric literal is the negative literal (the sender renders IntegerLiteral(-5) as -5). LitGrammar '
               "covers literal tokens and blanks (not comments, not the trailing ; the parser's record wrapper tolerates). wire_roundtrip is stated for "
               'plaintext and encrypted streams (uniform string mode); the marker + put_secret path of a keyed, non-encrypting stream is covered by '
               'receivers_same_bytes / receivers_fail_together (all states) and by the adwire engine on real streams, its secrecy by C09. The capped reader '
               'GetClassAdWithMaxSize belongs to C13; the per-round ensureData(1) of the raw and the skipping receiver (/repo e91c289) and the rejection of '
               'negative length prefixes (/repo 0d73d42) are in the model and exercised by the damaged-ad generator (huge counts, negative prefixes). '
               "Rendering is the classad library's: a non-finite real literal renders as +Inf, which its own parser rejects (observation, generator keeps to "
               'finite reals).',
 'level_text': "shortcut_agrees (for EVERY value text: a literal fast path that fires yields exactly what the parser's literal syntax assigns), decoded_value "
               "(every outcome of parseAndInsertExpression: shortcut literal / parser's own result / old-string fallback only behind a parser rejection), "
               'fallback_sound, old_string_roundtrip, decode_error_class, receivers_same_bytes (for EVERY reader state — any frames, both string modes, keyed '
               'or not, marker fields included — GetClassAd, GetClassAdRaw and SkipClassAdRaw end in the same state), receivers_fail_together (running out of '
               'message is common to all three), wire_layout, wire_roundtrip (every ad of well-formed strings, every trailing values, every cut into frames: '
               "raw text = the sender's strings, parsed ad = parseAndInsert of each string with exactly the sender's names, same unread bytes), prefix_*_fails "
               '(the three pre-fix violations, recorded): kernel-checked over the model. Tied to the code by the literal engine (every string over the '
               '16-symbol literal alphabet up to length 4/5, all case variants of true/false, number/string/expression edge lists, grammar-generated literals '
               'with mutations — real decoder vs external parser vs model, and LitGrammar vs external parser) and the adwire engine (grammar-generated ads '
               'through the four real senders over real streams in three crypto states, three real receivers on the same wire bytes, sender frames, re-cut '
               'frames, damaged ads).',
 'oracle_engine': {'adwire': 'classad', 'literal': 'classad'},
 'technique': 'Lean 4 theorems (recognisers refined to a reference literal grammar; discard = ensureData + drop and the match-tracking skip = read, by '
              'induction over frames, lifted through the expression loop to whole receivers; round trip as refinement over the pending bytes of the message, '
              'reusing the C14 codec lemmas) + correspondence of the real decoder, the external parser and the model on exhaustive short texts, and of real '
              'senders/receivers on real streams with the model on generated, re-cut and damaged ads',
 'trusted': ['classad.ParseExpr / ast rendering / ClassAd.Insert (external library): parameter of the model, evaluated by the harness; its literal syntax '
             '(LitGrammar) is tested against it on every run',
             'strconv.ParseFloat / ParseInt, strings.TrimSpace, utf8.ValidString, fmt %q: Go standard library, transcribed (TrimSpace, ValidString, ParseInt) '
             'or evaluated by the harness (ParseFloat, %q) and compared on every run',
             'the stream layer is a frame source for this layer (frames as ReadFrame hands them over); what a frame read under the wrong crypto state looks '
             'like is C02/C12']}

# ---- additions of the coverage round (C08 C09 C13 C14): appended so that the entries above stay as merged ----
PROPS["C13"]["level_text"] += (
    " Added: total_framing_noend / linear_framing_noend / oversize_header_refused (stream.ReceiveFrame and its callers GetSecret / GetFile: every wire byte "
    "string; a header above MaxMessageSize is refused with nothing allocated; GetFile writes no more than the wire delivered), variable_sized_allocations_declared (regenerated table of every slice allocation sized by a variable in the packages that handle peer input is within a declared list of sites whose size is bounded first), handshake_ads_capped / "
    "handshake_ads_bounded (decide over the regenerated table CedarGen.FactsAdRead of ALL ClassAd-reader calls in security/ and ccb/: each is "
    "GetClassAdWithMaxSize with a constant cap in 1..64 KiB), total_linear_subprotocols (kerberos request blob, optional raw fields of the token exchange), "
    "cap_exceeded_fails (a capped read FAILS once the cap is exceeded: plaintext, encrypted, ClassAd budget). Engine: ReceiveFrame / GetSecret / GetFile "
    "under hostile headers (child process above 64 MiB), real handshakes in both roles and the CCB readers handed 10-400x oversized well-formed ads at "
    "each ad-reading step (must fail, consume <= cap + 64 KiB read-ahead allowance + one frame, allocate <= 16 cap + 4 MiB), sub-protocol readers "
    "through hooks with the length catalogue per length field, nested / deep / wide ClassAd values incl. the error path (stack-limited child), "
    "allocation of the text parsers measured.")
PROPS["C14"]["level_text"] += (
    " Added: double_layout / double_frac_range / double_precision about the model's encodeDbl / decodeDbl (a double as the integer pair (fraction scaled "
    "by 2^31-1, exponent); precision 2^-29 relative for every fraction within 1 of the exact truncated product - float rounding is the declared trusted "
    "part and is measured with exact integers on every double the engine sends), strbytes_layout (PutStringBytes incl. its >= one-frame branch has "
    "PutString's wire bytes). Engine: Code* entry points in both directions, PutFloat / GetFloat / CodeFloat, GetRemainingBytes on unfinished "
    "messages, PutStringBytes of 1 MiB +- and 2 MiB.")
PROPS["C08"]["level_text"] += (
    " Added (engine adwire): attribute names compared with the sender's exact spelling; GetClassAdWithMaxSize (cap the ad fits under) compared with "
    "GetClassAd on every honest ad; type names with blanks / non-ASCII / 41-128 characters; the raw-text oracle reads library-rendered text back "
    "(order and spacing free).")
PROPS["C09"]["level_text"] += (
    " Added: types_independent_of_scope_private / scope_types_legacy_fails (model PrivacyScope: the evaluated type trailer does not depend on private "
    "attributes of the ad's PARENT / TARGET scopes - defect found and fixed, ce45501). Engine: several ads through ONE Message with crypto-mode "
    "changes in between; type expressions over TARGET / PARENT scopes.")

