# Per-property configuration of ./check : Lean module with the property theorems, the
# correspondence engines (sub-commands of harness/cmd/corr) and the texts for evidence.
SYMBOLIC_CRYPTO = "symbolic (Dolev-Yao) AEAD/hash: seal/H are free constructors (INT-CTXT, collision-freeness idealised; DESIGN §3)"

PROPS = {
    "C02": {
        "lean": "CedarProps.C02",
        "engines": ["tamper"],
        "oracle_engine": {"tamper": "stream"},
        "trusted": [SYMBOLIC_CRYPTO],
        "technique": "Lean 4 theorem (invariant + induction over adversarial wire, symbolic AEAD) + correspondence/tamper fault enumeration on real streams",
        "level_text": "recv_prefix / recv_prefix_midstream: for every send history and every Dolev-Yao rewriting of the wire, ReceiveCompleteMessage delivers a prefix of the sent messages (model theorem, kernel-checked); no_bypass: no frame is accepted without AES-GCM open. Model tied to the code by the tamper engine (single-fault catalogue + multi-faults on real keyed streams, compared with the model).",
        "level_note": "Symbolic AEAD (free constructors); receive errors terminal; model hand-written and validated by correspondence; constants regenerated from source.",
        "assumptions": ["a receive error is terminal (the application stops reading)", "crypto/aes, crypto/cipher GCM are correct"],
    },
}

NOT_APPLICABLE = {p: "check under construction in this round (claimed once its model, theorems and engine are committed)" for p in
                  ["C%02d" % i for i in range(1, 21)]}
HOOK_COMMITS = []
