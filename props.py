# Per-property configuration of ./check : Lean module with the property theorems, the
# correspondence engines (sub-commands of harness/cmd/corr) and the texts for evidence.
SYMBOLIC_CRYPTO = "symbolic (Dolev-Yao) AEAD/hash: seal/H are free constructors (INT-CTXT, collision-freeness idealised; DESIGN §3)"

PROPS = {
    "C01": {
        "lean": "CedarProps.C01",
        "engines": ["framing", "codec"],
        "oracle_engine": {"framing": "stream", "codec": "codec"},
        "trusted": [SYMBOLIC_CRYPTO],
        "technique": "Lean 4 theorems (round-trip by induction over accepted frame chains; send-accepts-implies-receive-accepts by case analysis) + correspondence on real streams over boundary sizes and all short compositions",
        "level_text": "frame_roundtrip (bytes), send_accept_recv_accept (every frame a sender accepts passes the receiver's checks, both modes, first and later frames), messages_roundtrip_plain / _encrypted (ReceiveCompleteMessage loop returns exactly the sent messages for every accepted send history), typed-layer chunking theorems; kernel-checked over the model. Tied to the code by the framing and codec engines on real streams (sizes around 4 KiB / 16 KiB / 1 MiB ± GCM overhead; every composition of short messages; incremental and complete receive APIs).",
        "level_note": "TCP delivery reliable and in order; symbolic AEAD; model hand-written, validated by correspondence; limits regenerated from source.",
        "assumptions": ["net.Conn delivers bytes reliably and in order"],
    },
    "C03": {
        "lean": "CedarProps.C03",
        "engines": ["hsadv"],
        "oracle_engine": {"hsadv": "hs"},
        "trusted": ["authentication sub-protocols are oracles (method m ran with this peer and succeeded / failed); ECDH/HKDF symbolic (symmetric free symbol)"],
        "technique": "Lean 4 theorems over client/server handshake machines with a universally quantified peer script + correspondence against scripted adversarial peers speaking raw CEDAR to the real ClientHandshake/ServerHandshake",
        "level_text": "client_required_auth, client_required_enc, client_reported_enc_is_real, client_reported_auth_is_real, client_only_offered_methods_run, server_required_auth, server_required_enc, server_reported_is_real, decided_enc_is_keyed: for every local policy and EVERY peer (all field values, all bitmask replies, any key material, any post-auth ad) — kernel-checked over the model. Tied to the code by the hsadv engine: both roles x 4x4 policies (+integrity) x method shapes x the property's deviation catalogue + random peers; the scripted peer records which exchanges really completed and the harness reads the stream's real encryption state.",
        "level_note": "Resumed handshakes are covered under C06. Sub-protocol soundness (did a 'successful' method deserve to succeed) is C11/C18. Only CLAIMTOBE/PASSWORD/NONE/TOKEN(no token)/unknown names are exercised on the wire; the theorems cover all methods via the oracle abstraction.",
        "assumptions": ["an authentication sub-protocol reports success only if it completed (C11, C18)"],
    },
    "C10": {
        "lean": "CedarProps.C10",
        "engines": ["matrix"],
        "oracle_engine": {"matrix": "hs"},
        "trusted": ["ECDH/HKDF symbolic; credentials of a method modelled as a predicate credOK"],
        "technique": "Lean 4 theorems (decision table = negotiateSecurity for all 4^4 levels by kernel evaluation, lifted to arbitrary lists; agreement of two honest machines) + exhaustive correspondence of two real endpoints over the full matrix x list shapes",
        "level_text": "honest_matches_spec (negotiateSecurity fails / authenticates / encrypts exactly per the property's table, all 4^4 level combinations x existence of a usable method/cipher), negotiate_is_core + negotiated_method_common (lifting to arbitrary lists; unimplemented methods never count), client_view_consistent, jointLoop_success, honest_agree (same auth/enc outcome, session id, key, exchanges). Tied to the code by the matrix engine: two real endpoints, all 256 cells x 5-8 list/cipher shapes, a message each way after success, compared with honestRun and with an independently written table.",
        "level_note": "Completeness of the bitmask retry loop (it finds a usable common method whenever one exists) is validated by the matrix engine, not proved (methods may share bits); methods exercised: CLAIMTOBE, PASSWORD, NONE.",
        "assumptions": ["credentials: CLAIMTOBE always succeeds between the two test endpoints"],
    },
    "C12": {
        "lean": "CedarProps.C12",
        "engines": ["gcmformat"],
        "oracle_engine": {"gcmformat": "stream"},
        "trusted": [SYMBOLIC_CRYPTO, "refcodec: independent implementation of the documented frame format (same Go crypto primitives)"],
        "technique": "Lean 4 theorems (wire format by unfolding; nonce distinctness by invariant over arbitrary operation histories) + translation validation against an independent reference codec in both directions",
        "level_text": "wire_format, first_aad_digests, nonce_sequence / nonces_distinct (any interleaving of sends, buffered writes, secrets, crypto toggles and receives; imported counters), refuses_wrap, iv_once: kernel-checked over the model. ref_accepts_impl / impl_accepts_ref are discharged by the gcmformat engine: every frame real streams emit is opened by refcodec, refcodec-built frames are fed to the real receiver, counters near 2^32 via NewStreamWithCryptoState.",
        "level_note": "Distinct RNG draws are distinct (crypto/rand); symbolic AEAD in the model, real AES-256-GCM in the correspondence.",
        "assumptions": ["crypto/rand yields fresh IVs"],
    },
    "C14": {
        "lean": "CedarProps.C14",
        "engines": ["codec"],
        "oracle_engine": {"codec": "codec"},
        "trusted": ["Lean native Float (oracle only, for PutDouble/GetDouble correspondence; no theorem depends on it)"],
        "technique": "Lean 4 theorems (encoder layout = reference encoding; decoder as refinement of the pending byte sequence, hence independent of every frame cut; int/string round trips) + correspondence on real Message/Stream with re-cutting at every position",
        "level_text": "layout, int_roundtrip, cut_independence (every sequence of well-formed values, both string modes, every cut of the bytes into frames incl. mid-value and empty frames), same_bytes_same_values, double_precision_partial (integer inequality for the 31-bit fraction; float rounding not modelled), int_char_frames_fit: kernel-checked. Tied to the code by the codec engine (real encoder output vs independent spec encoder, decode as sent and after re-cut at every position / random positions, doubles from random bit patterns, subnormals, exponent extremes, both modes).",
        "level_note": "IEEE float multiply/divide, math.Frexp/Ldexp are Go's: represented by an integer inequality (partial) and compared on real values; strings: NUL-free, not starting with the BinNullChar byte (valid UTF-8 never does).",
        "assumptions": ["Go's math.Frexp/Ldexp and float64 arithmetic follow IEEE-754"],
    },
    "C15": {
        "lean": "CedarProps.C15",
        "engines": ["handoff"],
        "oracle_engine": {"handoff": "stream"},
        "trusted": [SYMBOLIC_CRYPTO],
        "technique": "Lean 4 theorems (refusal condition iff, field-exact restore, rejection lemmas) + correspondence over traffic histories with export attempted at every step, chains of hand-offs, all truncations and single-byte corruptions of a blob",
        "level_text": "export_refused_iff, export_contents, import_export (all crypto/framing fields restored verbatim), import_rejects_{short,magic,version}, readVar_truncated: kernel-checked. Continuation after hand-off inherits C02/C12 via recv_prefix_midstream and nonce_sequence (counter and IV restored). Tied to the code by the handoff engine (export at clean and unclean points on either end, chained hand-offs, continued two-way traffic checked by refcodec, every truncation/corruption of a valid blob).",
        "level_note": "fd passing itself out of scope; digests are carried as opaque bytes after import (unused once both first frames passed).",
        "assumptions": ["the blob travels over a trusted local channel (as documented)"],
    },
    "C02": {
        "lean": "CedarProps.C02",
        "engines": ["tamper"],
        "oracle_engine": {"tamper": "stream"},
        "trusted": [SYMBOLIC_CRYPTO],
        "technique": "Lean 4 theorem (invariant + induction over adversarial wire, symbolic AEAD) + correspondence/tamper fault enumeration on real streams",
        "level_text": "recv_prefix / recv_prefix_midstream: for every send history and every Dolev-Yao rewriting of the wire, ReceiveCompleteMessage delivers a prefix of the sent messages (model theorem, kernel-checked); no_bypass: no frame is accepted without AES-GCM open. Model tied to the code by the tamper engine (single-fault catalogue + multi-faults on real keyed streams, compared with the model).",
        "level_note": "Symbolic AEAD (free constructors); receive errors terminal; model hand-written and validated by correspondence; constants regenerated from source.",
        "assumptions": ["a receive error is terminal (the application stops reading)", "crypto/aes, crypto/cipher GCM are correct"],
    },
}

NOT_APPLICABLE = {p: "check under construction in this round (claimed once its model, theorems and engine are committed)" for p in
                  ["C%02d" % i for i in range(1, 21)]}
HOOK_COMMITS = []
