/-
  Application-level runs over the Stream model: a sender issuing a sequence of frame sends,
  a receiver looping on ReceiveCompleteMessage, and the reference notion "messages sent".
-/
import CedarModel.Stream

namespace Cedar

/-- One call of `sendMessageWithEnd`: payload and end flag. -/
abbrev SendOp := Bytes × Nat

/-- Issue the sends in order; the first error aborts (nothing further is sent). -/
def Stream.sendAll (s : Stream) : List SendOp → Except Err (Stream × List WireFrame)
  | [] => .ok (s, [])
  | (d, fl) :: rest =>
    match s.sendFrame d fl with
    | .error e => .error e
    | .ok (s1, f) =>
      match s1.sendAll rest with
      | .error e => .error e
      | .ok (s2, fs) => .ok (s2, f :: fs)

/-- Reference semantics: the messages a sequence of frame sends denotes — payloads are
    concatenated up to and including the frame whose end flag is 1; an unfinished tail is
    not a message. -/
def messagesOf (acc : Bytes) : List SendOp → List Bytes
  | [] => []
  | (d, fl) :: rest =>
    if fl = 1 then (acc ++ d) :: messagesOf [] rest else messagesOf (acc ++ d) rest

/-- `Message.GetRemainingBytes` on a fresh inbound message: `ReadFrame` until a frame whose end
    flag is non-zero; everything read, or the first error (a wire that ends before the
    end-of-message frame is an error, never a short message). -/
def Stream.recvRestAux (s : Stream) (acc : Bytes) : List WireFrame → Except Err (Stream × Bytes × List WireFrame)
  | [] => .error .eof
  | f :: w =>
    match s.recvFrameWithEnd f with
    | .error e => .error e
    | .ok (s1, d, flag) =>
      if flag ≠ 0 then .ok (s1, acc ++ d, w) else s1.recvRestAux (acc ++ d) w

/-- The application loop: `ReceiveCompleteMessage` until the first error; what it was handed. -/
def Stream.deliverFuel : Nat → Stream → List WireFrame → List Bytes
  | 0, _, _ => []
  | n + 1, r, w =>
    match r.recvComplete w with
    | .error _ => []
    | .ok (r', msg, w') => msg :: Stream.deliverFuel n r' w'

/-- every `ReceiveCompleteMessage` consumes at least one frame, so `w.length` rounds exhaust the wire -/
def Stream.deliver (r : Stream) (w : List WireFrame) : List Bytes := Stream.deliverFuel (w.length + 1) r w

end Cedar

namespace Cedar

/-- Everything an application can do to an established stream (both directions, secrets, crypto
    mode), as one operation type: histories are `List Op`. -/
inductive Op
  | send (d : Bytes) (fl : Nat)
  | write (d : Bytes)
  | endMsg
  | startMsg
  | secret (d : Bytes)
  | crypto (on : Bool)
  | recv (f : WireFrame)
  | recvPlain (f : WireFrame)
  | getSecret (f : WireFrame)
  deriving Repr

def okOr {α : Type} (s : Stream) (r : Except Err (Stream × α)) (emit : α → List WireFrame) : Stream × List WireFrame :=
  match r with
  | .ok (s', a) => (s', emit a)
  | .error _ => (s, [])

/-- One operation; what it puts on the wire. A failed operation emits nothing (the fields the Go
    code may have touched on an error path — sendEOM, decIV, finRecvAAD — play no role in what is
    proved over `run`). -/
def Stream.step (s : Stream) : Op → Stream × List WireFrame
  | .send d fl => okOr s (s.sendFrame d fl) (fun f => [f])
  | .write d => okOr s (s.writeMessage d) id
  | .endMsg => okOr s s.endMessage id
  | .startMsg => (s.startMessage, [])
  | .secret d => okOr s (s.putSecret d) (fun f => [f])
  | .crypto on => ((s.setCryptoMode on).1, [])
  | .recv f => okOr s (s.recvFrameWithEnd f) (fun _ => [])
  | .recvPlain f => okOr s (s.recvFrame f) (fun _ => [])
  | .getSecret f => okOr s (s.getSecret f) (fun _ => [])

def Stream.run (s : Stream) : List Op → Stream × List WireFrame
  | [] => (s, [])
  | op :: rest =>
    let (s1, fs) := s.step op
    let (s2, gs) := s1.run rest
    (s2, fs ++ gs)

/-- (key, nonce) of a protected frame -/
def nonceOf (f : WireFrame) : Option (Nat × IV) :=
  match f.body with
  | .ct _ c => some (c.key, c.nonce)
  | .raw _ => none

end Cedar
