/-
  Application-level runs over the Stream model: a sender issuing a sequence of frame sends,
  a receiver looping on ReceiveCompleteMessage, and the reference notion "messages sent".
-/
import CedarModel.Stream

namespace Cedar

/-- One call of `sendMessageWithEnd`: payload and end flag. -/
abbrev SendOp := Bytes × Nat

/-- Issue the sends in order; the first error aborts (nothing further is sent). -/
def Stream.sendAll (s : Stream) : List SendOp → Except Err (Stream × List WireFrame)
  | [] => .ok (s, [])
  | (d, fl) :: rest =>
    match s.sendFrame d fl with
    | .error e => .error e
    | .ok (s1, f) =>
      match s1.sendAll rest with
      | .error e => .error e
      | .ok (s2, fs) => .ok (s2, f :: fs)

/-- Reference semantics: the messages a sequence of frame sends denotes — payloads are
    concatenated up to and including the frame whose end flag is 1; an unfinished tail is
    not a message. -/
def messagesOf (acc : Bytes) : List SendOp → List Bytes
  | [] => []
  | (d, fl) :: rest =>
    if fl = 1 then (acc ++ d) :: messagesOf [] rest else messagesOf (acc ++ d) rest

/-- The application loop: `ReceiveCompleteMessage` until the first error; what it was handed. -/
def Stream.deliverFuel : Nat → Stream → List WireFrame → List Bytes
  | 0, _, _ => []
  | n + 1, r, w =>
    match r.recvComplete w with
    | .error _ => []
    | .ok (r', msg, w') => msg :: Stream.deliverFuel n r' w'

/-- every `ReceiveCompleteMessage` consumes at least one frame, so `w.length` rounds exhaust the wire -/
def Stream.deliver (r : Stream) (w : List WireFrame) : List Bytes := Stream.deliverFuel (w.length + 1) r w

end Cedar
