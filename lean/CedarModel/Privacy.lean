/-
  L4 Privacy: which attributes of a ClassAd are serialised, and how the ones that are private
  travel, for every option set, whitelist, peer version and stream state.

  models: message.putClassAdToMessageWithOptions, message.filterAttributesByPrivacy,
          message.filterAttributesByWhitelist, message.isAttrInList, message.adWithoutPrivate,
          message.putSecretExpr, message.getSecretString, message.GetClassAdRaw,
          message.GetClassAdRawBody, message.BuiltSinceVersion,
          message.ClassAdAttributeIsPrivateV1, message.ClassAdAttributeIsPrivateV2,
          message.ClassAdAttributeIsPrivateAny, message.getCurrentUnixTime,
          stream.CryptoForSecretIsNoop, stream.PrepareCryptoForSecret, stream.RestoreCryptoAfterSecret

  Shape. The ad is what `ad.GetAttributes()` / `ad.Lookup` show of it: the ordered list of its own
  attributes, each a name and the text `expr.String()` renders for its expression (the classad
  library guarantees the names are distinct up to case, so `Lookup(attr)` of a listed name is that
  attribute; the model carries the value next to the name). The classad evaluator is an opaque
  parameter `ev` (an arbitrary function of the ad it is given and the attribute asked for); time
  is the parameter `Config.now`. The typed layer underneath is `CedarModel.Codec` (same functions,
  same flush policy); the stream contributes `IsEncrypted()` (string mode) and whether a frame
  flushed *now* is protected (`Stream.crypting`, see `Stream.sendFrame`), which is recorded on
  every emitted frame as `PFrame.sealed`. Errors of `WriteFrame` (counter exhaustion) are not
  modelled here: the frames the typed layer builds always fit (C01/C14).

  Names are compared the way Go does for ASCII names (`strings.ToLower`, `strings.EqualFold` on
  bytes `A`..`Z`); the property's names and prefix are ASCII. (Go additionally folds a few
  non-ASCII code points onto ASCII letters, e.g. U+212A onto `k`: it then withholds *more*.)
  Core Lean only.
-/
import CedarModel.Stream
import CedarModel.Codec
import CedarGen.Consts
import CedarGen.Private

namespace Cedar.Privacy
open Cedar CedarGen

/-- bytes of an ASCII string (reduces in the kernel, unlike `String.toUTF8`) -/
def asciiBytes (s : String) : Bytes := s.toList.map (fun c => UInt8.ofNat c.toNat)

/-! ### constants and tables (regenerated) -/

def optNoTypes : Nat := message.PutClassAdNoTypes
def optNoPrivate : Nat := message.PutClassAdNoPrivate
def optServerTime : Nat := message.PutClassAdServerTime
def optIncludePrivate : Nat := message.PutClassAdIncludePrivate

/-- `SecretMarker` -/
def marker : Bytes := asciiBytes message.SecretMarker
#guard marker == message.SecretMarker.toUTF8.toList

/-- `privateAttrsV1` of the classad dependency (stored lower case) -/
def v1Table : List Bytes := Private.privateAttrsV1.map asciiBytes
#guard v1Table == Private.privateAttrsV1.map (·.toUTF8.toList)
/-- `privateV2Prefix` -/
def v2Prefix : Bytes := asciiBytes Private.privateV2Prefix
#guard v2Prefix == Private.privateV2Prefix.toUTF8.toList
-- the model's predicates fold case; the dependency must, too (facts regenerated from its source)
#guard Private.v1FoldsCase && Private.v2FoldsCase

def myTypeName : Bytes := asciiBytes "MyType"
def targetTypeName : Bytes := asciiBytes "TargetType"
def assign : Bytes := asciiBytes " = "
def serverTimePrefix : Bytes := asciiBytes "ServerTime = "

/-! ### names -/

def lowerByte (b : UInt8) : UInt8 :=
  if 65 ≤ b.toNat ∧ b.toNat ≤ 90 then UInt8.ofNat (b.toNat + 32) else b

/-- `strings.ToLower` on an ASCII name -/
def lower (s : Bytes) : Bytes := s.map lowerByte

/-- `classad.IsPrivateAttributeV1`: lower-cased name is in the fixed set -/
def isPrivV1 (n : Bytes) : Bool := v1Table.contains (lower n)

/-- `classad.IsPrivateAttributeV2`: `len(name) >= len(prefix) && EqualFold(name[:len(prefix)], prefix)` -/
def isPrivV2 (n : Bytes) : Bool :=
  lenGe n v2Prefix.length && (lower (n.take v2Prefix.length) == lower v2Prefix)

/-- `classad.IsPrivateAttribute` -/
def isPriv (n : Bytes) : Bool := isPrivV1 n || isPrivV2 n

/-! ### ads, configuration -/

structure Attr where
  name : Bytes
  value : Bytes        -- `expr.String()`
  deriving DecidableEq, Repr, Inhabited

abbrev Ad := List Attr

structure Version where
  major : Int
  minor : Int
  patch : Int
  deriving DecidableEq, Repr, Inhabited

/-- `HTCondorVersion.BuiltSinceVersion` -/
def Version.builtSince (v : Version) (major minor patch : Int) : Bool :=
  if v.major > major then true
  else if v.major = major ∧ v.minor > minor then true
  else if v.major = major ∧ v.minor = minor ∧ v.patch ≥ patch then true
  else false

structure Config where
  options : Nat := 0
  whitelist : List Bytes := []
  encryptedAttrs : List Bytes := []
  peer : Option Version := none
  now : Int := 0                     -- `getCurrentUnixTime()`
  deriving Repr, Inhabited

def hasOpt (options bit : Nat) : Bool := options &&& bit != 0

/-- `includePrivate`: opted in, and exclusion not also asked for -/
def includePrivate (c : Config) : Bool :=
  hasOpt c.options optIncludePrivate && !hasOpt c.options optNoPrivate

def excludePrivate (c : Config) : Bool := !includePrivate c

/-- the peer is known to predate the reserved prefix -/
def peerTooOld (c : Config) : Bool :=
  match c.peer with
  | some v => !v.builtSince Private.v2CutoffMajor Private.v2CutoffMinor Private.v2CutoffPatch
  | none => false

def excludePrivateV2 (c : Config) : Bool := excludePrivate c || peerTooOld c

/-- `isAttrInList`: exact (case-sensitive) match -/
def inList (n : Bytes) (l : List Bytes) : Bool := l.contains n

/-- the privacy test shared by both filters: `true` = the attribute is dropped -/
def withheld (exP exV2 : Bool) (enc : List Bytes) (n : Bytes) : Bool :=
  if exP || exV2 then
    let privateV2 := isPrivV2 n
    let privateV1 := isPrivV1 n || inList n enc
    (exP && (privateV1 || privateV2)) || (exV2 && privateV2)
  else false

/-- `filterAttributesByPrivacy` -/
def filterByPrivacy (attrs : Ad) (exP exV2 : Bool) (enc : List Bytes) : Ad :=
  attrs.filter (fun a => !withheld exP exV2 enc a.name)

/-- `ad.Lookup(attr)` succeeds (names are normalised with ToLower) -/
def adHas (ad : Ad) (n : Bytes) : Bool := ad.any (fun a => lower a.name == lower n)

/-- `filterAttributesByWhitelist`: exact-match whitelist, existence, then the same privacy test -/
def filterByWhitelist (attrs ad : Ad) (wl : List Bytes) (exP exV2 : Bool) (enc : List Bytes) : Ad :=
  attrs.filter (fun a => inList a.name wl && adHas ad a.name && !withheld exP exV2 enc a.name)

/-- `attrsToSend` of `putClassAdToMessageWithOptions` -/
def attrsToSend (c : Config) (ad : Ad) : Ad :=
  if c.whitelist.length > 0 then
    filterByWhitelist ad ad c.whitelist (excludePrivate c) (excludePrivateV2 c) c.encryptedAttrs
  else
    filterByPrivacy ad (excludePrivate c) (excludePrivateV2 c) c.encryptedAttrs

/-! ### what is written -/

/-- the classad evaluator: `view.EvaluateAttrString(name)` (`none` = not a string) -/
abbrev Eval := Ad → Bytes → Option Bytes

/-- sent under marker + put_secret when secrets are being encrypted -/
def isSecretName (enc : List Bytes) (n : Bytes) : Bool := isPriv n || inList n enc

/-- `adWithoutPrivate`: the ad MyType/TargetType are evaluated in -/
def typeView (ad : Ad) (enc : List Bytes) : Ad :=
  if ad.any (fun a => isSecretName enc a.name) then ad.filter (fun a => !isSecretName enc a.name)
  else ad

def natDigits (n : Nat) : Bytes := (Nat.toDigits 10 n).map (fun c => UInt8.ofNat c.toNat)

/-- `%d` -/
def intDecimal (i : Int) : Bytes :=
  if i < 0 then 45 :: natDigits i.natAbs else natDigits i.toNat

/-- `fmt.Sprintf("%s = %s", attr, expr.String())` -/
def exprStr (a : Attr) : Bytes := a.name ++ assign ++ a.value

inductive Item
  | val (v : Val)            -- an ordinary typed put
  | secret (e : Bytes)       -- `putSecretExpr(e)`
  deriving DecidableEq, Repr

/-- `CryptoForSecretIsNoop` -/
def secretIsNoop (s : Stream) : Bool := s.key.isNone || s.encrypted

def attrItem (encryptSecrets : Bool) (enc : List Bytes) (a : Attr) : Item :=
  if encryptSecrets && isSecretName enc a.name then .secret (exprStr a) else .val (.str (exprStr a))

def typeItems (ev : Eval) (view : Ad) : List Item :=
  [.val (.str ((ev view myTypeName).getD [])), .val (.str ((ev view targetTypeName).getD []))]

/-- everything `putClassAdToMessageWithOptions` writes, in order. `typeAd` is the ad the type
    trailer is evaluated in (the code: `adWithoutPrivate`). -/
def itemsWith (typeAd : Ad → List Bytes → Ad) (ev : Eval) (c : Config) (s : Stream) (ad : Ad) : List Item :=
  let send := attrsToSend c ad
  let serverTime := hasOpt c.options optServerTime
  let encryptSecrets := !secretIsNoop s
  [.val (.int ((send.length : Int) + (if serverTime then 1 else 0)))]
    ++ (if serverTime then [.val (.str (serverTimePrefix ++ intDecimal c.now))] else [])
    ++ send.map (attrItem encryptSecrets c.encryptedAttrs)
    ++ (if hasOpt c.options optNoTypes then [] else typeItems ev (typeAd ad c.encryptedAttrs))

def items := itemsWith typeView

/-! ### emission over the typed layer and the stream's crypto toggle -/

/-- one frame handed to `stream.WriteFrame`: payload, end-of-message flag, and whether the
    stream was encrypting when it was written (then `sendFrame` seals it, else it is raw) -/
structure PFrame where
  payload : Bytes
  eom : Bool
  sealed : Bool
  deriving DecidableEq, Repr, Inhabited

def tagFrames (sealed : Bool) (fs : List OutFrame) : List PFrame := fs.map (fun f => ⟨f.1, f.2, sealed⟩)

/-- a typed put on a message over stream `s` -/
def putOn (s : Stream) (buf : Bytes) (v : Val) : Bytes × List PFrame :=
  let r := putVal s.encrypted buf v
  (r.1, tagFrames s.crypting r.2)

/-- `FlushFrame(isEOM)`: the buffer goes out as one frame, even when empty -/
def flushOn (s : Stream) (buf : Bytes) (eom : Bool) : PFrame := ⟨buf, eom, s.crypting⟩

/-- `putSecretExpr` -/
def putSecretExpr (s : Stream) (buf : Bytes) (e : Bytes) : Stream × Bytes × List PFrame :=
  let r1 := putOn s buf (.str marker)
  let s1 := s.prepareSecret
  let r2 := putOn s1 [] (.str e)
  (s1.restoreSecret, [], r1.2 ++ [flushOn s r1.1 false] ++ r2.2 ++ [flushOn s1 r2.1 false])

def emitItem (s : Stream) (buf : Bytes) : Item → Stream × Bytes × List PFrame
  | .val v => let r := putOn s buf v; (s, r.1, r.2)
  | .secret e => putSecretExpr s buf e

def emitItems : Stream → Bytes → List Item → Stream × Bytes × List PFrame
  | s, buf, [] => (s, buf, [])
  | s, buf, it :: rest =>
    let r1 := emitItem s buf it
    let r2 := emitItems r1.1 r1.2.1 rest
    (r2.1, r2.2.1, r1.2.2 ++ r2.2.2)

/-- `PutClassAdWithOptions` on a message whose buffer holds `buf` -/
def putAdWith (typeAd : Ad → List Bytes → Ad) (ev : Eval) (c : Config) (s : Stream) (buf : Bytes) (ad : Ad) :
    Stream × Bytes × List PFrame :=
  emitItems s buf (itemsWith typeAd ev c s ad)

def putAd := putAdWith typeView

/-- `PutClassAdWithOptions` on a fresh message, then `FinishMessage`: every frame written -/
def sendAd (ev : Eval) (c : Config) (s : Stream) (ad : Ad) : List PFrame :=
  let r := putAd ev c s [] ad
  r.2.2 ++ [flushOn r.1 r.2.1 true]

/-- the payload bytes that travel unprotected / protected -/
def clearBytes (fs : List PFrame) : Bytes := ((fs.filter (fun f => !f.sealed)).map (·.payload)).flatten
def sealedBytes (fs : List PFrame) : Bytes := ((fs.filter (fun f => f.sealed)).map (·.payload)).flatten

/-! ### receiver: `GetClassAdRaw` over frames that arrive protected or not -/

structure RDec where
  buf : Bytes := []
  eom : Bool := false
  src : List PFrame := []
  deriving Repr, Inhabited

/-- `ensureData(n)` on a stream that is (`c`) or is not decrypting: a frame is pulled only when
    the buffer is short; a cleartext frame pulled while decrypting fails authentication (an empty
    one is refused as unauthenticated); a
    protected frame pulled while not decrypting would be taken for data (garbage): `malformed`. -/
def wrongMode (c : Bool) (f : PFrame) : Err :=
  if c then (if f.payload.isEmpty then .plainOnKeyed else .authFail) else .malformed

def need (c : Bool) (n : Nat) : Bytes → Bool → List PFrame → Except Err RDec
  | buf, eom, [] =>
    if lenGe buf n then .ok ⟨buf, eom, []⟩ else if eom then .error .eom else .error .eof
  | buf, eom, f :: r =>
    if lenGe buf n then .ok ⟨buf, eom, f :: r⟩
    else if eom then .error .eom
    else if f.sealed ≠ c then .error (wrongMode c f)
    else need c n (buf ++ f.payload) f.eom r

def RDec.getInt (c : Bool) (d : RDec) : Except Err (Int × RDec) :=
  match need c 8 d.buf d.eom d.src with
  | .error e => .error e
  | .ok d1 => .ok (ofU64 (beVal (d1.buf.take 8)), { d1 with buf := d1.buf.drop 8 })

/-- split at the first NUL -/
def splitNul : Bytes → Option (Bytes × Bytes)
  | [] => none
  | b :: rest =>
    if b = 0 then some ([], rest)
    else match splitNul rest with
      | some (s, t) => some (b :: s, t)
      | none => none

/-- cleartext `GetString`: bytes up to NUL, pulling a frame whenever the buffer runs dry; the
    end of the message also ends the string. -/
def getCStrP (c : Bool) : Bytes → Bytes → Bool → List PFrame → Except Err (Bytes × RDec)
  | acc, buf, eom, [] =>
    match splitNul buf with
    | some (s, t) => .ok (acc ++ s, ⟨t, eom, []⟩)
    | none => if eom then .ok (acc ++ buf, ⟨[], true, []⟩) else .error .eof
  | acc, buf, eom, f :: r =>
    match splitNul buf with
    | some (s, t) => .ok (acc ++ s, ⟨t, eom, f :: r⟩)
    | none =>
      if eom then .ok (acc ++ buf, ⟨[], true, f :: r⟩)
      else if f.sealed ≠ c then .error (wrongMode c f)
      else getCStrP c (acc ++ buf) f.payload f.eom r

/-- length-prefixed `GetString` (the stream reports `IsEncrypted()`) -/
def getLStrP (c : Bool) (d : RDec) : Except Err (Bytes × RDec) :=
  match d.getInt c with
  | .error e => .error e
  | .ok (v, d1) =>
    let len := toI32 v
    if len < 0 then .error .panic           -- make([]byte, negative)
    else
      match need c len.toNat d1.buf d1.eom d1.src with
      | .error e => .error e
      | .ok d2 =>
        let data := d2.buf.take len.toNat
        let d3 := { d2 with buf := d2.buf.drop len.toNat }
        match data with
        | b :: _ => if b = binNullChar then .ok ([], d3) else .ok (stripTrailingNul data, d3)
        | [] => .ok ([], d3)

/-- `GetString` on a message over receiving stream `r` -/
def RDec.getString (r : Stream) (d : RDec) : Except Err (Bytes × RDec) :=
  if r.encrypted then getLStrP r.crypting d else getCStrP r.crypting [] d.buf d.eom d.src

/-- the expression loop of `GetClassAdRawBody`: a marker is followed by the real expression as a
    put_secret field, read with the crypto toggle (`getSecretString`) -/
def recvExprs (r : Stream) : Nat → RDec → Except Err (List Bytes × RDec)
  | 0, d => .ok ([], d)
  | n + 1, d =>
    match d.getString r with
    | .error e => .error e
    | .ok (e, d1) =>
      let step : Except Err (Bytes × RDec) :=
        if e = marker then d1.getString r.prepareSecret else .ok (e, d1)
      match step with
      | .error e => .error e
      | .ok (e1, d2) =>
        match recvExprs r n d2 with
        | .error e => .error e
        | .ok (es, d3) => .ok (e1 :: es, d3)

structure RawAd where
  exprs : List Bytes
  myType : Bytes
  targetType : Bytes
  deriving DecidableEq, Repr

/-- `GetClassAdRaw` up to the rendering of the result: expression strings, then the two types -/
def recvAd (r : Stream) (d : RDec) : Except Err (RawAd × RDec) :=
  match d.getInt r.crypting with
  | .error e => .error e
  | .ok (n, d1) =>
    match recvExprs r n.toNat d1 with
    | .error e => .error e
    | .ok (es, d2) =>
      match d2.getString r with
      | .error e => .error e
      | .ok (mt, d3) =>
        match d3.getString r with
        | .error e => .error e
        | .ok (tt, d4) => .ok (⟨es, mt, tt⟩, d4)

/-! ### a small concrete evaluator (string literals and attribute references), used to exhibit
    why the type trailer must be evaluated without the private attributes -/

def unquote : Bytes → Option Bytes
  | 34 :: rest => if rest.getLast? = some 34 then some rest.dropLast else none
  | _ => none

def refEval : Nat → Eval
  | 0, _, _ => none
  | fuel + 1, ad, n =>
    match ad.find? (fun a => lower a.name == lower n) with
    | none => none
    | some a =>
      match unquote a.value with
      | some s => some s
      | none => refEval fuel ad a.value

end Cedar.Privacy
