/-
  L4 ClassAdWire: a ClassAd on the wire — expression count, `name = expr` strings, the two type
  names — its senders and its three receivers, over the typed layer (L3 `Codec`).
  models: message.PutClassAdRaw, message.PutClassAdRawBytes, message.putSecretExpr,
          message.putClassAdToMessageWithOptions (the emission loop, after attribute selection — the
          selection itself is C09's `Privacy`),
          message.getClassAdFromMessage, message.getClassAdFromMessageWithMaxSize (maxSize ≤ 0, i.e. GetClassAd;
          the capped branch belongs to C13), message.GetClassAdRaw, message.GetClassAdRawBody,
          message.getSecretString, message.isTypeName,
          message.SkipClassAdRaw, message.SkipString, message.skipStringIs, message.skipSecretString,
          message.discard
  (as fixed: SkipClassAdRaw follows the in-band secret marker — fix F-C08-skip-marker, /repo 9b9a252;
   the raw and the skipping receiver check `ensureData(1)` at the top of every round — /repo e91c289;
   GetString rejects a negative length prefix — /repo 0d73d42, already in `Codec.getString`)

  The stream layer is a frame source: `Dec.src` holds the payloads `ReadFrame` hands over, in order.
  Which protection a frame had on the wire, and what a frame read under the wrong crypto state looks
  like, is L2's business (C02/C12); here a receiver state carries only what this layer consults:
  `mode` = stream.IsEncrypted() (selects the string format) and `keyed` = a session key exists (so the
  crypto-for-secret toggle switches `mode` on for one field).
  fmt's `%q` (type names in the raw text) stays outside: `getRaw` returns the lines and the two type
  names; the correspondence check renders them with strconv.Quote.
  Core Lean only.
-/
import CedarModel.Codec
import CedarModel.Literal

namespace Cedar
open CedarGen

/-- the in-band marker announcing a put_secret field -/
def marker : Bytes := [90, 75, 77]   -- "ZKM"
#guard marker == message.SecretMarker.toUTF8.toList

/-! ### Typed-layer additions used only by the skipping receiver -/

/-- `discard`: drop `n` bytes, pulling frames as needed. Fuel `n` suffices: every round drops ≥ 1 byte. -/
def discardAux : Nat → Dec → Nat → Except Err Dec
  | 0, d, _ => .ok d
  | fuel + 1, d, n =>
    if n = 0 then .ok d
    else match d.ensure 1 with
      | .error e => .error e
      | .ok d1 => discardAux fuel { d1 with buf := d1.buf.drop n } (n - min d1.buf.length n)

def Dec.discard (d : Dec) (n : Int) : Except Err Dec :=
  if n ≤ 0 then .ok d else discardAux n.toNat d n.toNat

/-- plaintext `SkipString`: `getCStr` without keeping the bytes -/
def skipCStr : Nat → Dec → Except Err Dec
  | 0, d => .ok d
  | fuel + 1, d =>
    match d.ensure 1 with
    | .error .eom => .ok d.drainToEOM
    | .error e => .error e
    | .ok d1 => match d1.buf with
      | [] => .ok d1
      | c :: rest =>
        if c = 0 then .ok { d1 with buf := rest }
        else skipCStr fuel { d1 with buf := rest }

/-- `SkipString` -/
def Dec.skipString (enc : Bool) (d : Dec) : Except Err Dec :=
  if enc then
    match d.getInt32 with
    | .error e => .error e
    | .ok (len, d1) => d1.discard len
  else skipCStr (d.total + 1) d

/-- the value `GetString` derives from the bytes of an encrypted-mode string -/
def valueOfData (data : Bytes) : Bytes :=
  match data with
  | c :: _ => if c = binNullChar then [] else stripTrailingNul data
  | [] => []

/-- plaintext `skipStringIs`: `matched`/`idx` follow the Go loop variables -/
def skipCStrIs (want : Bytes) : Nat → Dec → Bool → Nat → Except Err (Bool × Dec)
  | 0, d, matched, idx => .ok (matched && idx == want.length, d)
  | fuel + 1, d, matched, idx =>
    match d.ensure 1 with
    | .error .eom => .ok (matched && idx == want.length, d.drainToEOM)
    | .error e => .error e
    | .ok d1 => match d1.buf with
      | [] => .ok (matched && idx == want.length, d1)
      | c :: rest =>
        if c = 0 then .ok (matched && idx == want.length, { d1 with buf := rest })
        else if matched && idx < want.length && want[idx]? == some c then
          skipCStrIs want fuel { d1 with buf := rest } true (idx + 1)
        else skipCStrIs want fuel { d1 with buf := rest } false idx

/-- `skipStringIs(want)`: skip one string, report whether `GetString` would have returned `want` -/
def Dec.skipStringIs (enc : Bool) (want : Bytes) (d : Dec) : Except Err (Bool × Dec) :=
  if enc then
    match d.getInt32 with
    | .error e => .error e
    | .ok (len, d1) =>
      if len = (want.length : Int) ∨ len = (want.length : Int) + 1 then
        match d1.getBytes len with
        | .error e => .error e
        | .ok (data, d2) => .ok (valueOfData data == want, d2)
      else
        match d1.discard len with
        | .error e => .error e
        | .ok d2 => .ok (false, d2)
  else skipCStrIs want (d.total + 1) d true 0

/-! ### Receiver state -/

structure Rd where
  d : Dec
  mode : Bool := false     -- stream.IsEncrypted()
  keyed : Bool := false    -- the stream implements secretCrypto and has a key (gcm != nil)
  deriving Inhabited

/-- crypto state inside the PrepareCryptoForSecret / RestoreCryptoAfterSecret bracket -/
def Rd.secretMode (r : Rd) : Bool := r.mode || r.keyed

def Rd.getInt (r : Rd) : Except Err (Int × Rd) :=
  match r.d.getInt with
  | .error e => .error e
  | .ok (v, d) => .ok (v, { r with d := d })

def Rd.getStringIn (enc : Bool) (r : Rd) : Except Err (Bytes × Rd) :=
  match r.d.getString enc with
  | .error e => .error e
  | .ok (s, d) => .ok (s, { r with d := d })

def Rd.skipStringIn (enc : Bool) (r : Rd) : Except Err Rd :=
  match r.d.skipString enc with
  | .error e => .error e
  | .ok d => .ok { r with d := d }

def Rd.skipStringIsIn (enc : Bool) (want : Bytes) (r : Rd) : Except Err (Bool × Rd) :=
  match r.d.skipStringIs enc want with
  | .error e => .error e
  | .ok (b, d) => .ok (b, { r with d := d })

/-- `GetString` / `getSecretString` (the bracket restores the mode afterwards) -/
def Rd.getString (r : Rd) := r.getStringIn r.mode
def Rd.getSecretString (r : Rd) := r.getStringIn r.secretMode
def Rd.skipString (r : Rd) := r.skipStringIn r.mode
def Rd.skipSecretString (r : Rd) := r.skipStringIn r.secretMode

/-- one counted expression as GetClassAd and GetClassAdRawBody read it: a string, and when that
    string is the marker, the put_secret field behind it -/
def Rd.readExpr (r : Rd) : Except Err (Bytes × Rd) :=
  match r.getString with
  | .error e => .error e
  | .ok (s, r1) => if s = marker then r1.getSecretString else .ok (s, r1)

/-- one counted expression as SkipClassAdRaw skips it -/
def Rd.skipExpr (r : Rd) : Except Err Rd :=
  match r.skipStringIsIn r.mode marker with
  | .error e => .error e
  | .ok (true, r1) => r1.skipSecretString
  | .ok (false, r1) => .ok r1

/-- the check at the top of every round of the expression loop of GetClassAdRawBody and SkipClassAdRaw
    (fix e91c289, C13): `ensureData(1)` — an expression occupies at least one byte of the message, so a
    peer-supplied count cannot keep the loop going once the message is exhausted. GetClassAd has no such
    check (there an exhausted plaintext message yields "" which fails to parse). -/
def Rd.guard (r : Rd) : Except Err Rd :=
  match r.d.ensure 1 with
  | .error e => .error e
  | .ok d1 => .ok { r with d := d1 }

/-! ### GetClassAdRaw -/

def rawLoop : Nat → Rd → List Bytes → Except Err (List Bytes × Rd)
  | 0, r, acc => .ok (acc.reverse, r)
  | n + 1, r, acc =>
    match r.guard with
    | .error e => .error e
    | .ok rg =>
      match rg.readExpr with
      | .error e => .error e
      | .ok (s, r1) => rawLoop n r1 (s :: acc)

/-- `isTypeName` -/
def isTypeName (s : Bytes) : Bool :=
  s.length ≤ 128 &&
  s.all (fun c => !(c.toNat == 61 || c.toNat == 34 || c.toNat == 10 || c.toNat == 13 || c.toNat == 92))

structure RawAd where
  exprs : List Bytes     -- one line each
  myType : Bytes         -- rendered as `MyType = %q` when non-empty
  targetType : Bytes
  deriving DecidableEq, Repr

/-- `GetClassAdRawBody(numExprs)` -/
def Rd.getRawBody (r : Rd) (numExprs : Int) : Except Err (RawAd × Rd) :=
  match rawLoop numExprs.toNat r [] with
  | .error e => .error e
  | .ok (es, r1) =>
    match r1.getString with
    | .error e => .error e
    | .ok (my, r2) =>
      if !my.isEmpty && !isTypeName my then .error .malformed
      else match r2.getString with
        | .error e => .error e
        | .ok (tg, r3) =>
          if !tg.isEmpty && !isTypeName tg then .error .malformed
          else .ok (⟨es, my, tg⟩, r3)

/-- `GetClassAdRaw` -/
def Rd.getRaw (r : Rd) : Except Err (RawAd × Rd) :=
  match r.getInt with
  | .error e => .error e
  | .ok (n, r1) => r1.getRawBody n

/-! ### GetClassAd -/

abbrev Item := Bytes × Outcome

def adLoop (ferr parserOK : Bytes → Bool) : Nat → Rd → List Item → Except Err (List Item × Rd)
  | 0, r, acc => .ok (acc.reverse, r)
  | n + 1, r, acc =>
    match r.readExpr with
    | .error e => .error e
    | .ok (s, r1) =>
      match parseAndInsert ferr parserOK s with
      | .error e => .error e
      | .ok it => adLoop ferr parserOK n r1 (it :: acc)

def nMyType : Bytes := [77, 121, 84, 121, 112, 101]                            -- "MyType"
def nTargetType : Bytes := [84, 97, 114, 103, 101, 116, 84, 121, 112, 101]    -- "TargetType"

/-- the `ad.Set("MyType", myType)` / `ad.Set("TargetType", …)` applied after the expressions -/
def typeItems (my tg : Bytes) : List Item :=
  (if my.isEmpty then [] else [(nMyType, Outcome.lit (.str my))]) ++
  (if tg.isEmpty then [] else [(nTargetType, Outcome.lit (.str tg))])

/-- `GetClassAd`: the insertions performed on the fresh ad, in order (a later one replaces an
    earlier one of the same name — that is the classad library's `Insert`) -/
def Rd.getAd (ferr parserOK : Bytes → Bool) (r : Rd) : Except Err (List Item × Rd) :=
  match r.getInt with
  | .error e => .error e
  | .ok (n, r1) =>
    match adLoop ferr parserOK n.toNat r1 [] with
    | .error e => .error e
    | .ok (items, r2) =>
      match r2.getString with
      | .error e => .error e
      | .ok (my, r3) =>
        match r3.getString with
        | .error e => .error e
        | .ok (tg, r4) => .ok (items ++ typeItems my tg, r4)

/-! ### SkipClassAdRaw -/

def skipLoop : Nat → Rd → Except Err Rd
  | 0, r => .ok r
  | n + 1, r =>
    match r.guard with
    | .error e => .error e
    | .ok rg =>
      match rg.skipExpr with
      | .error e => .error e
      | .ok r1 => skipLoop n r1

def Rd.skipAd (r : Rd) : Except Err Rd :=
  match r.getInt with
  | .error e => .error e
  | .ok (n, r1) =>
    match skipLoop n.toNat r1 with
    | .error e => .error e
    | .ok r2 =>
      match r2.skipString with
      | .error e => .error e
      | .ok r3 => r3.skipString

/-! ### Senders -/

/-- `PutClassAdRaw` / `PutClassAdRawBytes`: count, expressions, MyType, TargetType — a sequence of
    typed values, so the layout and framing results of C14 apply verbatim -/
def adVals (exprs : List Bytes) (my tg : Bytes) : List Val :=
  .int exprs.length :: (exprs.map Val.str ++ [.str my, .str tg])

def putAdRaw (enc : Bool) (buf : Bytes) (exprs : List Bytes) (my tg : Bytes) : PutRes :=
  putAll enc buf (adVals exprs my tg)

/-- an expression as putClassAdToMessageWithOptions emits it -/
inductive SendItem
  | plain (s : Bytes)
  | secret (s : Bytes)     -- private attribute on a channel that can encrypt but is not encrypting
  deriving DecidableEq, Repr

/-- frames a sender flushes, tagged with the crypto state they were written under -/
abbrev TFrame := OutFrame × Bool

def tag (m : Bool) (fs : List OutFrame) : List TFrame := fs.map (fun f => (f, m))

/-- `putSecretExpr` on a keyed, non-encrypting stream: marker in the clear, flushed; the expression as
    its own frame under crypto-for-secret -/
def putSecretExpr (buf : Bytes) (s : Bytes) : Bytes × List TFrame :=
  let r1 := putString false buf marker
  let fl1 := tag false (r1.2 ++ [(r1.1, false)])
  let r2 := putString true [] s
  let fl2 := tag true (r2.2 ++ [(r2.1, false)])
  ([], fl1 ++ fl2)

/-- the emission loop of putClassAdToMessageWithOptions on a stream in state (`enc`, `keyed`) -/
def putItems (enc keyed : Bool) : Bytes → List SendItem → Bytes × List TFrame
  | buf, [] => (buf, [])
  | buf, .plain s :: rest =>
    let r := putString enc buf s
    let (b, fl) := putItems enc keyed r.1 rest
    (b, tag enc r.2 ++ fl)
  | buf, .secret s :: rest =>
    if keyed && !enc then
      let (b1, fl1) := putSecretExpr buf s
      let (b, fl) := putItems enc keyed b1 rest
      (b, fl1 ++ fl)
    else
      let r := putString enc buf s
      let (b, fl) := putItems enc keyed r.1 rest
      (b, tag enc r.2 ++ fl)

/-- `putClassAdToMessageWithOptions` after attribute selection: count, items, the two type names -/
def putAd (enc keyed : Bool) (buf : Bytes) (items : List SendItem) (my tg : Bytes) : Bytes × List TFrame :=
  let r0 := putInt buf items.length
  let (b1, fl1) := putItems enc keyed r0.1 items
  let r2 := putString enc b1 my
  let r3 := putString enc r2.1 tg
  (r3.1, tag enc r0.2 ++ fl1 ++ tag enc r2.2 ++ tag enc r3.2)

end Cedar
