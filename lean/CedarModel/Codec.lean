/-
  L3 Codec: the typed-value layer of message.Message over frames.
  models: message.ensureData, message.FlushFrame, message.GetChar, message.GetInt, message.GetInt32,
          message.GetInt64, message.GetUint32, message.GetDouble, message.GetString,
          message.GetStringWithMaxSize, message.PutChar, message.PutInt, message.PutInt32,
          message.PutInt64, message.PutUint32, message.PutDouble, message.PutString, message.PutStringBytes,
          message.PutStringBytes, message.PutBytes, message.GetBytes, message.GetRemainingBytes,
          message.FinishMessage, message.maxFramePayload
-/
import CedarModel.Basic
import CedarGen.Consts

namespace Cedar
open CedarGen

def targetFrameSize : Nat := message.TargetFrameSize
def maxFrameSize : Nat := message.MaxFrameSize
def binNullChar : UInt8 := UInt8.ofNat message.BinNullChar
def fracConst : Nat := message.FracConst
/-- GCM overhead the typed layer leaves room for on an encrypted stream (fix D1). -/
def gcmRoom : Nat := 32

def maxFramePayload (enc : Bool) : Nat := if enc then maxFrameSize - gcmRoom else maxFrameSize

/-! ### Encoder: a buffer, and the frames flushed so far (payload, isEOM) -/

abbrev OutFrame := Bytes × Bool

/-- result of a put: new buffer and the frames flushed by it (all partial) -/
abbrev PutRes := Bytes × List OutFrame

def putChar (buf : Bytes) (c : UInt8) : PutRes :=
  if buf.length ≥ targetFrameSize then ([c], [(buf, false)]) else (buf ++ [c], [])

def putInt (buf : Bytes) (v : Int) : PutRes :=
  if buf.length + 8 > targetFrameSize then (be64 (toU64 v), [(buf, false)]) else (buf ++ be64 (toU64 v), [])

/-- the `length > maxFramePayload` loop of PutBytes: structural recursion on the chunk list -/
def putChunks (buf : Bytes) : List Bytes → PutRes
  | [] => (buf, [])
  | ch :: rest =>
    let (b1, fl1) := if buf.length > 0 then (([] : Bytes), [((buf, false) : OutFrame)]) else (buf, [])
    let (b2, fl2) := putChunks (b1 ++ ch) rest
    (b2, fl1 ++ fl2)

/-- cut `data` into chunks of `n > 0` bytes (fuel = data.length suffices) -/
def chunksOf (n : Nat) : Nat → Bytes → List Bytes
  | 0, _ => []
  | fuel + 1, data => if data.isEmpty then [] else data.take n :: chunksOf n fuel (data.drop n)

def putBytes (enc : Bool) (buf : Bytes) (data : Bytes) : PutRes :=
  if data.length = 0 then (buf, [])
  else if data.length > maxFramePayload enc then
    putChunks buf (chunksOf (maxFramePayload enc) data.length data)
  else if buf.length + data.length > targetFrameSize then (data, [(buf, false)])
  else (buf ++ data, [])

def truncNul (s : Bytes) : Bytes := s.takeWhile (· ≠ 0)

def seqPut (r1 : PutRes) (f : Bytes → PutRes) : PutRes :=
  let (b2, fl2) := f r1.1
  (b2, r1.2 ++ fl2)

/-- `PutString` / `PutStringBytes` (same wire form) -/
def putString (enc : Bool) (buf : Bytes) (s : Bytes) : PutRes :=
  let t := truncNul s
  let data := t ++ [0]
  let needed := data.length + (if enc then 8 else 0)
  if needed > maxFramePayload enc then
    let r0 : PutRes := if buf.length > 0 then ([], [(buf, false)]) else (buf, [])
    let r1 := if enc then seqPut r0 (fun b => putInt b data.length) else r0
    seqPut r1 (fun b => putBytes enc b data)
  else
    let r0 : PutRes := if buf.length + needed > targetFrameSize then ([], [(buf, false)]) else (buf, [])
    let r1 := if enc then seqPut r0 (fun b => putInt b data.length) else r0
    (r1.1 ++ data, r1.2)

/-- `FinishMessage`: the buffer goes out as the end-of-message frame -/
def finishMessage (buf : Bytes) : OutFrame := (buf, true)

/-! ### Decoder -/

structure Dec where
  buf : Bytes := []
  isEOM : Bool := false
  src : List OutFrame := []       -- frames `ReadFrame` will return next; exhausted = connection EOF
  deriving Repr, Inhabited

/-- `ensureData`: pull frames until `n` bytes are buffered or end-of-message was seen. -/
def ensureAux (n : Nat) : Bytes → Bool → List OutFrame → Except Err Dec
  | buf, isEOM, [] => if lenGe buf n || isEOM then .ok ⟨buf, isEOM, []⟩ else .error .eof
  | buf, isEOM, (p, e) :: rest =>
    if lenGe buf n || isEOM then .ok ⟨buf, isEOM, (p, e) :: rest⟩
    else ensureAux n (buf ++ p) e rest

def Dec.ensure (d : Dec) (n : Nat) : Except Err Dec :=
  match ensureAux n d.buf d.isEOM d.src with
  | .error e => .error e
  | .ok d1 => if !lenGe d1.buf n then .error .eom else .ok d1

def Dec.getChar (d : Dec) : Except Err (UInt8 × Dec) :=
  match d.ensure 1 with
  | .error e => .error e
  | .ok d1 => match d1.buf with
    | c :: rest => .ok (c, { d1 with buf := rest })
    | [] => .error .eom

/-- `GetInt`: 8 bytes big endian, two's complement -/
def Dec.getInt (d : Dec) : Except Err (Int × Dec) :=
  match d.ensure 8 with
  | .error e => .error e
  | .ok d1 => .ok (ofU64 (beVal (d1.buf.take 8)), { d1 with buf := d1.buf.drop 8 })

def Dec.getInt32 (d : Dec) : Except Err (Int × Dec) :=
  match d.getInt with
  | .error e => .error e
  | .ok (v, d1) => .ok (toI32 v, d1)

def Dec.getUint32 (d : Dec) : Except Err (Nat × Dec) :=
  match d.getInt with
  | .error e => .error e
  | .ok (v, d1) => .ok (toU32 v, d1)

/-- after a failed `ensure 1` at EOM the frames up to the EOM one have been consumed -/
def Dec.drainToEOM (d : Dec) : Dec :=
  match ensureAux (d.buf.length + 1) d.buf d.isEOM d.src with
  | .ok d1 => d1
  | .error _ => d

/-- plaintext `GetString`: bytes up to NUL, or up to the end of the message.
    Structural recursion on a fuel that bounds the bytes of the message (buffer + all frames). -/
def getCStr : Nat → Dec → Bytes → Except Err (Bytes × Dec)
  | 0, d, acc => .ok (acc.reverse, d)           -- unreachable with adequate fuel
  | fuel + 1, d, acc =>                          -- `acc` holds the string so far, reversed
    match d.ensure 1 with
    | .error .eom => .ok (acc.reverse, d.drainToEOM)   -- end of message terminates the string; frames up to EOM were consumed
    | .error e => .error e
    | .ok d1 => match d1.buf with
      | [] => .ok (acc.reverse, d1)
      | c :: rest =>
        if c = 0 then .ok (acc.reverse, { d1 with buf := rest })
        else getCStr fuel { d1 with buf := rest } (c :: acc)

def Dec.total (d : Dec) : Nat := d.buf.length + (d.src.map (·.1.length)).sum

def stripTrailingNul (d : Bytes) : Bytes :=
  match d.getLast? with
  | some 0 => d.dropLast
  | _ => d

/-- `GetString` in both modes. `enc` = `stream.IsEncrypted()`.
    fix D9a: a negative length prefix is rejected (it used to reach `make([]byte, length)`). -/
def Dec.getString (enc : Bool) (d : Dec) : Except Err (Bytes × Dec) :=
  if enc then
    match d.getInt32 with
    | .error e => .error e
    | .ok (len, d1) =>
      if len < 0 then .error .malformed
      else
        match d1.ensure len.toNat with
        | .error e => .error e
        | .ok d2 =>
          let data := d2.buf.take len.toNat
          let d3 := { d2 with buf := d2.buf.drop len.toNat }
          match data with
          | c :: _ => if c = binNullChar then .ok ([], d3) else .ok (stripTrailingNul data, d3)
          | [] => .ok ([], d3)
  else
    match getCStr (d.total + 1) d [] with
    | .error e => .error e
    | .ok (s, d1) => .ok (s, d1)

def Dec.getBytes (d : Dec) (n : Int) : Except Err (Bytes × Dec) :=
  if n ≤ 0 then .ok ([], d)
  else match d.ensure n.toNat with
    | .error e => .error e
    | .ok d1 => .ok (d1.buf.take n.toNat, { d1 with buf := d1.buf.drop n.toNat })

/-- `GetRemainingBytes`: everything up to end-of-message -/
def drainAll : Bytes → Bool → List OutFrame → Except Err Dec
  | buf, isEOM, [] => if isEOM then .ok ⟨buf, true, []⟩ else .error .eof
  | buf, isEOM, (p, e) :: rest =>
    if isEOM then .ok ⟨buf, true, (p, e) :: rest⟩ else drainAll (buf ++ p) e rest

def Dec.getRemaining (d : Dec) : Except Err (Bytes × Dec) :=
  match drainAll d.buf d.isEOM d.src with
  | .error e => .error e
  | .ok d1 => .ok (d1.buf, { d1 with buf := [] })

/-! ### Reference encoding (written from protocol/CEDAR_PROTOCOL.md, not from message.go) -/

inductive Val
  | int (v : Int)            -- any integer width: 8 bytes big endian two's complement
  | char (c : UInt8)
  | str (s : Bytes)          -- NUL-free
  deriving DecidableEq, Repr

def Spec.enc (encMode : Bool) : Val → Bytes
  | .int v => be64 (toU64 v)
  | .char c => [c]
  | .str s => (if encMode then be64 (s.length + 1) else []) ++ s ++ [0]

def Spec.encAll (encMode : Bool) (vs : List Val) : Bytes := (vs.map (Spec.enc encMode)).flatten

/-- the model encoder on a value -/
def putVal (encMode : Bool) (buf : Bytes) : Val → PutRes
  | .int v => putInt buf v
  | .char c => putChar buf c
  | .str s => putString encMode buf s

def putAll (encMode : Bool) : Bytes → List Val → PutRes
  | buf, [] => (buf, [])
  | buf, v :: rest => seqPut (putVal encMode buf v) (fun b => putAll encMode b rest)

/-- all payload bytes of a message: flushed frames then the final buffer -/
def wireBytes (r : PutRes) : Bytes := (r.2.map (·.1)).flatten ++ r.1

def Dec.getVal (encMode : Bool) (d : Dec) : Val → Except Err (Val × Dec)
  | .int _ => match d.getInt with | .ok (v, d1) => .ok (.int v, d1) | .error e => .error e
  | .char _ => match d.getChar with | .ok (c, d1) => .ok (.char c, d1) | .error e => .error e
  | .str _ => match d.getString encMode with | .ok (s, d1) => .ok (.str s, d1) | .error e => .error e

/-- `PutStringBytes`: the same wire bytes as `PutString`; in the branch for strings that do not fit
    one frame it streams the bytes and then the terminator by TWO `PutBytes` calls (so the frame
    boundaries may differ from `PutString`'s — e.g. an empty partial frame when the bytes alone are
    exactly one maximal frame). The short branch is `PutString`'s. -/
def putStringBytes (enc : Bool) (buf : Bytes) (s : Bytes) : PutRes :=
  let t := truncNul s
  let needed := t.length + 1 + (if enc then 8 else 0)
  if needed > maxFramePayload enc then
    let r0 : PutRes := if buf.length > 0 then ([], [(buf, false)]) else (buf, [])
    let r1 := if enc then seqPut r0 (fun b => putInt b ((t.length + 1 : Nat) : Int)) else r0
    seqPut (seqPut r1 (fun b => putBytes enc b t)) (fun b => putBytes enc b [0])
  else putString enc buf s

/-! ## doubles: a pair of integers (message.PutDouble / GetDouble, PutFloat / GetFloat, CodeDouble)

  A finite non-zero double is `m · 2^(e − 53)` with a 53-bit mantissa `2^52 ≤ |m| < 2^53`
  (`math.Frexp` returns the fraction `m / 2^53 ∈ [½, 1)` and the exponent `e`). The wire carries
  `fracInt = int32(fraction · FracConst)` — truncation towards zero — and `e`, each as an ordinary
  integer (8 bytes). The model works on the integers `m`, `e`: `encodeDbl` is the EXACT product
  truncated; Go multiplies in float64 first, which may round the 84-bit product to 53 bits before
  the truncation — that rounding (and `Frexp` / `Ldexp` themselves) is the declared trusted part;
  the codec engine checks on every double it sends that the `fracInt` on the wire is within 1 of
  `encodeDbl` — the hypothesis `NearN` (CedarProofs/CodecDouble.lean, on magnitudes) under which
  the precision theorem `C14.double_precision` is stated. -/

def twoPow53 : Nat := 9007199254740992

/-- |fracInt| for the mantissa magnitude `n` -/
def fracOfNat (n : Nat) : Nat := n * fracConst / twoPow53

/-- `PutDouble` on the integer pair: (fracInt, exponent) -/
def encodeDbl (m e : Int) : Int × Int :=
  (if m < 0 then -((fracOfNat m.natAbs : Nat) : Int) else ((fracOfNat m.natAbs : Nat) : Int), e)

/-- the two values a double travels as -/
def dblVals (m e : Int) : List Val := [.int (encodeDbl m e).1, .int (encodeDbl m e).2]

/-- `GetDouble`: the decoded value is `fi / FracConst · 2^ex`; as an exact rational it is the
    pair (numerator, denominator) scaled by `2^ex` -/
def decodeDbl (fi ex : Int) : (Int × Nat) × Int := ((fi, fracConst), ex)

end Cedar
