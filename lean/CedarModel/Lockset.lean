/-
  L7 leaf model for C17 (shared state is safe under concurrency).

  Four parts, one per mechanism of the property:
   1. `Lockset`  — a trace semantics of threads issuing lock / unlock / read / write events over
                   mutexes with a shared (reader) mode, the Eraser discipline as an executable
                   scan of one thread's events, and the conversion of the regenerated fact table
                   (CedarGen.FactsLock.cacheMethods) into such events.
   2. `Lin`      — the session cache as a sequential object over shared entry objects (what each
                   method does inside its single critical section); concurrent histories are
                   checked for a linearization against it.
   3. `Cfg`      — the configuration cell a handshake writes its ephemeral public key into and
                   later advertises from: one cell per connection (copy) or one shared cell.
   4. `Dir`      — send-side / receive-side / shared views of `Cedar.Stream`, the send and receive
                   operation languages, the crypto-for-secret toggle as the code has it, and the
                   hand-declared field footprints of the exported `stream.Stream` methods.

  models: security.SessionCache.Store, security.SessionCache.Snapshot, security.SessionCache.Lookup,
          security.SessionCache.LookupNonExpired, security.SessionCache.LookupByCommand,
          security.SessionCache.MapCommand, security.SessionCache.Invalidate,
          security.SessionCache.InvalidateExpired, security.SessionCache.Clear,
          security.SessionCache.DebugDump, security.SessionCache.Size, security.SessionEntry.Expiration,
          security.SessionEntry.IsExpired, security.SessionEntry.RenewLease, security.NewAuthenticator,
          security.createClientSecurityAd, security.GetSessionCache, security.GetNextSessionCounter,
          client.ConnectAndAuthenticateWithConfig, server.ServeConn, ccb.writeToBroker, ccb.serve,
          stream.prepareCryptoForSecret, stream.restoreCryptoAfterSecret, stream.PutSecret, stream.GetSecret
  Mutex exclusion, `sync.Once`, `sync/atomic` and the Go memory model's DRF-SC guarantee are the
  runtime's (DESIGN §3); time is a class (never / past / future) fixed per entry object.
-/
import CedarModel.Basic
import CedarModel.Stream
import CedarGen.FactsLock

namespace Cedar.Lockset

/-! ## 1. Lock discipline -/

/-- how a thread holds a lock: not at all, shared (RLock), exclusive (Lock) -/
inductive Mode
  | none | r | w
  deriving DecidableEq, Repr, Inhabited

/-- one event of one thread: `L` lock identities, `V` shared variables -/
inductive Ev (L V : Type)
  | acq (l : L) | rel (l : L) | racq (l : L) | rrel (l : L) | rd (x : V) | wr (x : V)
  deriving DecidableEq, Repr

/-- the locks one thread holds: association list, absent = not held -/
abbrev LM (L : Type) := List (L × Mode)

def LM.get {L : Type} [DecidableEq L] : LM L → L → Mode
  | [], _ => .none
  | (k, v) :: t, l => if k = l then v else LM.get t l

def LM.del {L : Type} [DecidableEq L] : LM L → L → LM L
  | [], _ => []
  | (k, v) :: t, l => if k = l then LM.del t l else (k, v) :: LM.del t l

/-- the thread-local effect of an event on the thread's own lock set -/
def localStep {L V : Type} [DecidableEq L] (m : LM L) : Ev L V → LM L
  | .acq l => (l, .w) :: m.del l
  | .racq l => (l, .r) :: m.del l
  | .rel l => m.del l
  | .rrel l => m.del l
  | .rd _ => m
  | .wr _ => m

def localHeld {L V : Type} [DecidableEq L] (m : LM L) (evs : List (Ev L V)) : LM L := evs.foldl localStep m

/-- The discipline for one access, given the guard of each variable (`none`: the variable is
    immutable after construction — it may be read freely and never written): a read needs the
    guard in some mode, a write needs it exclusively. -/
def okAccess {L V : Type} [DecidableEq L] (g : V → Option L) (m : LM L) : Ev L V → Bool
  | .rd x => match g x with
    | none => true
    | some l => m.get l != .none
  | .wr x => match g x with
    | none => false
    | some l => m.get l == .w
  | _ => true

/-- Eraser scan of one thread's events from lock set `m` -/
def scan {L V : Type} [DecidableEq L] (g : V → Option L) : LM L → List (Ev L V) → Bool
  | _, [] => true
  | m, e :: es => okAccess g m e && scan g (localStep m e) es

/-- global lock state: thread ↦ lock ↦ mode -/
abbrev Held (L : Type) := Nat → L → Mode

def Held.init {L : Type} : Held L := fun _ _ => .none

def Held.set {L : Type} [DecidableEq L] (h : Held L) (t : Nat) (l : L) (m : Mode) : Held L :=
  fun t' l' => if t' = t ∧ l' = l then m else h t' l'

/-- one step of the interleaved execution. `sync.Mutex` / `sync.RWMutex` exclusion: an exclusive
    acquisition needs the lock free, a shared one needs no exclusive holder. -/
inductive Step {L V : Type} [DecidableEq L] : Held L → Nat × Ev L V → Held L → Prop
  | acq {h : Held L} {t : Nat} {l : L} : (∀ u, h u l = .none) → Step h (t, .acq l) (h.set t l .w)
  | racq {h : Held L} {t : Nat} {l : L} : (∀ u, h u l ≠ .w) → h t l = .none → Step h (t, .racq l) (h.set t l .r)
  | rel {h : Held L} {t : Nat} {l : L} : h t l = .w → Step h (t, .rel l) (h.set t l .none)
  | rrel {h : Held L} {t : Nat} {l : L} : h t l = .r → Step h (t, .rrel l) (h.set t l .none)
  | rd {h : Held L} {t : Nat} {x : V} : Step h (t, .rd x) h
  | wr {h : Held L} {t : Nat} {x : V} : Step h (t, .wr x) h

inductive Run {L V : Type} [DecidableEq L] : Held L → List (Nat × Ev L V) → Held L → Prop
  | nil {h : Held L} : Run h [] h
  | cons {h h' h'' : Held L} {e : Nat × Ev L V} {es : List (Nat × Ev L V)} :
      Step h e h' → Run h' es h'' → Run h (e :: es) h''

/-- the events of thread `t` in an interleaving, in order -/
def proj {L V : Type} (t : Nat) (r : List (Nat × Ev L V)) : List (Ev L V) :=
  (r.filter (fun p => p.1 == t)).map (·.2)

/-- two steps of different threads touch `x` and at least one writes it -/
def Conflict {L V : Type} (a b : Nat × Ev L V) (x : V) : Prop :=
  a.1 ≠ b.1 ∧ ((a.2 = .wr x ∧ (b.2 = .wr x ∨ b.2 = .rd x)) ∨ (a.2 = .rd x ∧ b.2 = .wr x))

/-- a data race: two conflicting accesses next to each other in an interleaving -/
def HasRace {L V : Type} (r : List (Nat × Ev L V)) : Prop :=
  ∃ pre a b post x, r = pre ++ a :: b :: post ∧ Conflict a b x

/-! ### the fact table as events -/

/-- symbolic events of the table: a lock is named by its owner's type, a variable by type and
    field. (`oneObjectPerType` below decides that within one method all events of a type speak
    about one object expression, so the object name can be dropped.) -/
abbrev SEv := Ev String (String × String)

def rawToEv (e : String × String × String × String) : Option SEv :=
  match e with
  | ("acq", ty, _, _) => some (.acq ty)
  | ("rel", ty, _, _) => some (.rel ty)
  | ("racq", ty, _, _) => some (.racq ty)
  | ("rrel", ty, _, _) => some (.rrel ty)
  | ("rd", ty, _, f) => some (.rd (ty, f))
  | ("wr", ty, _, f) => some (.wr (ty, f))
  | _ => none

def bodyOf (raw : List (String × String × String × String)) : List SEv := raw.filterMap rawToEv

/-- every raw event has a known kind -/
def kindsKnown (raw : List (String × String × String × String)) : Bool := raw.all (fun e => (rawToEv e).isSome)

/-- within one method, all events about one type name one object expression -/
def oneObjectPerType (raw : List (String × String × String × String)) : Bool :=
  raw.all (fun e => raw.all (fun e' => e.2.1 != e'.2.1 || e.2.2.1 == e'.2.2.1))

/-- **Declared policy** (from the struct comments of session_cache.go): the two maps of the cache
    are guarded by the cache's `mu`; `expiration`, `lastPeerVersion`, `inherited` of an entry by the
    entry's `mu`; every other field is immutable after construction. -/
def fieldGuard : String × String → Option String
  | ("SessionCache", "sessions") => some "SessionCache"
  | ("SessionCache", "commandMap") => some "SessionCache"
  | ("SessionEntry", "expiration") => some "SessionEntry"
  | ("SessionEntry", "lastPeerVersion") => some "SessionEntry"
  | ("SessionEntry", "inherited") => some "SessionEntry"
  | _ => none

/-- a method body obeys the discipline and leaves no lock held -/
def bodyOK (b : List SEv) : Bool := scan fieldGuard [] b && (localHeld [] b).isEmpty

/-- a `SessionCache` method is one critical section: it opens with the cache lock, closes with
    it, and does not touch the cache lock in between (⇒ atomic w.r.t. every other cache method) -/
def oneSection (b : List SEv) : Bool :=
  match b with
  | [] => false
  | first :: rest =>
    (first == .acq "SessionCache" || first == .racq "SessionCache") &&
    (match rest.getLast? with
     | some last => (last == .rel "SessionCache" || last == .rrel "SessionCache") &&
                    rest.dropLast.all (fun e => e != .acq "SessionCache" && e != .racq "SessionCache" &&
                                               e != .rel "SessionCache" && e != .rrel "SessionCache")
     | none => false)

/-- runtime identities: a lock is (owner type, object id); a variable (type, object id, field) -/
abbrev RL := String × Nat
abbrev RV := String × Nat × String

def rtGuard (x : RV) : Option RL := (fieldGuard (x.1, x.2.2)).map (fun ty => (ty, x.2.1))

/-- instantiate a symbolic event: `ρ ty` is the object of type `ty` this call works on -/
def instEv (ρ : String → Nat) : SEv → Ev RL RV
  | .acq ty => .acq (ty, ρ ty)
  | .rel ty => .rel (ty, ρ ty)
  | .racq ty => .racq (ty, ρ ty)
  | .rrel ty => .rrel (ty, ρ ty)
  | .rd (ty, f) => .rd (ty, ρ ty, f)
  | .wr (ty, f) => .wr (ty, ρ ty, f)

/-- one method call of a thread: which method of the table, on which objects -/
structure Call where
  method : String
  objs : String → Nat

def lookupBody (tbl : List (String × List (String × String × String × String))) (m : String) : List SEv :=
  match tbl.find? (fun p => p.1 == m) with
  | some p => bodyOf p.2
  | none => []

def callEvents (tbl : List (String × List (String × String × String × String))) (c : Call) : List (Ev RL RV) :=
  (lookupBody tbl c.method).map (instEv c.objs)

/-- the whole table obeys the discipline -/
def tableOK (tbl : List (String × List (String × String × String × String))) : Bool :=
  tbl.all (fun p => kindsKnown p.2 && oneObjectPerType p.2 && bodyOK (bodyOf p.2))

def touchesCache : SEv → Bool
  | .acq ty | .rel ty | .racq ty | .rrel ty => ty == "SessionCache"
  | .rd x | .wr x => x.1 == "SessionCache"

def cacheSectionsOK (tbl : List (String × List (String × String × String × String))) : Bool :=
  tbl.all (fun p => !(bodyOf p.2).any touchesCache || oneSection (bodyOf p.2))

/-- package-level variables of session_manager.go: written only inside the `sync.Once`, read only
    inside it or after `Do` returned, or touched through `sync/atomic` -/
def globalKindOK (k : String) : Bool :=
  k == "once" || k == "once-write" || k == "once-read" || k == "after-once-read" || k == "atomic" ||
  k == "atomic-load" || k == "atomic-store"

def globalsOK (g : List (String × String × String)) : Bool := g.all (fun a => globalKindOK a.2.2)

/-- no function updates a package-level variable by an atomic load followed by a separate atomic
    store (a split read-modify-write: race-free for the detector, and two goroutines can still read
    the same value): a function that atomically STORES a variable does not also atomically LOAD it -/
def noSplitRMW (g : List (String × String × String)) : Bool :=
  g.all (fun a => !(a.2.2 == "atomic-store" && g.any (fun b => b.1 == a.1 && b.2.1 == a.2.1 && b.2.2 == "atomic-load")))

/-- … and the session counter is advanced somewhere by one atomic read-modify-write -/
def counterRMW (g : List (String × String × String)) : Bool :=
  g.any (fun a => a.1 == "sessionCounter" && a.2.1 == "GetNextSessionCounter" && a.2.2 == "atomic")

/-- in `storeClientSession` the entry is filed (`Store`) before any command is mapped to it: no
    `MapCommand` precedes the first `Store`, and there is a `Store` -/
def storeBeforeMap (calls : List String) : Bool :=
  calls.contains "Store" && !((calls.takeWhile (fun m => m != "Store")).contains "MapCommand")

/-! ### the session-id mint (`GetNextSessionCounter`) under any interleaving -/
namespace Mint

inductive Step
  | add (t : Nat)          -- thread t: ONE atomic fetch-and-add (`atomic.AddUint64(&ctr, 1)`), returns the new value
  | load (t : Nat)         -- thread t: atomic load into its register
  | store (t : Nat)        -- thread t: atomic store of register + 1, returns that value
  deriving DecidableEq, Repr

structure St where
  ctr : Nat
  reg : Nat → Nat := fun _ => 0
  out : List Nat := []          -- values handed out, newest first

def step (s : St) : Step → St
  | .add _ => { s with ctr := s.ctr + 1, out := (s.ctr + 1) :: s.out }
  | .load t => { s with reg := fun u => if u = t then s.ctr else s.reg u }
  | .store t => { s with ctr := s.reg t + 1, out := (s.reg t + 1) :: s.out }

def run (s : St) (l : List Step) : St := l.foldl step s

def onlyAdds (l : List Step) : Prop := ∀ x ∈ l, ∃ t, x = .add t

end Mint

/-! ## 2. The cache as a sequential object over shared entry objects -/
namespace Lin

/-- where an entry's expiration lies relative to the (frozen) clock of a run -/
inductive ExpC
  | never | past | future
  deriving DecidableEq, Repr, Inhabited

def ExpC.name : ExpC → String
  | .never => "never" | .past => "past" | .future => "future"

/-- static description of entry object `u`: its session id (a key number) and expiry class.
    (`RenewLease` moves the time inside its class only: the workloads give a lease to `future`
    entries alone, so the class of an object never changes.) -/
structure EntInfo where
  key : Nat
  exp : ExpC
  deriving DecidableEq, Repr, Inhabited

structure CC where
  sessions : List (Nat × Nat) := []     -- session key ↦ entry object
  cmds : List (Nat × Nat) := []         -- command key ↦ session key
  deriving DecidableEq, Repr, Inhabited

def aget : List (Nat × Nat) → Nat → Option Nat
  | [], _ => none
  | (k, v) :: t, x => if k = x then some v else aget t x

def adel : List (Nat × Nat) → Nat → List (Nat × Nat)
  | [], _ => []
  | (k, v) :: t, x => if k = x then adel t x else (k, v) :: adel t x

inductive Op
  | store (u : Nat)
  | lookup (k : Nat)
  | lookupNE (k : Nat)
  | byCmd (ck : Nat)
  | mapCmd (ck k : Nat)
  | invalidate (k : Nat)
  | gc
  | clear
  | size
  | snapshot
  | dump
  deriving DecidableEq, Repr, Inhabited

inductive Res
  | unit
  | ent (o : Option Nat)
  | bool (b : Bool)
  | nat (n : Nat)
  | objs (l : List Nat)                                  -- Snapshot (order irrelevant: compared sorted)
  | dump (s : List (Nat × ExpC)) (c : List (Nat × Nat))  -- DebugDump (compared sorted)
  deriving DecidableEq, Repr, Inhabited

def expired (info : Nat → EntInfo) (u : Nat) : Bool := (info u).exp == .past

/-- what each `SessionCache` method does inside its critical section -/
def apply (info : Nat → EntInfo) (c : CC) : Op → CC × Res
  | .store u => ({ c with sessions := ((info u).key, u) :: adel c.sessions (info u).key }, .unit)
  | .lookup k =>
    match aget c.sessions k with
    | none => (c, .ent none)
    | some u => (c, .ent (if expired info u then none else some u))
  | .lookupNE k =>
    match aget c.sessions k with
    | none => (c, .ent none)
    | some u => if expired info u then ({ c with sessions := adel c.sessions k }, .ent none) else (c, .ent (some u))
  | .byCmd ck =>
    match aget c.cmds ck with
    | none => (c, .ent none)
    | some k =>
      match aget c.sessions k with
      | none => (c, .ent none)
      | some u => (c, .ent (if expired info u then none else some u))
  | .mapCmd ck k => ({ c with cmds := (ck, k) :: adel c.cmds ck }, .unit)
  | .invalidate k =>
    -- fix D24: the mappings that lead to `k` go whether or not an entry is still filed under it
    ({ sessions := adel c.sessions k, cmds := c.cmds.filter (fun p => p.2 != k) }, .bool (aget c.sessions k).isSome)
  | .gc =>
    let live := c.sessions.filter (fun p => !expired info p.2)
    ({ sessions := live, cmds := c.cmds.filter (fun p => (aget live p.2).isSome) }, .nat (c.sessions.length - live.length))
  | .clear => ({}, .unit)
  | .size => (c, .nat c.sessions.length)
  | .snapshot => (c, .objs (c.sessions.map (·.2)))
  | .dump => (c, .dump (c.sessions.map (fun p => (p.1, (info p.2).exp))) c.cmds)

def run (info : Nat → EntInfo) : CC → List Op → CC × List Res
  | c, [] => (c, [])
  | c, o :: os =>
    let (c1, r) := apply info c o
    let (c2, rs) := run info c1 os
    (c2, r :: rs)

/-- the `SessionCache` method an operation is a call of -/
def Op.method : Op → String
  | .store _ => "Store" | .lookup _ => "Lookup" | .lookupNE _ => "LookupNonExpired" | .byCmd _ => "LookupByCommand"
  | .mapCmd _ _ => "MapCommand" | .invalidate _ => "Invalidate" | .gc => "InvalidateExpired" | .clear => "Clear"
  | .size => "Size" | .snapshot => "Snapshot" | .dump => "DebugDump"

/-- the regenerated table of cache calls on the two resumption paths (`handleSessionResumption`,
    `resumeSession`): it sees both functions (not vacuous) and lists no `Store` -/
def resumeCallsOK (tbl : List (String × String)) : Bool :=
  tbl.any (fun p => p.1 == "handleSessionResumption" && p.2 == "LookupNonExpired") &&
  tbl.any (fun p => p.1 == "resumeSession") &&
  tbl.all (fun p => p.2 != "Store")

/-- the session key a result names, if it names an entry -/
def Res.names (info : Nat → EntInfo) (k : Nat) : Res → Bool
  | .ent (some u) => (info u).key == k
  | _ => false

end Lin

/-! ## 3. The configuration cell of a handshake -/
namespace Cfg

/-- `cell c`: the `ECDHPublicKey` field of configuration object `c` (whose key it holds: the
    owner's handshake number); `sent i`: the key handshake `i` put into its security ad;
    `pc i`: how many of its two steps handshake `i` has taken. -/
structure St where
  cell : Nat → Option Nat := fun _ => none
  sent : Nat → Option Nat := fun _ => none
  pc : Nat → Nat := fun _ => 0

/-- which configuration object handshake `i` hands to `NewAuthenticator`: with `shared` the one
    object all connections were given (cell 0), otherwise its own copy -/
def cellOf (shared : Bool) (i : Nat) : Nat := if shared then 0 else i + 1

/-- the next step of handshake `i`: first `NewAuthenticator` (writes this connection's ephemeral
    public key into the configuration), then `createClientSecurityAd` (reads it back). -/
def step (shared : Bool) (s : St) (i : Nat) : St :=
  if s.pc i = 0 then
    { s with cell := fun c => if c = cellOf shared i then some i else s.cell c,
             pc := fun j => if j = i then 1 else s.pc j }
  else if s.pc i = 1 then
    { s with sent := fun j => if j = i then s.cell (cellOf shared i) else s.sent j,
             pc := fun j => if j = i then 2 else s.pc j }
  else s

def runSched (shared : Bool) (s : St) (sched : List Nat) : St := sched.foldl (step shared) s

/-- ECDH/HKDF symbolic: the server derives from the advertised key, the client from its own
    private key — the two session keys agree iff the client advertised its own key. -/
def keysAgree (s : St) (i : Nat) : Bool := s.sent i == some i

def authSitesOK (sites : List (String × String × String × String)) : Bool := sites.all (fun s => s.2.2.2 == "copy")

/-- **Declared**: the only writes through a configuration the function did not allocate. Each is a
    write into the Authenticator's own configuration (`a.config` and its aliases
    `negotiation.ServerConfig` / the per-command replacement), which every library call site
    hands over as a per-connection copy (`authSitesOK`); `resumeSession` writes the `ServerConfig`
    it allocated in the same statement. -/
def declaredConfigWrites : List (String × String) :=
  [("NewAuthenticator", "ECDHPublicKey"), ("ServerHandshakeWithMessage", "ECDHPublicKey"),
   ("performClaimToBeAuthenticationServer", "TrustDomain"), ("performFSAuthenticationServer", "TrustDomain"),
   ("resumeSession", "RemoteVersion")]

def configWritesOK (ws : List (String × String × String)) : Bool :=
  ws.all (fun w => declaredConfigWrites.contains (w.1, w.2.2))

/-- The fact tables the inclusion theorems quantify over are not empty and still see the code they
    are about (a renamed function, field or type would otherwise make the inclusions hold
    vacuously): the call sites of the server, the client and the CCB, the one declared write of
    `NewAuthenticator`, the package-level cache pointer, the stream methods of both directions. -/
def tablesInhabited (sites : List (String × String × String × String)) (ws : List (String × String × String))
    (gl : List (String × String × String)) (sm : List (String × List String × List String × List String))
    (cm : List (String × List (String × String × String × String))) : Bool :=
  sites.any (fun s => s.1 == "server/server.go" && s.2.1 == "ServeConn") &&
  sites.any (fun s => s.1 == "client/client.go") &&
  sites.any (fun s => s.2.2.1 == "ServerConfigForCommand=") &&
  ws.any (fun w => w.1 == "NewAuthenticator" && w.2.2 == "ECDHPublicKey") &&
  gl.any (fun g => g.1 == "globalSessionCache") && gl.any (fun g => g.1 == "sessionCounter") &&
  sm.any (fun m => m.1 == "SendMessage" && !m.2.1.isEmpty) && sm.any (fun m => m.1 == "ReceiveFrameWithEnd" && !m.2.1.isEmpty) &&
  cm.any (fun m => m.1 == "SessionCache.Store" && !m.2.isEmpty) && cm.any (fun m => m.1 == "SessionCache.Invalidate" && !m.2.isEmpty)

end Cfg

/-! ## 4. The two directions of an established stream -/
namespace Dir
open Cedar

structure SendSide where
  encCtr : Nat
  finSendAAD : Bool
  sendBuf : Bytes
  sendEOM : Bool
  sendFed : Bytes
  sendWritten : Bool
  deriving DecidableEq, Repr, Inhabited

structure RecvSide where
  decIV : IV
  decCtr : Nat
  finRecvAAD : Bool
  recvBuf : Bytes
  bytesRead : Nat
  totalMsg : Nat
  inMessage : Bool
  recvFed : Bytes
  recvWritten : Bool
  deriving DecidableEq, Repr, Inhabited

/-- read by both directions, written by neither once the stream is established. `encIV` (Go:
    `encryptIV`) is here: the sender reads it for every nonce, the receiver reads it to refuse a
    first frame that announces this endpoint's own base IV (fix D16); only `SetSymmetricKey` writes it. -/
structure Shared where
  key : Option Nat
  encIV : IV
  encrypted : Bool
  authenticated : Bool
  finalSend : Option Digest
  finalRecv : Option Digest
  beforeSecret : Bool
  peerAddr : Bytes
  deriving DecidableEq, Repr, Inhabited

def sendSide (s : Stream) : SendSide :=
  ⟨s.encCtr, s.finSendAAD, s.sendBuf, s.sendEOM, s.dig.sendFed, s.dig.sendWritten⟩
def recvSide (s : Stream) : RecvSide :=
  ⟨s.decIV, s.decCtr, s.finRecvAAD, s.recvBuf, s.bytesRead, s.totalMsg, s.inMessage, s.dig.recvFed, s.dig.recvWritten⟩
def shared (s : Stream) : Shared :=
  ⟨s.key, s.encIV, s.encrypted, s.authenticated, s.dig.finalSend, s.dig.finalRecv, s.beforeSecret, s.peerAddr⟩

def assemble (a : SendSide) (r : RecvSide) (c : Shared) : Stream :=
  { key := c.key, encrypted := c.encrypted, authenticated := c.authenticated,
    encIV := c.encIV, decIV := r.decIV, encCtr := a.encCtr, decCtr := r.decCtr,
    finSendAAD := a.finSendAAD, finRecvAAD := r.finRecvAAD,
    dig := { sendFed := a.sendFed, recvFed := r.recvFed, sendWritten := a.sendWritten, recvWritten := r.recvWritten,
             finalSend := c.finalSend, finalRecv := c.finalRecv },
    sendBuf := a.sendBuf, sendEOM := a.sendEOM, recvBuf := r.recvBuf, bytesRead := r.bytesRead,
    totalMsg := r.totalMsg, inMessage := r.inMessage, beforeSecret := c.beforeSecret, peerAddr := c.peerAddr }

/-- **Established**: the handshake is over — both digests are frozen (`SetSymmetricKey` or
    `FinalizeDigests` ran), a keyed stream is encrypting, and no crypto-for-secret toggle is open. -/
def Established (c : Shared) : Prop :=
  c.finalSend.isSome = true ∧ c.finalRecv.isSome = true ∧ (c.key.isSome = true → c.encrypted = true) ∧ c.beforeSecret = false

/-- `prepareCryptoForSecret` as the code has it (fix C17-3): it touches the stream only when the
    toggle does something — a key exists and encryption is currently off. `beforeSecret` stands for
    the Go field `secretCryptoOn` ("this toggle switched encryption on"). -/
def prepareSecret (s : Stream) : Stream :=
  if s.key.isSome && !s.encrypted then { s with encrypted := true, beforeSecret := true } else s

/-- `restoreCryptoAfterSecret`: undoes exactly what `prepareSecret` did -/
def restoreSecret (s : Stream) : Stream :=
  if s.beforeSecret then { s with encrypted := false, beforeSecret := false } else s

/-- `prepareCryptoForSecret` / `restoreCryptoAfterSecret` before the fix (what `Cedar.Stream.prepareSecret`
    transcribes): both assign the shared fields unconditionally. -/
def prepareSecretOld (s : Stream) : Stream := s.prepareSecret
def restoreSecretOld (s : Stream) : Stream := s.restoreSecret

/-- what one goroutine may do on the sending side -/
inductive SendOp
  | frame (d : Bytes) (flag : Nat)     -- SendMessage / SendPartialMessage / WriteFrame
  | write (d : Bytes)                  -- WriteMessage
  | endMsg                             -- EndMessage
  | startMsg                           -- StartMessage
  | secret (d : Bytes)                 -- PutSecret
  deriving DecidableEq, Repr, Inhabited

/-- what another goroutine may do on the receiving side (frames come off the peer's wire) -/
inductive RecvOp
  | frameEnd                           -- ReceiveFrameWithEnd / ReadFrame
  | frame                              -- ReceiveFrame
  | complete                           -- ReceiveCompleteMessage
  | startRead                          -- StartMessageRead
  | readBytes (n : Nat)                -- ReadMessageBytes
  | endRead                            -- EndMessageRead
  | secret                             -- GetSecret
  deriving DecidableEq, Repr, Inhabited

def applySend (s : Stream) : SendOp → Except Err (Stream × List WireFrame)
  | .frame d flag => match s.sendFrame d flag with
    | .error e => .error e
    | .ok (s1, f) => .ok (s1, [f])
  | .write d => s.writeMessage d
  | .endMsg => s.endMessage
  | .startMsg => .ok (s.startMessage, [])
  | .secret d => match (prepareSecret s).sendFrame (d ++ [0]) 1 with
    | .error e => .error e
    | .ok (s1, f) => .ok (restoreSecret s1, [f])

/-- result: new state, bytes delivered, wire left -/
def applyRecv (s : Stream) (w : List WireFrame) : RecvOp → Except Err (Stream × Bytes × List WireFrame)
  | .frameEnd => match w with
    | [] => .error .eof
    | f :: w1 => match s.recvFrameWithEnd f with
      | .error e => .error e
      | .ok (s1, d, _) => .ok (s1, d, w1)
  | .frame => match w with
    | [] => .error .eof
    | f :: w1 => match s.recvFrame f with
      | .error e => .error e
      | .ok (s1, d) => .ok (s1, d, w1)
  | .complete => s.recvComplete w
  | .startRead => match s.startMessageRead w with
    | .error e => .error e
    | .ok (s1, w1) => .ok (s1, [], w1)
  | .readBytes n => match s.readMessageBytes n with
    | .error e => .error e
    | .ok (s1, d) => .ok (s1, d, w)
  | .endRead => match s.endMessageRead with
    | .error e => .error e
    | .ok s1 => .ok (s1, [], w)
  | .secret => match w with
    | [] => .error .eof
    | f :: w1 => match (prepareSecret s).recvFrame f with
      | .error e => .error e
      | .ok (s1, d) => .ok (restoreSecret s1, stripNul d, w1)

/-- what an interleaved execution shows: per direction the results in order -/
inductive Obs
  | sent (r : Except Err (List WireFrame))
  | got (r : Except Err Bytes)

/-- an interleaving of the two goroutines. A direction whose operation failed stops (errors are
    terminal for that direction); the other direction goes on. -/
structure World where
  s : Stream
  wire : List WireFrame
  sendDead : Bool := false
  recvDead : Bool := false

def stepWorld (w : World) : Sum SendOp RecvOp → World × Option Obs
  | .inl op =>
    if w.sendDead then (w, none)
    else match applySend w.s op with
      | .error e => ({ w with sendDead := true }, some (.sent (.error e)))
      | .ok (s1, fs) => ({ w with s := s1 }, some (.sent (.ok fs)))
  | .inr op =>
    if w.recvDead then (w, none)
    else match applyRecv w.s w.wire op with
      | .error e => ({ w with recvDead := true }, some (.got (.error e)))
      | .ok (s1, d, w1) => ({ w with s := s1, wire := w1 }, some (.got (.ok d)))

def runWorld : World → List (Sum SendOp RecvOp) → World × List Obs
  | w, [] => (w, [])
  | w, o :: os =>
    let (w1, ob) := stepWorld w o
    let (w2, obs) := runWorld w1 os
    (w2, match ob with | some x => x :: obs | none => obs)

def sendsOf : List (Sum SendOp RecvOp) → List (Sum SendOp RecvOp)
  | [] => []
  | .inl o :: t => .inl o :: sendsOf t
  | .inr _ :: t => sendsOf t

def recvsOf : List (Sum SendOp RecvOp) → List (Sum SendOp RecvOp)
  | [] => []
  | .inl _ :: t => recvsOf t
  | .inr o :: t => .inr o :: recvsOf t

def Obs.isSent : Obs → Bool
  | .sent _ => true
  | .got _ => false

/-! ### declared field footprints of the exported `stream.Stream` methods

  Written next to the model, from reading stream.go. `greads`: reads that happen only while a
  digest is not yet frozen; `gwrites`: writes that sit under a guard. The regenerated table (b)
  must be included in this declaration (`footprintCovers`); the declaration itself keeps the two
  directions apart (`directionsDisjoint`). -/

inductive Role
  | send       -- may run in the writing goroutine
  | recv       -- may run in the reading goroutine
  | observe    -- reads shared-constant fields only; either goroutine
  | control    -- handshake / reconfiguration: not concurrent with traffic (outside the property)
  deriving DecidableEq, Repr

structure Foot where
  role : Role
  reads : List String
  greads : List String := []
  writes : List String := []
  gwrites : List String := []

/-- fields no established-traffic operation writes -/
def sharedConst : List String := ["conn", "reader", "writer", "gcm", "encrypted", "peerAddr", "authenticated", "encryptKey", "encryptIV", "timeout"]
/-- the handshake digests: written only while `final…Digest == nil` (frozen before traffic starts) -/
def digestFields : List String := ["sendDigest", "recvDigest", "sendDigestWritten", "recvDigestWritten", "finalSendDigest", "finalRecvDigest"]
/-- the crypto-for-secret toggle: written only when a key exists and encryption is off -/
def toggleFields : List String := ["encrypted", "secretCryptoOn"]

def sendCore : Foot :=
  { role := .send,
    reads := ["conn", "writer", "gcm", "encrypted", "encryptCounter", "encryptIV", "finishedSendAAD", "frameBuf",
              "finalSendDigest", "finalRecvDigest", "sendDigest"],
    greads := ["sendDigestWritten", "recvDigest", "recvDigestWritten"],
    gwrites := ["encryptCounter", "finishedSendAAD", "frameBuf", "sendDigest", "sendDigestWritten", "finalSendDigest", "finalRecvDigest"] }

def recvCore : Foot :=
  { role := .recv,
    reads := ["conn", "reader", "gcm", "encrypted", "encryptIV", "decryptCounter", "decryptIV", "finishedRecvAAD",
              "finalSendDigest", "finalRecvDigest", "recvDigest"],
    greads := ["recvDigestWritten", "sendDigest", "sendDigestWritten"],
    gwrites := ["decryptCounter", "decryptIV", "finishedRecvAAD", "recvDigest", "recvDigestWritten", "finalSendDigest", "finalRecvDigest"] }

def withSecret (f : Foot) : Foot :=
  { f with reads := f.reads ++ ["secretCryptoOn"], gwrites := f.gwrites ++ toggleFields }

def declaredFootprints : List (String × Foot) := [
  ("SendMessage", sendCore), ("SendPartialMessage", sendCore), ("WriteFrame", sendCore), ("PutFile", sendCore),
  ("WriteMessage", { sendCore with reads := sendCore.reads ++ ["sendBuffer", "sendEOM"], writes := ["sendBuffer"], gwrites := sendCore.gwrites ++ ["sendBuffer"] }),
  ("EndMessage", { sendCore with reads := sendCore.reads ++ ["sendBuffer", "sendEOM"], writes := ["sendBuffer", "sendEOM"] }),
  ("StartMessage", { role := .send, reads := [], writes := ["sendBuffer", "sendEOM"] }),
  ("PutSecret", withSecret sendCore),
  ("ReceiveFrame", recvCore), ("ReceiveFrameWithEnd", recvCore), ("ReceiveCompleteMessage", recvCore), ("ReadFrame", recvCore),
  ("GetFile", recvCore),
  ("StartMessageRead", { recvCore with reads := recvCore.reads ++ ["inMessage", "receiveBuffer"], writes := ["bytesRead", "inMessage", "receiveBuffer", "totalMsgBytes"] }),
  ("ReadMessageBytes", { role := .recv, reads := ["bytesRead", "inMessage", "receiveBuffer"], writes := ["bytesRead"] }),
  ("EndMessageRead", { role := .recv, reads := ["bytesRead", "inMessage", "totalMsgBytes"], writes := ["bytesRead", "inMessage", "receiveBuffer", "totalMsgBytes"] }),
  ("GetSecret", withSecret recvCore),
  ("Close", { role := .observe, reads := ["conn"] }),
  ("CryptoForSecretIsNoop", { role := .observe, reads := ["encrypted", "gcm"] }),
  ("GetConnection", { role := .observe, reads := ["conn"] }),
  ("GetEncryption", { role := .observe, reads := ["encrypted"] }),
  ("GetPeerAddr", { role := .observe, reads := ["peerAddr"] }),
  ("GetTimeout", { role := .observe, reads := ["timeout"] }),
  ("IsAuthenticated", { role := .observe, reads := ["authenticated"] }),
  ("IsConnected", { role := .observe, reads := ["conn"] }),
  ("IsEncrypted", { role := .observe, reads := ["encrypted"] }),
  ("ExportCryptoState", { role := .control, reads := CedarGen.FactsLock.streamFields }),
  ("FinalizeDigests", { role := .control, reads := digestFields, gwrites := digestFields }),
  ("PrepareCryptoForSecret", { role := .control, reads := ["encrypted", "gcm"], gwrites := toggleFields }),
  ("RestoreCryptoAfterSecret", { role := .control, reads := ["secretCryptoOn"], gwrites := toggleFields }),
  ("SetAuthenticated", { role := .control, reads := [], writes := ["authenticated"] }),
  ("SetConnection", { role := .control, reads := [], writes := ["conn", "reader", "writer"], gwrites := ["peerAddr"] }),
  ("SetCryptoMode", { role := .control, reads := ["gcm"], writes := ["encrypted"], gwrites := ["encrypted"] }),
  ("SetEncrypted", { role := .control, reads := [], writes := ["encrypted"] }),
  ("SetPeerAddr", { role := .control, reads := [], writes := ["peerAddr"] }),
  ("SetSymmetricKey", { role := .control, reads := digestFields, writes := ["decryptCounter", "encryptCounter", "encryptIV", "encryptKey", "encrypted", "finishedRecvAAD", "finishedSendAAD", "gcm"], gwrites := digestFields }),
  ("SetTimeout", { role := .control, reads := ["conn"], writes := ["timeout"] })
]

def footOf (m : String) : Option Foot := (declaredFootprints.find? (fun p => p.1 == m)).map (·.2)

def subset (a b : List String) : Bool := a.all (fun x => b.contains x)

/-- table (b) ⊆ declaration: every exported method is declared, reads within reads ∪ greads,
    unconditional writes within writes, guarded writes within writes ∪ gwrites -/
def footprintCovers (tbl : List (String × List String × List String × List String)) : Bool :=
  tbl.all (fun m => match footOf m.1 with
    | none => false
    | some f => subset m.2.1 (f.reads ++ f.greads) && subset m.2.2.1 f.writes && subset m.2.2.2 (f.writes ++ f.gwrites))

def inter (a b : List String) : List String := a.filter (fun x => b.contains x)

/-- The declaration keeps the directions apart: whatever a send-role method may write and a
    recv-role method may touch (or the other way round) is a digest field or a toggle field, and it
    is written under a guard only; an observer touches shared-constant fields only, and no send /
    recv method writes one of those unconditionally; the shared-constant fields — among them
    `encryptIV`, which since fix D16 the receive path READS (reflection check) next to the send
    path — are written by no traffic method at all (the guarded toggle of `encrypted` aside). -/
def directionsDisjoint : Bool :=
  declaredFootprints.all (fun p => declaredFootprints.all (fun q =>
    match p.2.role, q.2.role with
    | .send, .recv | .recv, .send =>
      -- unconditional writes of p never meet q
      (inter p.2.writes (q.2.reads ++ q.2.greads ++ q.2.writes ++ q.2.gwrites)).isEmpty &&
      -- guarded writes of p meet q only on digest / toggle fields
      subset (inter p.2.gwrites (q.2.reads ++ q.2.greads ++ q.2.writes ++ q.2.gwrites)) (digestFields ++ toggleFields)
    | .send, .observe | .recv, .observe =>
      subset q.2.reads sharedConst && (inter p.2.writes q.2.reads).isEmpty &&
      subset (inter p.2.gwrites q.2.reads) toggleFields
    | _, _ => true)) &&
  -- the shared-constant fields (key, base IV `encryptIV`, connection, …) are read by both
  -- directions and written by neither: a traffic method writes one only as the guarded toggle
  declaredFootprints.all (fun p =>
    match p.2.role with
    | .send | .recv => subset (inter (p.2.writes ++ p.2.gwrites) sharedConst) toggleFields
    | _ => true)

end Dir

end Cedar.Lockset
