/-
  Decode: the receive side of cedar seen as a decoder of peer-chosen bytes, with cost meters
  (property C13). Built on the typed layer of `Codec.lean` (`Dec` = buffer, end-of-message flag,
  frames still to come); every function here threads a `Meter` and returns the decoder state
  ALSO on failure, so "how much was consumed / allocated before it gave up" is a value of the model.

  models: message.ensureData, message.GetChar, message.GetInt, message.GetInt32, message.GetString,
          message.GetStringWithMaxSize, message.GetBytes, message.SkipString, message.skipStringIs, message.skipSecretString, message.discard,
          message.getSecretString, message.getSecretStringWithMaxSize, message.GetClassAdRaw,
          message.GetClassAdRawBody, message.SkipClassAdRaw, message.getClassAdFromMessage,
          message.getClassAdFromMessageWithMaxSize, message.isTypeName,
          stream.ReceiveFrameWithEnd, stream.ReceiveFrame, stream.GetSecret, stream.GetFile,
          stream.ReceiveCompleteMessage, stream.readNextFrame,
          stream.StartMessageRead, stream.PrepareCryptoForSecret, stream.RestoreCryptoAfterSecret,
          security.receiveMessage, security.exchangeKey, security.getIDString, security.getToken,
          security.kerberosReadRequest, security.getRawBytes (the optional raw fields of the token exchange),
          sharedport.readPassSockHeader

  What the meters count (each is observable on the implementation or bounded by a measurement):
    frames  ReadFrame calls that delivered a frame                    (= frames taken from the wire)
    calls   string-level operations started (GetString, GetStringWithMaxSize with a positive cap,
            SkipString, skipStringIs): each asks the stream `IsEncrypted()` exactly once, which is how the
            correspondence check counts loop iterations on the real code
    alloc   bytes allocated: appends to the frame buffer, `make([]byte, n)`, growth of a result
            slice, the text builder of the raw ClassAd reader
    need    largest `needed` ever passed to ensureData (frames are pulled only while the buffer
            is shorter than that)
    held    longest value under construction (result slice / `make` size)

  Parameters (DESIGN §3): frames arrive already opened (symbolic AEAD: a frame that does not
  authenticate is a receive error of the frame layer, C02); `enc` = stream.IsEncrypted(), `key` =
  a session key is installed (gcm != nil); the verdict of the ClassAd expression parser
  (PelicanPlatform/classad) on an expression is a parameter `pfail` = index of the first expression
  it rejects. The model is of the code AFTER the C13 fixes; `Legacy` at the end keeps the five
  pre-fix behaviours the property theorems are contrasted with.
  Core Lean only.
-/
import CedarModel.Codec

namespace Cedar.Decode
open Cedar CedarGen

structure Meter where
  frames : Nat := 0
  calls : Nat := 0
  alloc : Nat := 0
  need : Nat := 0
  held : Nat := 0
  deriving Repr, Inhabited, DecidableEq

structure St where
  d : Dec := {}
  enc : Bool := false
  key : Bool := false
  m : Meter := {}
  deriving Repr, Inhabited

abbrev Res (α : Type) := Except Err α × St

def srcBytes : List OutFrame → Nat
  | [] => 0
  | (p, _) :: rest => p.length + srcBytes rest

/-- bytes of the input not yet consumed by the decoder (buffered + still on the wire) -/
def St.bytes (s : St) : Nat := s.d.buf.length + srcBytes s.d.src
/-- frames still on the wire -/
def St.nsrc (s : St) : Nat := s.d.src.length

def St.setBuf (s : St) (b : Bytes) : St := { s with d := { s.d with buf := b } }
def St.addAlloc (s : St) (n : Nat) : St := { s with m := { s.m with alloc := s.m.alloc + n } }
def St.hold (s : St) (n : Nat) : St := { s with m := { s.m with held := max s.m.held n } }
def St.call (s : St) : St := { s with m := { s.m with calls := s.m.calls + 1 } }

/-! ## ensureData -/

/-- the `for m.buffer.Len() < needed && !m.isEOM` loop; `false` = ReadFrame failed (wire exhausted) -/
def pull (n : Nat) : Bytes → Bool → List OutFrame → Meter → Bool × Dec × Meter
  | buf, eom, [], m => (lenGe buf n || eom, ⟨buf, eom, []⟩, m)
  | buf, eom, (p, e) :: rest, m =>
    if lenGe buf n || eom then (true, ⟨buf, eom, (p, e) :: rest⟩, m)
    else pull n (buf ++ p) e rest { m with frames := m.frames + 1, alloc := m.alloc + p.length }

/-- `ensureData(needed)` for `needed ≥ 0` -/
def ensure (n : Nat) (s : St) : Res Unit :=
  match pull n s.d.buf s.d.isEOM s.d.src { s.m with need := max s.m.need n } with
  | (false, d1, m1) => (.error .eof, { s with d := d1, m := m1 })
  | (true, d1, m1) =>
    if lenGe d1.buf n then (.ok (), { s with d := d1, m := m1 })
    else (.error .eom, { s with d := d1, m := m1 })

/-! ## typed values -/

def getChar (s : St) : Res UInt8 :=
  match ensure 1 s with
  | (.error e, s1) => (.error e, s1)
  | (.ok (), s1) =>
    match s1.d.buf with
    | c :: rest => (.ok c, s1.setBuf rest)
    | [] => (.error .eom, s1)

/-- `GetInt`: `make([]byte, 8)` after ensureData(8) -/
def getInt (s : St) : Res Int :=
  match ensure 8 s with
  | (.error e, s1) => (.error e, s1)
  | (.ok (), s1) => (.ok (ofU64 (beVal (s1.d.buf.take 8))), (s1.setBuf (s1.d.buf.drop 8)).addAlloc 8)

def getInt32 (s : St) : Res Int :=
  match getInt s with
  | (.error e, s1) => (.error e, s1)
  | (.ok v, s1) => (.ok (toI32 v), s1)

/-- what an encrypted-mode string read returns for its `length` raw bytes -/
def decodeEncStr (data : Bytes) : Bytes :=
  match data with
  | c :: _ => if c = binNullChar then [] else stripTrailingNul data
  | [] => []

/-- the byte loop of plaintext `GetString`; `k` = bytes appended so far -/
def cstr : Nat → St → Bytes → Nat → Res Bytes
  | 0, s, _, _ => (.error .state, s)                 -- not reached: fuel = bytes + 1
  | fuel + 1, s, acc, k =>
    match ensure 1 s with
    | (.error .eom, s1) => (.ok acc.reverse, s1)     -- end of message terminates the string
    | (.error e, s1) => (.error e, s1)
    | (.ok (), s1) =>
      match s1.d.buf with
      | [] => (.error .eom, s1)
      | c :: rest =>
        if c = 0 then (.ok acc.reverse, s1.setBuf rest)
        else cstr fuel (((s1.setBuf rest).addAlloc 1).hold (k + 1)) (c :: acc) (k + 1)

/-- `GetString` (one `IsEncrypted()` query). A negative length prefix is rejected (fix 1). -/
def getString (s0 : St) : Res Bytes :=
  let s := s0.call
  if s.enc then
    match getInt32 s with
    | (.error e, s1) => (.error e, s1)
    | (.ok len, s1) =>
      if len < 0 then (.error .malformed, s1)
      else
        match ensure len.toNat s1 with
        | (.error e, s2) => (.error e, s2)
        | (.ok (), s2) =>
          (.ok (decodeEncStr (s2.d.buf.take len.toNat)),
           ((s2.setBuf (s2.d.buf.drop len.toNat)).addAlloc len.toNat).hold len.toNat)
  else cstr (s.bytes + 1) s [] 0

/-- the byte loop of plaintext `GetStringWithMaxSize`; `k` = bytesRead -/
def cstrMax (cap : Nat) : Nat → St → Bytes → Nat → Res Bytes
  | 0, s, _, _ => (.error .sizeExceeded, s)          -- bytesRead reached maxSize without a terminator
  | fuel + 1, s, acc, k =>
    match ensure 1 s with
    | (.error .eom, s1) => if k > 0 then (.error .sizeExceeded, s1) else (.ok [], s1)
    | (.error e, s1) => (.error e, s1)
    | (.ok (), s1) =>
      match s1.d.buf with
      | [] => (.error .eom, s1)
      | c :: rest =>
        if c = 0 then (.ok acc.reverse, s1.setBuf rest)
        else cstrMax cap fuel (((s1.setBuf rest).addAlloc 1).hold (k + 1)) (c :: acc) (k + 1)

/-- `GetStringWithMaxSize(maxSize)`; `maxSize ≤ 0` returns "" without touching the stream.
    The loop runs while `bytesRead < maxSize`, i.e. at most `cap` rounds (the fuel). -/
def getStringMax (cap : Nat) (s0 : St) : Res Bytes :=
  if cap = 0 then (.ok [], s0)
  else
    let s := s0.call
    if s.enc then
      match getInt32 s with
      | (.error e, s1) => (.error e, s1)
      | (.ok len, s1) =>
        if len < 0 then (.error .malformed, s1)
        else
          let toRead := min len.toNat cap
          match ensure toRead s1 with
          | (.error e, s2) => (.error e, s2)
          | (.ok (), s2) =>
            let s3 := ((s2.setBuf (s2.d.buf.drop toRead)).addAlloc toRead).hold toRead
            if len.toNat > cap then (.error .sizeExceeded, s3)
            else (.ok (decodeEncStr (s2.d.buf.take toRead)), s3)
    else cstrMax cap cap s [] 0

/-- `GetBytes(numBytes)` -/
def getBytes (n : Int) (s : St) : Res Bytes :=
  if n ≤ 0 then (.ok [], s)
  else
    match ensure n.toNat s with
    | (.error e, s1) => (.error e, s1)
    | (.ok (), s1) =>
      (.ok (s1.d.buf.take n.toNat), ((s1.setBuf (s1.d.buf.drop n.toNat)).addAlloc n.toNat).hold n.toNat)

/-- `discard(n)`: drops what is buffered, pulls one more frame, ... (no allocation of its own).
    Every round after the first starts with an empty buffer, so `frames + 2` rounds suffice. -/
def discard : Nat → Nat → St → Res Unit
  | _, 0, s => (.ok (), s)
  | 0, _ + 1, s => (.error .state, s)                 -- not reached
  | fuel + 1, n + 1, s =>
    match ensure 1 s with
    | (.error e, s1) => (.error e, s1)
    | (.ok (), s1) =>
      let take := min s1.d.buf.length (n + 1)
      discard fuel (n + 1 - take) (s1.setBuf (s1.d.buf.drop take))

/-- the byte loop of plaintext `SkipString` -/
def skipC : Nat → St → Res Unit
  | 0, s => (.error .state, s)                        -- not reached
  | fuel + 1, s =>
    match ensure 1 s with
    | (.error .eom, s1) => (.ok (), s1)
    | (.error e, s1) => (.error e, s1)
    | (.ok (), s1) =>
      match s1.d.buf with
      | [] => (.error .eom, s1)
      | c :: rest => if c = 0 then (.ok (), s1.setBuf rest) else skipC fuel (s1.setBuf rest)

/-- `SkipString`; a negative encrypted length makes `discard` a no-op -/
def skipString (s0 : St) : Res Unit :=
  let s := s0.call
  if s.enc then
    match getInt32 s with
    | (.error e, s1) => (.error e, s1)
    | (.ok len, s1) => discard (s1.nsrc + 2) len.toNat s1
  else skipC (s.bytes + 1) s

/-! ## ClassAd receivers -/

/-- the marker is ASCII: its bytes are its characters (`String.toList` reduces in the kernel,
    `String.toUTF8` does not) -/
def secretMarker : Bytes := message.SecretMarker.toList.map (fun c => UInt8.ofNat c.toNat)

/-- `getSecretStringWithMaxSize(maxSize)` (`maxSize = 0`: uncapped `getSecretString`): crypto is
    switched on for the field when a key exists, and restored afterwards -/
def getSecret (cap : Nat) (s : St) : Res Bytes :=
  let before := s.enc
  let s1 : St := { s with enc := s.enc || s.key }
  match (if cap > 0 then getStringMax cap s1 else getString s1) with
  | (r, s2) => (r, { s2 with enc := before })

/-- `isTypeName` -/
def isTypeName (s : Bytes) : Bool :=
  decide (s.length ≤ 128) && s.all (fun b => !(b == 61 || b == 34 || b == 10 || b == 13 || b == 92))

def hexLow (n : Nat) : UInt8 := if n < 10 then UInt8.ofNat (48 + n) else UInt8.ofNat (87 + n)

/-- Go's `%q` on one byte of a string that holds no valid multi-byte UTF-8 sequence -/
def quoteByte (b : UInt8) : Bytes :=
  if b = 34 then [92, 34] else if b = 92 then [92, 92]
  else if b = 7 then [92, 97] else if b = 8 then [92, 98] else if b = 12 then [92, 102]
  else if b = 10 then [92, 110] else if b = 13 then [92, 114] else if b = 9 then [92, 116]
  else if b = 11 then [92, 118]
  else if b.toNat < 32 || b.toNat ≥ 127 then [92, 120, hexLow (b.toNat / 16), hexLow (b.toNat % 16)]
  else [b]

def goQuote (s : Bytes) : Bytes := 34 :: ((s.map quoteByte).flatten ++ [34])

def typeLine (name : Bytes) (v : Bytes) : Bytes := name ++ [32, 61, 32] ++ goQuote v ++ [10]

/-- one type field of the raw reader: `GetString`, the type-name check, the rendered line -/
def rawType (name : Bytes) (s : St) : Res Bytes :=
  match getString s with
  | (.error e, s1) => (.error e, s1)
  | (.ok t, s1) =>
    if t = [] then (.ok [], s1)
    else if !isTypeName t then (.error .malformed, s1)
    else (.ok (typeLine name t), s1)     -- (the rendered line is at most 4·128 + 16 bytes: not metered)

/-- the expression loop of `GetClassAdRawBody` (fix 4: an exhausted message ends the loop) -/
def rawLoop : Nat → St → List Bytes → Res (List Bytes)
  | 0, s, acc => (.ok acc, s)
  | n + 1, s, acc =>
    match ensure 1 s with
    | (.error e, s1) => (.error e, s1)
    | (.ok (), s1) =>
      match getString s1 with
      | (.error e, s2) => (.error e, s2)
      | (.ok e0, s2) =>
        match (if e0 = secretMarker then getSecret 0 s2 else ((.ok e0, s2) : Res Bytes)) with
        | (.error e, s3) => (.error e, s3)
        | (.ok ex, s3) => rawLoop n (s3.addAlloc (ex.length + 1)) ((ex ++ [10]) :: acc)

def nMyType : Bytes := "MyType".toUTF8.toList
def nTargetType : Bytes := "TargetType".toUTF8.toList

/-- `GetClassAdRawBody(numExprs)`: the text it returns -/
def rawBody (n : Int) (s : St) : Res Bytes :=
  match rawLoop n.toNat s [] with
  | (.error e, s1) => (.error e, s1)
  | (.ok acc, s1) =>
    match rawType nMyType s1 with
    | (.error e, s2) => (.error e, s2)
    | (.ok l1, s2) =>
      match rawType nTargetType s2 with
      | (.error e, s3) => (.error e, s3)
      | (.ok l2, s3) => (.ok (acc.reverse.flatten ++ l1 ++ l2), s3)

/-- `GetClassAdRaw` -/
def getClassAdRaw (s : St) : Res Bytes :=
  match getInt s with
  | (.error e, s1) => (.error e, s1)
  | (.ok n, s1) => rawBody n s1

/-- the byte loop of plaintext `skipStringIs`: `matched` = every byte so far equalled the wanted
    one, `rest` = the part of `want` not yet matched (Go's `want[idx:]`) -/
def skipIsC : Nat → St → Bool → Bytes → Res Bool
  | 0, s, _, _ => (.error .state, s)                  -- not reached
  | fuel + 1, s, matched, rest =>
    match ensure 1 s with
    | (.error .eom, s1) => (.ok (matched && rest.isEmpty), s1)
    | (.error e, s1) => (.error e, s1)
    | (.ok (), s1) =>
      match s1.d.buf with
      | [] => (.error .eom, s1)
      | c :: tl =>
        if c = 0 then (.ok (matched && rest.isEmpty), s1.setBuf tl)
        else
          match matched, rest with
          | true, b :: r => if c = b then skipIsC fuel (s1.setBuf tl) true r else skipIsC fuel (s1.setBuf tl) false (b :: r)
          | _, _ => skipIsC fuel (s1.setBuf tl) false rest

/-- `skipStringIs(want)` (`want` non-empty): `SkipString` that also tells whether the string it
    dropped is `want`. Only an encrypted-mode string whose announced length is `|want|` or
    `|want| + 1` is looked at (`GetBytes` of that many bytes); everything else is discarded. -/
def skipStringIs (want : Bytes) (s0 : St) : Res Bool :=
  let s := s0.call
  if s.enc then
    match getInt32 s with
    | (.error e, s1) => (.error e, s1)
    | (.ok len, s1) =>
      if len = (want.length : Int) ∨ len = (want.length : Int) + 1 then
        match getBytes len s1 with
        | (.error e, s2) => (.error e, s2)
        | (.ok data, s2) => (.ok (decide (decodeEncStr data = want)), s2)
      else
        match discard (s1.nsrc + 2) len.toNat s1 with
        | (.error e, s2) => (.error e, s2)
        | (.ok (), s2) => (.ok false, s2)
  else skipIsC (s.bytes + 1) s true want

/-- `skipSecretString`: `SkipString` under the crypto-for-secret bracket -/
def skipSecret (s : St) : Res Unit :=
  let before := s.enc
  match skipString { s with enc := s.enc || s.key } with
  | (r, s2) => (r, { s2 with enc := before })

/-- the expression loop of `SkipClassAdRaw` (fix 4; follows the secret marker) -/
def skipLoop : Nat → St → Res Unit
  | 0, s => (.ok (), s)
  | n + 1, s =>
    match ensure 1 s with
    | (.error e, s1) => (.error e, s1)
    | (.ok (), s1) =>
      match skipStringIs secretMarker s1 with
      | (.error e, s2) => (.error e, s2)
      | (.ok isMarker, s2) =>
        if isMarker then
          match skipSecret s2 with
          | (.error e, s3) => (.error e, s3)
          | (.ok (), s3) => skipLoop n s3
        else skipLoop n s2

/-- `SkipClassAdRaw` (fix 4) -/
def skipClassAdRaw (s : St) : Res Unit :=
  match getInt s with
  | (.error e, s1) => (.error e, s1)
  | (.ok n, s1) =>
    match skipLoop n.toNat s1 with
    | (.error e, s2) => (.error e, s2)
    | (.ok (), s2) =>
      match skipString s2 with
      | (.error e, s3) => (.error e, s3)
      | (.ok (), s3) => skipString s3

/-- `parseAndInsertExpression`: no '=' is rejected by the code itself; otherwise the verdict of the
    external expression parser, a parameter (`pfail` = index of the first rejected expression) -/
def exprOK (pfail : Option Nat) (i : Nat) (e : Bytes) : Bool :=
  e.contains 61 && pfail != some i

/-- one budgeted string of the capped reader (`cap = 0`: plain `GetString`, no budget).
    Returns the string and the new running total. -/
def adString (cap total : Nat) (s : St) : Res (Bytes × Nat) :=
  if cap = 0 then
    match getString s with
    | (.error e, s1) => (.error e, s1)
    | (.ok v, s1) => (.ok (v, total), s1)
  else if total ≥ cap then (.error .sizeExceeded, s)
  else
    match getStringMax (cap - total) s with
    | (.error e, s1) => (.error e, s1)
    | (.ok v, s1) => (.ok (v, total + v.length + 1), s1)

/-- the secret that follows a marker, under the same budget (fix 3) -/
def adSecret (cap total : Nat) (s : St) : Res (Bytes × Nat) :=
  if cap = 0 then
    match getSecret 0 s with
    | (.error e, s1) => (.error e, s1)
    | (.ok v, s1) => (.ok (v, total), s1)
  else if total ≥ cap then (.error .sizeExceeded, s)
  else
    match getSecret (cap - total) s with
    | (.error e, s1) => (.error e, s1)
    | (.ok v, s1) => (.ok (v, total + v.length + 1), s1)

/-- the expression loop of `getClassAdFromMessageWithMaxSize`; `i` = index of the next expression -/
def adLoop (cap : Nat) (pfail : Option Nat) : Nat → Nat → Nat → St → Res Nat
  | 0, _, total, s => (.ok total, s)
  | n + 1, i, total, s =>
    match adString cap total s with
    | (.error e, s1) => (.error e, s1)
    | (.ok (e0, t1), s1) =>
      match (if e0 = secretMarker then adSecret cap t1 s1 else ((.ok (e0, t1), s1) : Res (Bytes × Nat))) with
      | (.error e, s2) => (.error e, s2)
      | (.ok (ex, t2), s2) =>
        if exprOK pfail i ex then adLoop cap pfail n (i + 1) t2 s2
        else (.error .malformed, s2)

/-- `getClassAdFromMessageWithMaxSize(maxSize)`; `cap = 0` is `getClassAdFromMessage` -/
def getClassAd (cap : Nat) (pfail : Option Nat) (s : St) : Res Unit :=
  match getInt s with
  | (.error e, s1) => (.error e, s1)
  | (.ok n, s1) =>
    match adLoop cap pfail n.toNat 0 0 s1 with
    | (.error e, s2) => (.error e, s2)
    | (.ok t2, s2) =>
      match adString cap t2 s2 with
      | (.error e, s3) => (.error e, s3)
      | (.ok (_, t3), s3) =>
        match adString cap t3 s3 with
        | (.error e, s4) => (.error e, s4)
        | (.ok _, s4) => (.ok (), s4)

/-! ## length-prefixed fields inside the handshakes -/

/-- `CEDARTLSConnection.receiveMessage` (fix 2): status, length, data -/
def tlsRecv (s : St) : Res Bytes :=
  match getInt s with
  | (.error e, s1) => (.error e, s1)
  | (.ok _, s1) =>
    match getInt s1 with
    | (.error e, s2) => (.error e, s2)
    | (.ok len, s2) => if len < 0 then (.error .malformed, s2) else getBytes len s2

/-- `Authenticator.kerberosReadRequest`: message code, length, then `GetBytes(length)` — the
    buffer is sized by `GetBytes` only after that many bytes have arrived -/
def krbRead (s : St) : Res Bytes :=
  match getInt s with
  | (.error e, s1) => (.error e, s1)
  | (.ok _, s1) =>
    match getInt s1 with
    | (.error e, s2) => (.error e, s2)
    | (.ok len, s2) => if len < 0 then (.error .malformed, s2) else getBytes len s2

/-- one optional raw field of the token exchange's error-state branches (`fieldLen`, then
    `getRawBytes(fieldLen)` when positive) -/
def rawField (s : St) : Res Unit :=
  match getInt s with
  | (.error e, s1) => (.error e, s1)
  | (.ok len, s1) =>
    if len > 0 then
      match getBytes len s1 with
      | (.error e, s2) => (.error e, s2)
      | (.ok _, s2) => (.ok (), s2)
    else (.ok (), s1)

/-- four integers read and ignored -/
def skipInts : Nat → St → Res Unit
  | 0, s => (.ok (), s)
  | n + 1, s =>
    match getInt s with
    | (.error e, s1) => (.error e, s1)
    | (.ok _, s1) => skipInts n s1

/-- `Authenticator.exchangeKey`, client side (fix 2) -/
def exchangeKey (s : St) : Res Unit :=
  match getInt s with
  | (.error e, s1) => (.error e, s1)
  | (.ok hasKey, s1) =>
    if hasKey = 0 then (.ok (), s1)
    else
      match skipInts 3 s1 with
      | (.error e, s2) => (.error e, s2)
      | (.ok (), s2) =>
        match getInt s2 with
        | (.error e, s3) => (.error e, s3)
        | (.ok inputLen, s3) =>
          if inputLen < 0 then (.error .malformed, s3)
          else
            match getBytes inputLen s3 with
            | (.error e, s4) => (.error e, s4)
            | (.ok _, s4) => (.ok (), s4)

def maxNameLen : Nat := security.AUTH_PW_MAX_NAME_LEN
def maxTokenLen : Nat := security.AUTH_PW_MAX_TOKEN_LEN

/-- `getIDString` -/
def getIDString (s : St) : Res Bytes :=
  match getInt s with
  | (.error e, s1) => (.error e, s1)
  | (.ok expected, s1) =>
    if expected > (maxNameLen : Int) then (.error .sizeExceeded, s1)
    else
      match getStringMax maxNameLen s1 with
      | (.error e, s2) => (.error e, s2)
      | (.ok v, s2) => if (v.length : Int) = expected then (.ok v, s2) else (.error .malformed, s2)

/-- `getToken` -/
def getToken (s : St) : Res Bytes := getStringMax maxTokenLen s

/-! ## the frame layer on raw bytes (no key: the handshake phase, and every shared-port hand-off) -/

def maxMessageSize : Nat := stream.MaxMessageSize
def headerSize : Nat := stream.NormalHeaderSize

structure WMeter where
  frames : Nat := 0      -- headers parsed
  alloc : Nat := 0       -- `make([]byte, messageLength)` plus appends to the message under assembly
  depth : Nat := 0       -- stack frames of the reader in use at the deepest point
  deriving Repr, Inhabited, DecidableEq

/-- `ReceiveFrameWithEnd` on a stream that does not decrypt: (end flag, payload, rest of the wire).
    `encOn` = a key is installed and encryption is on (then a zero-length frame is refused).
    The payload buffer is allocated from the header alone, before its bytes arrive. -/
def recvFrame (encOn : Bool) (w : Bytes) (m : WMeter) : Except Err (Nat × Bytes × Bytes) × WMeter :=
  if !lenGe w headerSize then (.error .eof, m)
  else
    let flag := (w.take 1).headD 0
    let len := beVal ((w.drop 1).take 4)
    let m1 := { m with frames := m.frames + 1 }
    if len > maxMessageSize then (.error .tooLarge, m1)
    else if flag.toNat > 10 then (.error .badFlag, m1)
    else if len = 0 then
      if encOn then (.error .plainOnKeyed, m1) else (.ok (flag.toNat, [], w.drop headerSize), m1)
    else
      let m2 := { m1 with alloc := m1.alloc + len }
      let body := w.drop headerSize
      if !lenGe body len then (.error .eof, m2)
      else (.ok (flag.toNat, body.take len, body.drop len), m2)

/-- `ReceiveCompleteMessage`: a loop; every frame costs at least its 5 header bytes, which is the fuel -/
def recvComplete (encOn : Bool) : Nat → Bytes → Bytes → WMeter → Except Err (Bytes × Bytes) × WMeter
  | 0, _, _, m => (.error .state, m)                  -- not reached: fuel = |w| / 5 + 1
  | fuel + 1, w, acc, m =>
    match recvFrame encOn w m with
    | (.error e, m1) => (.error e, m1)
    | (.ok (flag, p, rest), m1) =>
      let m2 := { m1 with alloc := m1.alloc + p.length }
      if flag = 1 then (.ok (acc ++ p, rest), m2)
      else if flag = 0 then recvComplete encOn fuel rest (acc ++ p) m2
      else (.error .badFlag, m2)

/-- `StartMessageRead` → `readNextFrame` (fix 5: a loop, constant stack): stops at the first frame
    whose end flag is not 0 -/
def readMessage (encOn : Bool) : Nat → Bytes → Bytes → WMeter → Except Err (Bytes × Bytes) × WMeter
  | 0, _, _, m => (.error .state, m)
  | fuel + 1, w, acc, m =>
    match recvFrame encOn w m with
    | (.error e, m1) => (.error e, m1)
    | (.ok (flag, p, rest), m1) =>
      let m2 := { m1 with alloc := m1.alloc + p.length, depth := max m1.depth 1 }
      if flag = 0 then readMessage encOn fuel rest (acc ++ p) m2
      else (.ok (acc ++ p, rest), m2)

def wireFuel (w : Bytes) : Nat := w.length / headerSize + 1

/-- the frames a wire holds, as the typed layer sees them (`ReadFrame`: EOM = end flag ≠ 0);
    parsing stops at the first frame error -/
def framesOf (encOn : Bool) : Nat → Bytes → List OutFrame
  | 0, _ => []
  | fuel + 1, w =>
    match recvFrame encOn w {} with
    | (.error _, _) => []
    | (.ok (flag, p, rest), _) => (p, flag != 0) :: framesOf encOn fuel rest

/-! ## the frame reader WITHOUT end flag and its two callers (stream.ReceiveFrame, GetSecret, GetFile) -/

/-- `ReceiveFrame`: the same header checks in the same order as `ReceiveFrameWithEnd` (length against
    `MaxMessageSize` BEFORE the payload buffer is sized, end flag ≤ 10, empty frame refused on an
    encrypting stream); the end flag is dropped. Result: (payload, rest of the wire). -/
def recvFrameNE (encOn : Bool) (w : Bytes) (m : WMeter) : Except Err (Bytes × Bytes) × WMeter :=
  if !lenGe w headerSize then (.error .eof, m)
  else
    let flag := (w.take 1).headD 0
    let len := beVal ((w.drop 1).take 4)
    let m1 := { m with frames := m.frames + 1 }
    if len > maxMessageSize then (.error .tooLarge, m1)
    else if flag.toNat > 10 then (.error .badFlag, m1)
    else if len = 0 then
      if encOn then (.error .plainOnKeyed, m1) else (.ok ([], w.drop headerSize), m1)
    else
      let m2 := { m1 with alloc := m1.alloc + len }
      let body := w.drop headerSize
      if !lenGe body len then (.error .eof, m2)
      else (.ok (body.take len, body.drop len), m2)

/-- `Stream.GetSecret`: crypto is switched on for the frame when a key exists (`key`), one
    `ReceiveFrame`, one trailing NUL removed -/
def getSecretW (key encOn : Bool) (w : Bytes) (m : WMeter) : Except Err (Bytes × Bytes) × WMeter :=
  match recvFrameNE (encOn || key) w m with
  | (.error e, m1) => (.error e, m1)
  | (.ok (p, rest), m1) => (.ok (stripTrailingNul p, rest), m1)

/-- the chunk loop of `GetFile` (`for totalReceived < fileSize`): every round takes one frame, i.e. at
    least 5 wire bytes — the fuel. Result: (bytes written to the file, rest of the wire). -/
def fileChunks (encOn : Bool) (size : Int) : Nat → Nat → Bytes → WMeter → Except Err (Nat × Bytes) × WMeter
  | 0, _, _, m => (.error .state, m)                  -- not reached: fuel = |w| / 5 + 1
  | fuel + 1, total, w, m =>
    if (total : Int) < size then
      match recvFrameNE encOn w m with
      | (.error e, m1) => (.error e, m1)
      | (.ok (p, rest), m1) => fileChunks encOn size fuel (total + p.length) rest m1
    else (.ok (total, w), m)

def eofMarker : Nat := 666

/-- `Stream.GetFile`: an 8-byte size frame (a signed 64-bit integer chosen by the peer), chunk
    frames until that many bytes were written, a 4-byte frame holding 666. The file itself
    (`os.Create`, `Write`) is an effect outside the model; what is written is the chunks' bytes. -/
def getFile (encOn : Bool) (w : Bytes) (m : WMeter) : Except Err (Nat × Bytes) × WMeter :=
  match recvFrameNE encOn w m with
  | (.error e, m1) => (.error e, m1)
  | (.ok (p, rest), m1) =>
    if p.length ≠ 8 then (.error .malformed, m1)
    else
      match fileChunks encOn (ofU64 (beVal p)) (wireFuel rest) 0 rest m1 with
      | (.error e, m2) => (.error e, m2)
      | (.ok (total, rest2), m2) =>
        match recvFrameNE encOn rest2 m2 with
        | (.error e, m3) => (.error e, m3)
        | (.ok (q, rest3), m3) =>
          if q.length ≠ 4 then (.error .malformed, m3)
          else if beVal q ≠ eofMarker then (.error .malformed, m3)
          else (.ok (total, rest3), m3)

/-! ## shared-port hand-off header -/

def passSockCmd : Int := commands.SHARED_PORT_PASS_SOCK
/-- constants of client/sharedport/endpoint_protocol.go (`cedarHeaderSize`, `cedarIntPayloadLen`,
    `maxHeaderPayload`); not regenerated, the correspondence check probes both sides of each -/
def spHeader : Nat := 5
def spIntLen : Nat := 8
def spMaxPayload : Nat := 64

/-- `readPassSockHeader`: result and the bytes it allocated -/
def readPassSock (w : Bytes) : Except Err Unit × Nat :=
  if !lenGe w spHeader then (.error .eof, 0)
  else
    let len := beVal ((w.drop 1).take 4)
    if len = 0 || len > spMaxPayload then (.error .malformed, 0)
    else
      let body := w.drop spHeader
      if !lenGe body len then (.error .eof, len)
      else if len ≠ spIntLen then (.error .malformed, len)
      else if ofU64 (beVal (body.take len)) ≠ passSockCmd then (.error .malformed, len)
      else (.ok (), len)

/-! ## Legacy: the behaviours before the C13 fixes (kept to state what the fixes removed) -/
namespace Legacy

/-- `ensureData(needed)` as Go evaluates it for a NEGATIVE `needed`: the loop condition
    `buffer.Len() < needed` is false, nothing is pulled, "enough data" -/
def getStringEnc (s0 : St) : Res Bytes :=
  let s := s0.call
  match getInt32 s with
  | (.error e, s1) => (.error e, s1)
  | (.ok len, s1) =>
    if len < 0 then (.error .panic, s1)               -- make([]byte, length): makeslice: len out of range
    else
      match ensure len.toNat s1 with
      | (.error e, s2) => (.error e, s2)
      | (.ok (), s2) =>
        (.ok (decodeEncStr (s2.d.buf.take len.toNat)),
         ((s2.setBuf (s2.d.buf.drop len.toNat)).addAlloc len.toNat).hold len.toNat)

/-- `receiveMessage` before fix 2: `make([]byte, length)` from the peer's integer, then one
    GetChar per byte -/
def tlsRecv (s : St) : Res Bytes :=
  match getInt s with
  | (.error e, s1) => (.error e, s1)
  | (.ok _, s1) =>
    match getInt s1 with
    | (.error e, s2) => (.error e, s2)
    | (.ok len, s2) =>
      if len < 0 then (.error .panic, s2)
      else
        -- the buffer is sized before a single data byte is read
        let s3 := (s2.addAlloc len.toNat).hold len.toNat
        match ensure len.toNat s3 with
        | (.error e, s4) => (.error e, s4)
        | (.ok (), s4) => (.ok (s4.d.buf.take len.toNat), s4.setBuf (s4.d.buf.drop len.toNat))

/-- the expression loop of `GetClassAdRawBody` before fix 4 (no end-of-message check) -/
def rawLoop : Nat → St → List Bytes → Res (List Bytes)
  | 0, s, acc => (.ok acc, s)
  | n + 1, s, acc =>
    match getString s with
    | (.error e, s2) => (.error e, s2)
    | (.ok e0, s2) =>
      match (if e0 = secretMarker then getSecret 0 s2 else ((.ok e0, s2) : Res Bytes)) with
      | (.error e, s3) => (.error e, s3)
      | (.ok ex, s3) => rawLoop n (s3.addAlloc (ex.length + 1)) ((ex ++ [10]) :: acc)

/-- the secret after a marker before fix 3: read with no budget -/
def adSecret (_cap total : Nat) (s : St) : Res (Bytes × Nat) :=
  match getSecret 0 s with
  | (.error e, s1) => (.error e, s1)
  | (.ok v, s1) => (.ok (v, total + v.length + 1), s1)

/-- `readNextFrame` before fix 5: one stack frame per partial frame -/
def readMessage (encOn : Bool) : Nat → Bytes → Bytes → Nat → WMeter → Except Err (Bytes × Bytes) × WMeter
  | 0, _, _, _, m => (.error .state, m)
  | fuel + 1, w, acc, depth, m =>
    match recvFrame encOn w m with
    | (.error e, m1) => (.error e, m1)
    | (.ok (flag, p, rest), m1) =>
      let m2 := { m1 with alloc := m1.alloc + p.length, depth := max m1.depth (depth + 1) }
      if flag = 0 then readMessage encOn fuel rest (acc ++ p) (depth + 1) m2
      else (.ok (acc ++ p, rest), m2)

end Legacy

end Cedar.Decode
