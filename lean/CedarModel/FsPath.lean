/-
  FsPath: the decision logic of filesystem (FS / FS_REMOTE) authentication.
  models: security.validateFSAuthPath, security.fsAddrLeaf, security.verifyFSPathEndpoint,
          security.fsAuthLocalLeafRE, security.fsAuthRemoteLeafRE, security.fsSuffixRE (as explicit
          recognisers; the regex sources they were written for are `localRESrc` … below and are compared
          with the live `regexp.String()` on every correspondence run),
          security.performFSAuthenticationClient, security.performFSAuthenticationServer (verification part),
          path/filepath.{IsAbs,Clean,Dir,Base} (unix), net.ParseIP (netip.ParseAddr + As16), strings.Split /
          strings.CutPrefix on one-byte separators.
  Parameters (not modelled, free): os.OpenRoot / Root.Mkdir / Root.Remove outcomes, os.Lstat result,
          user.LookupId, the transport (send / receive outcomes), net.SplitHostPort(peerAddr.String()).
  Strings are byte lists (Go strings are bytes; every class used below is ASCII-only, and Go's regexp
  decodes a byte ≥ 0x80 to a rune outside every class, so byte-level recognisers are exact).
  Core Lean only.
-/
import CedarModel.Basic
import CedarGen.Consts

namespace Cedar.FsPath
open CedarGen

/-! ### constants -/

/-- bytes of an ASCII string (reduces in the kernel, unlike `String.toUTF8`) -/
def asciiBytes (s : String) : Bytes := s.toList.map (fun c => UInt8.ofNat c.toNat)

abbrev slash : UInt8 := 47   -- '/'
abbrev us : UInt8 := 95      -- '_'
def dot : Bytes := [46]
def dotdot : Bytes := [46, 46]

/-- `fsAuthBaseDir` -/
def baseDir : Bytes := asciiBytes security.fsAuthBaseDir
-- build-time tie: the ASCII reading used by the proofs is the constant's real UTF-8 encoding
#guard baseDir == security.fsAuthBaseDir.toUTF8.toList
/-- `MaxDirPathSize` -/
def maxDirPathSize : Nat := security.MaxDirPathSize
def pfxLocal : Bytes := asciiBytes "FS_"
def pfxRemote : Bytes := asciiBytes "FS_REMOTE_"
def remoteTag : Bytes := asciiBytes "REMOTE_"

/-- the regex sources the recognisers below transcribe (compared with the live ones by the engine) -/
def localRESrc : String := "^FS_[A-Za-z0-9]{1,16}$"
def remoteRESrc : String := "^FS_REMOTE_[A-Za-z0-9._\\-]+_[0-9]+_[A-Za-z0-9]{1,16}$"
def suffixRESrc : String := "^[A-Za-z0-9]{1,16}$"

/-! ### strings.Split / CutPrefix -/

/-- `strings.Split(s, sep)` for a one-byte separator: never empty; `Split("", sep) = [""]` -/
def splitB (sep : UInt8) : Bytes → List Bytes
  | [] => [[]]
  | c :: cs =>
    if c = sep then [] :: splitB sep cs
    else match splitB sep cs with
      | [] => [[c]]
      | h :: t => (c :: h) :: t

/-- `strings.Join(xs, sep)` -/
def joinB (sep : UInt8) : List Bytes → Bytes
  | [] => []
  | [a] => a
  | a :: b :: t => a ++ sep :: joinB sep (b :: t)

/-- `strings.CutPrefix(s, pfx)` -/
def stripPrefix : Bytes → Bytes → Option Bytes
  | [], s => some s
  | _ :: _, [] => none
  | a :: as, b :: bs => if a = b then stripPrefix as bs else none

/-! ### path/filepath (unix) -/

/-- `filepath.IsAbs` -/
def isAbs (p : Bytes) : Bool := p.head? = some slash

/-- one component of `Clean`'s scan; `st` is the output so far as a component stack, LAST component first -/
def cleanStep (rooted : Bool) (st : List Bytes) (c : Bytes) : List Bytes :=
  if c = [] ∨ c = dot then st
  else if c = dotdot then
    match st with
    | [] => if rooted then [] else [dotdot]
    | top :: rest => if rooted = false ∧ top = dotdot then dotdot :: st else rest
  else c :: st

def render (rooted : Bool) (st : List Bytes) : Bytes :=
  if rooted then slash :: joinB slash st.reverse
  else if st = [] then dot else joinB slash st.reverse

/-- `filepath.Clean` -/
def clean (p : Bytes) : Bytes :=
  if p = [] then dot
  else render (isAbs p) ((splitB slash p).foldl (cleanStep (isAbs p)) [])

/-- the part after the last slash (all of `p` when there is none) -/
def lastComp (p : Bytes) : Bytes := (p.reverse.takeWhile (· ≠ slash)).reverse
/-- `p` up to and including its last slash (empty when there is none) -/
def dirPart (p : Bytes) : Bytes := (p.reverse.dropWhile (· ≠ slash)).reverse

/-- `filepath.Dir` -/
def dir (p : Bytes) : Bytes := clean (dirPart p)

/-- `filepath.Base` -/
def base (p : Bytes) : Bytes :=
  if p = [] then dot
  else
    let q := (p.reverse.dropWhile (· = slash)).reverse
    if lastComp q = [] then [slash] else lastComp q

/-! ### character classes -/

def isDigit (c : UInt8) : Bool := 48 ≤ c && c ≤ 57
def isAlnum (c : UInt8) : Bool := isDigit c || (65 ≤ c && c ≤ 90) || (97 ≤ c && c ≤ 122)
/-- `[A-Za-z0-9._\-]` -/
def isHostCh (c : UInt8) : Bool := isAlnum c || c = 46 || c = 95 || c = 45
def isHex (c : UInt8) : Bool := isDigit c || (97 ≤ c && c ≤ 102) || (65 ≤ c && c ≤ 70)
def hexVal8 (c : UInt8) : Nat :=
  if c ≤ 57 then c.toNat - 48 else if 97 ≤ c then c.toNat - 87 else c.toNat - 55

def decVal (s : Bytes) : Nat := s.foldl (fun a c => a * 10 + (c.toNat - 48)) 0

/-! ### net.ParseIP  (netip.ParseAddr, zone rejected, As16) -/

/-- one dotted-quad field: digits only, at least one, no leading zero, ≤ 255 -/
def v4Field (f : Bytes) : Option UInt8 :=
  if f = [] ∨ f.all isDigit = false then none
  else if f.length > 1 ∧ f.head? = some 48 then none
  else if f.length > 3 then none
  else if decVal f > 255 then none
  else some (UInt8.ofNat (decVal f))

/-- `netip.parseIPv4Fields`: exactly four fields separated by single dots -/
def parseV4 (s : Bytes) : Option Bytes :=
  match splitB 46 s with
  | [a, b, c, d] =>
    match v4Field a, v4Field b, v4Field c, v4Field d with
    | some a, some b, some c, some d => some [a, b, c, d]
    | _, _, _, _ => none
  | _ => none

/-- the group loop of `netip.parseIPv6`; returns (unparsed rest, bytes so far, ellipsis position) -/
def v6Loop : Nat → Bytes → Bytes → Option Nat → Option (Bytes × Bytes × Option Nat)
  | 0, s, ip, ell => some (s, ip, ell)
  | fuel + 1, s, ip, ell =>
    if ip.length ≥ 16 then some (s, ip, ell)
    else
      let h := s.takeWhile isHex
      let rest := s.dropWhile isHex
      if h.length > 4 ∨ h.length = 0 then none
      else
        let acc := h.foldl (fun a c => a * 16 + hexVal8 c) 0
        if rest.head? = some 46 then
          if ell.isNone ∧ ip.length ≠ 12 then none
          else if ip.length + 4 > 16 then none
          else match parseV4 s with
            | none => none
            | some q => some ([], ip ++ q, ell)
        else
          let ip' := ip ++ [UInt8.ofNat (acc / 256), UInt8.ofNat (acc % 256)]
          match rest with
          | [] => some ([], ip', ell)
          | c :: r1 =>
            if c ≠ 58 then none
            else match r1 with
              | [] => none
              | c2 :: r2 =>
                if c2 = 58 then
                  if ell.isSome then none
                  else if r2 = [] then some ([], ip', some ip'.length)
                  else v6Loop fuel r2 ip' (some ip'.length)
                else v6Loop fuel r1 ip' ell

def v6Finish (r : Bytes × Bytes × Option Nat) : Option Bytes :=
  let (rest, ip, ell) := r
  if rest ≠ [] then none
  else if ip.length < 16 then
    match ell with
    | none => none
    | some e => some (ip.take e ++ List.replicate (16 - ip.length) 0 ++ ip.drop e)
  else if ell.isSome then none
  else some ip

/-- `netip.parseIPv6` without zone -/
def parseV6 (s : Bytes) : Option Bytes :=
  match s with
  | 58 :: 58 :: r =>
    if r = [] then some (List.replicate 16 0)
    else (v6Loop 9 r [] (some 0)).bind v6Finish
  | _ => (v6Loop 9 s [] none).bind v6Finish

def v4InV6Prefix : Bytes := [0, 0, 0, 0, 0, 0, 0, 0, 0, 0, 255, 255]

/-- `net.ParseIP(s)`: 16-byte form, `none` for nil -/
def parseIP (s : Bytes) : Option Bytes :=
  match s.find? (fun c => c = 46 || c = 58 || c = 37) with
  | some 46 => (parseV4 s).map (v4InV6Prefix ++ ·)
  | some 58 => if s.contains 37 then none else parseV6 s
  | _ => none

/-! ### leaf shapes -/

/-- `^[A-Za-z0-9]{1,16}$` -/
def suffixOk (s : Bytes) : Bool := decide (1 ≤ s.length) && decide (s.length ≤ 16) && s.all isAlnum

/-- `fsAuthLocalLeafRE.MatchString` -/
def matchLocalRE (leaf : Bytes) : Bool :=
  match stripPrefix pfxLocal leaf with
  | some s => suffixOk s
  | none => false

/-- `fsAuthRemoteLeafRE.MatchString`: the last two `_`-separated fields are `<pid>` and `<rand>`
    (neither class contains `_`), the rest, re-joined, is the host -/
def matchRemoteRE (leaf : Bytes) : Bool :=
  match stripPrefix pfxRemote leaf with
  | none => false
  | some rest =>
    match (splitB us rest).reverse with
    | rnd :: pid :: h :: hs =>
      suffixOk rnd && decide (pid ≠ []) && pid.all isDigit &&
        decide (joinB us (h :: hs).reverse ≠ []) && (joinB us (h :: hs).reverse).all isHostCh
    | _ => false

/-- `fsAddrLeaf`: the embedded (ip, port) of an address-qualified leaf -/
def fsAddrLeaf (leaf : Bytes) (remote : Bool) : Option (Bytes × Bytes) :=
  match stripPrefix (if remote then pfxRemote else pfxLocal) leaf with
  | none => none
  | some rest =>
    if remote = false ∧ (stripPrefix remoteTag rest).isSome then none
    else match splitB us rest with
      | [f0, f1, f2] =>
        if (parseIP f0).isNone ∨ suffixOk f2 = false then none
        else if f1.length < 1 ∨ f1.length > 5 then none
        else if f1.all isDigit = false then none
        else some (f0, f1)
      | _ => none

/-- what the validator knows about the connection: `peerAddr == nil`, `net.SplitHostPort` failed,
    or (host, port) -/
inductive Peer
  | nil
  | bad
  | hp (host port : Bytes)
  deriving DecidableEq, Repr, Inhabited

/-- rejection reasons of `validateFSAuthPath` (one per `return "", fmt.Errorf(...)`) -/
inductive Rej
  | empty | notAbs | notClean | parent | unsafeLeaf | noPeer | badPeer | endpoint | shape
  deriving DecidableEq, Repr, Inhabited

def Rej.name : Rej → String
  | .empty => "empty" | .notAbs => "notAbs" | .notClean => "notClean" | .parent => "parent"
  | .unsafeLeaf => "unsafeLeaf" | .noPeer => "noPeer" | .badPeer => "badPeer"
  | .endpoint => "endpoint" | .shape => "shape"

/-- `verifyFSPathEndpoint` -/
def verifyEndpoint (nameIP namePort : Bytes) : Peer → Except Rej Unit
  | .nil => .error .noPeer
  | .bad => .error .badPeer
  | .hp ph pp =>
    if namePort ≠ pp then .error .endpoint
    else match parseIP nameIP, parseIP ph with
      | some a, some b => if a = b then .ok () else .error .endpoint
      | _, _ => .error .endpoint

/-- `validateFSAuthPath` -/
def validate (p : Bytes) (remote : Bool) (peer : Peer) : Except Rej Bytes :=
  if p = [] then .error .empty
  else if isAbs p = false then .error .notAbs
  else if clean p ≠ p then .error .notClean
  else if dir p ≠ baseDir then .error .parent
  else
    if (base p).contains slash ∨ (base p).contains 0 ∨ base p = dot ∨ base p = dotdot then .error .unsafeLeaf
    else match fsAddrLeaf (base p) remote with
      | some (ip, port) =>
        match verifyEndpoint ip port peer with
        | .error e => .error e
        | .ok _ => .ok (base p)
      | none =>
        if (if remote then matchRemoteRE (base p) else matchLocalRE (base p)) = false then .error .shape
        else .ok (base p)

/-! ### the client exchange  (performFSAuthenticationClient) -/

/-- filesystem effects, both through the `os.Root` opened on the base directory -/
inductive Eff
  | mkdir (leaf : Bytes)     -- root.Mkdir(leaf, 0700) succeeded
  | remove (leaf : Bytes)    -- root.Remove(leaf) attempted
  deriving DecidableEq, Repr

/-- first message from the server: the raw payload of a complete message, or a broken stream -/
inductive PathMsg
  | payload (w : Bytes)
  | broken
  deriving DecidableEq, Repr

/-- the server's verdict message -/
inductive IntMsg
  | result (n : Int)   -- one integer, then end of message
  | extra              -- an integer followed by more data
  | fail               -- receive error (EOF, short message)
  deriving DecidableEq, Repr

/-- return-value classes of the client -/
inductive CErr
  | recvPath | protoPath | sendResult | recvResult | protoResult | rejected
  deriving DecidableEq, Repr

def CErr.name : CErr → String
  | .recvPath => "recvPath" | .protoPath => "protoPath" | .sendResult => "sendResult"
  | .recvResult => "recvResult" | .protoResult => "protoResult" | .rejected => "rejected"

/-- `GetStringWithMaxSize(MaxDirPathSize)` on a cleartext stream followed by the EOM check:
    bytes up to NUL; no NUL within the limit (or before the end of a non-empty message) is an error;
    data after the NUL is a protocol error. -/
def recvPath : PathMsg → Except CErr Bytes
  | .broken => .error .recvPath
  | .payload w =>
    let s := w.takeWhile (· ≠ 0)
    match w.dropWhile (· ≠ 0) with
    | [] => if s = [] then .ok [] else .error .recvPath
    | _ :: tail =>
      if s.length ≥ maxDirPathSize then .error .recvPath
      else if tail ≠ [] then .error .protoPath
      else .ok s

/-- the environment of one client exchange (free parameters) -/
structure Env where
  peer : Peer
  rootOk : Bool := true     -- os.OpenRoot(fsAuthBaseDir)
  mkdirOk : Bool := true    -- root.Mkdir(leaf, 0700)
  sendOk : Bool := true     -- PutInt + FinishMessage of the result code
  srv : IntMsg := .result 0
  deriving Repr

structure Out where
  eff : List Eff
  reply : Option Int          -- result code handed to the transport (`none`: never reached)
  ret : Except CErr Unit
  deriving Repr

/-- which leaf (if any) the client creates for the received path -/
def created (env : Env) (remote : Bool) (p : Bytes) : Option Bytes :=
  if p = [] then none
  else match validate p remote env.peer with
    | .error _ => none
    | .ok leaf => if env.rootOk ∧ env.mkdirOk then some leaf else none

def effOf (f : Bytes → Eff) : Option Bytes → List Eff
  | none => []
  | some l => [f l]

def client (env : Env) (remote : Bool) (m : PathMsg) : Out :=
  match recvPath m with
  | .error e => ⟨[], none, .error e⟩
  | .ok p =>
    let c := created env remote p
    let code : Int := if c.isSome then 0 else -1
    if env.sendOk = false then
      -- the clean-up is registered before the result is sent: it runs on this return path too
      ⟨effOf .mkdir c ++ effOf .remove c, some code, .error .sendResult⟩
    else
      ⟨effOf .mkdir c ++ effOf .remove c, some code,
        match env.srv with
        | .fail => .error .recvResult
        | .extra => .error .protoResult
        | .result n => if n ≠ 0 then .error .rejected else .ok ()⟩

/-! ### the server's verification  (performFSAuthenticationServer) -/

/-- what `os.Lstat(dirPath)` reports -/
structure Stat where
  isDir : Bool
  isSymlink : Bool
  perm : Nat      -- mode.Perm()
  nlink : Nat
  uid : Nat
  deriving DecidableEq, Repr

structure SrvEnv where
  genOk : Bool := true                 -- generate{Local,Remote}FSPath succeeded
  cli : IntMsg                         -- the client's result message
  lstat : Option Stat                  -- `none`: Lstat failed
  lookup : Nat → Option Bytes          -- user.LookupId
  sendOk : Bool := true

inductive SErr
  | generate | recvResult | protoResult | sendResult | verify
  deriving DecidableEq, Repr

def SErr.name : SErr → String
  | .generate => "generate" | .recvResult => "recvResult" | .protoResult => "protoResult"
  | .sendResult => "sendResult" | .verify => "verify"

structure SrvOut where
  result : Option Int       -- verdict sent (`none`: not reached)
  user : Option Bytes       -- negotiation.User
  removed : Bool            -- os.Remove(dirPath) attempted
  ret : Except SErr Unit

/-- the four checks on the Lstat result, then the owner lookup -/
def verifyDir (st : Option Stat) (lookup : Nat → Option Bytes) : Option Bytes :=
  match st with
  | none => none
  | some s =>
    if s.isDir ∧ s.isSymlink = false ∧ s.perm = 0o700 ∧ (s.nlink = 1 ∨ s.nlink = 2) then lookup s.uid
    else none

def server (env : SrvEnv) : SrvOut :=
  if env.genOk = false then ⟨some (-1), none, false, .error .generate⟩
  else match env.cli with
    | .fail => ⟨none, none, false, .error .recvResult⟩
    | .extra => ⟨none, none, false, .error .protoResult⟩
    | .result n =>
      let u := if n = 0 then verifyDir env.lstat env.lookup else none
      let code : Int := if u.isSome then 0 else -1
      if env.sendOk = false then ⟨some code, u, decide (n = 0), .error .sendResult⟩
      else ⟨some code, u, decide (n = 0), if u.isSome then .ok () else .error .verify⟩

end Cedar.FsPath
