/-
  L7 leaf model `Cancel` (property C19): cancellation and deadlines on stream I/O.

  models: stream.readWithContext, stream.writeWithContext
  (and, as the callers that chain them: stream.sendMessageWithEnd, stream.ReceiveFrame,
   stream.ReceiveFrameWithEnd, stream.ReceiveCompleteMessage, stream.readNextFrame; the
   handshakes of security/auth.go and security/ssl_auth.go are sequences of these calls.)

  Both Go functions have the same shape (the write additionally turns `n != len(data)` into a
  "short write" error, which here is just one more I/O error class):

      if ctx.Err() != nil { _ = s.conn.Close(); return ctx.Err() }   -- entry guard   (the Close is the C19 fix;
                                                                     --   `guardCloses = false` is the code before it)
      if ctx.Done() == nil { return io(...) }                        -- fast path: never-cancellable context
      stop := context.AfterFunc(ctx, func() { _ = s.conn.Close() })  -- watcher
      err := io(...)
      if !stop() { return ctx.Err() }                                -- the context fired: its error wins
      return err

  Event model.  One call is one `step`.  The environment (`StepEnv`) chooses, per call,
    * `pre`  : a cancellation / deadline that fires after the previous call returned and before
               this call's entry guard;
    * `peer` : what the transport does with the request if nobody closes the connection
               (`done`, `fail e`, or `stall` = never completes);
    * `mid`  : a cancellation / deadline that fires while the request is outstanding (for a
               stalled request it is what ends the stall; for a request that completes it lands
               in the window between the I/O returning and `stop()`).
  A context that is not cancellable (`Done() == nil`) ignores `pre` and `mid`; a context that
  has fired keeps its first error.

  Runtime contracts assumed (DESIGN §3): `net.Conn.Close` makes a pending Read/Write return and
  later ones fail; `context.AfterFunc` starts `f` in its own goroutine when the context fires and
  `stop()` reports false exactly in that case.  Hence two flags: `closed` (Close has run) and
  `closing` (the watcher goroutine has been started and runs without anybody's help; `settle`).
  Time is not modelled: "returns" means "returns without any further action of the peer".

  Core Lean only (the oracle executable links this).
-/
namespace Cedar.Cancel

/-- `ctx.Err()` values. -/
inductive CtxErr
  | canceled | deadline
  deriving DecidableEq, Repr, Inhabited

/-- I/O error classes of the transport (never produced by the context machinery). -/
inductive IoErr
  | eof | closed | short | other
  deriving DecidableEq, Repr, Inhabited

/-- What the transport does with one request if the connection is not closed under it. -/
inductive Peer
  | done | fail (e : IoErr) | stall
  deriving DecidableEq, Repr, Inhabited

structure StepEnv where
  pre : Option CtxErr := none
  peer : Peer := .done
  mid : Option CtxErr := none
  deriving DecidableEq, Repr, Inhabited

/-- Context + connection, as far as these functions can see them. -/
structure World where
  cancellable : Bool            -- ctx.Done() != nil
  err : Option CtxErr := none   -- ctx.Err()
  closed : Bool := false        -- conn.Close() has run
  closing : Bool := false       -- a watcher goroutine was started (it will run Close on its own)
  io : Nat := 0                 -- I/O requests issued on the connection so far
  deriving DecidableEq, Repr, Inhabited

inductive Ret
  | ok | io (e : IoErr) | ctx (e : CtxErr) | blocked
  deriving DecidableEq, Repr, Inhabited

/-- A cancellation / deadline event reaching the context. -/
def fire (w : World) : Option CtxErr → World
  | none => w
  | some e => if w.cancellable && w.err.isNone then { w with err := some e } else w

/-- The transport's answer given the connection state: I/O on a closed connection fails, it
    neither completes nor stalls (assumed contract of `net.Conn.Close`). -/
def effPeer (w : World) (p : Peer) : Peer := if w.closed then .fail .closed else p

/-- One call of readWithContext / writeWithContext. `guardCloses` = the entry guard closes the
    connection (the code after the C19 fix); `false` transcribes the code before it. -/
def step (guardCloses : Bool) (w0 : World) (e : StepEnv) : World × Ret :=
  let w := fire w0 e.pre
  match w.err with
  | some ce => ({ w with closed := w.closed || guardCloses }, .ctx ce)          -- entry guard
  | none =>
    if !w.cancellable then                                                      -- fast path
      let w1 := { w with io := w.io + 1 }
      match effPeer w e.peer with
      | .done => (w1, .ok)
      | .fail x => (w1, .io x)
      | .stall => (w1, .blocked)
    else                                                                        -- AfterFunc ; io ; stop()
      let w1 := { w with io := w.io + 1 }
      match (fire w1 e.mid).err, effPeer w e.peer with
      | none, .done => (w1, .ok)
      | none, .fail x => (w1, .io x)
      | none, .stall => (w1, .blocked)
      | some ce, .stall => ({ fire w1 e.mid with closed := true }, .ctx ce)     -- Close ran: it ended the I/O
      | some ce, _ => ({ fire w1 e.mid with closing := true }, .ctx ce)         -- !stop(): watcher started

/-- What a caller does with an error of one of its I/O steps. Stream operations and almost all
    handshake steps `abort` (return the error, wrapped); a few handshake sites log it and go on
    (`swallow`): the client's method-retry loop and final 0 bitmask, the server's retry loop,
    sendNegotiationFailureResponse, flushBufferedData after the session key / SciToken. -/
inductive OnErr
  | abort | swallow
  deriving DecidableEq, Repr, Inhabited

inductive IoKind
  | rd | wr
  deriving DecidableEq, Repr, Inhabited

structure Step where
  kind : IoKind := .rd
  onErr : OnErr := .abort
  deriving DecidableEq, Repr, Inhabited

/-- An operation = a list of I/O steps with the environment's choices. The result `.ok` at the
    end of the list means "every step was performed or its error swallowed": the caller's own
    code decides what to return then. A blocked step blocks the operation. -/
def run (gc : Bool) : World → List (Step × StepEnv) → World × Ret
  | w, [] => (w, .ok)
  | w, (s, e) :: rest =>
    match (step gc w e).2 with
    | .ok => run gc (step gc w e).1 rest
    | .blocked => ((step gc w e).1, .blocked)
    | .io x => if s.onErr = .swallow then run gc (step gc w e).1 rest else ((step gc w e).1, .io x)
    | .ctx c => if s.onErr = .swallow then run gc (step gc w e).1 rest else ((step gc w e).1, .ctx c)

/-- The watcher goroutine runs to completion (needs nobody's help). -/
def settle (w : World) : World := { w with closed := w.closed || w.closing, closing := false }

/-- The same I/O without any context handling: the reference for "adds no failure mode". -/
def bareStep (closed : Bool) (p : Peer) : Ret :=
  match (if closed then Peer.fail .closed else p) with
  | .done => .ok
  | .fail x => .io x
  | .stall => .blocked

/-- Reference run: result and number of requests issued. -/
def bareRun (closed : Bool) : List (Step × StepEnv) → Nat → Nat × Ret
  | [], n => (n, .ok)
  | (s, e) :: rest, n =>
    match bareStep closed e.peer with
    | .ok => bareRun closed rest (n + 1)
    | .blocked => (n + 1, .blocked)
    | .io x => if s.onErr = .swallow then bareRun closed rest (n + 1) else (n + 1, .io x)
    | .ctx c => (n + 1, .ctx c)

/-- environment of a step that completes with no event -/
def quietEnv : StepEnv := { pre := none, peer := .done, mid := none }
def quiet (l : List Step) : List (Step × StepEnv) := l.map (fun s => (s, quietEnv))

/-- the code as it is now (after the fix) -/
abbrev cur : Bool := true

end Cedar.Cancel
