/-
  L7 Token: decision logic of TOKEN / IDTOKENS authentication (AKEP2 over a JWT signature) and of
  the standalone IDTOKEN check.
  models: security.getIDString, security.getToken, security.getRawBytes,
          security.performTokenAuthenticationServer, security.receiveServerTokenStep1,
          security.validateTokenAndDeriveKeys, security.loadSigningKey, security.simple_scramble,
          security.validateTokenTiming, security.computeTokenSignature, security.deriveTokenKeys,
          security.sendServerTokenStep2, security.receiveServerTokenStep3, security.storeAuthError,
          security.performTokenAuthenticationClient, security.loadSingleToken,
          security.sendClientTokenStep1, security.receiveTokenStep2, security.sendClientTokenStep3,
          security.verifyTokenMAC, security.computeTokenMAC, security.bytesEqual,
          security.VerifyIDToken, message.GetStringWithMaxSize (cleartext branch)

  What is NOT Lean here (DESIGN §3):
  * cryptography is symbolic: signature, derived MAC key and MAC are terms of the free types
    `Sig`, `MKey`, `Mac` (HMAC-SHA256 ∘ HKDF, HKDF with the HTCondor seeds, HMAC-SHA1);
  * Go's base64url / JSON decoders and the reading of received MAC / signature bytes as terms are
    the functions of `Env`; every theorem is for ALL `Env`;
  * the clock (`now`), the nonce draws (`ra`, `rb`) and the files of the key store are inputs.
  The exchange runs before stream encryption is switched on, so strings are in the cleartext
  (NUL-terminated) form.
-/
import CedarModel.Codec
import CedarGen.Consts

namespace Cedar.Token
open Cedar CedarGen

def authOK : Int := (security.AUTH_PW_A_OK : Nat)
def authError : Int := security.AUTH_PW_ERROR
def keyLen : Nat := security.AUTH_PW_KEY_LEN
def maxName : Nat := security.AUTH_PW_MAX_NAME_LEN
def maxToken : Nat := security.AUTH_PW_MAX_TOKEN_LEN

/-! ### symbolic cryptography -/

/-- a token signature: `sign key tok` = HMAC-SHA256(HKDF(key,"htcondor","master jwt"), tok)
    (`computeTokenSignature`), or any other byte string -/
inductive Sig
  | sign (key tok : Bytes)
  | raw (b : Bytes)
  deriving DecidableEq, Repr, Inhabited

/-- the MAC key K of `deriveTokenKeys`: HKDF(ikm = signature, salt = seedKA ‖ token, "master ka");
    `nil` is the never-derived key of a failed set-up (`SharedKeyK == nil`) -/
inductive MKey
  | derive (s : Sig) (tok : Bytes)
  | nil
  deriving DecidableEq, Repr, Inhabited

/-- `computeTokenMAC`: HMAC-SHA1 of the concatenated parts, or any other byte string -/
inductive Mac
  | hmac (k : MKey) (msg : Bytes)
  | raw (b : Bytes)
  deriving DecidableEq, Repr, Inhabited

/-! ### Go's decoders as functions of the environment -/

inductive KidV | absent | str (s : Bytes) | nonStr
  deriving DecidableEq, Repr, Inhabited
/-- a time claim: absent, a JSON number (already converted `int64(float64)` as Go does), or any
    other JSON value -/
inductive NumV | absent | num (v : Int) | bad
  deriving DecidableEq, Repr, Inhabited
inductive SubV | absent | str (s : Bytes) | nonStr
  deriving DecidableEq, Repr, Inhabited

structure Claims where
  exp : NumV := .absent
  iat : NumV := .absent
  sub : SubV := .absent
  nbf : NumV := .absent           -- "not before" (fix F-C11-nbf-ignored: checked after exp and iat)
  deriving DecidableEq, Repr, Inhabited

/-- outcome of decoding one JWT segment. `undefined` = the harness did not describe this
    segment (never agrees with the implementation). -/
inductive Seg (α : Type)
  | undefined | b64err | jsonerr | ok (a : α)
  deriving DecidableEq, Repr, Inhabited

structure Env where
  /-- base64url + JSON of a header segment, reduced to its `kid` -/
  hdr : Bytes → Seg KidV
  /-- base64url + JSON of a payload segment, reduced to `exp`, `iat`, `sub` -/
  claims : Bytes → Seg Claims
  /-- base64url of a signature segment, read as a term -/
  sigOf : Bytes → Seg Sig
  /-- received MAC bytes read as a term (`Mac.raw b` for bytes that are no MAC the harness knows) -/
  macOf : Bytes → Mac

/-! ### outcomes -/

/-- classes of the non-network failures (`fmt.Errorf` in the Go code) -/
inductive Rej
  | status          -- status word neither AUTH_PW_A_OK nor AUTH_PW_ERROR
  | peerError       -- the peer reported AUTH_PW_ERROR
  | idLen           -- id string longer than the limit / length prefix ≠ actual length
  | nonceLen        -- nonce longer than AUTH_PW_KEY_LEN
  | noEOM           -- error while checking for the end of the message
  | trailing        -- bytes after the last field
  | tokEmpty | tokFormat | hdr | kid | noKey | payload
  | expired | tooOld | badTime | subType | noSub
  | notYet          -- `nbf` lies in the future
  | idMismatch | nonceMismatch | mac
  | load            -- client: no usable token
  | sigEnc | sig    -- VerifyIDToken only
  | undefinedSeg
  deriving DecidableEq, Repr, Inhabited

def Rej.name : Rej → String
  | .status => "status" | .peerError => "peerError" | .idLen => "idLen" | .nonceLen => "nonceLen"
  | .noEOM => "noEOM" | .trailing => "trailing" | .tokEmpty => "tokEmpty" | .tokFormat => "tokFormat"
  | .hdr => "hdr" | .kid => "kid" | .noKey => "noKey" | .payload => "payload" | .expired => "expired"
  | .tooOld => "tooOld" | .badTime => "badTime" | .subType => "subType" | .noSub => "noSub"
  | .idMismatch => "idMismatch" | .nonceMismatch => "nonceMismatch" | .mac => "mac" | .load => "load"
  | .sigEnc => "sigEnc" | .sig => "sig" | .undefinedSeg => "undefinedSeg" | .notYet => "notYet"

/-- `net`: wrapped in `ErrNetwork` — the authentication function returns at once;
    `auth`: stored by `storeAuthError`, the exchange is completed, then reported -/
inductive TErr
  | net (e : Err)
  | auth (r : Rej)
  deriving DecidableEq, Repr, Inhabited

/-! ### `TokenAuthData` and the step monad -/

structure AuthData where
  clientID : Bytes := []
  serverID : Bytes := []
  ra : Bytes := []
  rb : Bytes := []
  token : Bytes := []            -- header.payload
  sig : Sig := .raw []           -- Signature
  key : MKey := .nil             -- SharedKeyK
  err : Option Rej := none       -- AuthError (first one stored); ErrorStatus = AUTH_PW_ERROR iff set
  msg : Dec := {}                -- the message being read; `msg.src` = frames still in the stream
  deriving Repr, Inhabited

/-- `storeAuthError`: only the first error is kept -/
def AuthData.store (s : AuthData) (r : Rej) : AuthData :=
  match s.err with
  | none => { s with err := some r }
  | some _ => s

/-- a step of the exchange: may fail, and the `authData` as it was at the point of failure
    stays visible to the caller (Go mutates it in place) -/
def Act (α : Type) := AuthData → Except (TErr × AuthData) (α × AuthData)

namespace Act
def ret {α : Type} (a : α) : Act α := fun s => .ok (a, s)
def andThen {α β : Type} (x : Act α) (f : α → Act β) : Act β := fun s =>
  match x s with
  | .error e => .error e
  | .ok (a, s1) => f a s1
instance : Monad Act where
  pure := Act.ret
  bind := Act.andThen
def fail {α : Type} (e : TErr) : Act α := fun s => .error (e, s)
def getS : Act AuthData := fun s => .ok (s, s)
def modS (f : AuthData → AuthData) : Act Unit := fun s => .ok ((), f s)
end Act
open Act

/-! ### field readers (over the message decoder of `CedarModel.Codec`) -/

/-- a reader of the message stream; on failure the decoder as it is left behind stays visible -/
def Rd (α : Type) := Dec → Except (TErr × Dec) (α × Dec)

namespace Rd
def ret {α : Type} (a : α) : Rd α := fun d => .ok (a, d)
def andThen {α β : Type} (x : Rd α) (f : α → Rd β) : Rd β := fun d =>
  match x d with
  | .error e => .error e
  | .ok (a, d1) => f a d1
instance : Monad Rd where
  pure := Rd.ret
  bind := Rd.andThen
def fail {α : Type} (e : TErr) : Rd α := fun d => .error (e, d)

/-- `message.NewMessageFromStream(a.stream)`: a fresh buffer over the frames the stream still holds -/
def newMessage : Rd Unit := fun d => .ok ((), { buf := [], isEOM := false, src := d.src })

/-- `getInt`: any failure is a network error -/
def int : Rd Int := fun d =>
  match d.getInt with
  | .error e => .error (.net e, d)
  | .ok (v, d1) => .ok (v, d1)
end Rd

/-- cleartext branch of `GetStringWithMaxSize` (`fuel` = bytes that may still be read, starts at
    `maxSize`; `acc` = bytes so far, reversed). A string that is cut off by the end of the message
    after at least one byte, or that fills `maxSize` bytes without a NUL, is an error. -/
def strMaxAux : Nat → Dec → Bytes → Except Err (Bytes × Dec)
  | 0, _, _ => .error .sizeExceeded
  | fuel + 1, d, acc =>
    match d.ensure 1 with
    | .error .eom => if acc.isEmpty then .ok ([], d.drainToEOM) else .error .sizeExceeded
    | .error e => .error e
    | .ok d1 =>
      match d1.buf with
      | [] => .error .eom
      | c :: rest =>
        if c = 0 then .ok (acc.reverse, { d1 with buf := rest })
        else strMaxAux fuel { d1 with buf := rest } (c :: acc)

namespace Rd
def strMax (maxSize : Nat) : Rd Bytes := fun d =>
  match strMaxAux maxSize d [] with
  | .error e => .error (.net e, d)
  | .ok (v, d1) => .ok (v, d1)

/-- `getRawBytes` / `GetBytes` (non-positive length: nothing is read) -/
def bytes (n : Int) : Rd Bytes := fun d =>
  match d.getBytes n with
  | .error e => .error (.net e, d)
  | .ok (v, d1) => .ok (v, d1)

/-- `getIDString`: length prefix, capped string, the two must agree -/
def idString : Rd Bytes := do
  let n ← int
  if n > (maxName : Int) then fail (.auth .idLen)
  else do
    let data ← strMax maxName
    if (data.length : Int) ≠ n then fail (.auth .idLen) else pure data

/-- `getToken` -/
def token : Rd Bytes := strMax maxToken

/-- "verify we've received the complete message": one more `GetChar` must give `io.EOF` -/
def checkEOM : Rd Unit := fun d =>
  match d.getChar with
  | .error .eom => .ok ((), d.drainToEOM)                         -- frames up to the EOM one are consumed
  | .error _ => .error (.auth .noEOM, { d with src := [] })       -- the stream was read dry
  | .ok (_, d1) => .error (.auth .trailing, d1)

/-- the `for _, fieldName := range …` loops of the error branches: a length, then that many bytes -/
def skipField : Rd Unit := do
  let n ← int
  if n > 0 then do
    let _ ← bytes n
    pure ()
  else pure ()
end Rd

/-- a reader as a step on `authData`: only the message decoder changes -/
def lift {α : Type} (r : Rd α) : Act α := fun s =>
  match r s.msg with
  | .error (e, d) => .error (e, { s with msg := d })
  | .ok (a, d) => .ok (a, { s with msg := d })

def newMessage : Act Unit := lift Rd.newMessage
def rdInt : Act Int := lift Rd.int
def rdBytes (n : Int) : Act Bytes := lift (Rd.bytes n)
def rdIDString : Act Bytes := lift Rd.idString
def rdToken : Act Bytes := lift Rd.token
def checkEOM : Act Unit := lift Rd.checkEOM
def skipField : Act Unit := lift Rd.skipField

/-! ### key store (`loadSigningKey`) -/

def deadbeef : Nat → UInt8
  | 0 => 0xde | 1 => 0xad | 2 => 0xbe | _ => 0xef

def scrambleFrom : Nat → Bytes → Bytes
  | _, [] => []
  | i, b :: rest => (b ^^^ deadbeef (i % 4)) :: scrambleFrom (i + 1) rest

/-- `simple_scramble` -/
def scramble (b : Bytes) : Bytes := scrambleFrom 0 b

structure KeyStore where
  /-- a pool key file is configured (`TokenPoolSigningKeyFile` or the environment fallback) -/
  poolSet : Bool := false
  /-- its contents; `none` = unreadable -/
  pool : Option Bytes := none
  /-- a key directory is configured (`TokenSigningKeyDir` or the environment fallback) -/
  dirSet : Bool := false
  /-- contents of `<dir>/<kid>`; `none` = unreadable / missing -/
  named : Bytes → Option Bytes := fun _ => none

def POOL : Bytes := [80, 79, 79, 76]
def slash : UInt8 := 47
def dot : UInt8 := 46

def hasDotDot : Bytes → Bool
  | a :: b :: rest => (a == dot && b == dot) || hasDotDot (b :: rest)
  | _ => false

/-- `loadSigningKey`: the key the server holds for a key id (`none` = any of its errors) -/
def loadSigningKey (ks : KeyStore) (kid : Bytes) : Option Bytes :=
  if kid = POOL then
    if !ks.poolSet then none
    else match ks.pool with
      | none => none
      | some data =>
        let k := scramble data
        if k.isEmpty then none else some (k ++ k)
  else
    if !ks.dirSet then none
    else if kid.contains slash || hasDotDot kid then none
    else match ks.named kid with
      | none => none
      | some data =>
        let k := scramble data
        if k.isEmpty then none else some k

/-! ### time claims (`validateTokenTiming`) -/


/-- the maximum age in force: `config.TokenMaxAge` if positive, else a parsable
    `SEC_TOKEN_MAX_AGE`, else one hour -/
def maxAgeOf (cfgMaxAge : Int) (envMaxAge : Option Int) : Int :=
  if cfgMaxAge > 0 then cfgMaxAge
  else match envMaxAge with
    | some v => v
    | none => 3600

def checkTiming (now maxAge : Int) (c : Claims) : Except Rej Unit :=
  match c.exp with
  | .bad => .error .badTime
  | .num e => if now ≥ e then .error .expired else checkIat
  | .absent => checkIat
where
  checkIat : Except Rej Unit :=
    match c.iat with
    | .bad => .error .badTime
    | .num i => if maxAge > 0 ∧ i < now - maxAge then .error .tooOld else checkNbf   -- fix: no `now - iat` overflow
    | .absent => checkNbf
  checkNbf : Except Rej Unit :=
    match c.nbf with
    | .bad => .error .badTime
    | .num n => if now < n then .error .notYet else .ok ()
    | .absent => .ok ()

/-! ### token structure -/

/-- `strings.Split(s, ".")` -/
def splitOn (sep : UInt8) : Bytes → List Bytes
  | [] => [[]]
  | c :: rest =>
    if c = sep then [] :: splitOn sep rest
    else match splitOn sep rest with
      | [] => [[c]]
      | h :: t => (c :: h) :: t

def splitDots (b : Bytes) : List Bytes := splitOn dot b

/-! ### MAC inputs -/

/-- hK(A, B, rA, rB): `clientID ‖ ' ' ‖ serverID ‖ 0 ‖ RA ‖ RB` -/
def macMsg2 (cid sid ra rb : Bytes) : Bytes := cid ++ [32] ++ sid ++ [0] ++ ra ++ rb
/-- hK(A, rB): `clientID ‖ 0 ‖ RB` -/
def macMsg3 (cid rb : Bytes) : Bytes := cid ++ [0] ++ rb

/-! ### server side -/

structure SrvCfg where
  ks : KeyStore := {}
  cfgMaxAge : Int := 0
  envMaxAge : Option Int := none
  trustDomain : Bytes := []

/-- `receiveServerTokenStep1`, the client reported AUTH_PW_ERROR: the (empty) fields are read -/
def srvRecv1Err : Act Unit := do
  modS fun s => s.store .peerError
  let _ ← rdIDString
  let _ ← rdToken
  skipField

/-- `receiveServerTokenStep1`, status AUTH_PW_A_OK -/
def srvRecv1OK : Act Unit := do
  let cid ← rdIDString
  modS fun s => { s with clientID := cid }
  let tok ← rdToken
  modS fun s => { s with token := tok }
  let raLen ← rdInt
  if raLen > (keyLen : Int) then fail (.auth .nonceLen)
  else do
    let ra ← rdBytes raLen
    modS fun s => { s with ra := ra }
    checkEOM

/-- `receiveServerTokenStep1` -/
def srvRecv1 : Act Unit := do
  newMessage
  let status ← rdInt
  if status = authError then srvRecv1Err
  else if status ≠ authOK then fail (.auth .status)
  else srvRecv1OK

def htcondor : Bytes := [104, 116, 99, 111, 110, 100, 111, 114]
def serverAt : Bytes := [115, 101, 114, 118, 101, 114, 64]      -- "server@"

def serverIDOf (trustDomain : Bytes) : Bytes :=
  serverAt ++ (if trustDomain.isEmpty then htcondor else trustDomain)

def failAuth {α : Type} (r : Rej) : Act α := fail (.auth r)

/-- the key id a header names: an absent or empty `kid` means the pool key -/
def keyIdOf : KidV → Bytes
  | .str k => if k.isEmpty then POOL else k
  | _ => POOL

/-- `validateTokenAndDeriveKeys` up to and including the time checks: format, header, key id,
    signing key, payload, `validateTokenTiming` — in this order. Yields the signing key and the claims. -/
def checkTokenPre (P : SrvCfg) (env : Env) (now : Int) (tok : Bytes) : Except Rej (Bytes × Claims) :=
  if tok.isEmpty then .error .tokEmpty
  else match splitDots tok with
  | [h, p] =>
    match env.hdr h with
    | .undefined => .error .undefinedSeg
    | .b64err => .error .hdr
    | .jsonerr => .error .hdr
    | .ok .nonStr => .error .kid
    | .ok kidv =>
      match loadSigningKey P.ks (keyIdOf kidv) with
      | none => .error .noKey
      | some signingKey =>
        match env.claims p with
        | .undefined => .error .undefinedSeg
        | .b64err => .error .payload
        | .jsonerr => .error .payload
        | .ok c =>
          match checkTiming now (maxAgeOf P.cfgMaxAge P.envMaxAge) c with
          | .error r => .error r
          | .ok _ => .ok (signingKey, c)
  | _ => .error .tokFormat

/-- `validateTokenAndDeriveKeys` (every failure is a non-network one).
    fix D12: the id announced in message 1 is cleared before the `sub` claim is read, so a token
    without `sub` is rejected instead of authenticating the announced id. -/
def validate (P : SrvCfg) (env : Env) (now : Int) : Act Unit := do
  let s ← getS
  match checkTokenPre P env now s.token with
  | .error r => failAuth r
  | .ok (signingKey, c) => do
    modS fun s => { s with clientID := [] }
    match c.sub with
    | .nonStr => failAuth .subType
    | .absent => failAuth .noSub
    | .str x =>
      if x.isEmpty then failAuth .noSub
      else
        modS fun s =>
          let sg := Sig.sign signingKey s.token
          { s with clientID := x, sig := sg, serverID := serverIDOf P.trustDomain, key := .derive sg s.token }

/-- what `sendServerTokenStep2` puts on the wire -/
structure M2 where
  status : Int
  clientID : Bytes := []
  serverID : Bytes := []
  ra : Bytes := []
  rb : Bytes := []
  mac : Mac := .raw []
  deriving DecidableEq, Repr, Inhabited

/-- `sendServerTokenStep2`: RB is drawn only when no error is stored -/
def srvSend2 (rbDraw : Bytes) (s : AuthData) : AuthData × M2 :=
  match s.err with
  | some _ => (s, { status := authError })
  | none =>
    let s1 := { s with rb := rbDraw }
    (s1, { status := authOK, clientID := s1.clientID, serverID := s1.serverID, ra := s1.ra, rb := s1.rb,
           mac := .hmac s1.key (macMsg2 s1.clientID s1.serverID s1.ra s1.rb) })

/-- `receiveServerTokenStep3`, the client reported AUTH_PW_ERROR -/
def srvRecv3Err : Act Unit := do
  modS fun s => s.store .peerError
  let _ ← rdIDString
  skipField
  skipField

/-- `receiveServerTokenStep3`, status AUTH_PW_A_OK: id, RB echo, proof, end of message — each
    checked as soon as it is read -/
def srvRecv3OK (env : Env) : Act Unit := do
  let cid ← rdIDString
  let s ← getS
  if cid ≠ s.clientID then failAuth .idMismatch
  else do
    let rbLen ← rdInt
    if rbLen > (keyLen : Int) then failAuth .nonceLen
    else do
      let rbEcho ← rdBytes rbLen
      if rbEcho ≠ s.rb then failAuth .nonceMismatch
      else do
        let macLen ← rdInt
        let clientMAC ← rdBytes macLen
        if env.macOf clientMAC ≠ .hmac s.key (macMsg3 s.clientID s.rb) then failAuth .mac
        else checkEOM

/-- `receiveServerTokenStep3` -/
def srvRecv3 (env : Env) : Act Unit := do
  newMessage
  let status ← rdInt
  if status = authError then srvRecv3Err
  else if status ≠ authOK then fail (.auth .status)
  else srvRecv3OK env

/-- how `performTokenAuthentication{Server,Client}` treat a step: a network failure returns at
    once, any other failure is stored and the exchange goes on -/
def runStep (x : Act Unit) (s : AuthData) : Except Err AuthData :=
  match x s with
  | .ok (_, s1) => .ok s1
  | .error (.auth r, s1) => .ok (s1.store r)
  | .error (.net e, _) => .error e

inductive Outcome
  | accept (user : Option Bytes)   -- the identity recorded in `negotiation.User` (`none`: left untouched)
  | reject (e : TErr)
  deriving DecidableEq, Repr, Inhabited

def atSign : UInt8 := 64
/-- `strings.Split(id, "@")[0]` -/
def userPart (id : Bytes) : Bytes := id.takeWhile (· ≠ atSign)

/-- first half of `performTokenAuthenticationServer`: message 1 arrives, the token is validated,
    message 2 is built. `.error` = returned with a network error. -/
def srvPhase1 (P : SrvCfg) (env : Env) (now : Int) (rbDraw : Bytes) (m1 : List OutFrame) :
    Except Err (AuthData × M2) :=
  let s0 : AuthData := { msg := { src := m1 } }
  match runStep srvRecv1 s0 with
  | .error e => .error e
  | .ok s1 =>
    let r2 := match s1.err with
      | none => runStep (validate P env now) s1
      | some _ => .ok s1
    match r2 with
    | .error e => .error e
    | .ok s2 => .ok (srvSend2 rbDraw s2)

/-- the peer's next bytes become readable behind whatever the stream still holds -/
def AuthData.feed (s : AuthData) (frames : List OutFrame) : AuthData :=
  { s with msg := { s.msg with src := s.msg.src ++ frames } }

/-- second half: message 3 arrives, verdict -/
def srvPhase2 (env : Env) (s : AuthData) (m3 : List OutFrame) : Outcome :=
  match runStep (srvRecv3 env) (s.feed m3) with
  | .error e => .reject (.net e)
  | .ok s3 =>
    match s3.err with
    | some r => .reject (.auth r)
    | none => .accept (if s3.clientID.isEmpty then none else some (userPart s3.clientID))

/-- the whole server side as one function of its inputs -/
def serverRun (P : SrvCfg) (env : Env) (now : Int) (rbDraw : Bytes) (m1 m3 : List OutFrame) : Outcome :=
  match srvPhase1 P env now rbDraw m1 with
  | .error e => .reject (.net e)
  | .ok (s, _) => srvPhase2 env s m3

/-! ### client side -/

/-- `loadSingleToken` on the directly configured token (`usable` = the outcome of the client's
    own compatibility / freshness pre-filter, which is not part of this model) -/
def loadToken (env : Env) (tokenStr : Bytes) (usable : Bool) : Act Unit := do
  if tokenStr.isEmpty || !usable then failAuth .load
  else match splitDots tokenStr with
  | [h, p, sg] =>
    modS fun s => { s with token := h ++ [dot] ++ p }
    match env.sigOf sg with
    | .ok sig =>
      modS fun s => { s with sig := sig }
      match env.claims p with
      | .ok c =>
        match c.sub with
        | .nonStr => failAuth .load
        | subv => do
          modS fun s => { s with clientID := match subv with | .str x => x | _ => s.clientID }
          let s ← getS
          if s.clientID.isEmpty then failAuth .load else pure ()
      | _ => failAuth .load
    | _ => failAuth .load
  | _ => failAuth .load

/-- what `sendClientTokenStep1` puts on the wire -/
structure M1 where
  status : Int
  clientID : Bytes := []
  token : Bytes := []
  ra : Bytes := []
  deriving DecidableEq, Repr, Inhabited

def cliSend1 (raDraw : Bytes) (s : AuthData) : AuthData × M1 :=
  match s.err with
  | some _ => (s, { status := authError })
  | none =>
    let s1 := { s with ra := raDraw }
    (s1, { status := authOK, clientID := s1.clientID, token := s1.token, ra := s1.ra })

/-- set-up of `performTokenAuthenticationClient` up to and including message 1 -/
def cliPhase0 (env : Env) (tokenStr : Bytes) (usable : Bool) (raDraw : Bytes) : AuthData × M1 :=
  let s0 : AuthData := {}
  let s1 := match loadToken env tokenStr usable s0 with
    | .ok (_, s) => s
    | .error (.auth r, s) => s.store r
    | .error (.net _, s) => s.store .load -- unreachable: loading does no I/O on the stream
  let s2 := match s1.err with
    | none => { s1 with key := .derive s1.sig s1.token }
    | some _ => s1
  cliSend1 raDraw s2

/-- `receiveTokenStep2`, the server reported AUTH_PW_ERROR -/
def cliRecv2Err : Act Unit := do
  modS fun s => s.store .peerError
  let _ ← rdIDString
  let _ ← rdIDString
  skipField
  skipField
  skipField

/-- `receiveTokenStep2`, status AUTH_PW_A_OK (no end-of-message check on this side) -/
def cliRecv2OK (env : Env) : Act Unit := do
  let echo ← rdIDString
  let s ← getS
  if echo ≠ s.clientID then failAuth .idMismatch
  else do
    let sid ← rdIDString
    modS fun s => { s with serverID := sid }
    let raLen ← rdInt
    if raLen > (keyLen : Int) then failAuth .nonceLen
    else do
      let raEcho ← rdBytes raLen
      if raEcho ≠ s.ra then failAuth .nonceMismatch
      else do
        let rbLen ← rdInt
        if rbLen > (keyLen : Int) then failAuth .nonceLen
        else do
          let rb ← rdBytes rbLen
          modS fun s => { s with rb := rb }
          let macLen ← rdInt
          let serverMAC ← rdBytes macLen
          if env.macOf serverMAC ≠ .hmac s.key (macMsg2 s.clientID sid s.ra rb) then failAuth .mac
          else pure ()

/-- `receiveTokenStep2` -/
def cliRecv2 (env : Env) : Act Unit := do
  newMessage
  let status ← rdInt
  if status = authError then cliRecv2Err
  else if status ≠ authOK then fail (.auth .status)
  else cliRecv2OK env

/-- what `sendClientTokenStep3` puts on the wire -/
structure M3 where
  status : Int
  clientID : Bytes := []
  rb : Bytes := []
  mac : Mac := .raw []
  deriving DecidableEq, Repr, Inhabited

def cliSend3 (s : AuthData) : M3 :=
  match s.err with
  | some _ => { status := authError }
  | none => { status := authOK, clientID := s.clientID, rb := s.rb, mac := .hmac s.key (macMsg3 s.clientID s.rb) }

/-- message 2 arrives: message 3 and the verdict (`.error` = returned with a network error) -/
def cliPhase2 (env : Env) (s : AuthData) (m2 : List OutFrame) : Except Err (M3 × Outcome) :=
  match runStep (cliRecv2 env) (s.feed m2) with
  | .error e => .error e
  | .ok s2 =>
    .ok (cliSend3 s2, match s2.err with
      | some r => .reject (.auth r)
      | none => .accept none)

def clientRun (env : Env) (tokenStr : Bytes) (usable : Bool) (raDraw : Bytes) (m2 : List OutFrame) : Outcome :=
  match cliPhase2 env (cliPhase0 env tokenStr usable raDraw).1 m2 with
  | .error e => .reject (.net e)
  | .ok (_, o) => o

/-! ### standalone verification -/

def isSpace (c : UInt8) : Bool := c == 32 || (9 ≤ c && c ≤ 13)

/-- `strings.TrimSpace` restricted to ASCII white space -/
def trimSpace (b : Bytes) : Bytes := ((b.dropWhile isSpace).reverse.dropWhile isSpace).reverse

structure IDClaims where
  subject : Bytes
  expiry : Int
  issuedAt : Int
  deriving DecidableEq, Repr, Inhabited

def claimInt : NumV → Int
  | .num v => v
  | _ => 0

/-- `VerifyIDToken` -/
def verifyIDToken (P : SrvCfg) (env : Env) (now : Int) (tokenStr : Bytes) : Except Rej IDClaims :=
  match splitDots (trimSpace tokenStr) with
  | [h, p, sg] =>
    match env.hdr h with
    | .undefined => .error .undefinedSeg
    | .b64err => .error .hdr
    | .jsonerr => .error .hdr
    | .ok kidv =>
      match loadSigningKey P.ks (keyIdOf kidv) with
      | none => .error .noKey
      | some signingKey =>
        match env.sigOf sg with
        | .undefined => .error .undefinedSeg
        | .ok actual =>
          if actual ≠ Sig.sign signingKey (h ++ [dot] ++ p) then .error .sig
          else match env.claims p with
            | .undefined => .error .undefinedSeg
            | .b64err => .error .payload
            | .jsonerr => .error .payload
            | .ok c =>
              match checkTiming now (maxAgeOf P.cfgMaxAge P.envMaxAge) c with
              | .error r => .error r
              | .ok _ =>
                match c.sub with
                | .str x => if x.isEmpty then .error .noSub
                            else .ok { subject := x, expiry := claimInt c.exp, issuedAt := claimInt c.iat }
                | _ => .error .noSub
        | _ => .error .sigEnc
  | _ => .error .tokFormat

end Cedar.Token
