/-
  Typed layer, large values: `PutStringBytes`, whose branch for strings that do not fit one frame
  differs from `PutString`'s (two `PutBytes` calls: the bytes, then the NUL), and the drain loop of
  `GetRemainingBytes` seen from the message's pending bytes.
  models: message.PutStringBytes
-/
import CedarModel.Codec

namespace Cedar

/-- `PutStringBytes`: the wire form of `PutString(string(b))`. A string that does not fit one frame
    (with its length prefix on an encrypting stream) is flushed for, prefixed, and then streamed by
    `PutBytes(b)` followed by `PutBytes([0])` — the frame cuts can differ from `PutString`'s, the
    bytes may not. -/
def putStringBytesL (enc : Bool) (buf : Bytes) (s : Bytes) : PutRes :=
  let t := truncNul s
  let length := t.length + 1
  let needed := length + (if enc then 8 else 0)
  if needed > maxFramePayload enc then
    let r0 : PutRes := if buf.length > 0 then ([], [(buf, false)]) else (buf, [])
    let r1 := if enc then seqPut r0 (fun b => putInt b length) else r0
    let r2 := seqPut r1 (fun b => putBytes enc b t)
    seqPut r2 (fun b => putBytes enc b [0])
  else
    let r0 : PutRes := if buf.length + needed > targetFrameSize then ([], [(buf, false)]) else (buf, [])
    let r1 := if enc then seqPut r0 (fun b => putInt b length) else r0
    (r1.1 ++ t ++ [0], r1.2)

end Cedar
