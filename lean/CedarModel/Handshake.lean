/-
  L5: security negotiation and the client / server handshake machines.
  models: security.negotiateSecurity, security.handleClientAuthentication,
          security.handleServerAuthentication, security.setupStreamEncryption,
          security.performFullAuthentication, security.ServerHandshakeWithMessage,
          security.authMethodToBitmask, security.bitmaskToAuthMethod, security.Implemented,
          security.createClientAuthBitmask, security.exchangeKey

  Peers are *scripts*: the values of every field a peer sends are universally quantified data, not
  a catalogue. Authentication sub-protocols are oracles ("method m ran with this peer and
  succeeded / failed"). ECDH/HKDF are symbolic: `sharedKey a b` is symmetric by construction.
-/
import CedarModel.Basic
import CedarGen.Consts
import CedarGen.Tables

namespace Cedar.HS
open CedarGen

/-! ### tables (regenerated from the Go switch statements) -/

def authBit (m : String) : Nat :=
  (Tables.authMethodToBitmask.lookup m).getD Tables.authMethodToBitmaskDefault

def implemented (m : String) : Bool :=
  (Tables.implemented.lookup m).getD Tables.implementedDefault

def lvlRequired : String := security.SecurityRequired
def lvlPreferred : String := security.SecurityPreferred
def lvlOptional : String := security.SecurityOptional
def lvlNever : String := security.SecurityNever
def authNone : String := security.AuthNone
def cryptoAES : String := security.CryptoAES

/-- what `negotiateSecurity` reads from one side's config (levels are raw strings: a peer may
    send anything — the client sees the server's "YES"/"NO" in these fields) -/
structure View where
  auth : String
  enc : String
  methods : List String
  ciphers : List String
  deriving Repr, DecidableEq, Inhabited

/-- first entry of `srv` (server preference order) that also occurs in `cli` and passes `ok` -/
def firstCommon (ok : String → Bool) (srv cli : List String) : Option String :=
  srv.find? (fun m => ok m && cli.contains m)

inductive NegErr
  | authIncompat | encIncompat | noCrypto | noAuth
  deriving Repr, DecidableEq, Inhabited

structure Decision where
  negAuth : String      -- `NONE` when nothing in common
  negCrypto : String    -- "" when nothing in common
  authentication : Bool
  encryption : Bool
  deriving Repr, DecidableEq, Inhabited

def decide3 (s c : String) (haveMethod : Bool) : Bool :=
  if s = lvlRequired ∨ c = lvlRequired then true
  else if s = lvlNever ∨ c = lvlNever then false
  else if s = lvlPreferred ∨ c = lvlPreferred then haveMethod
  else false

/-- the level logic of `negotiateSecurity`, given whether a common method / cipher was found:
    (error, authenticate?, encrypt?) -/
def negotiateCore (sa ca se ce : String) (haveAuth haveCrypto : Bool) : Option NegErr × Bool × Bool :=
  if sa = lvlRequired ∧ ca = lvlNever then (some .authIncompat, true, false)
  else if sa = lvlNever ∧ ca = lvlRequired then (some .authIncompat, false, false)
  else
    let shouldAuth := decide3 sa ca haveAuth
    if se = lvlRequired ∧ ce = lvlNever then (some .encIncompat, false, true)
    else if se = lvlNever ∧ ce = lvlRequired then (some .encIncompat, false, false)
    else
      let shouldEnc := decide3 se ce haveCrypto
      if shouldEnc ∧ ¬ haveCrypto then (some .noCrypto, shouldAuth, shouldEnc)
      else if shouldAuth ∧ ¬ haveAuth then (some .noAuth, shouldAuth, shouldEnc)
      else (none, shouldAuth, shouldEnc)

/-- `negotiateSecurity`. Returns the decision (which the server also advertises in a failure
    response) and the error, if any.
    fix D11a: only methods this build implements count as common (PASSWORD is a stub);
    NONE never counts (the Go loop cannot tell "matched NONE" from "no match"). -/
def negotiate (srv cli : View) : Decision × Option NegErr :=
  let negAuth := (firstCommon (fun m => implemented m && m != authNone) srv.methods cli.methods).getD authNone
  let negCrypto := (firstCommon (fun _ => true) srv.ciphers cli.ciphers).getD ""
  let r := negotiateCore srv.auth cli.auth srv.enc cli.enc (negAuth != authNone) (negCrypto != "")
  (⟨negAuth, negCrypto, r.2.1, r.2.2⟩, r.1)

/-! ### key agreement, symbolically -/

inductive KeyKind
  | absent            -- no ECDHPublicKey attribute
  | bad               -- present but undecodable / wrong curve / truncated
  | good (id : Nat)   -- a valid P-256 public key; `id` names the key pair
  deriving Repr, DecidableEq, Inhabited

/-- ECDH + HKDF as a free symmetric symbol -/
def sharedKey (a b : Nat) : Nat := if a ≤ b then a * 2^32 + b else b * 2^32 + a

/-- `setupStreamEncryption` on a fresh (non-resumed) handshake.
    `ownKey`: this side generated a key pair. Returns the installed key (the stream is then
    AES-GCM protected) or none.
    fix D3c: if encryption was decided (or this endpoint's own policy requires encryption or
    integrity) and no key can be established, the handshake fails instead of continuing in clear. -/
def estKey (negCrypto : String) (ownKey : Option Nat) (ownAdvertised : Bool) (peerKey : KeyKind) : Option Nat :=
  match ownKey, peerKey with
  | some a, .good b => if ownAdvertised ∧ negCrypto = cryptoAES then some (sharedKey a b) else none
  | _, _ => none

def setupEnc (ownEnc ownInteg : String) (decidedEnc : Bool) (negCrypto : String)
    (ownKey : Option Nat) (ownAdvertised : Bool) (peerKey : KeyKind) : Except Err (Option Nat) :=
  match estKey negCrypto ownKey ownAdvertised peerKey with
  | some k => .ok (some k)
  | none =>
    if decidedEnc ∨ ownEnc = lvlRequired ∨ ownInteg = lvlRequired then .error .refused
    else .ok none

/-! ### client machine -/

def rcRejected : Option String → Bool
  | some rc => rc != "" && rc != "AUTHORIZED"
  | none => false

def rcNotAuthorized : Option String → Bool
  | some rc => rc != "AUTHORIZED"
  | none => false

structure ClientCfg where
  auth : String
  enc : String
  integ : String
  methods : List String
  ciphers : List String
  keyId : Option Nat := some 1        -- own ECDH key pair (none: generation failed)
  tokenCompat : Bool := true          -- `hasCompatibleToken` for the token family
  deriving Repr, Inhabited

def isTokenMethod (m : String) : Bool :=
  m == security.AuthToken || m == security.AuthSciTokens || m == security.AuthIDTokens

structure PostAuth where
  sealed : Bool                 -- sent under the session key (an honest server does iff it installed one)
  returnCode : Option String
  sid : String
  user : String
  validCommands : String
  deriving Repr, DecidableEq, Inhabited

/-- everything a (possibly dishonest) server sends during a full handshake -/
structure ServerScript where
  returnCode : Option String          -- ReturnCode in the negotiation response
  auth : String                       -- "YES" / "NO" / anything
  enc : String
  methods : List String               -- AuthMethodsList (or AuthMethods)
  ciphers : List String
  key : KeyKind
  replies : List Int                  -- bitmask replies in the authentication loop, in order
  authOK : String → Bool              -- would the exchange for method m with this peer succeed
  hasKeyMsg : Option Int              -- the post-authentication key message (none: never sent)
  keyRecord : Bool := false           -- a non-zero hasKey is followed, in the same message, by a well-formed
                                      -- key record (length, protocol, duration, input length, that many bytes)
  postAuth : Option PostAuth          -- none: never sent

structure Outcome where
  reportedAuth : Bool
  reportedEnc : Bool
  reportedMethod : String
  user : String
  sid : String
  validCommands : String
  -- ground truth kept by the model, not by the code:
  streamKey : Option Nat              -- key installed on the stream (⇒ all later traffic is AES-GCM protected)
  ran : List (String × Bool)          -- authentication exchanges actually run on the wire, with result
  deriving Repr, DecidableEq, Inhabited

inductive LoopRes
  | success (m : String) (ran : List (String × Bool))
  | exhausted (ran : List (String × Bool))        -- AuthMethodsExhaustedError
  | protocolErr (ran : List (String × Bool))      -- unoffered / malformed selection, I/O failure

/-- the bitmask retry loop of `handleClientAuthentication`; one server reply per iteration.
    fix D3b/D11b: the reply must be exactly the bit of a method still on offer; it is mapped back to
    the client's OWN offered method (so IDTOKENS stays IDTOKENS), anything else is a protocol error. -/
def clientLoop (offered : List String) (authOK : String → Bool) :
    Nat → List Int → List (String × Bool) → LoopRes
  | _, [], ran => .protocolErr ran                       -- peer stopped answering
  | mask, r :: rest, ran =>
    if mask = 0 then .exhausted ran
    else if r = 0 then .exhausted ran
    else if r < 0 then .protocolErr ran
    else
      match offered.find? (fun m => authBit m = r.toNat && (Nat.land r.toNat mask == r.toNat)) with
      | none => .protocolErr ran
      | some m =>
        if authOK m then .success m (ran ++ [(m, true)])
        else clientLoop offered authOK (mask - authBit m) rest (ran ++ [(m, false)])

def bitmaskOf (ms : List String) : Nat := ms.foldl (fun acc m => Nat.lor acc (authBit m)) 0

/-- the authentication phase of the client (`handleClientAuthentication` + `exchangeKey`):
    (did authenticate, method, exchanges run) -/
def clientAuthPhase (cfg : ClientCfg) (srv : ServerScript) : Except Err (Bool × String × List (String × Bool)) :=
  if srv.auth ≠ "YES" then
    -- fix D3a: a client that REQUIRES authentication does not accept a server that declines it
    if cfg.auth = lvlRequired then .error .refused else .ok (false, authNone, [])
  else if srv.methods = [] then .error .refused
  else
    let offered := cfg.methods.filter (fun m => srv.methods.contains m && (!isTokenMethod m || cfg.tokenCompat))
    if offered = [] then .error .refused
    else match clientLoop offered srv.authOK (bitmaskOf offered) srv.replies [] with
      | .success m ran =>
        -- exchangeKey: the server's hasKey message
        -- (a key the server does send is read and ignored: AES-GCM sessions take their key from ECDH)
        match srv.hasKeyMsg with
        | some 0 => .ok (true, m, ran)
        | some _ => if srv.keyRecord then .ok (true, m, ran) else .error .eof
        | none => .error .eof
      | .exhausted _ => .error .refused
      | .protocolErr _ => .error .malformed

/-- `performFullAuthentication` against an arbitrary server. -/
def clientFull (cfg : ClientCfg) (srv : ServerScript) : Except Err Outcome :=
  -- graceful rejection by the server
  if rcRejected srv.returnCode then .error .refused
  else
    match (negotiate ⟨srv.auth, srv.enc, srv.methods, srv.ciphers⟩ ⟨cfg.auth, cfg.enc, cfg.methods, cfg.ciphers⟩) with
    | (_, some _) => .error .refused
    | (d, none) =>
      match clientAuthPhase cfg srv with
      | .error e => .error e
      | .ok (didAuth, method, ran) =>
        match setupEnc cfg.enc cfg.integ d.encryption d.negCrypto cfg.keyId cfg.keyId.isSome srv.key with
        | .error e => .error e
        | .ok key =>
          match srv.postAuth with
          | none => .error .eof
          | some pa =>
            -- readable only if sealed exactly when our stream is keyed
            if pa.sealed ≠ key.isSome then .error .authFail
            else if rcNotAuthorized pa.returnCode then .error .refused
            else .ok { reportedAuth := didAuth, reportedEnc := key.isSome, reportedMethod := method,
                       user := pa.user, sid := pa.sid, validCommands := pa.validCommands,
                       streamKey := key, ran := ran }

/-! ### server machine -/

structure ServerCfg where
  auth : String
  enc : String
  integ : String
  methods : List String
  ciphers : List String
  keyId : Option Nat := some 2
  deriving Repr, Inhabited

/-- everything a (possibly dishonest) client sends during a full handshake -/
structure ClientScript where
  auth : String
  enc : String
  methods : List String
  ciphers : List String
  key : KeyKind
  masks : List Int                    -- bitmasks sent in the authentication loop, in order
  authOK : String → Option String     -- running method m with this peer: some identity / none = failure

inductive SrvLoopRes
  | success (m : String) (user : String) (ran : List (String × Bool))
  | gaveUp (ran : List (String × Bool))
  | ioErr (ran : List (String × Bool))

/-- `handleServerAuthentication`: one client bitmask per iteration; the server picks the first of
    ITS OWN methods whose bit is in the mask. -/
def serverLoop (own : List String) (authOK : String → Option String) :
    List Int → List (String × Bool) → SrvLoopRes
  | [], ran => .ioErr ran
  | mk :: rest, ran =>
    if mk = 0 then .gaveUp ran
    else
      -- Go: clientBitmask & methodBitmask != 0 on int; negative masks have high bits set
      let inMask (b : Nat) : Bool := Nat.land (toU64 mk) b != 0
      match own.find? (fun m => inMask (authBit m)) with
      | none => serverLoop own authOK rest ran
      | some m =>
        match authOK m with
        | some u => .success m u (ran ++ [(m, true)])
        | none => serverLoop own authOK rest (ran ++ [(m, false)])

inductive SrvResult
  | denied (e : NegErr) (d : Decision)      -- graceful DENIED response sent, handshake fails
  | failed (e : Err)
  | ok (o : Outcome) (advertised : Decision)

/-- the authentication phase of the server (`handleServerAuthentication`): (method, user, exchanges) -/
def serverAuthPhase (cfg : ServerCfg) (cli : ClientScript) (d : Decision) :
    Except Err (String × String × List (String × Bool)) :=
  if !d.authentication then .ok (authNone, "", [])
  else match serverLoop cfg.methods cli.authOK cli.masks [] with
    | .success m u ran => .ok (m, u, ran)
    | .gaveUp _ => .error .refused
    | .ioErr _ => .error .eof

def serverFull (cfg : ServerCfg) (cli : ClientScript) (sid : String) : SrvResult :=
  match (negotiate ⟨cfg.auth, cfg.enc, cfg.methods, cfg.ciphers⟩ ⟨cli.auth, cli.enc, cli.methods, cli.ciphers⟩) with
  | (d, some e) => .denied e d
  | (d, none) =>
    match serverAuthPhase cfg cli d with
    | .error e => .failed e
    | .ok (method, user, ran) =>
      match setupEnc cfg.enc cfg.integ d.encryption d.negCrypto cfg.keyId cfg.keyId.isSome cli.key with
      | .error e => .failed e
      | .ok key =>
        .ok { reportedAuth := d.authentication, reportedEnc := key.isSome, reportedMethod := method,
              user := user, sid := sid, validCommands := "", streamKey := key, ran := ran } d

end Cedar.HS

namespace Cedar.HS

/-! ### two honest cedar endpoints -/

inductive JointRes
  | success (m : String) (ran : List (String × Bool))
  | clientExhausted (ran : List (String × Bool))   -- server found nothing in the mask: replies 0, client gives up
  | stuck (ran : List (String × Bool))

/-- the authentication loop of two honest endpoints run against each other: the client offers
    `offered` (bitmask `mask`), the server answers with the first of ITS methods in the mask, both
    run it; `credOK m` = the exchange for method m succeeds with these two parties' credentials. -/
def jointLoop (offered own : List String) (credOK : String → Bool) :
    Nat → Nat → List (String × Bool) → JointRes
  | 0, _, ran => .stuck ran
  | fuel + 1, mask, ran =>
    if mask = 0 then .clientExhausted ran
    else
      match own.find? (fun m => Nat.land mask (authBit m) != 0) with
      | none => .clientExhausted ran
      | some mS =>
        let b := authBit mS
        match offered.find? (fun m => authBit m = b && (Nat.land b mask == b)) with
        | none => .stuck ran
        | some mC =>
          if mS = mC ∧ credOK mC then .success mC (ran ++ [(mC, true)])
          else jointLoop offered own credOK fuel (mask - b) (ran ++ [(mC, false)])

structure HonestResult where
  client : Except Err Outcome
  server : Except Err Outcome
  denied : Bool          -- the client received an explicit DENIED response
  deriving Repr

/-- the authentication phase of two honest endpoints: (client error, server error) or
    (authenticated?, method, exchanges) -/
def honestAuthPhase (c : ClientCfg) (s : ServerCfg) (d : Decision) (credOK : String → Bool) :
    Except (Err × Err) (Bool × String × List (String × Bool)) :=
  if !d.authentication then
    (if c.auth = lvlRequired then .error (.refused, .eof) else .ok (false, authNone, []))
  else if s.methods = [] then .error (.refused, .eof)
  else
    let offered := c.methods.filter (fun m => s.methods.contains m && (!isTokenMethod m || c.tokenCompat))
    if offered = [] then .error (.refused, .eof)
    else match jointLoop offered s.methods credOK (offered.length + 1) (bitmaskOf offered) [] with
      | .success m ran => .ok (true, m, ran)
      | .clientExhausted _ => .error (.refused, .eof)
      | .stuck _ => .error (.malformed, .eof)

def keyKindOf : Option Nat → KeyKind
  | some k => .good k
  | none => .absent

def honestRun (c : ClientCfg) (s : ServerCfg) (credOK : String → Bool) (user sid : String) : HonestResult :=
  match negotiate ⟨s.auth, s.enc, s.methods, s.ciphers⟩ ⟨c.auth, c.enc, c.methods, c.ciphers⟩ with
  | (_, some _) => ⟨.error .refused, .error .refused, true⟩
  | (d, none) =>
    -- the client's own run of negotiateSecurity over the server's response
    match negotiate ⟨if d.authentication then "YES" else "NO", if d.encryption then "YES" else "NO", s.methods, s.ciphers⟩
                    ⟨c.auth, c.enc, c.methods, c.ciphers⟩ with
    | (_, some _) => ⟨.error .refused, .error .eof, false⟩
    | (dc, none) =>
      match honestAuthPhase c s d credOK with
      | .error (ce, se) => ⟨.error ce, .error se, false⟩
      | .ok (didAuth, method, ran) =>
        match setupEnc c.enc c.integ dc.encryption dc.negCrypto c.keyId c.keyId.isSome (keyKindOf s.keyId),
              setupEnc s.enc s.integ d.encryption d.negCrypto s.keyId s.keyId.isSome (keyKindOf c.keyId) with
        | .ok kc, .ok ks =>
          let u := if didAuth then user else ""
          let so : Outcome := ⟨d.authentication, ks.isSome, method, u, sid, "", ks, ran⟩
          if kc.isSome ≠ ks.isSome then ⟨.error .authFail, .ok so, false⟩
          else ⟨.ok ⟨didAuth, kc.isSome, method, (if u = "" then "unauthenticated@unmapped" else u), sid, "", kc, ran⟩, .ok so, false⟩
        -- the server reads nothing after its post-authentication ad: a client that gives up at its own
        -- key set-up (integrity REQUIRED, no usable cipher) is not noticed by the server's handshake
        | .error e, .ok ks => ⟨.error e, .ok ⟨d.authentication, ks.isSome, method, (if didAuth then user else ""), sid, "", ks, ran⟩, false⟩
        | .ok _, .error e => ⟨.error .eof, .error e, false⟩
        | .error e1, .error e2 => ⟨.error e1, .error e2, false⟩

end Cedar.HS

namespace Cedar.HS

/-! ### per-command policies (`Authenticator.ServerConfigForCommand`)

  models: the policy swap at the head of security.ServerHandshakeWithMessage. The request names the
  command the negotiation is FOR in `Command` (absent: the zero value); `AuthCommand` is an optional
  second attribute that is parsed and plays NO part in the choice of policy. -/

structure CmdReq where
  command : Option Int        -- `Command` attribute of the request (none: not sent)
  authCommand : Option Int    -- `AuthCommand` attribute (none: not sent)
  deriving Repr, DecidableEq, Inhabited

/-- the command the server reports as negotiated (`SecurityNegotiation.ClientConfig.Command`) and a
    dispatching server runs -/
def CmdReq.negotiatedFor (r : CmdReq) : Int := r.command.getD 0

/-- the policy in force: the table's entry for the command, else the connection's default config -/
def policyFor (dflt : ServerCfg) (table : Int → Option ServerCfg) (cmd : Int) : ServerCfg :=
  (table cmd).getD dflt

/-- `ServerHandshakeWithMessage` of a server that carries per-command policies -/
def serverPerCommand (dflt : ServerCfg) (table : Int → Option ServerCfg) (req : CmdReq)
    (cli : ClientScript) (sid : String) : SrvResult :=
  serverFull (policyFor dflt table req.negotiatedFor) cli sid

end Cedar.HS
