/-
  L1/L2/L2c: CEDAR framing, the buffered sender, the frame receivers and the
  AES-GCM wrapper of stream.Stream over a *symbolic* AEAD and hash (DESIGN §3).

  models: stream.sendMessageWithEnd, stream.SendMessage, stream.SendPartialMessage,
          stream.ReceiveFrame, stream.ReceiveFrameWithEnd, stream.WriteMessage,
          stream.StartMessage, stream.EndMessage, stream.flushPartialFrame,
          stream.ReadMessageBytes, stream.EndMessageRead, stream.StartMessageRead,
          stream.readNextFrame, stream.ReceiveCompleteMessage, stream.finalizeSendDigest,
          stream.finalizeRecvDigest, stream.FinalizeDigests, stream.SetSymmetricKey,
          stream.calculateEncryptedSize, stream.encryptDataWithAAD, stream.decryptDataWithAAD,
          stream.SetCryptoMode, stream.prepareCryptoForSecret, stream.restoreCryptoAfterSecret,
          stream.PutSecret, stream.GetSecret, stream.ReadFrame, stream.WriteFrame,
          stream.CryptoForSecretIsNoop
-/
import CedarModel.Basic
import CedarGen.Consts

namespace Cedar

open CedarGen

def maxMessageSize : Nat := stream.MaxMessageSize
def frameThreshold : Nat := stream.DefaultFrameThreshold
def headerSize : Nat := stream.NormalHeaderSize
/-- GCM tag length and transmitted-IV length: the two literals `16` in
    `calculateEncryptedSize` (tied to the source by `C12.size_literals_are_the_code` over the
    regenerated `CedarGen.Literals`). -/
def tagLen : Nat := 16
def ivLen : Nat := 16
def maxEndFlag : Nat := 10
def counterLimit : Nat := 0xffffffff

/-- A 16-byte IV / nonce: leading big-endian 32-bit word and the 12 remaining bytes. -/
structure IV where
  w0 : Nat
  tail : Bytes
  deriving DecidableEq, Repr, Inhabited

/-- The per-frame nonce: base IV with its leading word advanced by the counter (mod 2^32). -/
def IV.nonce (iv : IV) (ctr : Nat) : IV := ⟨(iv.w0 + ctr) % 2^32, iv.tail⟩

/-- SHA-256, symbolically: a free constructor over the bytes fed (collision-free by
    construction), or the 32-zero-byte placeholder of an unused direction. -/
inductive Digest
  | zero
  | H (fed : Bytes)
  | raw (b : Bytes)        -- digest bytes restored from an imported crypto-state blob
  deriving DecidableEq, Repr, Inhabited

/-- Associated data of one protected frame: the 5-byte header (flag, length) and, on the
    first frame of a direction, the two handshake digests (sender's order: sent, received). -/
structure Aad where
  digests : Option (Digest × Digest)
  flag : Nat
  len : Nat
  deriving DecidableEq, Repr, Inhabited

/-- A genuine AES-256-GCM seal. Free constructor: only a term built by `seal` opens,
    and only under the same key, nonce and AAD (INT-CTXT idealisation, DESIGN §3). -/
structure Sealed where
  key : Nat
  nonce : IV
  aad : Aad
  plain : Bytes
  deriving DecidableEq, Repr, Inhabited

/-- Frame payload on the wire. -/
inductive Body
  | raw (b : Bytes)                      -- cleartext, or adversary-made bytes
  | ct (iv : Option IV) (s : Sealed)     -- [16-byte IV]? ++ ciphertext ++ tag
  deriving DecidableEq, Repr, Inhabited

def Body.wireLen : Body → Nat
  | .raw b => b.length
  | .ct none s => s.plain.length + tagLen
  | .ct (some _) s => ivLen + (s.plain.length + tagLen)

structure WireFrame where
  flag : Nat
  len : Nat
  body : Body
  deriving DecidableEq, Repr, Inhabited

/-- The two running handshake digests (`sendDigest`/`recvDigest`, their `...Written` flags and
    the frozen values). -/
structure Dig where
  sendFed : Bytes := []             -- bytes fed to sendDigest so far
  recvFed : Bytes := []
  sendWritten : Bool := false
  recvWritten : Bool := false
  finalSend : Option Digest := none
  finalRecv : Option Digest := none
  deriving Repr, Inhabited, DecidableEq

/-- value `finalSendDigest` has (or would get when frozen now) -/
def Dig.fs (d : Dig) : Digest :=
  match d.finalSend with
  | some x => x
  | none => if d.sendWritten then .H d.sendFed else .zero

def Dig.fr (d : Dig) : Digest :=
  match d.finalRecv with
  | some x => x
  | none => if d.recvWritten then .H d.recvFed else .zero

/-- `finalizeSendDigest` + `finalizeRecvDigest` (idempotent) -/
def Dig.finalize (d : Dig) : Dig := { d with finalSend := some d.fs, finalRecv := some d.fr }

def Dig.feedSend (d : Dig) (b : Bytes) : Dig :=
  match d.finalSend with
  | some _ => d
  | none => { d with sendFed := d.sendFed ++ b, sendWritten := true }

def Dig.feedRecv (d : Dig) (b : Bytes) : Dig :=
  match d.finalRecv with
  | some _ => d
  | none => { d with recvFed := d.recvFed ++ b, recvWritten := true }

/-- One endpoint, both directions (the fields of `stream.Stream` that carry protocol state). -/
structure Stream where
  key : Option Nat := none          -- gcm != nil, identified by a key id
  encrypted : Bool := false
  authenticated : Bool := false
  encIV : IV := ⟨0, []⟩
  decIV : IV := ⟨0, []⟩
  encCtr : Nat := 0
  decCtr : Nat := 0
  finSendAAD : Bool := false
  finRecvAAD : Bool := false
  dig : Dig := {}
  sendBuf : Bytes := []
  sendEOM : Bool := false
  recvBuf : Bytes := []
  bytesRead : Nat := 0
  totalMsg : Nat := 0
  inMessage : Bool := false
  beforeSecret : Bool := false
  peerAddr : Bytes := []
  deriving Repr, Inhabited

def Stream.crypting (s : Stream) : Bool := s.key.isSome && s.encrypted

def hdrBytes (flag len : Nat) : Bytes := UInt8.ofNat flag :: be32 len

/-- the first five bytes of a frame as `ReceiveFrame*` reads them -/
def parseHdr : Bytes → Option (Nat × Nat × Bytes)
  | f :: a :: b :: c :: d :: rest => some (f.toNat, beVal [a, b, c, d], rest)
  | _ => none

/-- a cleartext frame as bytes, and its parse (header checks included) -/
def encodeRawFrame (flag : Nat) (payload : Bytes) : Bytes := hdrBytes flag payload.length ++ payload

def decodeRawFrame (b : Bytes) : Except Err (Nat × Bytes × Bytes) :=
  match parseHdr b with
  | none => .error .eof
  | some (flag, len, rest) =>
    if len > maxMessageSize then .error .tooLarge
    else if flag > maxEndFlag then .error .badFlag
    else if rest.length < len then .error .eof
    else .ok (flag, rest.take len, rest.drop len)

def Stream.finalizeDigests (s : Stream) : Stream := { s with dig := s.dig.finalize }

/-- `SetSymmetricKey`: installs the key, draws a fresh base IV (a parameter: one RNG draw),
    resets both counters and first-frame flags, freezes the digests, turns encryption on. -/
def Stream.setKey (s : Stream) (k : Nat) (freshIV : IV) : Stream :=
  { s with key := some k, encIV := freshIV, encCtr := 0, decCtr := 0,
           finSendAAD := false, finRecvAAD := false, encrypted := true, dig := s.dig.finalize }

def Stream.encryptedSize (s : Stream) (n : Nat) : Nat :=
  if s.crypting then n + tagLen + (if s.encCtr = 0 then ivLen else 0) else n

/-- the protected frame `encryptDataWithAAD` builds for `data` in state `s` under key `k` -/
def Stream.sealFrame (s : Stream) (k : Nat) (data : Bytes) (flag : Nat) : WireFrame :=
  let len := data.length + tagLen + (if s.encCtr = 0 then ivLen else 0)
  let aad : Aad := ⟨if s.finSendAAD then none else some (s.dig.fs, s.dig.fr), flag, len⟩
  ⟨flag, len, .ct (if s.encCtr = 0 then some s.encIV else none) ⟨k, s.encIV.nonce s.encCtr, aad, data⟩⟩

/-- `sendMessageWithEnd`: one frame on the wire, or an error and nothing sent. -/
def Stream.sendFrame (s : Stream) (data : Bytes) (flag : Nat) : Except Err (Stream × WireFrame) :=
  if data.length > maxMessageSize then .error .tooLarge
  else
    match s.key, s.encrypted with
    | some k, true =>
      if data.length + tagLen + (if s.encCtr = 0 then ivLen else 0) > maxMessageSize then
        .error .tooLarge                                      -- fix D1: bound the *wire* size
      else if s.encCtr = counterLimit then .error .counterMax
      else
        let f := s.sealFrame k data flag
        .ok ({ s with encCtr := s.encCtr + 1, finSendAAD := true,
                      dig := ((if s.finSendAAD then s.dig else s.dig.finalize).feedSend
                               (hdrBytes flag f.len ++ data)) }, f)
    | _, _ =>
      .ok ({ s with dig := s.dig.feedSend (hdrBytes flag data.length ++ data) },
           ⟨flag, data.length, .raw data⟩)

/-- `decryptDataWithAAD` on a symbolic body (stream is keyed and `encrypted`):
    the plaintext and the base IV in use afterwards, or failure. -/
def Stream.openBody (s : Stream) (k : Nat) (f : WireFrame) : Except Err (IV × Bytes) :=
  if f.body.wireLen = 0 then .error .authFail
  else if s.decCtr = 0 ∧ f.body.wireLen < ivLen then .error .authFail
  else
    -- the IV the receiver will use, and the ciphertext that remains
    let parsed : Option (IV × Sealed) :=
      if s.decCtr = 0 then
        match f.body with
        | .ct (some iv) c =>
          if iv = s.encIV then none      -- fix D16: a first frame announcing OUR base IV is a reflection
          else some (iv, c)
        | _ => none            -- junk, or no IV where one is expected: cannot authenticate
      else
        match f.body with
        | .ct none c => some (s.decIV, c)
        | _ => none
    match parsed with
    | none => .error .authFail
    | some (iv, c) =>
      -- receiver's view of the AAD: (received-digest, sent-digest) = sender's (sent, received)
      let aad : Aad := ⟨if s.finRecvAAD then none else some (s.dig.fr, s.dig.fs), f.flag, f.len⟩
      if c.key = k ∧ c.nonce = iv.nonce s.decCtr ∧ c.aad = aad then .ok (iv, c.plain)
      else .error .authFail

/-- state after a successful open -/
def Stream.afterOpen (s : Stream) (iv : IV) : Stream :=
  { s with decIV := iv, decCtr := s.decCtr + 1, finRecvAAD := true,
           dig := if s.finRecvAAD then s.dig else s.dig.finalize }

/-- Header validation common to both receivers. -/
def checkHdr (f : WireFrame) : Except Err Unit :=
  if f.len > maxMessageSize then .error .tooLarge
  else if f.flag > maxEndFlag then .error .badFlag
  else .ok ()

def Stream.feedRecv (s : Stream) (b : Bytes) : Stream := { s with dig := s.dig.feedRecv b }

/-- `ReceiveFrameWithEnd` on the next frame of the wire. -/
def Stream.recvFrameWithEnd (s : Stream) (f : WireFrame) : Except Err (Stream × Bytes × Nat) :=
  match checkHdr f with
  | .error e => .error e
  | .ok () =>
    if f.len = 0 then
      if s.crypting then .error .plainOnKeyed     -- fix D2
      else .ok (s.feedRecv (hdrBytes f.flag f.len), [], f.flag)
    else
      match s.key, s.encrypted with
      | some k, true =>
        match s.openBody k f with
        | .error e => .error e
        | .ok (iv, p) => .ok ((s.afterOpen iv).feedRecv (hdrBytes f.flag f.len ++ p), p, f.flag)
      | _, _ =>
        match f.body with
        | .raw b => .ok (s.feedRecv (hdrBytes f.flag f.len ++ b), b, f.flag)
        | .ct _ _ => .error .malformed   -- ciphertext read as cleartext: outside the modelled domain

/-- plain `ReceiveFrame` (used by GetSecret / GetFile): no end flag returned; a
    zero-length frame returns before the digest is fed. -/
def Stream.recvFrame (s : Stream) (f : WireFrame) : Except Err (Stream × Bytes) :=
  match checkHdr f with
  | .error e => .error e
  | .ok () =>
    if f.len = 0 then
      if s.crypting then .error .plainOnKeyed     -- fix D2
      else .ok (s, [])
    else
      match s.key, s.encrypted with
      | some k, true =>
        match s.openBody k f with
        | .error e => .error e
        | .ok (iv, p) => .ok ((s.afterOpen iv).feedRecv (hdrBytes f.flag f.len ++ p), p)
      | _, _ =>
        match f.body with
        | .raw b => .ok (s.feedRecv (hdrBytes f.flag f.len ++ b), b)
        | .ct _ _ => .error .malformed

/-! ### Buffered sender -/

def Stream.flushPartial (s : Stream) : Except Err (Stream × List WireFrame) :=
  if s.sendBuf.isEmpty then .ok (s, [])
  else match s.sendFrame s.sendBuf 0 with
    | .error e => .error e
    | .ok (s1, f) => .ok ({ s1 with sendBuf := [] }, [f])

def Stream.writeMessage (s : Stream) (d : Bytes) : Except Err (Stream × List WireFrame) :=
  if s.sendEOM then .error .state
  else
    let s1 := { s with sendBuf := s.sendBuf ++ d }
    if s1.sendBuf.length ≥ frameThreshold then s1.flushPartial else .ok (s1, [])

def Stream.startMessage (s : Stream) : Stream := { s with sendEOM := false, sendBuf := [] }

def Stream.endMessage (s : Stream) : Except Err (Stream × List WireFrame) :=
  if s.sendEOM then .error .state
  else
    let s1 := { s with sendEOM := true }
    match s1.sendFrame s1.sendBuf 1 with
    | .error e => .error e       -- note: sendEOM stays set in Go too; the state is dropped here (error is terminal)
    | .ok (s2, f) => .ok ({ s2 with sendBuf := [] }, [f])

/-! ### Message-level receivers. The wire is the list of frames still to arrive. -/

/-- `ReceiveCompleteMessage`. Structural recursion on the wire: one frame per iteration. -/
def Stream.recvCompleteAux (s : Stream) (acc : Bytes) : List WireFrame → Except Err (Stream × Bytes × List WireFrame)
  | [] => .error .eof
  | f :: w =>
    match s.recvFrameWithEnd f with
    | .error e => .error e
    | .ok (s1, d, flag) =>
      if flag = 1 then .ok (s1, acc ++ d, w)
      else if flag = 0 then s1.recvCompleteAux (acc ++ d) w
      else .error .badFlag

def Stream.recvComplete (s : Stream) (w : List WireFrame) := s.recvCompleteAux [] w

/-- `readNextFrame`: appends frames to the receive buffer until one has a non-zero flag. -/
def Stream.readNextFrame (s : Stream) : List WireFrame → Except Err (Stream × List WireFrame)
  | [] => .error .eof
  | f :: w =>
    match s.recvFrameWithEnd f with
    | .error e => .error e
    | .ok (s1, d, flag) =>
      let s2 := { s1 with recvBuf := s1.recvBuf ++ d, totalMsg := (s1.recvBuf ++ d).length }
      if flag = 0 then s2.readNextFrame w else .ok (s2, w)

def Stream.startMessageRead (s : Stream) (w : List WireFrame) : Except Err (Stream × List WireFrame) :=
  if s.inMessage then .error .state
  else match s.readNextFrame w with
    | .error e => .error e
    | .ok (s1, w1) => .ok ({ s1 with inMessage := true, bytesRead := 0 }, w1)

/-- `ReadMessageBytes`: up to `n` bytes of the current message; at its end, `io.EOF`
    (fix D15: it never reads into the next message). -/
def Stream.readMessageBytes (s : Stream) (n : Nat) : Except Err (Stream × Bytes) :=
  if !s.inMessage then .error .state
  else if s.recvBuf.length - s.bytesRead = 0 then .error .eom
  else
    let k := min n (s.recvBuf.length - s.bytesRead)
    .ok ({ s with bytesRead := s.bytesRead + k }, (s.recvBuf.drop s.bytesRead).take k)

def Stream.endMessageRead (s : Stream) : Except Err Stream :=
  if !s.inMessage then .error .state
  else if s.bytesRead < s.totalMsg then .error .notConsumed
  else .ok { s with inMessage := false, recvBuf := [], bytesRead := 0, totalMsg := 0 }

/-! ### Secrets and crypto mode -/

def Stream.prepareSecret (s : Stream) : Stream :=
  let s1 := { s with beforeSecret := s.encrypted }
  if s1.key.isSome && !s1.encrypted then { s1 with encrypted := true } else s1

def Stream.restoreSecret (s : Stream) : Stream := { s with encrypted := s.beforeSecret }

def Stream.setCryptoMode (s : Stream) (on : Bool) : Stream × Bool :=
  if on then (if s.key.isSome then ({ s with encrypted := true }, true) else (s, false))
  else ({ s with encrypted := false }, true)

/-- `PutSecret`: the string plus NUL as one complete frame with crypto forced on if keyed. -/
def Stream.putSecret (s : Stream) (secret : Bytes) : Except Err (Stream × WireFrame) :=
  match s.prepareSecret.sendFrame (secret ++ [0]) 1 with
  | .error e => .error e
  | .ok (s1, f) => .ok (s1.restoreSecret, f)

def stripNul (d : Bytes) : Bytes :=
  match d.getLast? with
  | some 0 => d.dropLast
  | _ => d

def Stream.getSecret (s : Stream) (f : WireFrame) : Except Err (Stream × Bytes) :=
  match s.prepareSecret.recvFrame f with
  | .error e => .error e
  | .ok (s1, d) => .ok (s1.restoreSecret, stripNul d)

end Cedar
