/-
  L4 Literal: the decoder's literal shortcuts in front of the full ClassAd parser, the old-ClassAd
  string fallback behind it, and a reference description of the external parser's literal syntax.
  models: message.parseAndInsertExpression, message.tryInsertLiteral, message.decodeOldClassAdString,
          message.asciiEqualFold, message.countDigits, message.isIntegerLiteralText,
          message.isRealLiteralText
  (as fixed: the shortcuts fire only on one literal token of the ClassAd lexer — fix F-C08-shortcuts)

  Parameters (external code, trusted-and-tested, DESIGN §3):
    * classad.ParseExpr: its verdict is `parserOK`; its result stays symbolic (`Outcome.full text`);
      the correspondence check evaluates it with the real library.
    * strconv.ParseFloat: the value of a real literal stays symbolic (`LitVal.real` carries the text);
      `ferr text` = "ParseFloat reports a range error" (the shortcut then defers to the parser, whose
      lexer calls the same ParseFloat and keeps the ±Inf: the two outcomes are indistinguishable).
    * strings.TrimSpace, utf8.ValidString, strconv.ParseInt(·,10,64) are transcribed at byte level.
  `litParse` / `LitGrammar` describe what the external parser assigns to a text that is one literal
  (a boolean word, an optionally negated number, or adjacent string tokens); they are written from
  the lexer's token rules (parser/streaming_lexer.go, bytelexer.go) and TESTED against
  classad.ParseExpr on every run (engine `literal`, op `gram`).
  Core Lean only.
-/
import CedarModel.Basic

namespace Cedar

/-- a literal value as the decoder / the parser produce it -/
inductive LitVal
  | bool (b : Bool)
  | int (v : Int)
  | real (neg : Bool) (text : Bytes)   -- (-1)^neg · strconv.ParseFloat(text, 64), `text` unsigned
  | str (s : Bytes)
  deriving DecidableEq, Repr

/-! ### byte classes (all comparisons on `toNat`, so `omega` can reason about them) -/

def isDigit (b : UInt8) : Bool := 48 ≤ b.toNat && b.toNat ≤ 57
def isOctal (b : UInt8) : Bool := 48 ≤ b.toNat && b.toNat ≤ 55
def isCont (b : UInt8) : Bool := 128 ≤ b.toNat && b.toNat ≤ 191

def cQuote : Nat := 34      -- '"'
def cBackslash : Nat := 92  -- '\\'
def cMinus : Nat := 45
def cPlus : Nat := 43
def cDot : Nat := 46
def cEq : Nat := 61

/-! ### strings.TrimSpace (white space as defined by unicode.IsSpace, UTF-8 encoded) -/

/-- length of the white-space rune encoded at the head of `s`; 0 if there is none -/
def spaceLen : Bytes → Nat
  | [] => 0
  | a :: rest =>
    if (9 ≤ a.toNat && a.toNat ≤ 13) || a.toNat == 32 then 1
    else if a.toNat == 194 then            -- C2 85, C2 A0
      match rest with
      | b :: _ => if b.toNat == 133 || b.toNat == 160 then 2 else 0
      | [] => 0
    else if a.toNat == 225 then            -- E1 9A 80
      match rest with
      | b :: c :: _ => if b.toNat == 154 && c.toNat == 128 then 3 else 0
      | _ => 0
    else if a.toNat == 226 then            -- E2 80 80..8A / A8 / A9 / AF ; E2 81 9F
      match rest with
      | b :: c :: _ =>
        if b.toNat == 128 && ((128 ≤ c.toNat && c.toNat ≤ 138) || c.toNat == 168 || c.toNat == 169 || c.toNat == 175) then 3
        else if b.toNat == 129 && c.toNat == 159 then 3 else 0
      | _ => 0
    else if a.toNat == 227 then            -- E3 80 80
      match rest with
      | b :: c :: _ => if b.toNat == 128 && c.toNat == 128 then 3 else 0
      | _ => 0
    else 0

/-- the same, looking at a reversed string (white-space rune at the END of the original) -/
def spaceLenRev : Bytes → Nat
  | [] => 0
  | z :: rest =>
    if (9 ≤ z.toNat && z.toNat ≤ 13) || z.toNat == 32 then 1
    else match rest with
      | y :: rest2 =>
        if y.toNat == 194 && (z.toNat == 133 || z.toNat == 160) then 2
        else match rest2 with
          | x :: _ =>
            if x.toNat == 225 && y.toNat == 154 && z.toNat == 128 then 3
            else if x.toNat == 226 && y.toNat == 128 &&
                ((128 ≤ z.toNat && z.toNat ≤ 138) || z.toNat == 168 || z.toNat == 169 || z.toNat == 175) then 3
            else if x.toNat == 226 && y.toNat == 129 && z.toNat == 159 then 3
            else if x.toNat == 227 && y.toNat == 128 && z.toNat == 128 then 3
            else 0
          | [] => 0
      | [] => 0

def trimAux (f : Bytes → Nat) : Nat → Bytes → Bytes
  | 0, s => s
  | fuel + 1, s => match f s with
    | 0 => s
    | k + 1 => trimAux f fuel (s.drop (k + 1))

def trimLeft (s : Bytes) : Bytes := trimAux spaceLen s.length s
def trimRight (s : Bytes) : Bytes := (trimAux spaceLenRev s.length s.reverse).reverse
def trimSpace (s : Bytes) : Bytes := trimRight (trimLeft s)

/-! ### utf8.ValidString -/

/-- length of the well-formed UTF-8 encoding at the head of `s`; 0 if the head is ill-formed -/
def utf8Len : Bytes → Nat
  | [] => 0
  | a :: rest =>
    if a.toNat < 128 then 1
    else if 194 ≤ a.toNat && a.toNat ≤ 223 then
      match rest with
      | b :: _ => if isCont b then 2 else 0
      | [] => 0
    else if 224 ≤ a.toNat && a.toNat ≤ 239 then
      match rest with
      | b :: c :: _ =>
        let lo := if a.toNat == 224 then 160 else 128
        let hi := if a.toNat == 237 then 159 else 191
        if lo ≤ b.toNat && b.toNat ≤ hi && isCont c then 3 else 0
      | _ => 0
    else if 240 ≤ a.toNat && a.toNat ≤ 244 then
      match rest with
      | b :: c :: d :: _ =>
        let lo := if a.toNat == 240 then 144 else 128
        let hi := if a.toNat == 244 then 143 else 191
        if lo ≤ b.toNat && b.toNat ≤ hi && isCont c && isCont d then 4 else 0
      | _ => 0
    else 0

def validUTF8Aux : Nat → Bytes → Bool
  | 0, s => s.isEmpty
  | fuel + 1, s => match s with
    | [] => true
    | _ :: _ => match utf8Len s with
      | 0 => false
      | k + 1 => validUTF8Aux fuel (s.drop (k + 1))

def validUTF8 (s : Bytes) : Bool := validUTF8Aux s.length s

/-! ### the fixed recognisers of tryInsertLiteral -/

def asciiLower (b : UInt8) : UInt8 := if 65 ≤ b.toNat && b.toNat ≤ 90 then b + 32 else b

/-- `asciiEqualFold(s, lowerWord)` -/
def asciiEqualFold (s w : Bytes) : Bool := s.length == w.length && s.map asciiLower == w

def wTrue : Bytes := [116, 114, 117, 101]          -- "true"
def wFalse : Bytes := [102, 97, 108, 115, 101]     -- "false"

/-- `strings.TrimPrefix(s, "-")` -/
def stripMinus : Bytes → Bytes
  | [] => []
  | a :: t => if a.toNat == cMinus then t else a :: t

def hasMinus : Bytes → Bool
  | [] => false
  | a :: _ => a.toNat == cMinus

/-- `s[countDigits(s):]` and `countDigits(s) > 0` -/
def digitsOf (s : Bytes) : Bytes := s.takeWhile isDigit
def afterDigits (s : Bytes) : Bytes := s.dropWhile isDigit

/-- digits, no leading zero except "0" itself -/
def intTok (t : Bytes) : Bool :=
  !(digitsOf t).isEmpty && (afterDigits t).isEmpty &&
  ((digitsOf t).length == 1 || match t with | a :: _ => a.toNat != 48 | [] => false)

/-- `isIntegerLiteralText` -/
def isIntegerLiteralText (s : Bytes) : Bool := intTok (stripMinus s)

/-- "" or (e|E) [+|-] digits+ -/
def expPart (allowEmpty : Bool) : Bytes → Bool
  | [] => allowEmpty
  | a :: r =>
    if a.toNat == 101 || a.toNat == 69 then
      let r1 := match r with
        | s :: r' => if s.toNat == cPlus || s.toNat == cMinus then r' else s :: r'
        | [] => []
      !(digitsOf r1).isEmpty && (afterDigits r1).isEmpty
    else false

/-- `isRealLiteralText` after the sign: digits '.' digits [exponent] -/
def pointReal (t : Bytes) : Bool :=
  !(digitsOf t).isEmpty &&
  match afterDigits t with
  | d :: r => d.toNat == cDot && !(digitsOf r).isEmpty && expPart true (afterDigits r)
  | [] => false

def isRealLiteralText (s : Bytes) : Bool := pointReal (stripMinus s)

def decVal (ds : Bytes) : Nat := ds.foldl (fun a d => a * 10 + (d.toNat - 48)) 0

/-- `strconv.ParseInt(s, 10, 64)`: optional sign, decimal digits (no underscores in base 10), range -/
def parseInt64 (s : Bytes) : Option Int :=
  let (neg, ds) : Bool × Bytes := match s with
    | a :: t => if a.toNat == cMinus then (true, t) else if a.toNat == cPlus then (false, t) else (false, a :: t)
    | [] => (false, [])
  if ds.isEmpty || !ds.all isDigit then none
  else
    let m := decVal ds
    if neg then (if m ≤ 2^63 then some (-(m : Int)) else none)
    else (if m < 2^63 then some (m : Int) else none)

def isQuoted (t : Bytes) : Bool :=
  t.length ≥ 2 && (match t with | a :: _ => a.toNat == cQuote | [] => false) &&
  (match t.getLast? with | some z => z.toNat == cQuote | none => false)

def unquote (t : Bytes) : Bytes := (t.drop 1).dropLast

def hasByte (n : Nat) (s : Bytes) : Bool := s.any (fun b => b.toNat == n)

/-- the "Number literals" block of tryInsertLiteral: guarded by the first byte of `valueStr`, decided on the trimmed text -/
def numShortcut (ferr : Bytes → Bool) (valueStr trimmed : Bytes) : Option LitVal :=
  match valueStr with
  | c :: _ =>
    if c.toNat == cMinus || isDigit c then
      if !hasByte cDot valueStr then
        (if isIntegerLiteralText trimmed then (parseInt64 trimmed).map LitVal.int else none)
      else
        (if isRealLiteralText trimmed && !ferr trimmed then some (.real (hasMinus trimmed) (stripMinus trimmed)) else none)
    else none
  | [] => none

/-- the "String literals (quoted)" block -/
def strShortcut (trimmed : Bytes) : Option LitVal :=
  if isQuoted trimmed && !hasByte cBackslash (unquote trimmed) && !hasByte cQuote (unquote trimmed)
      && validUTF8 (unquote trimmed) then some (.str (unquote trimmed))
  else none

/-- `tryInsertLiteral`: `some v` = the fast path inserted `v`; `none` = "not a simple literal" -/
def tryLit (ferr : Bytes → Bool) (valueStr : Bytes) : Option LitVal :=
  let trimmed := trimSpace valueStr
  if asciiEqualFold trimmed wTrue then some (.bool true)
  else if asciiEqualFold trimmed wFalse then some (.bool false)
  else
    match numShortcut ferr valueStr trimmed with
    | some v => some v
    | none => strShortcut trimmed

/-! ### decodeOldClassAdString -/

def decodeOldAux : Bytes → Bytes → Option Bytes
  | [], acc => some acc.reverse
  | [a], acc => if a.toNat == cQuote then none else some (a :: acc).reverse
  | a :: b :: rest, acc =>
    if a.toNat == cBackslash && b.toNat == cQuote then decodeOldAux rest (b :: acc)
    else if a.toNat == cQuote then none
    else decodeOldAux (b :: rest) (a :: acc)

/-- the content between the quotes of an old-ClassAd string: `\"` is a quote, every other byte
    (a lone backslash included) is itself; an unescaped interior quote means "not a lone string" -/
def decodeOld (inner : Bytes) : Option Bytes :=
  if !hasByte cBackslash inner && !hasByte cQuote inner then some inner else decodeOldAux inner []

/-! ### parseAndInsertExpression -/

inductive Outcome
  | lit (v : LitVal)        -- the fast path inserted a literal
  | full (text : Bytes)     -- classad.ParseExpr(text) succeeded: its expression is inserted
  | old (s : Bytes)         -- parser rejected; the value is a lone old-ClassAd string `s`
  deriving DecidableEq, Repr

/-- split at the first '=' -/
def splitEq : Bytes → Option (Bytes × Bytes)
  | [] => none
  | a :: rest =>
    if a.toNat == cEq then some ([], rest)
    else match splitEq rest with
      | some (l, r) => some (a :: l, r)
      | none => none

def parseAndInsert (ferr parserOK : Bytes → Bool) (exprStr : Bytes) : Except Err (Bytes × Outcome) :=
  match splitEq exprStr with
  | none => .error .malformed
  | some (l, r) =>
    let attr := trimSpace l
    let valueStr := trimSpace r
    if attr.isEmpty then .error .malformed
    else match tryLit ferr valueStr with
      | some v => .ok (attr, .lit v)
      | none =>
        if parserOK valueStr then .ok (attr, .full valueStr)
        else
          let t := trimSpace valueStr
          if isQuoted t then
            match decodeOld (unquote t) with
            | some s => .ok (attr, .old s)
            | none => .error .malformed
          else .error .malformed

/-! ### Reference description of the parser's literal syntax (tested against classad.ParseExpr) -/

/-- real literal token of the lexer: `D+ . D+ [exp]`, `D+ exp`, `. D+ [exp]` -/
def realTok (t : Bytes) : Bool :=
  match afterDigits t with
  | [] => false
  | d :: r =>
    if d.toNat == cDot then !(digitsOf r).isEmpty && expPart true (afterDigits r)
    else !(digitsOf t).isEmpty && expPart false (d :: r)

/-- a number token with the sign the unary minus in front of it contributes -/
def numTok (neg : Bool) (u : Bytes) : Option LitVal :=
  if intTok u then
    let m := decVal u
    if m < 2^63 then some (.int (if neg then -(m : Int) else (m : Int)))
    else if neg && m == 2^63 then some (.int (-(2^63 : Int)))   -- '-' INT64_MIN_MAGNITUDE
    else none
  else if realTok u then some (.real neg u)
  else none

/-- UTF-8 encoding of a code point below 256 (`WriteRune(rune(val))` of an octal escape) -/
def encLatin1 (v : Nat) : Bytes :=
  if v < 128 then [UInt8.ofNat v] else [UInt8.ofNat (192 + v / 64), UInt8.ofNat (128 + v % 64)]

def octVal (ds : Bytes) : Nat := ds.foldl (fun a d => a * 8 + (d.toNat - 48)) 0

/-- body of one string token (the opening quote is consumed): escapes decoded, ill-formed UTF-8
    replaced by U+FFFD; returns the value and the text after the closing quote -/
def strBody : Nat → Bytes → Bytes → Option (Bytes × Bytes)
  | 0, _, _ => none
  | _ + 1, [], _ => none                                   -- unterminated
  | fuel + 1, a :: rest, acc =>
    if a.toNat == cQuote then some (acc.reverse, rest)
    else if a.toNat == cBackslash then
      match rest with
      | [] => none
      | e :: rest' =>
        let simple (c : Nat) := strBody fuel rest' (UInt8.ofNat c :: acc)
        if e.toNat == 98 then simple 8            -- \b
        else if e.toNat == 116 then simple 9      -- \t
        else if e.toNat == 110 then simple 10     -- \n
        else if e.toNat == 102 then simple 12     -- \f
        else if e.toNat == 114 then simple 13     -- \r
        else if e.toNat == cBackslash then simple 92
        else if e.toNat == cQuote then simple 34
        else if e.toNat == 39 then simple 39      -- \'
        else if isOctal e then
          let maxMore := if e.toNat ≤ 51 then 2 else 1
          let more := (rest'.take maxMore).takeWhile isOctal
          let v := octVal (e :: more)
          if v == 0 then none
          else strBody fuel (rest'.drop more.length) ((encLatin1 v).reverse ++ acc)
        else none                                  -- invalid escape
    else
      match utf8Len (a :: rest) with
      | 0 => strBody fuel rest (189 :: 191 :: 239 :: acc)          -- U+FFFD = EF BF BD
      | k + 1 => strBody fuel ((a :: rest).drop (k + 1)) (((a :: rest).take (k + 1)).reverse ++ acc)

/-- adjacent string tokens concatenate (`"a" "b"` is `"ab"`); `s` starts at an opening quote -/
def strToks : Nat → Bytes → Bytes → Option Bytes
  | 0, _, _ => none
  | fuel + 1, s, acc =>
    match s with
    | q :: body =>
      if q.toNat == cQuote then
        match strBody (body.length + 1) body [] with
        | none => none
        | some (v, rest) =>
          match trimLeft rest with
          | [] => some (acc ++ v)
          | r => strToks fuel r (acc ++ v)
      else none
    | [] => none

/-- what the parser assigns to a text without surrounding blanks when it is one literal -/
def litCore (t : Bytes) : Option LitVal :=
  if asciiEqualFold t wTrue then some (.bool true)
  else if asciiEqualFold t wFalse then some (.bool false)
  else match t with
    | [] => none
    | a :: r =>
      if a.toNat == cQuote then (strToks (t.length + 1) t []).map LitVal.str
      else if a.toNat == cMinus then numTok true (trimLeft r)
      else numTok false t

/-- what the parser assigns to `s` when `s` is one literal (up to the sign of a number) -/
def litParse (s : Bytes) : Option LitVal := litCore (trimSpace s)

/-- **LitGrammar**: the external parser reads `s` as the literal `v` -/
def LitGrammar (v : LitVal) (s : Bytes) : Prop := litParse s = some v

instance (v : LitVal) (s : Bytes) : Decidable (LitGrammar v s) := by unfold LitGrammar; infer_instance

end Cedar
