/-
  L7 CcbDial: the requester side of a CCB dial (standard reverse-connect, proxied/streaming,
  nested contacts, the staggered multi-broker race).
  models: ccb.GenerateConnectID, ccb.readReverseConnect, ccb.ReadReverseConnectAd, ccb.AdString,
          ccb.acceptReversed, ccb.readBrokerFailure, ccb.dialStandard, ccb.proxyRequestOnStream,
          ccb.dialProxy, ccb.proxyRequestDial, ccb.resolveContact, ccb.newReverseListener,
          ccb.dialOne, ccb.Dial

  What is a parameter (DESIGN §3): the RNG (`rng : Nat → Id`, one symbol per draw), the frame /
  ClassAd parsers (a reverse connection is presented to the model already classified as a
  `Greeting`), the network and the Go scheduler (an explicit event list = the schedule), time
  (`cancel`, `stagger` are events).  Connections are identified by their arrival index at the
  attempt's listener.  Core Lean only.
-/
import CedarModel.Basic
import CedarGen.Consts

namespace Cedar.Ccb
open CedarGen

/-- a connect id (Go: 40 hex characters); also whatever string a peer puts into `ClaimId` -/
abbrev Id := String

/-- `CommandReverseConnect = commands.CCB_REVERSE_CONNECT` -/
def reverseConnectCmd : Int := (commands.CCB_REVERSE_CONNECT : Nat)

/-- What a connection presents as its opening message, as `readReverseConnect` experiences it.
    `hello cmd claim`: one well-formed message = command integer + ClassAd whose `ClaimId`
    evaluates to the string `claim` (`AdString` gives "" when the attribute is absent or not a
    string).  `garbage`: bytes that fail frame / integer / ClassAd decoding.  `closed`: EOF before
    a complete message.  `silent`: nothing (or an incomplete frame) — the read blocks until the
    context is cancelled. -/
inductive Greeting
  | closed
  | garbage
  | silent
  | hello (cmd : Int) (claim : String)
  deriving DecidableEq, Repr, Inhabited

/-- `readReverseConnect` followed by `AdString(helloAd, AttrClaimID)`; `none` = the read failed
    (for `silent`: failed once the context is done). -/
def readHello : Greeting → Option String
  | .hello cmd claim => if cmd = reverseConnectCmd then some claim else none
  | _ => none

/-- the test `got == connectID` of acceptReversed / proxyRequestOnStream on a readable hello -/
def Greeting.presents (g : Greeting) (id : Id) : Bool := readHello g == some id

/-- error classes of one broker attempt (what `dialOne` returns) -/
inductive AErr
  | brokerFailure (msg : String)   -- "ccb: broker failure: <ErrorString>"
  | brokerRead                      -- reply could not be read (broker closed, junk)
  | ctx                             -- context done (deadline, cancel, Dial returned)
  | refused (msg : String)          -- proxied: "broker refused proxy request: …"
  | unsupported                     -- StreamingUnsupportedError
  | noStreaming                     -- version gate, streaming optional
  | helloRead                       -- proxied: the replayed hello could not be read
  | idMismatch                      -- proxied: hello carried another id
  | malformedContact                -- nested contact did not split
  | brokerDial                      -- connecting / authenticating to the broker failed
  deriving DecidableEq, Repr, Inhabited

def AErr.name : AErr → String
  | .brokerFailure m => "brokerFailure:" ++ m
  | .brokerRead => "brokerRead" | .ctx => "ctx" | .refused m => "refused:" ++ m
  | .unsupported => "unsupported" | .noStreaming => "noStreaming" | .helloRead => "helloRead"
  | .idMismatch => "idMismatch" | .malformedContact => "malformedContact" | .brokerDial => "brokerDial"

/-! ### Standard mode: `dialStandard` = accept goroutine ‖ reply goroutine ‖ select loop -/

/-- what `readBrokerFailure` puts into `replyCh` -/
inductive Reply
  | success                  -- {Result = true}: nil
  | failure (msg : String)   -- Result false or absent: "broker failure: " + ErrorString
  | readErr                  -- ReadControlAd failed
  | ctxErr                   -- ReadControlAd interrupted by the context
  deriving DecidableEq, Repr, Inhabited

/-- the accept goroutine (`acceptReversed`) -/
inductive Acc
  | accepting          -- blocked in ln.Accept()
  | reading (k : Nat)  -- blocked in readReverseConnect on connection k (it sent nothing yet)
  | got (k : Nat)      -- returned connection k (put into acceptCh)
  | failed             -- returned ctx.Err() (put into acceptCh)
  deriving DecidableEq, Repr, Inhabited

structure Std where
  id        : Id
  seen      : List Greeting := []   -- connections that reached the listener, in arrival order
  acc       : Acc := .accepting
  closed    : List Nat := []        -- closed by the requester (conn.Close, listener teardown, ctx)
  queued    : List Nat := []        -- sitting in the listen backlog, not accepted
  replyCh   : Option Reply := none  -- value waiting in replyCh
  replyRead : Bool := false         -- readBrokerFailure has returned (it reads ONE ad)
  replyOn   : Bool := true          -- the select still listens on replyCh (not nil-ed)
  ctxDone   : Bool := false
  result    : Option (Except AErr Nat) := none   -- set when dialStandard returns
  deriving Repr, Inhabited

/-- the schedule alphabet of one standard attempt -/
inductive Ev
  | arrive (g : Greeting)   -- a reverse connection reaches the listener
  | reply (r : Reply)       -- the broker's answer becomes readable
  | cancel                  -- the attempt's context becomes done
  | pickAccept              -- the select takes the acceptCh case
  | pickReply               -- the select takes the replyCh case
  | pickCtx                 -- the select takes the ctx.Done case
  | brokerFail              -- dialBrokerAuth / WriteControlAd failed: dialStandard returns before the race starts
  deriving DecidableEq, Repr, Inhabited

/-- `return` of dialStandard: the deferred `ln.Close()` resets everything still in the backlog
    and makes a blocked Accept fail (that goroutine's error is dropped). -/
def Std.ret (s : Std) (r : Except AErr Nat) : Std :=
  { s with result := some r, closed := s.queued ++ s.closed, queued := [],
           acc := if s.acc = .accepting then .failed else s.acc }

/-- a connection arrives while the accept goroutine sits in `ln.Accept()` -/
def Std.accept (s : Std) (k : Nat) (g : Greeting) : Std :=
  if s.ctxDone then
    -- readWithContext returns ctx.Err() at once; conn.Close(); loop top returns ctx.Err()
    { s with closed := k :: s.closed, acc := .failed }
  else match g with
    | .silent => { s with acc := .reading k }
    | g => if g.presents s.id then { s with acc := .got k } else { s with closed := k :: s.closed }

def Std.step (s : Std) (e : Ev) : Std :=
  match s.result with
  | some _ =>
    -- dialStandard has returned; its goroutines may still be winding down
    match e with
    | .arrive g => { s with seen := s.seen ++ [g], closed := s.seen.length :: s.closed }  -- listener gone: refused
    | .cancel =>
      match s.acc with
      | .reading k => { s with ctxDone := true, closed := k :: s.closed, acc := .failed }
      | _ => { s with ctxDone := true }
    | _ => s
  | none =>
    match e with
    | .arrive g =>
      let k := s.seen.length
      let s1 := { s with seen := s.seen ++ [g] }
      match s.acc with
      | .accepting => s1.accept k g
      | _ => { s1 with queued := k :: s.queued }
    | .reply r =>
      if s.replyRead then s else { s with replyRead := true, replyCh := some r }
    | .cancel =>
      let s1 := { s with ctxDone := true }
      let s2 := match s.acc with
        | .reading k => { s1 with closed := k :: s.closed, acc := .failed }
        | _ => s1
      if s.replyRead then s2 else { s2 with replyRead := true, replyCh := some .ctxErr }
    | .pickAccept =>
      match s.acc with
      | .got k => s.ret (.ok k)
      | .failed => s.ret (.error .ctx)
      | _ => s
    | .pickReply =>
      if s.replyOn then
        match s.replyCh with
        | some .success => { s with replyOn := false, replyCh := none }
        | some (.failure m) => s.ret (.error (.brokerFailure m))
        | some .readErr => s.ret (.error .brokerRead)
        | some .ctxErr => s.ret (.error .ctx)
        | none => s
      else s
    | .pickCtx => if s.ctxDone then s.ret (.error .ctx) else s
    | .brokerFail =>
      -- only before the request went out: nobody has been told the listener's address yet
      if s.seen.isEmpty ∧ !s.replyRead then s.ret (.error .brokerDial) else s

def Std.run (s : Std) (evs : List Ev) : Std := evs.foldl Std.step s

def Std.init (id : Id) : Std := { id := id }

/-- the accepted-and-matching connection nobody will ever use: dialStandard returned something
    else while `acceptCh` holds it (buffered channel, never read).  Observed, not part of C20. -/
def Std.orphan (s : Std) : Option Nat :=
  match s.acc, s.result with
  | .got k, some (.ok j) => if j = k then none else some k
  | .got k, some (.error _) => some k
  | _, _ => none

/-! ### Proxied mode: `proxyRequestOnStream` (reply, then the replayed hello, same socket) -/

structure ReplyAd where
  result      : Bool            -- AdBool(reply, Result), false when absent
  unsupported : Bool := false   -- CCBStreamingUnsupported
  err         : String := ""    -- ErrorString
  claim       : Option String := none   -- a ClaimId attribute the reply itself carries (results forwarded by a broker do); never consulted
  deriving DecidableEq, Repr, Inhabited

inductive PReply
  | ad (a : ReplyAd)
  | readErr
  deriving DecidableEq, Repr, Inhabited

/-- `ok ()` = brokerConn is handed back; any error = brokerConn is closed (deferred). -/
def proxyRequest (id : Id) (reply : PReply) (hello : Greeting) : Except AErr Unit :=
  match reply with
  | .readErr => .error .brokerRead
  | .ad a =>
    if !a.result then
      if a.unsupported then .error .unsupported else .error (.refused a.err)
    else match hello with
      | .silent => .error .ctx         -- blocks until the context is done
      | g => match readHello g with
        | none => .error .helloRead
        | some got => if got ≠ id then .error .idMismatch else .ok ()

/-- `dialProxy` / `proxyRequestDial` up to the request: connect+authenticate, version gate -/
structure Broker where
  up          : Bool := true    -- dialBrokerAuth succeeds
  streamingOk : Bool := true    -- brokerSupportsStreaming(neg)
  deriving DecidableEq, Repr, Inhabited

def dialProxy (id : Id) (b : Broker) (requireStreaming : Bool) (reply : PReply) (hello : Greeting) :
    Except AErr Unit :=
  if !b.up then .error .brokerDial
  else if !b.streamingOk then (if requireStreaming then .error .unsupported else .error .noStreaming)
  else proxyRequest id reply hello

/-- `proxyRequestDial` (nested contacts): no RequireStreaming distinction -/
def proxyRequestDial (id : Id) (b : Broker) (reply : PReply) (hello : Greeting) : Except AErr Unit :=
  if !b.up then .error .brokerDial
  else if !b.streamingOk then .error .noStreaming
  else proxyRequest id reply hello

/-! ### `dialOne`: one fresh id per attempt -/

inductive Contact
  | flat                      -- "<host:port>#id"
  | nested (splitOk : Bool)   -- broker address itself carries '#': resolveContact
  deriving DecidableEq, Repr, Inhabited

structure Opts where
  proxy            : Bool := false   -- ProxyReturnAddr ≠ ""
  requireStreaming : Bool := false
  anonEndpoint     : Bool := false   -- SharedPortEndpoint with empty SocketName (standard mode)
  deriving DecidableEq, Repr, Inhabited

inductive Mode | std | proxy | nested
  deriving DecidableEq, Repr, Inhabited

/-- what dialOne decides before any I/O: the mode, the draw that is the connect id, the draw
    counter afterwards (`newReverseListener` spends one more draw on an anonymous endpoint name) -/
structure Launch where
  mode   : Mode
  idDraw : Nat
  ctr    : Nat
  deriving DecidableEq, Repr, Inhabited

def dialOne (ctr : Nat) (c : Contact) (o : Opts) : Except AErr Launch :=
  match c with
  | .nested false => .error .malformedContact        -- before GenerateConnectID
  | .nested true => .ok { mode := .nested, idDraw := ctr, ctr := ctr + 1 }
  | .flat =>
    if o.proxy then .ok { mode := .proxy, idDraw := ctr, ctr := ctr + 1 }
    else .ok { mode := .std, idDraw := ctr, ctr := if o.anonEndpoint then ctr + 2 else ctr + 1 }

/-! ### `Dial`: the staggered race over several brokers -/

/-- a launched attempt -/
inductive Att
  | std (s : Std)
  /-- proxied / nested / failed before any I/O: the hello the broker replayed (once the attempt
      ran), and the attempt's result -/
  | prx (id : Id) (hello : Option Greeting) (r : Option (Except AErr Unit))
  deriving Repr, Inhabited

def Att.id : Att → Id
  | .std s => s.id
  | .prx id _ _ => id

/-- result of the attempt as `dialOne` returns it: connection index (proxied: 0 = the broker socket) -/
def Att.result : Att → Option (Except AErr Nat)
  | .std s => s.result
  | .prx _ _ r => r.map (fun x => x.map (fun _ => 0))

inductive DErr
  | timeout                       -- ctx.Done in Dial's select
  | allFailed (errs : List AErr)
  deriving DecidableEq, Repr, Inhabited

structure Sys where
  contacts  : List Contact
  opts      : Opts
  sequential : Bool := false        -- Stagger < 0
  ctr       : Nat := 0              -- RNG draws so far
  atts      : List Att := []        -- launched attempts, launch order (`next` = length)
  draws     : List (Option Nat) := []   -- RNG draw that became each launched attempt's id (same order)
  delivered : List Nat := []        -- attempts whose result Dial has taken from `results`
  errs      : List AErr := []
  ctxDone   : Bool := false
  result    : Option (Except DErr (Nat × Nat)) := none   -- (attempt, connection)
  deriving Repr, Inhabited

inductive DEv
  | att (a : Nat) (e : Ev)                          -- a standard attempt's own event
  | prx (a : Nat) (b : Broker) (reply : PReply) (hello : Greeting)  -- a proxied attempt runs to its end
  | deliver (a : Nat)                                -- select takes attempt a's result
  | stagger                                          -- the stagger timer fires
  | cancel                                           -- Dial's context is done (timeout / caller)
  | pickCtx                                          -- select takes ctx.Done
  deriving Repr, Inhabited

def Sys.inflight (y : Sys) : Nat := y.atts.length - y.delivered.length

/-- `launch()`: dialOne on the next contact -/
def Sys.launch (rng : Nat → Id) (y : Sys) : Sys :=
  match y.contacts[y.atts.length]? with
  | none => y
  | some c =>
    match dialOne y.ctr c y.opts with
    | .error e => { y with atts := y.atts ++ [.prx "" none (some (.error e))], draws := y.draws ++ [none] }
    | .ok l =>
      let a : Att := match l.mode with
        | .std => .std (Std.init (rng l.idDraw))
        | _ => .prx (rng l.idDraw) none none
      { y with atts := y.atts ++ [a], draws := y.draws ++ [some l.idDraw], ctr := l.ctr }

/-- Dial returns: deferred attemptCancel() / cancel() reach every attempt -/
def Att.cancel : Att → Att
  | .std s => .std (s.step .cancel)
  | .prx id h none => .prx id h (some (.error .ctx))
  | a => a

def Sys.ret (y : Sys) (r : Except DErr (Nat × Nat)) : Sys :=
  { y with result := some r, ctxDone := true, atts := y.atts.map Att.cancel }

def Sys.init (rng : Nat → Id) (contacts : List Contact) (opts : Opts) (sequential : Bool) : Sys :=
  Sys.launch rng { contacts := contacts, opts := opts, sequential := sequential }

def modifyAt {α : Type} (l : List α) (i : Nat) (f : α → α) : List α :=
  match l, i with
  | [], _ => []
  | x :: xs, 0 => f x :: xs
  | x :: xs, i + 1 => x :: modifyAt xs i f

/-- one event of a standard attempt -/
def Att.stepEv (ev : Ev) : Att → Att
  | .std s => .std (s.step ev)
  | t => t

/-- a proxied / nested attempt runs to its end (flat contact + ProxyReturnAddr: dialProxy,
    nested contact: proxyRequestDial) -/
def Att.runPrx (flatProxy requireStreaming : Bool) (b : Broker) (reply : PReply) (hello : Greeting) : Att → Att
  | .prx id _ none =>
    .prx id (some hello) (some (if flatProxy then dialProxy id b requireStreaming reply hello
                                else proxyRequestDial id b reply hello))
  | t => t

def Sys.step (rng : Nat → Id) (y : Sys) (e : DEv) : Sys :=
  match e with
  | .att a ev =>
    -- the attempts live on after Dial returned (they are only cancelled)
    { y with atts := modifyAt y.atts a (Att.stepEv ev) }
  | .prx a b reply hello =>
    let flatProxy := y.opts.proxy && (y.contacts[a]? == some .flat)
    { y with atts := modifyAt y.atts a (Att.runPrx flatProxy y.opts.requireStreaming b reply hello) }
  | .deliver a =>
    match y.result with
    | some _ => y          -- nobody reads `results` any more (buffered: the sender does not block)
    | none =>
      if y.delivered.contains a then y else
      match (y.atts[a]?).bind Att.result with
      | none => y
      | some (.ok k) => ({ y with delivered := a :: y.delivered }).ret (.ok (a, k))
      | some (.error e) =>
        let y1 := { y with delivered := a :: y.delivered, errs := y.errs ++ [e] }
        let y2 := if y1.atts.length < y1.contacts.length then y1.launch rng else y1
        if y2.inflight = 0 then y2.ret (.error (.allFailed y2.errs)) else y2
  | .stagger =>
    match y.result with
    | some _ => y
    | none => if !y.sequential ∧ y.atts.length < y.contacts.length then y.launch rng else y
  | .cancel =>
    match y.result with
    | some _ => y
    | none => { y with ctxDone := true, atts := y.atts.map Att.cancel }
  | .pickCtx =>
    match y.result with
    | some _ => y
    | none => if y.ctxDone then y.ret (.error .timeout) else y

def Sys.run (rng : Nat → Id) (y : Sys) (evs : List DEv) : Sys := evs.foldl (Sys.step rng) y

end Cedar.Ccb
