/-
  L7 ClaimId: minting a claim id (startd side), parsing and importing it (schedd/shadow side),
  the session_info text (export / import), the loggable public form, and the cache entries both
  ends register. Strings are Go strings, i.e. byte sequences (`Bytes`).

  models: security.ParseClaimIDStrict, security.ClaimID.SecSessionID, security.ClaimID.PublicClaimID,
          security.ImportSessionInfoAttributes, security.ImportSecSessionInfo,
          security.ExportSecSessionInfo, security.quote, security.shortVersion, security.sortStrings,
          security.MintClaimSession, security.boolYesNo, security.joinInts, security.randomHexKey,
          security.ImportClaimSession, security.ImportFileTransferSession,
          security.deriveClaimKeyInfo, security.deriveSessionKey, security.claimExpiration,
          security.mapClaimCommands, security.SessionCache.Store, security.SessionCache.LookupNonExpired,
          security.SessionEntry.IsExpired, security.SessionCache.MapCommand

  Parameters / opaque symbols (DESIGN §3): the random secret (`randomHexKey`) and `time.Now()` are
  arguments; HKDF-SHA256(secret, salt "htcondor", info "keygen", 32) is the free constructor
  `Key.hkdf`, so two keys are equal iff the secrets are. A ClassAd policy is an association list
  with typed values (string / integer / boolean), `Set` replaces, `EvaluateAttrString/Int/Bool`
  are strictly typed (as in PelicanPlatform/classad). `strings.TrimSpace` / `strings.Fields` are
  modelled for ASCII white space only (Go also trims Unicode spaces encoded in UTF-8).
  Core Lean only.
-/
import CedarModel.Basic
import CedarGen.Consts

namespace Cedar.Claim
open Cedar CedarGen

-- byte-string literal: `b!"Sid"` is the list of the UTF-8 bytes, as numerals
open Lean in
macro:max "b!" s:str : term => do
  let cs : Array (TSyntax `term) :=
    (s.getString.toUTF8.toList.map (fun c => (Syntax.mkNumLit (toString c.toNat) : TSyntax `term))).toArray
  `(([ $cs,* ] : List UInt8))

/-- a regenerated string constant as bytes -/
def str (s : String) : Bytes := s.toUTF8.toList

/-! ## Go `strings` helpers -/

def isSpace (b : UInt8) : Bool := b == 32 || b == 9 || b == 10 || b == 11 || b == 12 || b == 13
def isDigit (b : UInt8) : Bool := decide (48 ≤ b.toNat) && decide (b.toNat ≤ 57)

def trimLeftBy (p : UInt8 → Bool) (s : Bytes) : Bytes := s.dropWhile p
def trimRightBy (p : UInt8 → Bool) (s : Bytes) : Bytes := (s.reverse.dropWhile p).reverse
/-- `strings.TrimSpace` (ASCII) -/
def trimSpace (s : Bytes) : Bytes := trimRightBy isSpace (trimLeftBy isSpace s)

/-- `strings.ReplaceAll(s, x, y)` for single bytes -/
def replace (x y : UInt8) (s : Bytes) : Bytes := s.map (fun b => if b = x then y else b)

/-- `strings.Split(s, c)` -/
def splitOn (c : UInt8) : Bytes → List Bytes
  | [] => [[]]
  | b :: bs =>
    if b = c then [] :: splitOn c bs
    else match splitOn c bs with
      | [] => [[b]]
      | h :: t => (b :: h) :: t

/-- `strings.Split(s, c)[0]` -/
def firstOf (c : UInt8) (s : Bytes) : Bytes := s.takeWhile (fun b => b != c)

/-- cut at the first `c`: `(s[:i], s[i+1:])` with `i = strings.Index(s, c)` -/
def splitFirst (c : UInt8) : Bytes → Option (Bytes × Bytes)
  | [] => none
  | b :: bs =>
    if b = c then some ([], bs)
    else match splitFirst c bs with
      | some (p, q) => some (b :: p, q)
      | none => none

/-- cut at the last `c`: `(s[:i], s[i+1:])` with `i = strings.LastIndex(s, c)` -/
def splitLast (c : UInt8) : Bytes → Option (Bytes × Bytes)
  | [] => none
  | b :: bs =>
    match splitLast c bs with
    | some (p, q) => some (b :: p, q)
    | none => if b = c then some ([], bs) else none

def trimPrefix1 (c : UInt8) : Bytes → Bytes
  | [] => []
  | b :: bs => if b = c then bs else b :: bs

def trimSuffix1 (c : UInt8) (s : Bytes) : Bytes := if s.getLast? = some c then s.dropLast else s

/-- `strings.Fields` (ASCII white space); `cur` is the token being read, reversed -/
def fieldsAux : Bytes → Bytes → List Bytes
  | [], cur => if cur = [] then [] else [cur.reverse]
  | b :: bs, cur =>
    if isSpace b then (if cur = [] then fieldsAux bs [] else cur.reverse :: fieldsAux bs [])
    else fieldsAux bs (b :: cur)
def fields (s : Bytes) : List Bytes := fieldsAux s []

/-! ## decimal integers: `strconv.FormatInt(v, 10)`, `%d`, `strconv.ParseInt(s, 10, 64)` -/

/-- decimal digits, least significant first (`fuel` bounds the recursion; `n` itself suffices) -/
def revDigitsAux : Nat → Nat → Bytes
  | 0, n => [UInt8.ofNat (48 + n % 10)]
  | fuel + 1, n =>
    if n < 10 then [UInt8.ofNat (48 + n)] else UInt8.ofNat (48 + n % 10) :: revDigitsAux fuel (n / 10)
def revDigits (n : Nat) : Bytes := revDigitsAux n n

def fmtNat (n : Nat) : Bytes := (revDigits n).reverse
def fmtInt (i : Int) : Bytes := if i < 0 then 45 :: fmtNat i.natAbs else fmtNat i.toNat

/-- value of a digit string given least significant first; `none` on a non-digit -/
def decValRev : Bytes → Option Nat
  | [] => some 0
  | b :: bs =>
    if isDigit b then
      match decValRev bs with
      | some v => some (v * 10 + (b.toNat - 48))
      | none => none
    else none

def int64Max : Nat := 9223372036854775807

/-- digits (at least one, nothing else) with the sign already consumed; int64 range check -/
def parseMag (neg : Bool) (ds : Bytes) : Option Int :=
  if ds = [] then none
  else match decValRev ds.reverse with
    | none => none
    | some n =>
      if neg then (if n ≤ int64Max + 1 then some (-(n : Int)) else none)
      else (if n ≤ int64Max then some (n : Int) else none)

/-- `strconv.ParseInt(s, 10, 64)`: optional sign, at least one digit, nothing else, in range -/
def parseInt64 (s : Bytes) : Option Int :=
  match s with
  | 45 :: r => parseMag true r
  | 43 :: r => parseMag false r
  | _ => parseMag false s

/-! ## policy ClassAds -/

inductive Val
  | s (v : Bytes)
  | i (v : Int)
  | b (v : Bool)
  deriving DecidableEq, Repr, Inhabited

abbrev Policy := List (Bytes × Val)

/-- `ClassAd.Set`: insert or replace -/
def Policy.set (p : Policy) (n : Bytes) (v : Val) : Policy := (n, v) :: p.filter (fun kv => kv.1 != n)

def Policy.evalStr (p : Policy) (n : Bytes) : Option Bytes :=
  match p.lookup n with
  | some (.s v) => some v
  | _ => none

/-- a present, non-empty string attribute (`v, ok := EvaluateAttrString(n); ok && v != ""`) -/
def Policy.nonEmptyStr (p : Policy) (n : Bytes) : Option Bytes :=
  match p.evalStr n with
  | some v => if v = [] then none else some v
  | none => none

def nIntegrity : Bytes := b!"Integrity"
def nEncryption : Bytes := b!"Encryption"
def nValidCommands : Bytes := b!"ValidCommands"
def nSessionExpires : Bytes := b!"SessionExpires"
def nCryptoMethods : Bytes := b!"CryptoMethods"
def nCryptoMethodsList : Bytes := b!"CryptoMethodsList"
def nRemoteVersion : Bytes := b!"RemoteVersion"
def nShortVersion : Bytes := b!"ShortVersion"
def nSecUseSession : Bytes := b!"SecUseSession"
def nSid : Bytes := b!"Sid"
def nEnact : Bytes := b!"Enact"
def nNegotiatedSession : Bytes := b!"NegotiatedSession"
def nAuthMethods : Bytes := b!"AuthMethods"
def nUser : Bytes := b!"User"
def nAuthenticated : Bytes := b!"Authenticated"

def sYES : Bytes := b!"YES"
def sNO : Bytes := b!"NO"
def sAES : Bytes := b!"AES"
def sAESGCM : Bytes := b!"AESGCM"

/-! ## session_info text: export -/

def quote (v : Bytes) : Bytes := 34 :: (v ++ [34])

def startsDigit : Bytes → Bool
  | b :: _ => isDigit b
  | [] => false

/-- the token test of `shortVersion`: contains '.' and starts with a digit -/
def versionTok (tok : Bytes) : Bool := decide (46 ∈ tok) && startsDigit tok

/-- `shortVersion`: a version without ' ' and '$' is returned as is; otherwise the first
    white-space separated token containing '.' and starting with a digit, trailing ';' ',' trimmed;
    otherwise the input. -/
def shortVersion (full : Bytes) : Bytes :=
  if ¬ (32 ∈ full ∨ 36 ∈ full) then full
  else match (fields full).find? versionTok with
    | some tok => trimRightBy (fun b => b == 59 || b == 44) tok
    | none => full

/-- the SessionExpires entry: a non-zero integer, or a string that parses to one -/
def expiresField (p : Policy) : Option Bytes :=
  match p.lookup nSessionExpires with
  | some (.i v) => if v = 0 then none else some (fmtInt v)
  | some (.s s) =>
    if s = [] then none
    else match parseInt64 (trimSpace s) with
      | some n => if n = 0 then none else some (fmtInt n)
      | none => none
  | _ => none

def optField (n : Bytes) : Option Bytes → List (Bytes × Bytes)
  | some v => [(n, v)]
  | none => []

/-- The exported (name, rendered value) pairs. The Go code collects them in a map and emits them
    in sorted name order; for the seven names that can occur that order is the one below
    (`exportNames_sorted` in CedarProofs/ClaimId.lean re-computes it with the code's insertion sort). -/
def exportFields (p : Policy) : List (Bytes × Bytes) :=
  let cm := p.nonEmptyStr nCryptoMethods
  optField nCryptoMethods (cm.map (fun v => if 44 ∈ v then quote (trimSpace (firstOf 44 v)) else quote v)) ++
  optField nCryptoMethodsList (cm.bind (fun v => if 44 ∈ v then some (quote (replace 44 46 v)) else none)) ++
  optField nEncryption ((p.nonEmptyStr nEncryption).map quote) ++
  optField nIntegrity ((p.nonEmptyStr nIntegrity).map quote) ++
  optField nSessionExpires (expiresField p) ++
  optField nShortVersion ((p.nonEmptyStr nRemoteVersion).map (fun v => quote (shortVersion v))) ++
  optField nValidCommands ((p.nonEmptyStr nValidCommands).map quote)

def renderItem (kv : Bytes × Bytes) : Bytes := kv.1 ++ 61 :: (kv.2 ++ [59])
def renderItems : List (Bytes × Bytes) → Bytes
  | [] => []
  | kv :: rest => renderItem kv ++ renderItems rest
def render (kvs : List (Bytes × Bytes)) : Bytes := 91 :: (renderItems kvs ++ [93])

/-- `ExportSecSessionInfo` (non-nil policy): bracketed text, refused when it contains '#'. -/
def exportInfo (p : Policy) : Except Err Bytes :=
  let t := render (exportFields p)
  if 35 ∈ t then .error .refused else .ok t

/-- the code's `sortStrings` (insertion sort, byte-wise `>`), used only to re-check the order above -/
def bytesLt : Bytes → Bytes → Bool
  | [], [] => false
  | [], _ :: _ => true
  | _ :: _, [] => false
  | a :: as, b :: bs => if a.toNat < b.toNat then true else if b.toNat < a.toNat then false else bytesLt as bs
def insertSorted (x : Bytes) : List Bytes → List Bytes
  | [] => [x]
  | y :: ys => if bytesLt x y then x :: y :: ys else y :: insertSorted x ys
def sortStrings (l : List Bytes) : List Bytes := l.foldr insertSorted []

/-! ## session_info text: import -/

/-- strip one pair of double quotes; a lone `"` is both prefix and suffix but is left alone
    (`len(attrValue) >= 2`, C13 fix 6 — the slice expression `v[1:len(v)-1]` used to panic on it) -/
def unquote (v : Bytes) : Except Err Bytes :=
  if v.head? = some 34 ∧ v.getLast? = some 34 then
    (match v with
     | [_] => .ok v
     | _ => .ok v.tail.dropLast)
  else .ok v

/-- one `;`-separated item of `ImportSessionInfoAttributes`; newest binding first -/
def importItem (attrs : List (Bytes × Bytes)) (item0 : Bytes) : Except Err (List (Bytes × Bytes)) :=
  let item := trimSpace item0
  if item = [] then .ok attrs
  else match splitFirst 61 item with
    | none => .ok attrs
    | some ([], _) => .ok attrs
    | some (n, v) =>
      match unquote (trimSpace v) with
      | .error e => .error e
      | .ok val => .ok ((trimSpace n, val) :: attrs)

def importItems : List (Bytes × Bytes) → List Bytes → Except Err (List (Bytes × Bytes))
  | attrs, [] => .ok attrs
  | attrs, it :: rest =>
    match importItem attrs it with
    | .error e => .error e
    | .ok a => importItems a rest

/-- `ImportSessionInfoAttributes`: the map as an association list, newest binding first
    (`List.lookup` = Go map lookup). -/
def importAttrs (info : Bytes) : Except Err (List (Bytes × Bytes)) :=
  if info = [] then .ok []
  else importItems [] (splitOn 59 (trimSuffix1 93 (trimPrefix1 91 info)))

def copyIf (attrs : List (Bytes × Bytes)) (p : Policy) (n : Bytes) : Policy :=
  match attrs.lookup n with
  | some v => p.set n (.s v)
  | none => p

/-- `CryptoMethods` of the imported policy: a non-empty CryptoMethodsList overrides CryptoMethods;
    either way '.' is turned back into ',' -/
def cmOfAttrs (attrs : List (Bytes × Bytes)) : Option Bytes :=
  match attrs.lookup nCryptoMethodsList with
  | some l => if l = [] then (attrs.lookup nCryptoMethods).map (replace 46 44) else some (replace 46 44 l)
  | none => (attrs.lookup nCryptoMethods).map (replace 46 44)

/-- the policy `ImportSecSessionInfo` builds from the attribute map, in code order -/
def policyOfAttrs (attrs : List (Bytes × Bytes)) : Policy :=
  let p5 := copyIf attrs (copyIf attrs (copyIf attrs (copyIf attrs (copyIf attrs [] nIntegrity) nEncryption)
    nCryptoMethods) nSessionExpires) nValidCommands
  let p6 := match cmOfAttrs attrs with
    | some cm => p5.set nCryptoMethods (.s cm)
    | none => p5
  match attrs.lookup nShortVersion with
  | some sv => p6.set nRemoteVersion (.s sv)
  | none => p6

/-- `ImportSecSessionInfo` -/
def importInfo (info : Bytes) : Except Err Policy :=
  if info = [] then .ok []
  else if ¬ (info.head? = some 91 ∧ info.getLast? = some 93) then .error .malformed
  else match importAttrs info with
    | .error e => .error e
    | .ok attrs => .ok (policyOfAttrs attrs)

/-! ## claim id grammar -/

structure Parsed where
  sid : Bytes := []
  info : Bytes := []
  key : Bytes := []
  deriving DecidableEq, Repr, Inhabited

/-- `ParseClaimIDStrict`: split on the LAST '#'; session info only when the next byte is '[' and a
    ']' follows (the code searches the last ']' of the whole id and requires it to lie after the
    '#', which is the last ']' of the part after the '#'). -/
def parseStrict (c : Bytes) : Parsed :=
  match splitLast 35 c with
  | none => {}
  | some (pre, after) =>
    match after with
    | 91 :: _ =>
      (match splitLast 93 after with
       | some (infoBody, key) => { sid := pre, info := infoBody ++ [93], key := key }
       | none => { key := after })
    | _ => { key := after }

/-- `(*ClaimID).SecSessionID` -/
def Parsed.secSessionId (c : Parsed) : Bytes := if c.info = [] then [] else c.sid
/-- `(*ClaimID).PublicClaimID` -/
def Parsed.publicId (c : Parsed) : Bytes := if c.sid = [] then [] else c.sid ++ b!"#..."

/-! ## keys, entries, caches -/

/-- HKDF-SHA256(secret, "htcondor", "keygen", 32 bytes): free symbol -/
inductive Key
  | hkdf (secret : Bytes)
  deriving DecidableEq, Repr, Inhabited

inductive Expiry
  | never                 -- zero time.Time
  | unix (secs : Int)     -- time.Unix(secs, 0)
  | at (ns : Int)         -- time.Now().Add(fallback), in unix nanoseconds
  deriving DecidableEq, Repr, Inhabited

/-- `now.After(expiration)` with `now` in unix nanoseconds -/
def Expiry.expiredAt : Expiry → Int → Bool
  | .never, _ => false
  | .unix s, now => decide (s * 1000000000 < now)
  | .at t, now => decide (t < now)

structure Entry where
  id : Bytes
  addr : Bytes
  key : Key
  proto : Bytes
  policy : Policy
  expiry : Expiry
  tag : Bytes
  inherited : Bool
  deriving DecidableEq, Repr, Inhabited

/-- one `MapCommand(tag, addr, cmd, sid)` -/
structure CmdMap where
  tag : Bytes
  addr : Bytes
  cmd : Bytes
  sid : Bytes
  deriving DecidableEq, Repr, Inhabited

/-- `deriveSessionKey(secret, 32)` -/
def deriveSessionKey (secret : Bytes) : Except Err Key :=
  if secret = [] then .error .malformed else .ok (.hkdf secret)

/-- the method `deriveClaimKeyInfo` checks: first entry of CryptoMethods, default AESGCM -/
def keyMethod (p : Policy) : Bytes :=
  match p.nonEmptyStr nCryptoMethods with
  | some cm => if trimSpace (firstOf 44 cm) = [] then sAESGCM else trimSpace (firstOf 44 cm)
  | none => sAESGCM

/-- `deriveClaimKeyInfo`: first method of CryptoMethods (default AESGCM) must be AES/AESGCM -/
def deriveClaimKey (p : Policy) (secret : Bytes) : Except Err Key :=
  if keyMethod p ≠ sAES ∧ keyMethod p ≠ sAESGCM then .error .refused
  else deriveSessionKey secret

/-- the attributes both `MintClaimSession` and `ImportClaimSession` add, in code order -/
def finishPolicy (p : Policy) (sid user : Bytes) : Policy :=
  (((((((p.set nSecUseSession (.s sYES)).set nSid (.s sid)).set nEnact (.s sYES)).set nNegotiatedSession (.b false)).set
    nAuthMethods (.s (str security.AuthMethodMatch))).set nUser (.s user)).set nAuthenticated (.b true)).set
    nCryptoMethods (.s sAESGCM)

/-- the positive `SessionExpires` second a policy carries (a string attribute), if any -/
def embeddedExpiry (p : Policy) : Option Int :=
  match p.evalStr nSessionExpires with
  | some v =>
    (match parseInt64 (trimSpace v) with
     | some secs => if secs > 0 then some secs else none
     | none => none)
  | none => none

/-- the fallback a side applies when the id carries no usable expiry -/
def fallbackExpiry (fb now : Int) : Expiry := if fb > 0 then .at (now + fb) else .never

/-- `claimExpiration` -/
def claimExpiration (p : Policy) (fallback now : Int) : Expiry :=
  match embeddedExpiry p with
  | some secs => .unix secs
  | none => fallbackExpiry fallback now

/-- `mapClaimCommands` -/
def mapClaimCommands (p : Policy) (sid addr tag : Bytes) (extra : List Int) : List CmdMap :=
  if addr = [] then []
  else
    let fromPolicy : List Bytes := match p.nonEmptyStr nValidCommands with
      | some vc => ((splitOn 44 vc).map trimSpace).filter (fun c => c != [])
      | none => []
    (fromPolicy ++ extra.map fmtInt).map (fun c => { tag := tag, addr := addr, cmd := c, sid := sid })

/-! ## minting -/

structure MintOpts where
  sinful : Bytes := []
  birthdate : Int := 0
  seq : Int := 0
  peerFQU : Bytes := []
  peerAddr : Bytes := []
  encryption : Option Bool := none
  integrity : Option Bool := none
  cryptoMethods : Bytes := []
  remoteVersion : Bytes := []
  lifetime : Int := 0            -- time.Duration, nanoseconds
  extraValidCommands : List Int := []
  validCommands : List Int := []
  tag : Bytes := []
  deriving DecidableEq, Repr, Inhabited

def boolYesNo : Option Bool → Bytes
  | none => sYES
  | some true => sYES
  | some false => sNO

/-- `joinInts` -/
def joinInts : List Int → Bytes
  | [] => []
  | [v] => fmtInt v
  | v :: rest => fmtInt v ++ 44 :: joinInts rest

/-- `(now + lifetime).Unix()` for unix-nanosecond `now` -/
def unixOf (ns : Int) : Int := ns / 1000000000

/-- `opts.CryptoMethods`, defaulting to "AES" -/
def mintCipher (o : MintOpts) : Bytes := if o.cryptoMethods = [] then b!"AES" else o.cryptoMethods

/-- the first method of the list must be AES or AESGCM -/
def cipherOk (cm : Bytes) : Bool :=
  trimSpace (firstOf 44 cm) == b!"AES" || trimSpace (firstOf 44 cm) == b!"AESGCM"

def mintFQU (o : MintOpts) : Bytes :=
  if o.peerFQU = [] then str security.SubmitSideMatchSessionFQU else o.peerFQU

/-- the wire policy `MintClaimSession` builds before exporting it -/
def wirePolicy (o : MintOpts) (now : Int) : Policy :=
  let w : Policy := []
  let w := w.set nEncryption (.s (boolYesNo o.encryption))
  let w := w.set nIntegrity (.s (boolYesNo o.integrity))
  let w := w.set nCryptoMethods (.s (mintCipher o))
  let w := if o.remoteVersion = [] then w else w.set nRemoteVersion (.s o.remoteVersion)
  let w := if o.validCommands = [] then w else w.set nValidCommands (.s (joinInts o.validCommands))
  if o.lifetime > 0 then w.set nSessionExpires (.i (unixOf (now + o.lifetime))) else w

def sessionIdOf (o : MintOpts) : Bytes := o.sinful ++ 35 :: (fmtInt o.birthdate ++ 35 :: fmtInt o.seq)

structure Minted where
  claimId : Bytes
  publicId : Bytes
  sid : Bytes
  info : Bytes
  entry : Entry
  cmds : List CmdMap
  deriving DecidableEq, Repr, Inhabited

/-- the result record of a successful mint -/
def mintResult (o : MintOpts) (now : Int) (secret info : Bytes) (pol : Policy) (key : Key) : Minted :=
  let sid := sessionIdOf o
  let pol' := finishPolicy pol sid (mintFQU o)
  { claimId := sid ++ 35 :: (info ++ secret), publicId := sid ++ b!"#...", sid := sid, info := info
    entry := { id := sid, addr := o.peerAddr, key := key, proto := sAESGCM, policy := pol'
               expiry := claimExpiration pol' o.lifetime now, tag := o.tag, inherited := true }
    cmds := mapClaimCommands pol' sid o.peerAddr o.tag o.extraValidCommands }

/-- `MintClaimSession(cache, o)` with `time.Now() = now` (unix ns) and `randomHexKey() = secret`. -/
def mint (o : MintOpts) (now : Int) (secret : Bytes) : Except Err Minted :=
  if o.sinful = [] then .error .refused
  else if cipherOk (mintCipher o) = false then .error .refused
  else match exportInfo (wirePolicy o now) with
    | .error e => .error e
    | .ok info =>
      match importInfo info with
      | .error e => .error e
      | .ok pol =>
        match deriveClaimKey pol secret with
        | .error e => .error e
        | .ok key => .ok (mintResult o now secret info pol key)

/-! ## importing -/

structure ImportOpts where
  peerAddr : Bytes := []
  peerFQU : Bytes := []
  duration : Int := 0
  tag : Bytes := []
  extraValidCommands : List Int := []
  deriving DecidableEq, Repr, Inhabited

structure Imported where
  sid : Bytes
  entry : Entry
  cmds : List CmdMap
  deriving DecidableEq, Repr, Inhabited

def importFQU (o : ImportOpts) : Bytes :=
  if o.peerFQU = [] then str security.ExecuteSideMatchSessionFQU else o.peerFQU

def importResult (sid : Bytes) (o : ImportOpts) (now : Int) (pol : Policy) (key : Key) : Imported :=
  let pol' := finishPolicy pol sid (importFQU o)
  { sid := sid
    entry := { id := sid, addr := o.peerAddr, key := key, proto := sAESGCM, policy := pol'
               expiry := claimExpiration pol' o.duration now, tag := o.tag, inherited := true }
    cmds := mapClaimCommands pol' sid o.peerAddr o.tag o.extraValidCommands }

/-- `ImportClaimSession(cache, claimID, o)` with `time.Now() = now`. -/
def importClaim (claim : Bytes) (o : ImportOpts) (now : Int) : Except Err Imported :=
  if (parseStrict claim).secSessionId = [] then .error .malformed
  else if (parseStrict claim).key = [] then .error .malformed
  else match importInfo (parseStrict claim).info with
    | .error e => .error e
    | .ok pol =>
      match deriveClaimKey pol (parseStrict claim).key with
      | .error e => .error e
      | .ok key => .ok (importResult (parseStrict claim).secSessionId o now pol key)

def ftPolicy (ftId user : Bytes) : Policy :=
  let p : Policy := []
  (((((((((p.set nSecUseSession (.s sYES)).set nSid (.s ftId)).set nEnact (.s sYES)).set nNegotiatedSession (.b false)).set
    nAuthMethods (.s (str security.AuthMethodMatch))).set nUser (.s user)).set nAuthenticated (.b true)).set
    nEncryption (.s sYES)).set nIntegrity (.s sYES)).set nCryptoMethods (.s sAESGCM)

def ftResult (ftId : Bytes) (o : ImportOpts) (now : Int) (key : Key) : Imported :=
  let pol := ftPolicy ftId (importFQU o)
  { sid := ftId
    entry := { id := ftId, addr := o.peerAddr, key := key, proto := sAESGCM, policy := pol
               expiry := fallbackExpiry o.duration now
               tag := o.tag, inherited := true }
    cmds := mapClaimCommands pol ftId o.peerAddr o.tag o.extraValidCommands }

/-- `ImportFileTransferSession` -/
def importFileTransfer (claim : Bytes) (o : ImportOpts) (now : Int) : Except Err Imported :=
  if (parseStrict claim).secSessionId = [] then .error .malformed
  else if (parseStrict claim).key = [] then .error .malformed
  else match deriveSessionKey (parseStrict claim).key with
    | .error e => .error e
    | .ok key => .ok (ftResult (str security.fileTransferSessionPrefix ++ (parseStrict claim).secSessionId) o now key)

/-! ## caches and resumption by explicit session id -/

abbrev Cache := List Entry

/-- `SessionCache.Store` -/
def Cache.store (c : Cache) (e : Entry) : Cache := e :: c.filter (fun x => x.id != e.id)

/-- `SessionCache.LookupNonExpired` (the deletion of an expired entry is not observable here) -/
def Cache.lookupLive (c : Cache) (id : Bytes) (now : Int) : Option Entry :=
  match c.find? (fun x => x.id == id) with
  | some e => if e.expiry.expiredAt now then none else some e
  | none => none

inductive Resume
  | clientNotFound                 -- ClientHandshake: "pre-registered session not found in cache"
  | serverNotFound                 -- server answers SID_NOT_FOUND
  | resumed (delivers : Bool)      -- both ends keyed their streams from the cache; messages are
                                   -- delivered iff the keys agree (symbolic AEAD, DESIGN §3)
  deriving DecidableEq, Repr, Inhabited

/-- `ClientHandshake` with `SecurityConfig.SessionID = sid` against `ServerHandshake`: the client
    names its entry's id, the server looks that id up; no negotiation, no authentication. -/
def resume (client server : Cache) (sid : Bytes) (now : Int) : Resume :=
  match client.lookupLive sid now with
  | none => .clientNotFound
  | some ce =>
    match server.lookupLive ce.id now with
    | none => .serverNotFound
    | some se => .resumed (decide (ce.key = se.key))

end Cedar.Claim
