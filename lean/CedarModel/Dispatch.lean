/-
  L6 Dispatch: the command dispatch loop of server.Server.ServeConn.
  models: server.ServeConn, server.sessionSatisfies, server.commandLevelSatisfied, server.authorized,
          server.postAuthPolicy, server.lookup, server.run
  Handler bodies are opaque (they only decide whether to keep the connection alive).
-/
import CedarModel.Handshake

namespace Cedar.Disp
open Cedar Cedar.HS

structure Handler where
  raw : Bool
  perms : List String
  deriving Repr, DecidableEq, Inhabited

structure Policy where
  auth : String
  enc : String
  integ : String
  deriving Repr, DecidableEq, Inhabited

structure Server where
  handlers : List (Nat × Handler)
  policyFor : Nat → Option Policy          -- SecurityConfigForCommand / SecurityConfig; none = no requirement object
  authorizer : Option (String → String → Bool)   -- perm → user → allowed (peer address folded in)

/-- the session as the handshake reported it (C03/C06: these flags equal the real state) -/
structure Sess where
  authenticated : Bool
  encrypted : Bool
  user : String
  deriving Repr, DecidableEq, Inhabited

inductive Ev
  | ran (cmd : Nat)      -- the handler registered for cmd was invoked
  | closed               -- the connection was closed by the server
  deriving Repr, DecidableEq, Inhabited

def Server.lookup (s : Server) (cmd : Nat) : Option Handler := s.handlers.lookup cmd

/-- `commandLevelSatisfied` -/
def levelOK (p : Option Policy) (authenticated encrypted : Bool) : Bool :=
  match p with
  | none => true
  | some p =>
    if p.auth = lvlRequired ∧ authenticated = false then false
    else if (p.enc = lvlRequired ∨ p.integ = lvlRequired) ∧ encrypted = false then false
    else true

/-- `authorized` (only consulted when an Authorizer is configured) -/
def Server.authorizedFor (s : Server) (cmd : Nat) (user : String) : Bool :=
  match s.authorizer with
  | none => true
  | some a => match s.lookup cmd with
    | some h => h.perms.any (fun p => a p user)
    | none => false

/-- `sessionSatisfies` -/
def Server.satisfies (s : Server) (cmd : Nat) (sess : Sess) : Bool :=
  levelOK (s.policyFor cmd) sess.authenticated sess.encrypted && s.authorizedFor cmd sess.user

/-- the authenticated dispatch loop: the negotiated command, then follow-on command integers read
    from the kept-alive stream (`keep cmd` = that handler asked for keep-alive). -/
def Server.serveAuth (s : Server) (sess : Sess) (keep : Nat → Bool) : Nat → List Nat → List Ev
  | cmd, rest =>
    match s.lookup cmd with
    | none => [.closed]
    | some h =>
      if h.raw then [.closed]
      else if !s.satisfies cmd sess then [.closed]
      else if !keep cmd then [.ran cmd, .closed]
      else match rest with
        | [] => [.ran cmd, .closed]           -- peer sent nothing more: clean end
        | next :: rest' => .ran cmd :: s.serveAuth sess keep next rest'

/-- the dispatch loop of ONE connection during which the server is reconfigured: the first `n`
    commands arrive under `s1`, the remaining ones under `s2` (the session is the connection's and
    does not change).  `sessionSatisfies` is evaluated per command, when it arrives. -/
def serveAuthSw (s1 s2 : Server) (sess : Sess) (keep : Nat → Bool) : Nat → Nat → List Nat → List Ev
  | 0, cmd, rest => s2.serveAuth sess keep cmd rest
  | n+1, cmd, rest =>
    match s1.lookup cmd with
    | none => [.closed]
    | some h =>
      if h.raw then [.closed]
      else if !s1.satisfies cmd sess then [.closed]
      else if !keep cmd then [.ran cmd, .closed]
      else match rest with
        | [] => [.ran cmd, .closed]
        | next :: rest' => .ran cmd :: serveAuthSw s1 s2 sess keep n next rest'

/-- the raw (no-handshake) path -/
def Server.serveRaw (s : Server) (cmd : Nat) : List Ev :=
  match s.lookup cmd with
  | some h => if h.raw then [.ran cmd, .closed] else [.closed]
  | none => [.closed]

/-- `postAuthPolicy`: the commands advertised as valid for this session -/
def Server.validCommands (s : Server) (sess : Sess) : List Nat :=
  match s.authorizer with
  | none => []
  | some a =>
    (s.handlers.filter (fun (p : Nat × Handler) =>
      !p.2.raw && !p.2.perms.isEmpty && levelOK (s.policyFor p.1) sess.authenticated sess.encrypted &&
      p.2.perms.any (fun perm => a perm sess.user))).map (·.1)

/-! ### the third handler outcome: `KeepOpen()`

`ServeConn` distinguishes three returns of a handler (server.go: `errKeepOpen`, `c.keepAlive`):
the model above folds `KeepOpen()` away (its `keep` is two-valued and every run ends `.closed`).
`serveAuthH` / `serveRawH` are the loop with all three; `serveAuth` is their restriction to handlers
that never take ownership of the connection (`C05.serveAuthH_eq`). -/

inductive HRes
  | done        -- nil without KeepAlive, or any error other than errKeepOpen: the server closes
  | keepAlive   -- nil after c.KeepAlive(): the server reads the next command integer
  | keepOpen    -- KeepOpen(): the handler took ownership; ServeConn returns WITHOUT closing
  deriving Repr, DecidableEq, Inhabited

def Server.serveAuthH (s : Server) (sess : Sess) (res : Nat → HRes) : Nat → List Nat → List Ev
  | cmd, rest =>
    match s.lookup cmd with
    | none => [.closed]
    | some h =>
      if h.raw then [.closed]
      else if !s.satisfies cmd sess then [.closed]
      else match res cmd with
        | .keepOpen => [.ran cmd]
        | .done => [.ran cmd, .closed]
        | .keepAlive => match rest with
          | [] => [.ran cmd, .closed]
          | next :: rest' => .ran cmd :: s.serveAuthH sess res next rest'

def Server.serveRawH (s : Server) (res : Nat → HRes) (cmd : Nat) : List Ev :=
  match s.lookup cmd with
  | some h => if h.raw then (if res cmd = .keepOpen then [.ran cmd] else [.ran cmd, .closed]) else [.closed]
  | none => [.closed]

end Cedar.Disp
