/-
  L6: the session cache and the two resumption machines.
  models: security.SessionCache.Store, security.SessionCache.Lookup, security.SessionCache.LookupNonExpired,
          security.SessionCache.LookupByCommand, security.SessionCache.MapCommand, security.SessionCache.Invalidate,
          security.SessionCache.InvalidateExpired, security.SessionEntry.IsExpired, security.SessionEntry.RenewLease,
          security.handleSessionResumption, security.resumeSession, security.storeSession,
          security.storeClientSession, security.ClientHandshake
  Time is a parameter (`now`, seconds); keys are symbolic ids.
-/
import CedarModel.Basic
import CedarModel.Handshake

namespace Cedar.SC
open Cedar

abbrev Str := List Char

structure Entry where
  id : Str
  addr : Str
  key : Option Nat            -- KeyInfo (none: the session was established without a cipher)
  crypto : String             -- KeyInfo.Protocol
  user : String
  authenticated : Bool
  validCommands : List Str
  expiration : Option Nat     -- none = never expires
  lease : Nat                 -- seconds; 0 = no renewal
  tag : Str
  deriving Repr, DecidableEq, Inhabited

def Entry.expired (e : Entry) (now : Nat) : Bool :=
  match e.expiration with
  | none => false
  | some t => decide (t < now)

def Entry.renew (e : Entry) (now : Nat) : Entry :=
  if e.lease ≠ 0 then { e with expiration := some (now + e.lease) } else e

/-- `escapeKeyPart`: a comma or a backslash inside a part of the command-map key is escaped with a
    backslash (fix D17), so the commas that separate the parts are the only unescaped ones -/
def esc1 (c : Char) : Str := if c = ',' then ['\\', ','] else if c = '\\' then ['\\', '\\'] else [c]
def esc : Str → Str
  | [] => []
  | c :: t => esc1 c ++ esc t

/-- the command-map key `{tag,addr,<cmd>}` / `{addr,<cmd>}` as `commandKey` builds it -/
def cmdKey (tag addr cmd : Str) : Str :=
  if tag ≠ [] then '{' :: (esc tag ++ ',' :: (esc addr ++ ',' :: '<' :: (esc cmd ++ ['>', '}'])))
  else '{' :: (esc addr ++ ',' :: '<' :: (esc cmd ++ ['>', '}']))

structure Cache where
  sessions : List (Str × Entry) := []     -- association list, newest binding first
  cmdMap : List (Str × Str) := []         -- rendered key ↦ session id
  deriving Repr, Inhabited

def Cache.store (c : Cache) (e : Entry) : Cache :=
  { c with sessions := (e.id, e) :: c.sessions.filter (fun p => p.1 ≠ e.id) }

def Cache.get (c : Cache) (id : Str) : Option Entry := c.sessions.lookup id

/-- `LookupNonExpired`: an expired entry is deleted on the way -/
def Cache.lookupNonExpired (c : Cache) (now : Nat) (id : Str) : Cache × Option Entry :=
  match c.get id with
  | none => (c, none)
  | some e => if e.expired now then ({ c with sessions := c.sessions.filter (fun p => p.1 ≠ id) }, none) else (c, some e)

def Cache.mapCommand (c : Cache) (tag addr cmd sid : Str) : Cache :=
  { c with cmdMap := (cmdKey tag addr cmd, sid) :: c.cmdMap.filter (fun p => p.1 ≠ cmdKey tag addr cmd) }

def Cache.lookupByCommand (c : Cache) (now : Nat) (tag addr cmd : Str) : Option Entry :=
  match c.cmdMap.lookup (cmdKey tag addr cmd) with
  | none => none
  | some sid =>
    match c.get sid with
    | none => none
    | some e => if e.expired now then none else some e

/-- `Invalidate` (fix D24: the mappings that lead to the identifier go also when no entry is left —
    `lookupNonExpired` deletes an expired entry but not its mappings) -/
def Cache.invalidate (c : Cache) (id : Str) : Cache :=
  { sessions := c.sessions.filter (fun p => p.1 ≠ id), cmdMap := c.cmdMap.filter (fun p => p.2 ≠ id) }

/-- `Invalidate` as it was before fix D24: nothing happens when no entry is filed under the identifier -/
def Cache.invalidateLegacy (c : Cache) (id : Str) : Cache :=
  match c.get id with
  | none => c
  | some _ => { sessions := c.sessions.filter (fun p => p.1 ≠ id), cmdMap := c.cmdMap.filter (fun p => p.2 ≠ id) }

def Cache.invalidateExpired (c : Cache) (now : Nat) : Cache :=
  let live := c.sessions.filter (fun p => !p.2.expired now)
  { sessions := live, cmdMap := c.cmdMap.filter (fun p => (live.lookup p.2).isSome) }

/-! ### server side: `handleSessionResumption` -/

inductive ResumeReply
  | none                 -- no reply requested
  | sidNotFound
  | authorized (nonce : Nat)   -- fix D6: the reply carries a fresh value
  deriving Repr, DecidableEq, Inhabited

structure ResumeOutcome where
  user : String
  authenticated : Bool
  encrypted : Bool
  key : Option Nat
  deriving Repr, DecidableEq, Inhabited

/-- Result: new cache, what was sent in the clear, and on success the negotiation outcome with the
    key the stream is switched to BEFORE any further byte is read or written.
    fix D5: an entry without a key is not resumable. `cache2`: the global fallback cache. -/
def serverResume (c : Cache) (now : Nat) (sid : Str) (wantReply : Bool) (freshNonce : Nat)
    (requireAuth : Bool := false) :
    Cache × ResumeReply × Option ResumeOutcome :=
  let (c1, found) := c.lookupNonExpired now sid
  -- fix D18: when the server's policy for the named command REQUIRES authentication
  -- (`requireAuth`), a session established without it is not resumable either
  let usable := match found with
    | some e => if e.key.isSome && (e.crypto == "AES" || e.crypto == "AESGCM") && (!requireAuth || e.authenticated) then some e else none
    | none => none
  match usable with
  | none => (c1, if wantReply then .sidNotFound else .none, none)
  | some e =>
    let e' := e.renew now
    (c1.store e', if wantReply then .authorized freshNonce else .none,
      some ⟨e.user, e.authenticated, true, e.key⟩)

/-- `handleSessionResumption` on a server configured with its own (`SecurityConfig.SessionCache`)
    cache: the own cache is consulted first; only when it has no live entry is the global cache
    (where `storeSession` puts handshake-negotiated sessions) consulted, and then the renewed entry
    goes back into the cache it came from — never into the other one. -/
def serverResume2 (own glob : Cache) (now : Nat) (sid : Str) (wantReply : Bool) (freshNonce : Nat)
    (requireAuth : Bool := false) :
    Cache × Cache × ResumeReply × Option ResumeOutcome :=
  match (own.lookupNonExpired now sid).2 with
  | some _ =>
    let r := serverResume own now sid wantReply freshNonce requireAuth
    (r.1, glob, r.2.1, r.2.2)
  | none =>
    let r := serverResume glob now sid wantReply freshNonce requireAuth
    ((own.lookupNonExpired now sid).1, r.1, r.2.1, r.2.2)

/-! ### client side: `ClientHandshake` over a cache -/

inductive ServerAnswer
  | authorized           -- the server knows the session
  | sidNotFound
  | broken               -- the exchange breaks (reset, EOF, unreadable reply)
  | other (rc : String)  -- some other return code
  deriving Repr, DecidableEq, Inhabited

inductive ClientStep
  | resumed (sid : Str) (key : Option Nat) (user : String) (authenticated : Bool)
  | resumeFailed (sid : Str)
  | full                                 -- no usable cached session: a full handshake is performed
  deriving Repr, DecidableEq, Inhabited

/-- the lookup-and-resume half of `ClientHandshake` (explicit `SessionID` path aside) -/
def clientTry (c : Cache) (now : Nat) (tag addr cmd : Str) (answer : ServerAnswer)
    (requireAuth : Bool := false) : Cache × ClientStep :=
  if addr = [] then (c, .full)
  else match c.lookupByCommand now tag addr cmd with
    | none => (c, .full)
    | some e =>
      -- only a session that carries an AES key is resumable (fix D5, client side); a client whose
      -- policy REQUIRES authentication does not ride an unauthenticated session (fix D18)
      if !(e.key.isSome && (e.crypto == "AES" || e.crypto == "AESGCM") && (!requireAuth || e.authenticated)) then (c, .full)
      else
      match answer with
      | .authorized => ((c.store (e.renew now)), .resumed e.id e.key e.user e.authenticated)
      | .sidNotFound => (c.invalidate e.id, .resumeFailed e.id)
      | .broken => (c.invalidate e.id, .resumeFailed e.id)
      | .other _ => (c, .resumeFailed e.id)

/-- `ClientHandshake` with an explicit `SessionID` (pre-registered / claim sessions): the named
    session is resumed whatever tag, server and command the connection is for; the command map is
    neither consulted nor changed. -/
def clientById (c : Cache) (now : Nat) (sid : Str) (answer : ServerAnswer)
    (requireAuth : Bool := false) : Cache × ClientStep :=
  match c.lookupNonExpired now sid with
  | (c1, none) => (c1, .resumeFailed sid)
  | (c1, some e) =>
    -- only a session that carries an AES key is resumable, on this path too (fix D19: the guard
    -- of the command-map path was missing here); REQUIRED authentication as there (fix D18)
    if !(e.key.isSome && (e.crypto == "AES" || e.crypto == "AESGCM")) || (requireAuth && !e.authenticated) then (c1, .resumeFailed sid)
    else match answer with
    | .authorized => (c1.store (e.renew now), .resumed e.id e.key e.user e.authenticated)
    | .sidNotFound => (c1.invalidate e.id, .resumeFailed e.id)
    | .broken => (c1.invalidate e.id, .resumeFailed e.id)
    | .other _ => (c1, .resumeFailed e.id)

/-- `SessionCache.forget`: the entry filed under an identifier, if any, and every command mapping
    that leads to the identifier (also when no entry is left: `lookupNonExpired` deletes an expired
    entry but not its mappings) -/
def Cache.forget (c : Cache) (id : Str) : Cache :=
  { sessions := c.sessions.filter (fun p => p.1 ≠ id), cmdMap := c.cmdMap.filter (fun p => p.2 ≠ id) }

/-- `storeClientSession` after a full handshake (fix D7: under the handshake's own tag).
    The identifier `e.id` is the SERVER's choice. fix D20: whatever the cache holds under it — an
    entry, or mappings made for another tag or server — is dropped before the session is filed. -/
def clientStore (c : Cache) (tag addr : Str) (e : Entry) : Cache :=
  let e' := { e with tag := tag, addr := addr }
  e'.validCommands.foldl (fun acc cmd => if cmd = [] then acc else acc.mapCommand tag addr cmd e'.id) ((c.forget e'.id).store e')

/-- `storeClientSession` as it was before fix D20 (kept for the theorem that it breaks the routes) -/
def clientStoreLegacy (c : Cache) (tag addr : Str) (e : Entry) : Cache :=
  let e' := { e with tag := tag, addr := addr }
  e'.validCommands.foldl (fun acc cmd => if cmd = [] then acc else acc.mapCommand tag addr cmd e'.id) (c.store e')

end Cedar.SC
