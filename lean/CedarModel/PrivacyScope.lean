/-
  PrivacyScope: the type trailer and the evaluation scopes of the ad (property C09).

  models: message.adWithoutPrivate (the PARENT / TARGET scopes of the view), classad.Redacted on a
          scope ad, the two EvaluateAttrString calls of message.putClassAdToMessageWithOptions

  `Privacy.Eval` idealises the classad evaluator as a function of the view alone. The real
  evaluator also resolves `PARENT.x` / `TARGET.x` in the scopes the view carries, so the scopes are
  an input of the trailer too: `EvalS`. After fix ce45501 the scopes handed to the evaluator are
  redacted copies (`redactScope`); `Legacy` keeps the behaviour before it (scopes as they are).
  Core Lean only.
-/
import CedarModel.Privacy

namespace Cedar.Privacy

/-- the evaluator with its environment: view, PARENT scope, TARGET scope, attribute name -/
abbrev EvalS := Ad → Option Ad → Option Ad → Bytes → Option Bytes

/-- `classad.Redacted()` on a scope ad: every private attribute removed -/
def redactScope (a : Ad) : Ad := a.filter (fun x => !isPriv x.name)

/-- the type trailer: MyType / TargetType evaluated in `adWithoutPrivate`'s view, whose scopes are
    redacted copies of the ad's scopes -/
def typeItemsScoped (ev : EvalS) (enc : List Bytes) (ad : Ad) (parent target : Option Ad) : List Item :=
  let view := typeView ad enc
  let p := parent.map redactScope
  let t := target.map redactScope
  [.val (.str ((ev view p t myTypeName).getD [])), .val (.str ((ev view p t targetTypeName).getD []))]

namespace Legacy

/-- before the fix: the view kept the original scopes -/
def typeItemsScoped (ev : EvalS) (enc : List Bytes) (ad : Ad) (parent target : Option Ad) : List Item :=
  let view := typeView ad enc
  [.val (.str ((ev view parent target myTypeName).getD [])), .val (.str ((ev view parent target targetTypeName).getD []))]

end Legacy

/-- a concrete evaluator that resolves every type name to the TARGET scope's `ClaimId` value
    (what `MyType = TARGET.ClaimId` evaluates to) -/
def targetClaimEval : EvalS := fun _ _ t _ =>
  t.bind (fun t => (t.find? (fun a => lower a.name == lower (asciiBytes "ClaimId"))).map (·.value))

end Cedar.Privacy
