/-
  L7 Export: the crypto-state blob of ExportCryptoState / NewStreamWithCryptoState.
  models: stream.ExportCryptoState, stream.NewStreamWithCryptoState
-/
import CedarModel.Stream

namespace Cedar
open CedarGen

/-- the magic as bytes (ASCII; `String.toUTF8` does not reduce in the kernel, `toList` does) -/
def csMagic : Bytes := stream.cryptoStateMagic.toList.map (fun c => UInt8.ofNat c.toNat)
def csVersion : Nat := stream.cryptoStateVersion
def csFixedLen : Nat := stream.cryptoStateFixedLen

/-- The fields of the blob, in wire order. Digests are carried as their byte strings. -/
structure BlobFields where
  flags : Nat
  key : Nat            -- the 32 key bytes read as a big-endian number
  encIV : IV
  decIV : IV
  encCtr : Nat
  decCtr : Nat
  fs : Bytes
  fr : Bytes
  peer : Bytes
  deriving DecidableEq, Repr, Inhabited

def ivBytes (iv : IV) : Bytes := be32 iv.w0 ++ iv.tail
def ivOfBytes (b : Bytes) : IV := ⟨beVal (b.take 4), b.drop 4⟩

def bit (b : Bool) (v : Nat) : Nat := if b then v else 0

/-- SHA-256 output bytes of a symbolic digest; `sha` is the (uninterpreted) hash function. -/
def Digest.bytes (sha : Bytes → Bytes) : Digest → Bytes
  | .zero => List.replicate 32 0
  | .H fed => sha fed
  | .raw b => b

def optDigestBytes (sha : Bytes → Bytes) : Option Digest → Bytes
  | none => []
  | some d => d.bytes sha

/-- `ExportCryptoState`: refusal conditions first, then the field values. -/
def Stream.exportFields (sha : Bytes → Bytes) (s : Stream) : Except Err BlobFields :=
  if !s.encrypted then .error .refused
  else match s.key with
  | none => .error .refused
  | some k =>
    if !s.finSendAAD || !s.finRecvAAD then .error .refused
    else if s.inMessage then .error .refused
    else if s.bytesRead ≠ 0 then .error .refused
    else if s.recvBuf.length ≠ 0 then .error .refused
    else if s.sendBuf.length ≠ 0 then .error .refused
    else if s.sendEOM then .error .refused
    else .ok {
      flags := bit s.encrypted stream.csFlagEncrypted + bit s.authenticated stream.csFlagAuthenticated
             + bit s.finSendAAD stream.csFlagFinishedSendAAD + bit s.finRecvAAD stream.csFlagFinishedRecvAAD
             + bit s.dig.sendWritten stream.csFlagSendDigestWritten + bit s.dig.recvWritten stream.csFlagRecvDigestWritten
      key := k, encIV := s.encIV, decIV := s.decIV, encCtr := s.encCtr, decCtr := s.decCtr
      fs := optDigestBytes sha s.dig.finalSend, fr := optDigestBytes sha s.dig.finalRecv
      peer := s.peerAddr }

def varField (b : Bytes) : Bytes := be16 b.length ++ b

def encodeBlob (f : BlobFields) : Bytes :=
  csMagic ++ be16 csVersion ++ [UInt8.ofNat f.flags] ++ beN 32 f.key ++ ivBytes f.encIV ++ ivBytes f.decIV
    ++ be32 f.encCtr ++ be32 f.decCtr ++ varField f.fs ++ varField f.fr ++ varField f.peer

def readVar (b : Bytes) : Except Err (Bytes × Bytes) :=
  if b.length < 2 then .error .malformed
  else
    let n := beVal (b.take 2)
    let r := b.drop 2
    if r.length < n then .error .malformed else .ok (r.take n, r.drop n)

/-- `NewStreamWithCryptoState` parsing: length, magic, version, fixed fields, three var fields.
    Trailing bytes after the third field are ignored (as in the Go code). -/
def decodeBlob (b : Bytes) : Except Err BlobFields :=
  if b.length < csFixedLen then .error .malformed
  else if b.take 4 ≠ csMagic then .error .malformed
  else if beVal ((b.drop 4).take 2) ≠ csVersion then .error .malformed
  else
    let flags := ((b.drop 6).take 1).headD 0 |>.toNat
    let key := beVal ((b.drop 7).take 32)
    let eiv := ivOfBytes ((b.drop 39).take 16)
    let div := ivOfBytes ((b.drop 55).take 16)
    let ec := beVal ((b.drop 71).take 4)
    let dc := beVal ((b.drop 75).take 4)
    match readVar (b.drop 79) with
    | .error e => .error e
    | .ok (fs, r1) =>
      match readVar r1 with
      | .error e => .error e
      | .ok (fr, r2) =>
        match readVar r2 with
        | .error e => .error e
        | .ok (peer, _) => .ok ⟨flags, key, eiv, div, ec, dc, fs, fr, peer⟩

def flagSet (flags v : Nat) : Bool := (flags / v) % 2 = 1

/-- the Stream `NewStreamWithCryptoState` builds from parsed fields (fresh buffers) -/
def importFields (f : BlobFields) : Stream :=
  { key := some f.key
    encrypted := flagSet f.flags stream.csFlagEncrypted
    authenticated := flagSet f.flags stream.csFlagAuthenticated
    encIV := f.encIV, decIV := f.decIV, encCtr := f.encCtr, decCtr := f.decCtr
    finSendAAD := flagSet f.flags stream.csFlagFinishedSendAAD
    finRecvAAD := flagSet f.flags stream.csFlagFinishedRecvAAD
    dig := { sendWritten := flagSet f.flags stream.csFlagSendDigestWritten
             recvWritten := flagSet f.flags stream.csFlagRecvDigestWritten
             finalSend := if f.fs.length > 0 then some (.raw f.fs) else none
             finalRecv := if f.fr.length > 0 then some (.raw f.fr) else none }
    peerAddr := f.peer }

def importBlob (b : Bytes) : Except Err Stream :=
  match decodeBlob b with
  | .error e => .error e
  | .ok f => .ok (importFields f)

/-- `NewStreamWithCryptoState(conn, blob)` with the connection in view: `NewStream(conn)` first
    records the remote address of the connection the session is continued on (`connAddr`, in sinful
    form; empty when the connection has none), and the blob's peer address — the ORIGINAL peer —
    replaces it unless the blob carries none. -/
def importFieldsAround (connAddr : Bytes) (f : BlobFields) : Stream :=
  { importFields f with peerAddr := if f.peer.length > 0 then f.peer else connAddr }

def importBlobAround (connAddr : Bytes) (b : Bytes) : Except Err Stream :=
  match decodeBlob b with
  | .error e => .error e
  | .ok f => .ok (importFieldsAround connAddr f)

end Cedar
