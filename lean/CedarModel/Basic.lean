/-
  L0: bytes, big-endian integers, error classes.
  models: encoding/binary.BigEndian.{PutUint32,Uint32,PutUint64,Uint64}
  Core Lean only (the oracle executable links this).
-/
namespace Cedar

abbrev Bytes := List UInt8

/-- Error classes. The correspondence check maps Go error strings onto these. -/
inductive Err
  | tooLarge      -- "message too large"
  | badFlag       -- "invalid end flag" / "unexpected end flag"
  | authFail      -- AES-GCM open failed / too short for tag / IV / empty encrypted data
  | counterMax    -- "hit maximum number of packets per connection"
  | eof           -- wire exhausted (connection EOF)
  | eom           -- io.EOF: the current message has no more bytes
  | state         -- API misuse (write after EOM, no message being read, ...)
  | notConsumed   -- EndMessageRead with bytes left
  | sizeExceeded  -- capped reader
  | malformed     -- decoder rejected the input
  | refused       -- export refused / policy refusal
  | plainOnKeyed  -- fix D2: cleartext empty frame on an encrypting stream
  | panic         -- the Go code would panic here (never a legitimate outcome)
  deriving DecidableEq, Repr, Inhabited

def Err.name : Err → String
  | .tooLarge => "tooLarge" | .badFlag => "badFlag" | .authFail => "authFail"
  | .counterMax => "counterMax" | .eof => "eof" | .eom => "eom" | .state => "state"
  | .notConsumed => "notConsumed" | .sizeExceeded => "sizeExceeded"
  | .malformed => "malformed" | .refused => "refused" | .plainOnKeyed => "plainOnKeyed"
  | .panic => "panic"

/-- big-endian, `n` bytes, value taken mod 256^n (Go's uint32()/uint64() conversions). -/
def beN : Nat → Nat → Bytes
  | 0, _ => []
  | n+1, v => UInt8.ofNat ((v / 256 ^ n) % 256) :: beN n v

def be32 (v : Nat) : Bytes := beN 4 v
def be64 (v : Nat) : Bytes := beN 8 v
def be16 (v : Nat) : Bytes := beN 2 v

def beVal : Bytes → Nat
  | [] => 0
  | b :: bs => b.toNat * 256 ^ bs.length + beVal bs

/-- two's complement: Int (any) → 64-bit pattern -/
def toU64 (i : Int) : Nat := (i % (2^64 : Int)).toNat
/-- 64-bit pattern → signed -/
def ofU64 (n : Nat) : Int := if n < 2^63 then (n : Int) else (n : Int) - (2^64 : Int)
/-- low 32 bits read as signed (Go int32(x)) -/
def toI32 (i : Int) : Int :=
  let m := (i % (2^32 : Int)).toNat
  if m < 2^31 then (m : Int) else (m : Int) - (2^32 : Int)
/-- low 32 bits read as unsigned (Go uint32(x)) -/
def toU32 (i : Int) : Nat := (i % (2^32 : Int)).toNat

/-- `l.length ≥ n` without walking the whole list (the oracle runs on megabyte buffers) -/
def lenGe {α : Type} : List α → Nat → Bool
  | _, 0 => true
  | [], _ + 1 => false
  | _ :: t, n + 1 => lenGe t n

theorem lenGe_iff {α : Type} (l : List α) (n : Nat) : lenGe l n = true ↔ l.length ≥ n := by
  induction l generalizing n with
  | nil => cases n <;> simp [lenGe]
  | cons a t ih => cases n with
    | zero => simp [lenGe]
    | succ n => simp [lenGe, ih]

def hexDigit (n : Nat) : Char :=
  if n < 10 then Char.ofNat (48 + n) else Char.ofNat (87 + n)

def hexOf (b : Bytes) : String :=
  String.ofList (b.foldr (fun x acc => hexDigit (x.toNat / 16) :: hexDigit (x.toNat % 16) :: acc) [])

def hexVal (c : Char) : Option Nat :=
  if '0' ≤ c ∧ c ≤ '9' then some (c.toNat - 48)
  else if 'a' ≤ c ∧ c ≤ 'f' then some (c.toNat - 87)
  else if 'A' ≤ c ∧ c ≤ 'F' then some (c.toNat - 55)
  else none

def unhexAux : List Char → Option Bytes
  | [] => some []
  | [_] => none
  | a :: b :: rest => do
      let x ← hexVal a
      let y ← hexVal b
      let r ← unhexAux rest
      pure (UInt8.ofNat (x * 16 + y) :: r)

/-- Payload syntax of the line protocol: `-` (empty), hex, or `fill:<n>:<byte-hex>`,
    parts joined by `+`. -/
def parsePayloadPart (s : String) : Option Bytes :=
  if s == "-" || s == "" then some []
  else match s.splitOn ":" with
    | ["fill", n, b] => do
        let k ← n.toNat?
        let v ← unhexAux b.toList
        match v with
        | [x] => some (List.replicate k x)
        | _ => none
    | _ => unhexAux s.toList

def parsePayload (s : String) : Option Bytes :=
  (s.splitOn "+").foldlM (fun acc p => do let b ← parsePayloadPart p; pure (acc ++ b)) []

/-- compact rendering for large payloads: length + a cheap checksum (sum, xor-position mix). -/
def digestOf (b : Bytes) : String :=
  let (s, m) := b.foldl (fun (acc : Nat × Nat) x =>
      ((acc.1 + x.toNat) % 65521, (acc.2 * 31 + x.toNat + 1) % 4294967291)) (0, 7)
  s!"n{b.length}s{s}m{m}"

def showBytes (b : Bytes) : String :=
  if b.length ≤ 48 then (if b.isEmpty then "-" else hexOf b) else digestOf b

end Cedar
