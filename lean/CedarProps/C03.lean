/-
  C03 — REQUIRED means required, and the reported handshake outcome is what happened.
  The peer is a universally quantified script (every field value it sends is arbitrary).
  Resumed handshakes: see C06 (`resume_restores_truth`).
-/
import CedarProps.C06
import CedarProps.C07
import CedarProofs.HandshakeLemmas
import CedarProofs.Keyed

namespace Cedar.C03
open Cedar Cedar.HS

/-- decomposition of a successful client handshake -/
theorem clientFull_ok {cfg : ClientCfg} {srv : ServerScript} {o : Outcome} (h : clientFull cfg srv = .ok o) :
    ∃ (d : Decision) (didAuth : Bool) (method : String) (ran : List (String × Bool)) (key : Option Nat) (pa : PostAuth),
      clientAuthPhase cfg srv = .ok (didAuth, method, ran) ∧
      setupEnc cfg.enc cfg.integ d.encryption d.negCrypto cfg.keyId cfg.keyId.isSome srv.key = .ok key ∧
      srv.postAuth = some pa ∧ pa.sealed = key.isSome ∧
      o = { reportedAuth := didAuth, reportedEnc := key.isSome, reportedMethod := method, user := pa.user,
            sid := pa.sid, validCommands := pa.validCommands, streamKey := key, ran := ran } := by
  unfold clientFull at h
  split at h
  · cases h
  · split at h
    · cases h
    · rename_i d _
      split at h
      · cases h
      · rename_i didAuth method ran hauth
        split at h
        · cases h
        · rename_i key hkey
          split at h
          · cases h
          · rename_i pa hpa
            by_cases hs : pa.sealed ≠ key.isSome
            · rw [if_pos hs] at h; cases h
            · rw [if_neg hs] at h
              split at h
              · cases h
              · simp only [Except.ok.injEq] at h
                exact ⟨d, didAuth, method, ran, key, pa, hauth, hkey, hpa, by simpa using hs, h.symm⟩

/-- **client_required_auth**: whatever the server sends, if a client whose policy marks
    authentication REQUIRED gets success, then an authentication method that the client itself
    listed ran to successful completion on the connection. -/
theorem client_required_auth (cfg : ClientCfg) (srv : ServerScript) (o : Outcome)
    (h : clientFull cfg srv = .ok o) (hreq : cfg.auth = lvlRequired) :
    ∃ m ∈ cfg.methods, (m, true) ∈ o.ran := by
  obtain ⟨d, didAuth, method, ran, key, pa, hauth, _, _, _, rfl⟩ := clientFull_ok h
  rcases clientAuthPhase_spec hauth with ⟨_, _, hne⟩ | ⟨_, hm, hin, _, _, _⟩
  · exact absurd hreq hne
  · exact ⟨method, hm, hin⟩

/-- **client_required_enc**: success with encryption or integrity REQUIRED means the session key is
    installed on the stream (all later traffic is AES-GCM protected: C02/C12). -/
theorem client_required_enc (cfg : ClientCfg) (srv : ServerScript) (o : Outcome)
    (h : clientFull cfg srv = .ok o) (hreq : cfg.enc = lvlRequired ∨ cfg.integ = lvlRequired) :
    o.streamKey.isSome = true := by
  obtain ⟨d, didAuth, method, ran, key, pa, _, hkey, _, _, rfl⟩ := clientFull_ok h
  exact setupEnc_spec hkey (.inr hreq)

/-- **client_reported_enc_is_real**: the encryption flag reported equals the stream's real state. -/
theorem client_reported_enc_is_real (cfg : ClientCfg) (srv : ServerScript) (o : Outcome)
    (h : clientFull cfg srv = .ok o) : o.reportedEnc = o.streamKey.isSome := by
  obtain ⟨d, didAuth, method, ran, key, pa, _, _, _, _, rfl⟩ := clientFull_ok h
  rfl

/-- **client_reported_auth_is_real**: the authentication flag is true exactly when an exchange
    completed successfully, and then the reported method is that exchange's method — one the client
    listed, and the only one that succeeded. -/
theorem client_reported_auth_is_real (cfg : ClientCfg) (srv : ServerScript) (o : Outcome)
    (h : clientFull cfg srv = .ok o) :
    (o.reportedAuth = true ↔ ∃ m, (m, true) ∈ o.ran) ∧
    (o.reportedAuth = true → (o.reportedMethod, true) ∈ o.ran ∧ o.reportedMethod ∈ cfg.methods ∧
        ∀ m, (m, true) ∈ o.ran → m = o.reportedMethod) := by
  obtain ⟨d, didAuth, method, ran, key, pa, hauth, _, _, _, rfl⟩ := clientFull_ok h
  rcases clientAuthPhase_spec hauth with ⟨rfl, rfl, _⟩ | ⟨rfl, hm, hin, _, _, honly⟩
  · simp
  · exact ⟨⟨fun _ => ⟨method, hin⟩, fun _ => rfl⟩, fun _ => ⟨hin, hm, fun m hmr => honly (m, true) hmr rfl⟩⟩

/-- **client_only_offered_methods_run**: every exchange the client takes part in is for a method it
    listed (a server cannot steer it into an un-offered method, several bits, or an unknown bit). -/
theorem client_only_offered_methods_run (cfg : ClientCfg) (srv : ServerScript) (o : Outcome)
    (h : clientFull cfg srv = .ok o) : ∀ x ∈ o.ran, x.1 ∈ cfg.methods := by
  obtain ⟨d, didAuth, method, ran, key, pa, hauth, _, _, _, rfl⟩ := clientFull_ok h
  rcases clientAuthPhase_spec hauth with ⟨_, rfl, _⟩ | ⟨_, _, _, _, hall, _⟩
  · simp
  · exact hall

/-- decomposition of a successful server handshake -/
theorem serverFull_ok {cfg : ServerCfg} {cli : ClientScript} {sid : String} {o : Outcome} {adv : Decision}
    (h : serverFull cfg cli sid = .ok o adv) :
    ∃ method user ran key,
      (negotiate ⟨cfg.auth, cfg.enc, cfg.methods, cfg.ciphers⟩ ⟨cli.auth, cli.enc, cli.methods, cli.ciphers⟩) = (adv, none) ∧
      serverAuthPhase cfg cli adv = .ok (method, user, ran) ∧
      setupEnc cfg.enc cfg.integ adv.encryption adv.negCrypto cfg.keyId cfg.keyId.isSome cli.key = .ok key ∧
      o = { reportedAuth := adv.authentication, reportedEnc := key.isSome, reportedMethod := method,
            user := user, sid := sid, validCommands := "", streamKey := key, ran := ran } := by
  unfold serverFull at h
  split at h
  · cases h
  · rename_i d hneg
    split at h
    · cases h
    · rename_i method user ran hauth
      split at h
      · cases h
      · rename_i key hkey
        simp only [SrvResult.ok.injEq] at h
        obtain ⟨rfl, rfl⟩ := h
        exact ⟨method, user, ran, key, hneg, hauth, hkey, rfl⟩

theorem decide3_required_left (s c : String) (b : Bool) (h : s = lvlRequired) : decide3 s c b = true := by
  unfold decide3; simp [h]

theorem negotiateCore_required_auth (sa ca se ce : String) (ha hc : Bool) (hreq : sa = lvlRequired)
    (hok : (negotiateCore sa ca se ce ha hc).1 = none) : (negotiateCore sa ca se ce ha hc).2.1 = true := by
  unfold negotiateCore at *
  have hd : decide3 sa ca ha = true := decide3_required_left _ _ _ hreq
  simp only [hd] at *
  repeat' split
  all_goals first | rfl | (simp_all; done) | (split at hok <;> simp at hok)

/-- a successful negotiation by a side that requires authentication decides to authenticate -/
theorem negotiate_required_auth {srv cli : View} {d : Decision} (h : negotiate srv cli = (d, none))
    (hreq : srv.auth = lvlRequired) : d.authentication = true := by
  unfold negotiate at h
  simp only [Prod.mk.injEq] at h
  obtain ⟨rfl, hnone⟩ := h
  exact negotiateCore_required_auth _ _ _ _ _ _ hreq hnone

/-- **server_required_auth**: a server with authentication REQUIRED that returns success has run one
    of ITS OWN listed methods to successful completion, and records the identity that exchange yielded. -/
theorem server_required_auth (cfg : ServerCfg) (cli : ClientScript) (sid : String) (o : Outcome) (adv : Decision)
    (h : serverFull cfg cli sid = .ok o adv) (hreq : cfg.auth = lvlRequired) :
    ∃ m ∈ cfg.methods, (m, true) ∈ o.ran ∧ cli.authOK m = some o.user := by
  obtain ⟨method, user, ran, key, hneg, hauth, _, rfl⟩ := serverFull_ok h
  have hd := negotiate_required_auth hneg hreq
  rcases serverAuthPhase_spec hauth with ⟨hf, _, _⟩ | ⟨_, hm, hin, hok, _, _⟩
  · rw [hd] at hf; cases hf
  · exact ⟨method, hm, hin, hok⟩

/-- **server_required_enc** -/
theorem server_required_enc (cfg : ServerCfg) (cli : ClientScript) (sid : String) (o : Outcome) (adv : Decision)
    (h : serverFull cfg cli sid = .ok o adv) (hreq : cfg.enc = lvlRequired ∨ cfg.integ = lvlRequired) :
    o.streamKey.isSome = true := by
  obtain ⟨method, user, ran, key, _, _, hkey, rfl⟩ := serverFull_ok h
  exact setupEnc_spec hkey (.inr hreq)

/-- **server_reported_is_real**: the server's reported encryption flag is the stream's state; its
    authentication flag is true exactly when one of its own methods completed, and the reported
    method is that one. -/
theorem server_reported_is_real (cfg : ServerCfg) (cli : ClientScript) (sid : String) (o : Outcome) (adv : Decision)
    (h : serverFull cfg cli sid = .ok o adv) :
    o.reportedEnc = o.streamKey.isSome ∧
    (o.reportedAuth = true ↔ ∃ m, (m, true) ∈ o.ran) ∧
    (o.reportedAuth = true → (o.reportedMethod, true) ∈ o.ran ∧ o.reportedMethod ∈ cfg.methods) ∧
    (∀ x ∈ o.ran, x.1 ∈ cfg.methods) := by
  obtain ⟨method, user, ran, key, _, hauth, _, rfl⟩ := serverFull_ok h
  rcases serverAuthPhase_spec hauth with ⟨hf, rfl, _⟩ | ⟨ht, hm, hin, _, hall, _⟩
  · simp [hf]
  · exact ⟨rfl, ⟨fun _ => ⟨method, hin⟩, fun _ => ht⟩, fun _ => ⟨hin, hm⟩, hall⟩

/-- if encryption was decided the advertised "YES" is backed by a key (the post-auth ad and all
    later traffic are then protected) -/
theorem decided_enc_is_keyed (cfg : ServerCfg) (cli : ClientScript) (sid : String) (o : Outcome) (adv : Decision)
    (h : serverFull cfg cli sid = .ok o adv) (hd : adv.encryption = true) : o.streamKey.isSome = true := by
  obtain ⟨method, user, ran, key, _, _, hkey, rfl⟩ := serverFull_ok h
  exact setupEnc_spec hkey (.inl hd)

/-! Non-vacuity (tests): an honest server satisfies the hypotheses; the catalogue's deviations fail. -/
def honestSrv : ServerScript :=
  { returnCode := none, auth := "YES", enc := "YES", methods := ["CLAIMTOBE"], ciphers := ["AES"], key := .good 2,
    replies := [2], authOK := fun m => m == "CLAIMTOBE", hasKeyMsg := some 0,
    postAuth := some ⟨true, some "AUTHORIZED", "sid", "alice", "60007"⟩ }
def strictClient : ClientCfg :=
  { auth := lvlRequired, enc := lvlRequired, integ := lvlRequired, methods := ["CLAIMTOBE"], ciphers := ["AES"] }
example : (clientFull strictClient honestSrv).isOk = true := by decide
example : (clientFull strictClient { honestSrv with auth := "NO", replies := [] }).isOk = false := by decide
example : (clientFull strictClient { honestSrv with key := .absent, postAuth := some ⟨false, some "AUTHORIZED", "s", "u", "1"⟩ }).isOk = false := by decide
example : (clientFull { strictClient with methods := ["PASSWORD"] }
            { honestSrv with methods := ["PASSWORD", "CLAIMTOBE"] }).isOk = false := by decide

/-! ### REQUIRED authentication and resumed handshakes

The property allows one alternative to "a method ran on this connection": the session that was
resumed is an authenticated one. These three theorems say the resumption paths check exactly
that when the local policy marks authentication REQUIRED (`requireAuth = true`). -/

open Cedar.SC in
/-- a client with Authentication REQUIRED that resumes through its command map resumed an
    authenticated session -/
theorem client_resume_required_auth (c : Cache) (now : Nat) (tag addr cmd : Str) (ans : ServerAnswer)
    (c' : Cache) (sid : Str) (key : Option Nat) (user : String) (auth : Bool)
    (h : clientTry c now tag addr cmd ans true = (c', .resumed sid key user auth)) : auth = true := by
  obtain ⟨_, e, _, _, _, _, _, _, _, ha, hr⟩ := C07.resume_only_routed c now tag addr cmd ans true c' sid key user auth h
  rw [ha]; exact hr rfl

open Cedar.SC in
/-- the same for a session named explicitly by id -/
theorem client_explicit_required_auth (c : Cache) (now : Nat) (sid : Str) (ans : ServerAnswer)
    (c' : Cache) (sid' : Str) (key : Option Nat) (user : String) (auth : Bool)
    (h : clientById c now sid ans true = (c', .resumed sid' key user auth)) : auth = true := by
  unfold clientById Cache.lookupNonExpired at h
  cases hg : c.get sid with
  | none => simp [hg] at h
  | some e =>
    simp only [hg] at h
    by_cases hx : e.expired now = true
    · simp [hx] at h
    · simp only [hx, Bool.false_eq_true, if_false] at h
      by_cases hg2 : (!(e.key.isSome && (e.crypto == "AES" || e.crypto == "AESGCM")) || (true && !e.authenticated)) = true
      · rw [if_pos hg2] at h; simp at h
      · rw [if_neg hg2] at h
        have hae : e.authenticated = true := by
          cases ha : e.authenticated with
          | true => rfl
          | false => exfalso; apply hg2; simp [ha]
        cases ans <;> simp at h
        rw [← h.2.2.2.2]; exact hae

open Cedar.SC in
/-- a server whose policy for the named command marks authentication REQUIRED and that resumes a
    session resumed an authenticated one -/
theorem server_resume_required_auth (c : Cache) (now : Nat) (sid : Str) (want : Bool) (nonce : Nat)
    (c' : Cache) (reply : ResumeReply) (o : ResumeOutcome)
    (h : serverResume c now sid want nonce true = (c', reply, some o)) : o.authenticated = true := by
  obtain ⟨_, _, _, _, _, _, _, _, _, hr⟩ := C06.resume_needs_key c now sid want nonce true c' reply o h
  exact hr rfl

/-! ### "all later traffic is AES-GCM protected", on the Stream model

`client_required_enc` / `server_required_enc` conclude `o.streamKey.isSome`, a field of the handshake
model. The bridge: `streamKey = some k` is the key `setupStreamEncryption` hands to
`SetSymmetricKey` (`Stream.setKey`), and a stream so keyed, driven by ANY history of application
operations that contains no explicit `SetCryptoMode(false)`, emits only `.ct` frames sealed under `k`
and accepts only seals under `k` (`Cedar.run_protected`, CedarProofs/Keyed.lean; the exact wire
form of each frame is `C12.wire_format`, the nonces `C12.nonce_sequence`). -/

/-- **keyed_traffic_protected** (the bridge): whatever state `s` the stream was in during the
    cleartext handshake and whatever fresh IV `SetSymmetricKey` drew, after `setKey k iv` every
    history without a crypto-off toggle is `ProtectedBy k`: every frame put on the wire is a
    non-empty `.ct` whose seal is under `k` (opaque to any stream not holding `k`), and every frame
    accepted by any receive API is a seal under `k` (raw bytes and seals under other keys are
    errors). -/
theorem keyed_traffic_protected (s : Stream) (k : Nat) (iv : IV) (hist : List Op)
    (hon : ∀ op ∈ hist, op.keepsCrypto = true) :
    ProtectedBy ((s.setKey k iv).run hist).1 ((s.setKey k iv).run hist).2 k :=
  run_protected _ k (setKey_keyed s k iv) hist hon

/-- **client_required_traffic_protected**: a client whose policy marks encryption or integrity
    REQUIRED and whose handshake succeeded — against ANY server script — has a session key `k`, and
    all its later traffic on that stream is AES-GCM protected under `k` in the sense above. -/
theorem client_required_traffic_protected (cfg : ClientCfg) (srv : ServerScript) (o : Outcome)
    (h : clientFull cfg srv = .ok o) (hreq : cfg.enc = lvlRequired ∨ cfg.integ = lvlRequired)
    (s : Stream) (iv : IV) (hist : List Op) (hon : ∀ op ∈ hist, op.keepsCrypto = true) :
    ∃ k, o.streamKey = some k ∧ o.reportedEnc = true ∧
      ProtectedBy ((s.setKey k iv).run hist).1 ((s.setKey k iv).run hist).2 k := by
  have hk := client_required_enc cfg srv o h hreq
  have hre := client_reported_enc_is_real cfg srv o h
  cases hs : o.streamKey with
  | none => simp [hs] at hk
  | some k => exact ⟨k, rfl, by rw [hre, hs]; rfl, keyed_traffic_protected s k iv hist hon⟩

/-- **server_required_traffic_protected**: the same for a server, against any client script; also
    when encryption was merely DECIDED by the negotiation (`decided_enc_is_keyed`). -/
theorem server_required_traffic_protected (cfg : ServerCfg) (cli : ClientScript) (sid : String) (o : Outcome) (adv : Decision)
    (h : serverFull cfg cli sid = .ok o adv)
    (hreq : cfg.enc = lvlRequired ∨ cfg.integ = lvlRequired ∨ adv.encryption = true)
    (s : Stream) (iv : IV) (hist : List Op) (hon : ∀ op ∈ hist, op.keepsCrypto = true) :
    ∃ k, o.streamKey = some k ∧ o.reportedEnc = true ∧
      ProtectedBy ((s.setKey k iv).run hist).1 ((s.setKey k iv).run hist).2 k := by
  have hk : o.streamKey.isSome = true := by
    rcases hreq with h1 | h1 | h1
    · exact server_required_enc cfg cli sid o adv h (.inl h1)
    · exact server_required_enc cfg cli sid o adv h (.inr h1)
    · exact decided_enc_is_keyed cfg cli sid o adv h h1
  have hre := (server_reported_is_real cfg cli sid o adv h).1
  cases hs : o.streamKey with
  | none => simp [hs] at hk
  | some k => exact ⟨k, rfl, by rw [hre, hs]; rfl, keyed_traffic_protected s k iv hist hon⟩

/-- **reported_enc_traffic_protected**: more generally, whenever either machine REPORTS encryption,
    the stream is keyed and later traffic is protected (the reported flag is not decoration). -/
theorem reported_enc_traffic_protected (o : Outcome)
    (hreal : o.reportedEnc = o.streamKey.isSome) (hrep : o.reportedEnc = true)
    (s : Stream) (iv : IV) (hist : List Op) (hon : ∀ op ∈ hist, op.keepsCrypto = true) :
    ∃ k, o.streamKey = some k ∧ ProtectedBy ((s.setKey k iv).run hist).1 ((s.setKey k iv).run hist).2 k := by
  cases hs : o.streamKey with
  | none => rw [hs] at hreal; rw [hreal] at hrep; cases hrep
  | some k => exact ⟨k, rfl, keyed_traffic_protected s k iv hist hon⟩

/-! Non-vacuity: the strict client against the honest server gets key `sharedKey 1 2`; a history
    with sends, a secret and a junk frame received emits two `.ct` frames under that key. -/
example : ∃ o, clientFull strictClient honestSrv = .ok o ∧ o.streamKey = some (sharedKey 1 2) := ⟨_, rfl, by decide⟩
example : ((({} : Stream).setKey (sharedKey 1 2) ⟨4, []⟩).run
    [.send [1] 1, .recv ⟨1, 1, .raw [0]⟩, .secret [2]]).2.all
      (fun f => match f.body with | .ct _ c => c.key == sharedKey 1 2 | .raw _ => false) = true := by decide

end Cedar.C03

/-! ### per-command policies: the policy that is met is the one of the command the negotiation is FOR

The server may carry a policy per command (`ServerConfigForCommand`). "Its own policy" is then the
policy of the command the handshake reports as negotiated (and a dispatching server runs) -- whatever
else the request names (`AuthCommand`) and whatever the default policy or other commands' policies say. -/
namespace Cedar.C03
open Cedar Cedar.HS

/-- **server_percommand_required_auth**: success for a command whose policy marks authentication
    REQUIRED ⇒ a method listed by THAT policy completed, for every request (every `AuthCommand`). -/
theorem server_percommand_required_auth (dflt : ServerCfg) (table : Int → Option ServerCfg) (req : CmdReq)
    (cli : ClientScript) (sid : String) (o : Outcome) (adv : Decision)
    (h : serverPerCommand dflt table req cli sid = .ok o adv)
    (hreq : (policyFor dflt table req.negotiatedFor).auth = lvlRequired) :
    ∃ m ∈ (policyFor dflt table req.negotiatedFor).methods, (m, true) ∈ o.ran ∧ cli.authOK m = some o.user :=
  server_required_auth _ cli sid o adv h hreq

/-- **server_percommand_required_enc** -/
theorem server_percommand_required_enc (dflt : ServerCfg) (table : Int → Option ServerCfg) (req : CmdReq)
    (cli : ClientScript) (sid : String) (o : Outcome) (adv : Decision)
    (h : serverPerCommand dflt table req cli sid = .ok o adv)
    (hreq : (policyFor dflt table req.negotiatedFor).enc = lvlRequired ∨ (policyFor dflt table req.negotiatedFor).integ = lvlRequired) :
    o.streamKey.isSome = true :=
  server_required_enc _ cli sid o adv h hreq

/-- **server_percommand_ignores_authcommand**: the outcome is a function of the command alone. -/
theorem server_percommand_ignores_authcommand (dflt : ServerCfg) (table : Int → Option ServerCfg)
    (cmd : Option Int) (a b : Option Int) (cli : ClientScript) (sid : String) :
    serverPerCommand dflt table ⟨cmd, a⟩ cli sid = serverPerCommand dflt table ⟨cmd, b⟩ cli sid := rfl

end Cedar.C03
