/-
  C11 — Token authentication proves possession of a valid token, in both directions.
  Property theorems only; helper lemmas live in CedarProofs/TokenLemmas.lean.

  Reading guide. `serverRun P env now rb m1 m3` is `performTokenAuthenticationServer` as a function
  of everything it depends on: key store and settings `P`, Go's decoders and the reading of proof
  bytes as terms `env`, the clock `now`, the nonce it draws `rb`, and the frames of the client's two
  messages. `clientRun env token usable ra m2` is the client side. `Rd.m1`, `Rd.m2`, `Rd.m3` read a
  message as its sequence of fields with the model's decoder (`CedarModel.Codec`, property C14).
  All theorems hold for every `env`, every frame list and every key store.
-/
import CedarProofs.TokenLemmas

namespace Cedar.C11

open Cedar Cedar.Token

/-- **server_accept_iff** (clause 1 + 2, every check listed). The server accepts, recording
    identity `u`, exactly when: message 1 is `OK, id, token, RA` (RA within the limit, nothing
    trailing); the token has two segments, names a key the server holds, is unexpired and not too
    old, and carries a non-empty string subject `sub`; message 3 is `OK, id, RB, proof` with
    nothing trailing, its id is `sub`, its RB is the nonce the server drew, and its proof reads as
    the HMAC under the key derived from *the server's own recomputation of the token signature*
    over `sub ‖ 0 ‖ RB`; and `u` is the user part of `sub`. The id announced in message 1
    (`w1.id`) occurs nowhere on the right-hand side. -/
theorem server_accept_iff (P : SrvCfg) (env : Env) (now : Int) (rb : Bytes) (m1 m3 : List OutFrame) (u : Option Bytes) :
    serverRun P env now rb m1 m3 = .accept u ↔
    ∃ w1 d1 key c sub w3 d3,
      Rd.m1 { src := m1 } = .ok (w1, d1) ∧ w1.status = authOK ∧ w1.raLen ≤ (keyLen : Int) ∧
      ValidToken P env now w1.token key c ∧ c.sub = .str sub ∧ sub ≠ [] ∧
      Rd.m3 { d1 with src := d1.src ++ m3 } = .ok (w3, d3) ∧ w3.status = authOK ∧ w3.id = sub ∧
      w3.rbLen ≤ (keyLen : Int) ∧ w3.rb = rb ∧
      env.macOf w3.mac = .hmac (.derive (.sign key w1.token) w1.token) (macMsg3 sub rb) ∧
      u = some (userPart sub) :=
  serverRun_accept P env now rb m1 m3 u

/-- **identity_from_token** (clause 2). Whatever the client announces, an accepting server
    records the user part of the `sub` claim of the token whose signature it recomputed — and a
    token without a string subject is never accepted. -/
theorem identity_from_token (P : SrvCfg) (env : Env) (now : Int) (rb : Bytes) (m1 m3 : List OutFrame) (u : Option Bytes)
    (h : serverRun P env now rb m1 m3 = .accept u) :
    ∃ w1 d1 key c sub, Rd.m1 { src := m1 } = .ok (w1, d1) ∧ ValidToken P env now w1.token key c ∧
      c.sub = .str sub ∧ sub ≠ [] ∧ u = some (userPart sub) := by
  obtain ⟨w1, d1, key, c, sub, _, _, hr1, _, _, hv, hsub, hne, _, _, _, _, _, _, hu⟩ := (server_accept_iff ..).mp h
  exact ⟨w1, d1, key, c, sub, hr1, hv, hsub, hne, hu⟩

/-- **valid_token_means** : what "valid" unfolds to — two segments, a header Go can decode whose
    `kid` (absent or empty = POOL) names a key `loadSigningKey` yields, a payload Go can decode,
    `now < exp` when `exp` is present, `iat ≥ now − maxAge` when `iat` is present and a maximum age
    is in force, `nbf ≤ now` when `nbf` is present; a time claim that is not a number refuses the token. -/
theorem valid_token_means (P : SrvCfg) (env : Env) (now : Int) (tok key : Bytes) (c : Claims) :
    ValidToken P env now tok key c ↔
    ∃ h p kidv, splitDots tok = [h, p] ∧ env.hdr h = .ok kidv ∧ kidv ≠ .nonStr ∧
      loadSigningKey P.ks (keyIdOf kidv) = some key ∧ env.claims p = .ok c ∧
      (match c.exp with | .bad => False | .num e => now < e | .absent => True) ∧
      (match c.iat with
        | .bad => False
        | .num i => ¬ (maxAgeOf P.cfgMaxAge P.envMaxAge > 0 ∧ i < now - maxAgeOf P.cfgMaxAge P.envMaxAge)
        | .absent => True) ∧
      (match c.nbf with | .bad => False | .num n => n ≤ now | .absent => True) :=
  Iff.rfl

/-- **possession_server** (clause 1, Dolev–Yao corollary). Let the peer be any party all of whose
    bytes, when read as a proof, are terms it `CanSend` from the signatures it knows and the proofs
    it has seen. If the server accepts, then the peer knows the signature of the accepted token
    under the server's key, or it relays a proof over exactly this subject and this fresh `rb`
    made by someone who does. -/
theorem possession_server (P : SrvCfg) (env : Env) (now : Int) (rb : Bytes) (m1 m3 : List OutFrame) (u : Option Bytes)
    (knows : Sig → Prop) (seen : Mac → Prop) (hpeer : ∀ b, CanSend knows seen (env.macOf b))
    (h : serverRun P env now rb m1 m3 = .accept u) :
    ∃ w1 d1 key c sub, Rd.m1 { src := m1 } = .ok (w1, d1) ∧ ValidToken P env now w1.token key c ∧ c.sub = .str sub ∧
      (knows (.sign key w1.token) ∨ seen (.hmac (.derive (.sign key w1.token) w1.token) (macMsg3 sub rb))) := by
  obtain ⟨w1, d1, key, c, sub, w3, _, hr1, _, _, hv, hsub, _, _, _, _, _, _, hmac, _⟩ := (server_accept_iff ..).mp h
  have hc := hpeer w3.mac
  rw [hmac] at hc
  exact ⟨w1, d1, key, c, sub, hr1, hv, hsub, canSend_derive _ _ _ _ _ hc⟩

/-- **refused_stays_refused** (deferred-failure mechanism). Once an error is stored — message 1
    refused, token refused — no message 3 whatsoever makes the server accept, although the key it
    then compares against is the empty one and no nonce was drawn. -/
theorem refused_stays_refused (env : Env) (s : AuthData) (m3 : List OutFrame) (h : s.err ≠ none) (u : Option Bytes) :
    srvPhase2 env s m3 ≠ .accept u := by
  unfold srvPhase2
  intro hacc
  cases h3 : runStep (srvRecv3 env) (s.feed m3) with
  | error e => simp [h3] at hacc
  | ok s3 =>
    simp only [h3] at hacc
    cases he3 : s3.err with
    | some r => simp [he3] at hacc
    | none =>
      obtain ⟨hx3, _⟩ := (runStep_clean _ _ _).mp ⟨h3, he3⟩
      obtain ⟨hes, _⟩ := (srvRecv3_ok _ _ _).mp ⟨hx3, he3⟩
      exact h hes

/-- **server_proof_only_for_valid_token**. The server puts its own proof (status OK) into message
    2 only after message 1 and the token passed every check; otherwise message 2 is the empty
    error form and carries no MAC. -/
theorem server_proof_only_for_valid_token (P : SrvCfg) (env : Env) (now : Int) (rb : Bytes) (m1 : List OutFrame)
    (s : AuthData) (m2 : M2) (h : srvPhase1 P env now rb m1 = .ok (s, m2)) :
    (s.err = none ∧ ∃ w1 d1 key c sub, Rd.m1 { src := m1 } = .ok (w1, d1) ∧ ValidToken P env now w1.token key c ∧
        c.sub = .str sub ∧ m2.status = authOK ∧
        m2.mac = .hmac (.derive (.sign key w1.token) w1.token) (macMsg2 sub m2.serverID w1.ra rb)) ∨
    (s.err ≠ none ∧ m2 = { status := authError }) := by
  cases he : s.err with
  | none =>
    left
    obtain ⟨w1, d1, key, c, sub, hr1, _, _, hv, hsub, _, _, hm2⟩ := (srvPhase1_clean _ _ _ _ _ _ _).mp ⟨h, he⟩
    refine ⟨rfl, w1, d1, key, c, sub, hr1, hv, hsub, ?_, ?_⟩ <;> rw [hm2]
  | some r =>
    right
    refine ⟨by simp, ?_⟩
    unfold srvPhase1 at h
    simp only at h
    cases h1 : runStep srvRecv1 { msg := { src := m1 } } with
    | error e => simp [h1] at h
    | ok s1 =>
      simp only [h1] at h
      have key : ∀ s2 : AuthData, srvSend2 rb s2 = (s, m2) → m2 = { status := authError } := by
        intro s2 hs
        unfold srvSend2 at hs
        cases he2 : s2.err with
        | some r2 => simp only [he2, Prod.mk.injEq] at hs; exact hs.2.symm
        | none =>
          simp only [he2, Prod.mk.injEq] at hs
          rw [← hs.1] at he
          simp at he
      cases he1 : s1.err with
      | some r1 => simp only [he1, Except.ok.injEq] at h; exact key _ h
      | none =>
        simp only [he1] at h
        cases h2 : runStep (validate P env now) s1 with
        | error e => simp [h2] at h
        | ok s2 => simp only [h2, Except.ok.injEq] at h; exact key _ h

/-- **client_accept_iff** (clause 3, every check listed). The client accepts exactly when it
    could load a token (three segments, decodable signature and payload, non-empty string
    subject), message 2 is `OK, id, server id, RA, RB, proof` whose id is the client's subject and
    whose RA is the nonce the client drew (both nonces within the limit), and the proof reads as
    the HMAC under the key derived from *the client's own token signature* over
    `sub ‖ ' ' ‖ server id ‖ 0 ‖ RA ‖ RB`. (The client does not look at bytes after the proof.) -/
theorem client_accept_iff (env : Env) (tokenStr : Bytes) (usable : Bool) (ra : Bytes) (m2 : List OutFrame) (u : Option Bytes) :
    clientRun env tokenStr usable ra m2 = .accept u ↔
    u = none ∧ ∃ tok sig sub w2 d2, ClientToken env tokenStr usable tok sig sub ∧
      Rd.m2 { src := m2 } = .ok (w2, d2) ∧ w2.status = authOK ∧ w2.id = sub ∧ w2.raLen ≤ (keyLen : Int) ∧ w2.ra = ra ∧
      w2.rbLen ≤ (keyLen : Int) ∧ env.macOf w2.mac = .hmac (.derive sig tok) (macMsg2 sub w2.sid ra w2.rb) :=
  clientRun_accept env tokenStr usable ra m2 u

/-- **possession_client** (clause 3, Dolev–Yao corollary). If the client accepts a peer all of
    whose proof bytes are terms it `CanSend`, the peer knows the very signature the client holds,
    or relays a proof over this client's fresh `ra` made by someone who does. -/
theorem possession_client (env : Env) (tokenStr : Bytes) (usable : Bool) (ra : Bytes) (m2 : List OutFrame) (u : Option Bytes)
    (knows : Sig → Prop) (seen : Mac → Prop) (hpeer : ∀ b, CanSend knows seen (env.macOf b))
    (h : clientRun env tokenStr usable ra m2 = .accept u) :
    ∃ tok sig sub sid rb, ClientToken env tokenStr usable tok sig sub ∧
      (knows sig ∨ seen (.hmac (.derive sig tok) (macMsg2 sub sid ra rb))) := by
  obtain ⟨_, tok, sig, sub, w2, _, hct, _, _, _, _, _, _, hmac⟩ := (client_accept_iff ..).mp h
  have hc := hpeer w2.mac
  rw [hmac] at hc
  exact ⟨tok, sig, sub, w2.sid, w2.rb, hct, canSend_derive _ _ _ _ _ hc⟩

/-- **client_refused_stays_refused** (deferred-failure mechanism, client side). A client that could
    not load a token, or that stored any other error, never reports success, whatever message 2 is. -/
theorem client_refused_stays_refused (env : Env) (s : AuthData) (m2 : List OutFrame) (h : s.err ≠ none) (m3 : M3) (u : Option Bytes) :
    cliPhase2 env s m2 ≠ .ok (m3, .accept u) := by
  unfold cliPhase2
  intro hacc
  cases h2 : runStep (cliRecv2 env) (s.feed m2) with
  | error e => simp [h2] at hacc
  | ok s2 =>
    simp only [h2, Except.ok.injEq, Prod.mk.injEq] at hacc
    cases he2 : s2.err with
    | some r => simp [he2] at hacc
    | none =>
      obtain ⟨hx2, _⟩ := (runStep_clean _ _ _).mp ⟨h2, he2⟩
      obtain ⟨hes, _⟩ := (cliRecv2_ok _ _ _).mp ⟨hx2, he2⟩
      exact h hes

/-- **no_reflection**. The server's proof cannot be handed back as the client's: for the same
    client id the two MAC inputs differ in the byte after the id, whatever the nonces. -/
theorem no_reflection (cid sid ra rb rb' : Bytes) : macMsg2 cid sid ra rb ≠ macMsg3 cid rb' :=
  macMsg2_ne_macMsg3 cid sid ra rb rb'

/-- **replay_rejected_server** (freshness is what makes the proof a demonstration). The client half
    of an exchange a server accepted under its nonce `rb` — the same frames of messages 1 and 3,
    byte for byte — is never accepted by a run that drew another nonce `rb'`, at any time, under any
    key store: the recorded message 3 echoes `rb`, and the server compares the echo with its own
    draw. That distinct runs draw distinct nonces is `crypto/rand`'s; the engine checks it on the
    implementation (all RA / RB of a run pairwise distinct, same token on several connections). -/
theorem replay_rejected_server (P P' : SrvCfg) (env : Env) (now now' : Int) (rb rb' : Bytes) (m1 m3 : List OutFrame)
    (u u' : Option Bytes) (h : serverRun P env now rb m1 m3 = .accept u) (hne : rb' ≠ rb) :
    serverRun P' env now' rb' m1 m3 ≠ .accept u' := by
  intro h'
  obtain ⟨w1, d1, _, _, _, w3, d3, hr1, _, _, _, _, _, hr3, _, _, _, hrb, _, _⟩ := (server_accept_iff ..).mp h
  obtain ⟨w1', d1', _, _, _, w3', d3', hr1', _, _, _, _, _, hr3', _, _, _, hrb', _, _⟩ := (server_accept_iff ..).mp h'
  rw [hr1] at hr1'
  injection hr1' with e
  injection e with e1 e2
  subst e1; subst e2
  rw [hr3] at hr3'
  injection hr3' with e
  injection e with e3 e4
  subst e3
  exact hne (hrb'.symm.trans hrb)

/-- **replay_rejected_client**. A message 2 that a client accepted under its nonce `ra` is never
    accepted by a run of a client (same or other token) that drew another nonce `ra'`. -/
theorem replay_rejected_client (env : Env) (tokenStr tokenStr' : Bytes) (usable usable' : Bool) (ra ra' : Bytes)
    (m2 : List OutFrame) (u u' : Option Bytes) (h : clientRun env tokenStr usable ra m2 = .accept u) (hne : ra' ≠ ra) :
    clientRun env tokenStr' usable' ra' m2 ≠ .accept u' := by
  intro h'
  obtain ⟨_, _, _, _, w2, d2, _, hr2, _, _, _, hra, _, _⟩ := (client_accept_iff ..).mp h
  obtain ⟨_, _, _, _, w2', d2', _, hr2', _, _, _, hra', _, _⟩ := (client_accept_iff ..).mp h'
  rw [hr2] at hr2'
  injection hr2' with e
  injection e with e1 e2
  subst e1
  exact hne (hra'.symm.trans hra)

/-- **verify_accepts_exactly** (clause 4). `VerifyIDToken` returns claims `cl` exactly when the
    (white-space trimmed) string has three segments, the header decodes, the key its `kid` names
    (absent, empty or not a string = POOL) is held, the third segment decodes to the signature of
    `header.payload` under that key, the payload decodes, the time claims are valid now, and the
    subject is a non-empty string — and `cl` is that subject with the token's `exp` and `iat`. -/
theorem verify_accepts_exactly (P : SrvCfg) (env : Env) (now : Int) (tokenStr : Bytes) (cl : IDClaims) :
    verifyIDToken P env now tokenStr = .ok cl ↔
    ∃ h p sg kidv key c, splitDots (trimSpace tokenStr) = [h, p, sg] ∧ env.hdr h = .ok kidv ∧
      loadSigningKey P.ks (keyIdOf kidv) = some key ∧ env.sigOf sg = .ok (.sign key (h ++ [dot] ++ p)) ∧
      env.claims p = .ok c ∧ TimeValid now (maxAgeOf P.cfgMaxAge P.envMaxAge) c ∧
      c.sub = .str cl.subject ∧ cl.subject ≠ [] ∧ cl.expiry = claimInt c.exp ∧ cl.issuedAt = claimInt c.iat :=
  verifyIDToken_ok P env now tokenStr cl

/-- **exchange_and_verify_agree_on_tokens**: a token (with a string `kid` or none) that the
    exchange accepts as valid is, with its signature attached, accepted by the standalone check —
    the two paths apply the same key lookup and the same time rule. -/
theorem verify_accepts_what_the_exchange_accepts (P : SrvCfg) (env : Env) (now : Int) (h p sg key : Bytes) (c : Claims) (sub : Bytes)
    (hnodot : splitDots (h ++ [dot] ++ p) = [h, p]) (hv : ValidToken P env now (h ++ [dot] ++ p) key c)
    (hsub : c.sub = .str sub) (hne : sub ≠ []) (hsig : env.sigOf sg = .ok (.sign key (h ++ [dot] ++ p)))
    (hfull : splitDots (trimSpace (h ++ [dot] ++ p ++ [dot] ++ sg)) = [h, p, sg]) :
    verifyIDToken P env now (h ++ [dot] ++ p ++ [dot] ++ sg) = .ok ⟨sub, claimInt c.exp, claimInt c.iat⟩ := by
  obtain ⟨h', p', kidv, hs, hhdr, _, hkey, hc, ht⟩ := hv
  rw [hnodot] at hs
  simp only [List.cons.injEq, and_true] at hs
  obtain ⟨rfl, rfl⟩ := hs
  exact (verify_accepts_exactly ..).mpr ⟨h, p, sg, kidv, key, c, hfull, hhdr, hkey, hsig, hc, ht, hsub, hne, rfl, rfl⟩

/-- **identity_fix_D12** (documentation of the defect fixed in /repo): before the fix a token
    without `sub` authenticated whatever id the client announced; after it the outcome does not
    depend on the announced id at all. -/
theorem identity_before_fix_fails : ∃ claimed, subjectBeforeFix claimed .absent = .ok claimed ∧ claimed ≠ [] :=
  ⟨[109], rfl, by decide⟩

theorem identity_after_fix (c1 c2 : Bytes) (sub : SubV) : subjectAfterFix c1 sub = subjectAfterFix c2 sub := by
  cases sub <;> rfl

/-! Non-vacuity and necessity of each check: one concrete valid exchange, and exchanges differing
    from it in a single element. -/
namespace Demo
def kid : Bytes := [107]                 -- "k"
def keyFile : Bytes := [1, 2, 3, 4]
def key : Bytes := scramble keyFile
def P : SrvCfg := { ks := { dirSet := true, named := fun k => if k = kid then some keyFile else none } }
def hSeg : Bytes := [104]               -- stands for the header segment
def pSeg : Bytes := [112]               -- payload segment
def qSeg : Bytes := [113]               -- payload segment of a token without subject
def tok : Bytes := hSeg ++ [dot] ++ pSeg
def sub : Bytes := [97, 64, 98]         -- "a@b"
def rb : Bytes := [5, 6]
def ra : Bytes := [7, 8]
def sid : Bytes := serverIDOf []
def K : MKey := .derive (.sign key tok) tok
def proof3 : Mac := .hmac K (macMsg3 sub rb)
def proof2 : Mac := .hmac K (macMsg2 sub sid ra rb)
def env : Env :=
  { hdr := fun b => if b = hSeg then .ok (.str kid) else .b64err,
    claims := fun b => if b = pSeg then .ok { exp := .num 1000, iat := .num 500, sub := .str sub }
                       else if b = qSeg then .ok { exp := .num 1000, iat := .num 500, sub := .absent } else .b64err,
    sigOf := fun b => if b = [115] then .ok (.sign key tok) else .b64err,
    macOf := fun b => if b = [51] then proof3 else if b = [50] then proof2 else .raw b }
def i64 (v : Int) : Bytes := be64 (toU64 v)
def idStr (s : Bytes) : Bytes := i64 s.length ++ s ++ [0]
def blob (b : Bytes) : Bytes := i64 b.length ++ b
/-- message 1 with the given status, announced id, token and trailing bytes -/
def m1 (st : Int) (claimed t trail : Bytes) : List OutFrame := [(i64 st ++ idStr claimed ++ t ++ [0] ++ blob ra ++ trail, true)]
def m3 (st : Int) (id rbEcho mac trail : Bytes) : List OutFrame := [(i64 st ++ idStr id ++ blob rbEcho ++ blob mac ++ trail, true)]
def m2 (st : Int) (id raEcho mac : Bytes) : List OutFrame := [(i64 st ++ idStr id ++ idStr sid ++ blob raEcho ++ blob rb ++ blob mac, true)]
def goodM1 := m1 0 sub tok []
def goodM3 := m3 0 sub rb [51] []
def clientToken : Bytes := tok ++ [dot] ++ [115]
end Demo
open Demo

set_option maxRecDepth 100000

/-- the valid exchange is accepted, and the identity is the user part of the subject -/
example : serverRun P env 600 rb goodM1 goodM3 = .accept (some [97]) := by decide
/-- … also when the client announces another id, or none: the identity does not change -/
example : serverRun P env 600 rb (m1 0 [114, 111, 111, 116] tok []) goodM3 = .accept (some [97]) := by decide
example : serverRun P env 600 rb (m1 0 [] tok []) goodM3 = .accept (some [97]) := by decide
/-- … and when the frames are cut elsewhere -/
example : serverRun P env 600 rb [((goodM1.map (·.1)).flatten.take 9, false), ((goodM1.map (·.1)).flatten.drop 9, true)] goodM3
    = .accept (some [97]) := by decide

/-! **each_check_necessary** (server): one element altered, everything else as above -/
example : serverRun P env 600 rb goodM1 (m3 0 sub rb [52] []) = .reject (.auth .mac) := by decide             -- other proof bytes
example : serverRun P env 600 rb goodM1 (m3 0 sub rb [] []) = .reject (.auth .mac) := by decide               -- empty proof
example : serverRun P env 600 rb goodM1 (m3 0 sub rb [50] []) = .reject (.auth .mac) := by decide             -- the server's own proof reflected
example : serverRun P env 600 rb goodM1 (m3 0 sub [5, 7] [51] []) = .reject (.auth .nonceMismatch) := by decide -- wrong RB echo
example : serverRun P env 600 rb goodM1 (m3 0 sub [5] [51] []) = .reject (.auth .nonceMismatch) := by decide  -- truncated RB echo
example : serverRun P env 600 [5, 9] goodM1 goodM3 = .reject (.auth .nonceMismatch) := by decide              -- proof for another run's RB
example : serverRun P env 600 rb goodM1 (m3 0 [114] rb [51] []) = .reject (.auth .idMismatch) := by decide    -- other id in message 3
example : serverRun P env 600 rb goodM1 (m3 1 sub rb [51] []) = .reject (.auth .status) := by decide          -- status ≠ OK
example : serverRun P env 600 rb goodM1 (m3 (-1) sub rb [51] []) = .reject (.auth .peerError) := by decide
example : serverRun P env 600 rb goodM1 (m3 0 sub rb [51] [0]) = .reject (.auth .trailing) := by decide       -- trailing byte
example : serverRun P env 600 rb (m1 1 sub tok []) goodM3 = .reject (.auth .status) := by decide
example : serverRun P env 600 rb (m1 0 sub tok [0]) goodM3 = .reject (.auth .trailing) := by decide
example : serverRun P env 1000 rb goodM1 goodM3 = .reject (.auth .expired) := by decide                      -- now = exp
example : serverRun P env 999 rb goodM1 goodM3 = .accept (some [97]) := by decide                            -- now = exp − 1
example : serverRun { P with cfgMaxAge := 100 } env 600 rb goodM1 goodM3 = .accept (some [97]) := by decide   -- age = max age
example : serverRun { P with cfgMaxAge := 100 } env 601 rb goodM1 goodM3 = .reject (.auth .tooOld) := by decide -- age = max age + 1
example : serverRun { P with ks := { dirSet := true } } env 600 rb goodM1 goodM3 = .reject (.auth .noKey) := by decide -- key not held
example : serverRun P env 600 rb (m1 0 sub (hSeg ++ [dot] ++ [120]) []) goodM3 = .reject (.auth .payload) := by decide -- altered payload
example : serverRun P env 600 rb (m1 0 sub (hSeg ++ [dot] ++ qSeg) []) goodM3 = .reject (.auth .noSub) := by decide     -- no subject …
example : serverRun P env 600 rb (m1 0 [109] (hSeg ++ [dot] ++ qSeg) []) (m3 0 [109] rb [51] []) = .reject (.auth .noSub) := by decide -- … whatever is announced (D12)
/-- a refused message 1 followed by the proof anyone can compute (empty key, no nonce) -/
example : serverRun P { env with macOf := fun b => if b = [48] then .hmac .nil (macMsg3 sub []) else .raw b } 1000 rb goodM1
    (m3 0 sub [] [48] []) = .reject (.auth .expired) := by decide

/-! client -/
example : clientRun env clientToken true ra (m2 0 sub ra [50]) = .accept none := by decide
example : clientRun env clientToken true ra (m2 0 sub ra [50] ++ [([1, 2, 3], true)]) = .accept none := by decide   -- bytes after message 2: not looked at
example : clientRun env clientToken true ra (m2 0 sub ra [53]) = .reject (.auth .mac) := by decide
example : clientRun env clientToken true ra (m2 0 sub ra [51]) = .reject (.auth .mac) := by decide             -- a message-3 proof
example : clientRun env clientToken true ra (m2 0 sub ra []) = .reject (.auth .mac) := by decide
example : clientRun env clientToken true ra (m2 0 sub [7, 9] [50]) = .reject (.auth .nonceMismatch) := by decide
example : clientRun env clientToken true [7, 9] (m2 0 sub ra [50]) = .reject (.auth .nonceMismatch) := by decide -- answer to another run's RA
example : clientRun env clientToken true ra (m2 0 [120] ra [50]) = .reject (.auth .idMismatch) := by decide
example : clientRun env clientToken true ra (m2 2 sub ra [50]) = .reject (.auth .status) := by decide
example : clientRun env clientToken true ra (m2 (-1) sub ra [50]) = .reject (.auth .peerError) := by decide
example : clientRun env tok true ra (m2 0 sub ra [50]) = .reject (.auth .load) := by decide                    -- no signature segment

/-! standalone verification -/
example : verifyIDToken P env 600 clientToken = .ok ⟨sub, 1000, 500⟩ := by decide
example : verifyIDToken P env 600 ([32] ++ clientToken ++ [10]) = .ok ⟨sub, 1000, 500⟩ := by decide
example : verifyIDToken P env 1000 clientToken = .error .expired := by decide
example : verifyIDToken P { env with sigOf := fun _ => .ok (.raw [1]) } 600 clientToken = .error .sig := by decide
example : verifyIDToken P { env with sigOf := fun _ => .ok (.sign [9] tok) } 600 clientToken = .error .sig := by decide   -- signed by another key
example : verifyIDToken { P with ks := { dirSet := true } } env 600 clientToken = .error .noKey := by decide
example : verifyIDToken P env 600 tok = .error .tokFormat := by decide

-- nbf (fix F-C11-nbf-ignored): not yet valid / valid from now on / not a number
example : checkTiming 600 3600 { nbf := .num 601 } = .error .notYet := by decide
example : checkTiming 600 3600 { nbf := .num 600 } = .ok () := by decide
example : checkTiming 600 3600 { nbf := .bad } = .error .badTime := by decide

-- replay: the hypotheses of the two replay theorems are met by the accepted runs above
example : serverRun P env 700 [5, 9] goodM1 goodM3 ≠ .accept (some [97]) :=
  replay_rejected_server P P env 600 700 rb [5, 9] goodM1 goodM3 (some [97]) (some [97]) (by decide) (by decide)
example : clientRun env clientToken true [7, 9] (m2 0 sub ra [50]) ≠ .accept none :=
  replay_rejected_client env clientToken clientToken true true ra [7, 9] (m2 0 sub ra [50]) none none (by decide) (by decide)


/-! ### the same token presented again, later

"Presents a currently valid token" is about the clock of EACH presentation. -/

/-- **validity_is_per_presentation / no revival**: the time test depends on the clock of the presentation
    and on nothing else, and once a token has expired or passed its maximum age it is refused at every
    later clock: there is no `now' ≥ now` at which `checkTiming` succeeds again. -/
theorem expired_or_too_old_is_forever (now now' ma : Int) (c : Claims) (hle : now ≤ now')
    (h : checkTiming now ma c = .error .expired ∨ checkTiming now ma c = .error .tooOld) :
    checkTiming now' ma c ≠ .ok () := by
  intro hok
  have hv := (checkTiming_ok now' ma c).mp hok
  unfold TimeValid at hv
  unfold checkTiming checkTiming.checkIat checkTiming.checkNbf at h
  obtain ⟨h1, h2, h3⟩ := hv
  cases he : c.exp <;> cases hi : c.iat <;> cases hn : c.nbf <;> simp only [he, hi, hn] at h h1 h2 h3 <;>
    (repeat' split at h) <;> simp at h <;> omega

/-- **validity window is an interval**: valid at two clocks ⇒ valid at every clock in between; with
    `expired_or_too_old_is_forever` this makes "accepted earlier" no evidence for "valid now" beyond
    the window itself — a server has to evaluate the test at each presentation. -/
theorem validity_window_convex (t1 t2 t3 ma : Int) (c : Claims) (h12 : t1 ≤ t2) (h23 : t2 ≤ t3)
    (h1 : checkTiming t1 ma c = .ok ()) (h3 : checkTiming t3 ma c = .ok ()) :
    checkTiming t2 ma c = .ok () := by
  rw [checkTiming_ok] at *
  unfold TimeValid at *
  obtain ⟨a1, b1, c1⟩ := h1
  obtain ⟨a3, b3, c3⟩ := h3
  cases he : c.exp <;> cases hi : c.iat <;> cases hn : c.nbf <;> simp only [he, hi, hn] at a1 b1 c1 a3 b3 c3 ⊢ <;>
    (try exact False.elim ‹False›) <;> (refine ⟨?_, ?_, ?_⟩ <;> first | trivial | omega)

/-- accepted at the first presentation, refused at the second (the engine's `aging:*` cases) -/
example : checkTiming 1000 40 { iat := .num 961, exp := .num 5000 } = .ok () ∧
          checkTiming 1002 40 { iat := .num 961, exp := .num 5000 } = .error .tooOld ∧
          checkTiming 1000 40 { iat := .num 1000, exp := .num 1002 } = .ok () ∧
          checkTiming 1002 40 { iat := .num 1000, exp := .num 1002 } = .error .expired := by decide

end Cedar.C11
