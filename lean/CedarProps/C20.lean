/-
  C20 — A CCB dial returns only the connection that presents its fresh connect id.
  Property theorems only; the invariants live in CedarProofs/{CcbDialLemmas,CcbDialSys}.lean.

  A *schedule* is an arbitrary list of events (arrivals of reverse connections with any greeting,
  broker replies, context cancellation, and the choices of Go's `select`); theorems quantify over
  all of them, for every connect id / every RNG.
-/
import CedarGen.FactsCCB
import CedarProofs.CcbDialSys

namespace Cedar.C20

open Cedar Cedar.Ccb

/-- the id of an attempt never changes -/
theorem run_id (id : Id) (evs : List Ev) : ((Std.init id).run evs).id = id := by
  have : ∀ (s : Std), (s.run evs).id = s.id := by
    intro s
    induction evs generalizing s with
    | nil => rfl
    | cons e es ih => exact (ih (s.step e)).trans (Std.id_step s e)
  exact this _

/-- **returns_only_matching** (standard mode). Under every arrival order and every interleaving
    with broker replies, cancellation and select choices: if `dialStandard` hands back
    connection `k`, then `k`'s opening message was a well-formed CCB_REVERSE_CONNECT hello whose
    ClaimId is exactly the id generated for this request, `k` has not been closed, and every
    connection that arrived before it has been closed. -/
theorem returns_only_matching (id : Id) (evs : List Ev) (k : Nat)
    (h : ((Std.init id).run evs).result = some (.ok k)) :
    let s := (Std.init id).run evs
    s.seen[k]? = some (.hello reverseConnectCmd id) ∧ k ∉ s.closed ∧ ∀ j, j < k → j ∈ s.closed := by
  have hinv := Std.inv_run _ evs (Std.inv_init id)
  have := Std.returned_matches hinv h
  rw [run_id] at this
  exact this

/-- **rogues_closed_never_returned** (standard mode). Once the attempt is over (it returned and
    its context was cancelled, which `Dial`'s deferred cancel always does), every connection
    whose greeting was anything other than the hello with this request's id — wrong id, empty id,
    another request's id, wrong command, garbage, immediate close, silence — has been closed, and
    it is not the connection handed back.  All schedules. -/
theorem rogues_closed_never_returned (id : Id) (evs : List Ev) (j : Nat) (g : Greeting)
    (hret : ((Std.init id).run evs).result.isSome = true) (hctx : ((Std.init id).run evs).ctxDone = true)
    (hj : ((Std.init id).run evs).seen[j]? = some g) (hg : g ≠ .hello reverseConnectCmd id) :
    j ∈ ((Std.init id).run evs).closed ∧ ((Std.init id).run evs).result ≠ some (.ok j) := by
  have hinv := Std.inv_run _ evs (Std.inv_init id)
  have hnp : g.presents ((Std.init id).run evs).id = false := by
    rw [run_id]
    cases hp : g.presents id with
    | false => rfl
    | true => exact absurd ((presents_iff g id).mp hp) hg
  refine ⟨Std.rogues_closed hinv hret hctx hj hnp, ?_⟩
  intro hr
  have := (returns_only_matching id evs j hr).1
  rw [hj] at this
  cases this
  exact hg rfl

/-- **broker_failure_ends**. In every reachable state of a running attempt, if the broker's
    failure reply is waiting and the select takes it, the attempt ends with exactly that error
    (no later connection can change it: `attempt_result_final`). -/
theorem broker_failure_ends (id : Id) (evs : List Ev) (m : String)
    (hrun : ((Std.init id).run evs).result = none)
    (hrep : ((Std.init id).run evs).replyCh = some (.failure m)) :
    (((Std.init id).run evs).step .pickReply).result = some (.error (.brokerFailure m)) := by
  have hr := Std.rinv_run _ evs (Std.rinv_init id)
  have hon := hr.on_of_some (by simp [hrep])
  unfold Std.step
  simp [hrun, hon, hrep, Std.ret]

/-- the failure an attempt reports is one the broker really sent -/
theorem broker_failure_genuine (id : Id) (evs : List Ev) (m : String)
    (h : ((Std.init id).run evs).result = some (.error (.brokerFailure m))) :
    Ev.reply (.failure m) ∈ evs := by
  have := Std.hist_run [] (Std.init id) evs (by intro m hm; simp [Std.init] at hm)
  simpa using this m (Or.inr h)

/-- an attempt's result is final: no later event (late reverse connection, late reply) changes it -/
theorem attempt_result_final (id : Id) (evs evs' : List Ev) (r : Except AErr Nat)
    (h : ((Std.init id).run evs).result = some r) : ((Std.init id).run (evs ++ evs')).result = some r := by
  have : (Std.init id).run (evs ++ evs') = ((Std.init id).run evs).run evs' := by
    simp [Std.run, List.foldl_append]
  rw [this]
  exact Std.result_stable_run _ evs' h

/-- **proxied_returns_iff**. In proxied mode (and for nested contacts) the broker connection is
    handed back exactly when the broker was reached, supports streaming, answered success, and the
    hello replayed on that connection is the CCB_REVERSE_CONNECT hello with this request's id;
    in every other case the attempt ends with an error (and the broker connection is closed). -/
theorem proxied_returns_iff (id : Id) (b : Broker) (req : Bool) (reply : PReply) (hello : Greeting) :
    (dialProxy id b req reply hello = .ok () ↔
      b.up = true ∧ b.streamingOk = true ∧ (∃ a, reply = .ad a ∧ a.result = true) ∧
        hello = .hello reverseConnectCmd id) ∧
    (proxyRequestDial id b reply hello = .ok () ↔
      b.up = true ∧ b.streamingOk = true ∧ (∃ a, reply = .ad a ∧ a.result = true) ∧
        hello = .hello reverseConnectCmd id) :=
  ⟨dialProxy_ok id b req reply hello, proxyRequestDial_ok id b reply hello⟩

/-- **proxied_ignores_reply_claim**: what the broker's reply says about connect ids (a `ClaimId`
    attribute of its own: the same id, another one, garbage) changes nothing — the id the hello is
    compared with is the one the requester generated, never one the peer supplied. -/
theorem proxied_ignores_reply_claim (id : Id) (b : Broker) (req : Bool) (a : ReplyAd) (cl : Option String) (hello : Greeting) :
    dialProxy id b req (.ad { a with claim := cl }) hello = dialProxy id b req (.ad a) hello ∧
    proxyRequestDial id b (.ad { a with claim := cl }) hello = proxyRequestDial id b (.ad a) hello := by
  simp [dialProxy, proxyRequestDial, proxyRequest]

/-- … in particular a broker cannot choose the id: a success reply naming `x` followed by a hello
    presenting `x` is refused unless `x` is the requester's own fresh id -/
theorem broker_cannot_choose_id (id x : Id) (b : Broker) (req : Bool) (a : ReplyAd) (cmd : Int)
    (hx : x ≠ id) : dialProxy id b req (.ad { a with claim := some x }) (.hello cmd x) ≠ .ok () := by
  intro h
  have := (proxied_returns_iff id b req (.ad { a with claim := some x }) (.hello cmd x)).1.mp h
  obtain ⟨_, _, _, hh⟩ := this
  injection hh with _ h2
  exact hx h2

/-- a refusal reported by the broker in proxied mode ends the attempt with that error -/
theorem proxied_failure_ends (id : Id) (b : Broker) (req : Bool) (a : ReplyAd) (hello : Greeting)
    (hb : b.up = true) (hs : b.streamingOk = true) (hr : a.result = false) (hu : a.unsupported = false) :
    dialProxy id b req (.ad a) hello = .error (.refused a.err) := by
  simp [dialProxy, proxyRequest, hb, hs, hr, hu]

/-- **dial_returns_only_matching** (whole `Dial`, any number of brokers, any subset working, any
    interleaving of all attempts' events, stagger timer, deliveries, cancellation): if `Dial`
    returns connection `k` of attempt `a`, that attempt drew its own id `rng d`, and the
    connection presented exactly that id (standard mode: the hello on reverse connection `k`,
    still open; proxied/nested: the hello replayed on the broker connection). -/
theorem dial_returns_only_matching (rng : Nat → Id) (contacts : List Contact) (opts : Opts) (sq : Bool)
    (evs : List DEv) (a k : Nat)
    (h : ((Sys.init rng contacts opts sq).run rng evs).result = some (.ok (a, k))) :
    let y := (Sys.init rng contacts opts sq).run rng evs
    ∃ t d, y.atts[a]? = some t ∧ y.draws[a]? = some (some d) ∧ t.id = rng d ∧
      match t with
      | .std s => s.seen[k]? = some (.hello reverseConnectCmd (rng d)) ∧ k ∉ s.closed
      | .prx _ hello _ => hello = some (.hello reverseConnectCmd (rng d)) := by
  intro y
  have hinv : y.Inv rng := Sys.inv_run rng _ evs (Sys.inv_init rng contacts opts sq)
  obtain ⟨t, ht, hres⟩ := hinv.res_att a k h
  have hlen := hinv.len
  have halt : a < y.draws.length := by
    rw [hlen]
    rcases Nat.lt_or_ge a y.atts.length with h | h
    · exact h
    · rw [List.getElem?_eq_none h] at ht; cases ht
  have hdraw : ∃ d, y.draws[a]? = some (some d) := by
    cases hd : y.draws[a]? with
    | none => rw [List.getElem?_eq_none_iff] at hd; omega
    | some o =>
      cases o with
      | some d => exact ⟨d, rfl⟩
      | none =>
        obtain ⟨e, he⟩ := hinv.nodraw a t hd ht
        rw [hres] at he; cases he
  obtain ⟨d, hd⟩ := hdraw
  have hid := hinv.ids a d t hd ht
  refine ⟨t, d, ht, hd, hid, ?_⟩
  have hti := hinv.atts_inv a t ht
  cases t with
  | std s =>
    have := Std.returned_matches hti hres
    simp only [Att.id] at hid
    rw [hid] at this
    exact ⟨this.1, this.2.1⟩
  | prx id hello r =>
    simp only [Att.id] at hid
    subst hid
    apply hti
    cases r with
    | none => simp [Att.result] at hres
    | some x =>
      cases x with
      | ok u => rfl
      | error e => simp [Att.result, Except.map] at hres

/-- **at_most_one**. `Dial` returns at most once: whatever happens afterwards — other brokers'
    attempts succeeding, failing, the timer firing — the result stays the single connection (or
    error) already returned. -/
theorem at_most_one (rng : Nat → Id) (contacts : List Contact) (opts : Opts) (sq : Bool)
    (evs evs' : List DEv) (r : Except DErr (Nat × Nat))
    (h : ((Sys.init rng contacts opts sq).run rng evs).result = some r) :
    ((Sys.init rng contacts opts sq).run rng (evs ++ evs')).result = some r := by
  have : (Sys.init rng contacts opts sq).run rng (evs ++ evs') =
      ((Sys.init rng contacts opts sq).run rng evs).run rng evs' := by
    simp [Sys.run, List.foldl_append]
  rw [this]
  exact Sys.result_stable_run rng _ evs' h

/-- **id_fresh**. Every launched attempt's connect id is its own RNG draw: draws of different
    attempts are different draws (and lie below the draw counter), so with an RNG that never
    repeats (crypto/rand, DESIGN §3) no two attempts of a `Dial` share an id. -/
theorem id_fresh (rng : Nat → Id) (hrng : ∀ i j, rng i = rng j → i = j)
    (contacts : List Contact) (opts : Opts) (sq : Bool) (evs : List DEv)
    (a b : Nat) (ta tb : Att) (hab : a ≠ b)
    (ha : ((Sys.init rng contacts opts sq).run rng evs).atts[a]? = some ta)
    (hb : ((Sys.init rng contacts opts sq).run rng evs).atts[b]? = some tb)
    (i j : Nat)
    (hi : ((Sys.init rng contacts opts sq).run rng evs).draws[a]? = some (some i))
    (hj : ((Sys.init rng contacts opts sq).run rng evs).draws[b]? = some (some j)) :
    i ≠ j ∧ ta.id = rng i ∧ tb.id = rng j ∧ ta.id ≠ tb.id := by
  have hinv : ((Sys.init rng contacts opts sq).run rng evs).Inv rng :=
    Sys.inv_run rng _ evs (Sys.inv_init rng contacts opts sq)
  have hne : i ≠ j := by
    rcases Nat.lt_or_gt_of_ne hab with h | h
    · have := hinv.draw_mono a b i j h hi hj; omega
    · have := hinv.draw_mono b a j i h hj hi; omega
  have h1 := hinv.ids a i ta hi ha
  have h2 := hinv.ids b j tb hj hb
  refine ⟨hne, h1, h2, ?_⟩
  rw [h1, h2]
  intro h; exact hne (hrng i j h)

/-- a reverse connection presenting the id of a *different* attempt of the same `Dial` (or of
    an earlier request: any string other than this attempt's own draw) is never what this
    attempt returns -/
theorem other_requests_id_never_returned (id other : Id) (hne : other ≠ id) (evs : List Ev) (k : Nat)
    (hk : ((Std.init id).run evs).seen[k]? = some (.hello reverseConnectCmd other)) :
    ((Std.init id).run evs).result ≠ some (.ok k) := by
  intro hr
  have := (returns_only_matching id evs k hr).1
  rw [hk] at this
  simp only [Option.some.injEq, Greeting.hello.injEq, true_and] at this
  exact hne this

/-! Non-vacuity: concrete schedules. -/

/-- two rogues (wrong id, garbage), a success reply, then the legitimate hello: connection 2 is
    returned, 0 and 1 were closed -/
example : ((Std.init "ID").run [.arrive (.hello reverseConnectCmd "X"), .arrive .garbage, .reply .success,
    .pickReply, .arrive (.hello reverseConnectCmd "ID"), .pickAccept]).result = some (.ok 2) := by rfl
example : ((Std.init "ID").run [.arrive (.hello reverseConnectCmd "X"), .arrive .garbage, .reply .success,
    .pickReply, .arrive (.hello reverseConnectCmd "ID"), .pickAccept]).closed = [1, 0] := by rfl
/-- the right id under the wrong command is not a match -/
example : ((Std.init "ID").run [.arrive (.hello 68 "ID"), .pickAccept]).result = none := by rfl
/-- the failure reply ends the attempt -/
example : ((Std.init "ID").run [.reply (.failure "gone"), .pickReply]).result =
    some (.error (.brokerFailure "gone")) := by rfl
/-- observed oddity (not a clause of C20): when the failure reply is taken after the accept loop
    already matched a connection, that connection is neither returned nor closed -/
example : let s := (Std.init "ID").run [.arrive (.hello reverseConnectCmd "ID"), .reply (.failure "gone"),
    .pickReply, .cancel]
    s.result = some (.error (.brokerFailure "gone")) ∧ s.orphan = some 0 ∧ s.closed = [] :=
  ⟨rfl, rfl, rfl⟩
/-- two working brokers: the first delivered wins; the other's matching connection is never returned -/
example : ((Sys.init (fun i => match i with | 0 => "R0" | _ => "R1") [.flat, .flat] {} false).run
    (fun i => match i with | 0 => "R0" | _ => "R1")
    [.stagger, .att 1 (.arrive (.hello reverseConnectCmd "R1")), .att 1 .pickAccept,
     .att 0 (.arrive (.hello reverseConnectCmd "R0")), .att 0 .pickAccept,
     .deliver 1, .deliver 0]).result = some (.ok (1, 0)) := by rfl
/-- proxied mode: success reply + matching hello hands back the broker connection; a hello with
    another id does not -/
example : dialProxy "ID" {} false (.ad { result := true }) (.hello reverseConnectCmd "ID") = .ok () := by rfl
example : dialProxy "ID" {} false (.ad { result := true }) (.hello reverseConnectCmd "") = .error .idMismatch := by rfl

/-- **connect_id_source**: `GenerateConnectID` (regenerated table of what it calls and which
    package-level variables it reads) draws from `crypto/rand` and from nothing that survives from
    one request to the next — an id cannot be derived from an earlier one. -/
theorem connect_id_source :
    CedarGen.FactsCCB.connectIdSources.contains "crypto/rand.Read" = true ∧
    CedarGen.FactsCCB.connectIdSources.all
      (fun s => ["crypto/rand.Read", "encoding/hex.EncodeToString", "fmt.Errorf"].contains s) = true := by decide

/-- the non-cryptographic uses of `math/rand` in ccb/: the shuffle of the broker order and the
    jitter of the listener's reconnect delay -/
def declaredMathRand : List (String × String) := [("listener.go", "Int63n"), ("requester.go", "Shuffle")]

/-- **connect_id_origins** ("fresh, unguessable" on every path that produces a connect id, not only
    inside the function named `GenerateConnectID`). Regenerated table: every value ccb/ puts on the
    wire as a request's / hello's ClaimId, and every value it compares a peer's hello against, is
    traced back through local definitions and call arguments to where it was made.
    (1) every origin is a call of `GenerateConnectID` or the id read from a received ad (the
        listener echoing the requester's id);
    (2) on the requesting side (requester.go, nested.go, outbound.go) it is always `GenerateConnectID`;
    (3) the table sees the three generating sites (`dialOne`, `resolveContact`, `OutboundConnect`)
        and both kinds of use, so (1)–(2) are not vacuous;
    (4) `math/rand` is used in ccb/ only for the declared non-cryptographic purposes.
    Inlining an id generator (e.g. `math/rand.Read` + hex) at a call site breaks (1), (2) and (4). -/
theorem connect_id_origins :
    CedarGen.FactsCCB.connectIdOrigins.all (fun x => x.2.2.2.1 == "GenerateConnectID" || x.2.2.2.1 == "peer") = true ∧
    (CedarGen.FactsCCB.connectIdOrigins.filter (fun x => x.1 == "requester.go" || x.1 == "nested.go" || x.1 == "outbound.go")).all
      (fun x => x.2.2.2.1 == "GenerateConnectID") = true ∧
    CedarGen.FactsCCB.connectIdOrigins.contains ("requester.go", "dialStandard", "wire", "GenerateConnectID", "dialOne") = true ∧
    CedarGen.FactsCCB.connectIdOrigins.contains ("requester.go", "acceptReversed", "match", "GenerateConnectID", "dialOne") = true ∧
    CedarGen.FactsCCB.connectIdOrigins.contains ("requester.go", "proxyRequestOnStream", "wire", "GenerateConnectID", "resolveContact") = true ∧
    CedarGen.FactsCCB.connectIdOrigins.contains ("requester.go", "proxyRequestOnStream", "match", "GenerateConnectID", "dialOne") = true ∧
    CedarGen.FactsCCB.connectIdOrigins.contains ("outbound.go", "OutboundConnect", "wire", "GenerateConnectID", "OutboundConnect") = true ∧
    CedarGen.FactsCCB.mathRandUses.all (fun u => declaredMathRand.contains (u.1, u.2.2)) = true := by decide

end Cedar.C20
