/-
  C01 — Framed messages round-trip byte-exactly under any chunking, plain or encrypted.
  Property theorems only; helper lemmas live in CedarProofs/{Prefix,Roundtrip}.lean.
-/
import CedarProofs.Roundtrip
import CedarProofs.CodecStr
import CedarProofs.Incremental
import CedarProofs.CodecLarge
import CedarProofs.Buffered
import CedarProofs.CodecFits

namespace Cedar.C01

open Cedar

theorem beVal_be32 (n : Nat) (h : n < 2^32) : beVal (be32 n) = n := by
  simp only [be32, beN, beVal, List.length_cons, List.length_nil, UInt8.toNat_ofNat']
  simp only [Nat.reducePow] at *
  omega

/-- **frame_roundtrip** (byte level, cleartext frames): a frame the sender may emit parses back to
    itself, leaving the rest of the byte stream untouched. -/
theorem frame_roundtrip (flag : Nat) (p r : Bytes) (hf : flag ≤ maxEndFlag)
    (hp : p.length ≤ maxMessageSize) :
    decodeRawFrame (encodeRawFrame flag p ++ r) = .ok (flag, p, r) := by
  have hlen : p.length < 2^32 := by
    have : maxMessageSize = 1048576 := rfl
    simp only [Nat.reducePow]; omega
  have hflag : flag < 256 := by unfold maxEndFlag at hf; omega
  unfold decodeRawFrame encodeRawFrame hdrBytes
  have hb : be32 p.length = [UInt8.ofNat (p.length / 256^3 % 256), UInt8.ofNat (p.length / 256^2 % 256),
      UInt8.ofNat (p.length / 256^1 % 256), UInt8.ofNat (p.length / 256^0 % 256)] := rfl
  rw [hb]
  simp only [List.cons_append, List.nil_append, parseHdr]
  rw [← hb, beVal_be32 _ hlen]
  simp only [UInt8.toNat_ofNat', Nat.mod_eq_of_lt hflag]
  simp only [show ¬ p.length > maxMessageSize by omega, show ¬ flag > maxEndFlag by omega, if_false,
    List.length_append]
  simp

/-- **send_accept_recv_accept** (the 16/32-byte band): whatever state the stream is in, plaintext
    or encrypting, first protected frame or later, a frame that `sendMessageWithEnd` accepts passes
    the receiver's header checks — its wire length (GCM tag and IV included) is within the limit,
    its flag is valid, and the header length is the body's length. -/
theorem send_accept_recv_accept (s s' : Stream) (data : Bytes) (flag : Nat) (f : WireFrame)
    (hfl : flag ≤ 1) (h : s.sendFrame data flag = .ok (s', f)) :
    checkHdr f = .ok () ∧ f.len = f.body.wireLen ∧ f.flag = flag := by
  unfold Stream.sendFrame at h
  by_cases h1 : data.length > maxMessageSize
  · rw [if_pos h1] at h; cases h
  · rw [if_neg h1] at h
    have plain : ∀ s1, (Except.ok (s1, (⟨flag, data.length, .raw data⟩ : WireFrame)) : Except Err _) = .ok (s', f) →
        checkHdr f = .ok () ∧ f.len = f.body.wireLen ∧ f.flag = flag := by
      intro s1 h
      simp only [Except.ok.injEq, Prod.mk.injEq] at h
      obtain ⟨_, rfl⟩ := h
      refine ⟨?_, rfl, rfl⟩
      unfold checkHdr maxEndFlag
      simp only [show ¬ data.length > maxMessageSize by omega, show ¬ flag > 10 by omega, if_false]
    cases hk : s.key with
    | none => simp only [hk] at h; exact plain _ h
    | some k =>
      cases he : s.encrypted with
      | false => simp only [hk, he] at h; exact plain _ h
      | true =>
        simp only [hk, he] at h
        by_cases h2 : data.length + tagLen + (if s.encCtr = 0 then ivLen else 0) > maxMessageSize
        · rw [if_pos h2] at h; cases h
        · rw [if_neg h2] at h
          by_cases h3 : s.encCtr = counterLimit
          · rw [if_pos h3] at h; cases h
          · rw [if_neg h3] at h
            simp only [Except.ok.injEq, Prod.mk.injEq] at h
            obtain ⟨_, rfl⟩ := h
            refine ⟨?_, ?_, rfl⟩
            · unfold checkHdr maxEndFlag Stream.sealFrame
              simp only [show ¬ (data.length + tagLen + (if s.encCtr = 0 then ivLen else 0)) > maxMessageSize from h2,
                show ¬ flag > 10 by omega, if_false]
            · unfold Stream.sealFrame
              by_cases hc : s.encCtr = 0 <;> simp [hc, Body.wireLen] <;> omega

/-- **messages_roundtrip_plain**: on a plaintext stream, whatever sequence of frame sends the sender
    accepts (any sizes, any cut of messages into partial frames, any number of messages), the
    receiver's `ReceiveCompleteMessage` loop returns exactly the messages sent — same bytes, same
    boundaries, nothing extra. -/
theorem messages_roundtrip_plain (S S' R : Stream) (ops : List SendOp) (sent : List WireFrame)
    (hS : S.crypting = false) (hR : R.crypting = false) (hfl : ∀ op ∈ ops, op.2 ≤ 1)
    (hsend : S.sendAll ops = .ok (S', sent)) :
    R.deliver sent = messagesOf [] ops := by
  obtain ⟨r', hc⟩ := plain_chain ops S S' R sent hS hR hfl hsend
  exact deliver_chain _ hc (by omega)

/-- **messages_roundtrip_encrypted**: the same on an AES-GCM stream — both ends installed the key
    after seeing the same cleartext (their digests agree); sizes are whatever the sender accepts,
    in particular up to the limit minus the 16/32 bytes of overhead. The two endpoints' fresh base
    IVs differ (`hne`, two independent `crypto/rand` draws): a receiver refuses a first frame that
    announces its own IV (fix D16, C02). -/
theorem messages_roundtrip_encrypted (S S' R : Stream) (k : Nat) (ivS ivR : IV) (ops : List SendOp)
    (sent : List WireFrame) (hdig : (R.dig.fr, R.dig.fs) = (S.dig.fs, S.dig.fr)) (hne : ivS ≠ ivR)
    (hfl : ∀ op ∈ ops, op.2 ≤ 1)
    (hsend : (S.setKey k ivS).sendAll ops = .ok (S', sent)) :
    (R.setKey k ivR).deliver sent = messagesOf [] ops := by
  obtain ⟨items, hsent, hops, hlim, hall⟩ :=
    sendAll_items ops _ S' 0 sent (setKey_sendInv S k ivS) hsend
  have hr : RecvInv (R.setKey k ivR) k ivS 0 0 :=
    ⟨rfl, rfl, rfl, by simp [Stream.setKey], fun h => absurd rfl h⟩
  have hd : 0 + 0 = 0 → ((R.setKey k ivR).dig.fr, (R.setKey k ivR).dig.fs) = (S.dig.fs, S.dig.fr) ∧
      ivS ≠ (R.setKey k ivR).encIV := by
    intro _
    refine ⟨?_, hne⟩
    simp only [Stream.setKey]
    rw [Dig.fr_of_final (Dig.finalize_finalRecv _), Dig.fs_of_final (Dig.finalize_finalSend _)]
    exact hdig
  obtain ⟨r', hc⟩ := keyed_chain (dg := (S.dig.fs, S.dig.fr)) items (R.setKey k ivR) 0 hr hd (by
    intro j it hj
    obtain ⟨h1, h2⟩ := hall j it hj
    refine ⟨by simpa using h1, h2, ?_⟩
    have : it.op ∈ ops := by
      rw [← hops]
      exact List.mem_map_of_mem (List.mem_of_getElem? hj)
    exact hfl _ this)
  rw [hsent, ← hops]
  exact deliver_chain _ hc (by omega)

/-- **buffered_writes**: `WriteMessage`/`EndMessage` only ever emit through `sendMessageWithEnd`;
    each emitted frame carries the bytes buffered so far, so the concatenation of what goes on the
    wire for one message is the concatenation of the writes (plaintext streams). -/
theorem write_emits_buffer (s s' : Stream) (d : Bytes) (fs : List WireFrame)
    (hS : s.crypting = false) (h : s.writeMessage d = .ok (s', fs)) :
    (fs = [] ∧ s'.sendBuf = s.sendBuf ++ d) ∨
    (fs = [⟨0, (s.sendBuf ++ d).length, .raw (s.sendBuf ++ d)⟩] ∧ s'.sendBuf = []) := by
  unfold Stream.writeMessage at h
  split at h
  · cases h
  · dsimp only at h
    split at h
    · unfold Stream.flushPartial at h
      split at h
      · simp only [Except.ok.injEq, Prod.mk.injEq] at h
        obtain ⟨rfl, rfl⟩ := h
        left; exact ⟨rfl, rfl⟩
      · split at h
        · cases h
        · rename_i s1 f hsf
          simp only [Except.ok.injEq, Prod.mk.injEq] at h
          obtain ⟨rfl, rfl⟩ := h
          have hc : ({ s with sendBuf := s.sendBuf ++ d } : Stream).crypting = false := by
            simpa [Stream.crypting] using hS
          obtain ⟨hf, _, _, _, _⟩ := sendFrame_plain hc hsf
          right; exact ⟨by rw [hf], rfl⟩
    · simp only [Except.ok.injEq, Prod.mk.injEq] at h
      obtain ⟨rfl, rfl⟩ := h
      left; exact ⟨rfl, rfl⟩

/-- **buffered_roundtrip_plain**: the buffered writer composed with the round trip. Any sequence of
    messages, each assembled by `StartMessage`, any number of `WriteMessage` calls of any sizes
    (flushing a partial frame whenever 4 KiB are buffered) and `EndMessage`, all accepted by the
    sender on a plaintext stream, is returned by the receiver's `ReceiveCompleteMessage` loop as
    exactly one message per `EndMessage`: the concatenation of that message's writes — same bytes,
    same boundaries, nothing extra (`write_emits_buffer` is the single-step fact; this is the whole
    pipeline). -/
theorem buffered_roundtrip_plain (S S' R : Stream) (msgs : List (List Bytes)) (sent : List WireFrame)
    (hS : S.crypting = false) (hR : R.crypting = false)
    (hsend : S.sendBufferedAll msgs = .ok (S', sent)) :
    R.deliver sent = msgs.map List.flatten := by
  obtain ⟨ops, t, hfl, hs, hm⟩ := sendBufferedAll_spec msgs S S' sent hsend
  have hc : (S.withSend [] false).crypting = false := by
    simpa [Stream.crypting, Stream.withSend] using hS
  rw [← hm]
  exact messages_roundtrip_plain (S.withSend [] false) t R ops sent hc hR hfl hs

/-- **buffered_roundtrip_encrypted**: the same on an AES-GCM stream (hypotheses as in
    `messages_roundtrip_encrypted`): every buffered message the sender accepts arrives as one
    message, the concatenation of its writes, whatever the pattern of writes and flushes. -/
theorem buffered_roundtrip_encrypted (S S' R : Stream) (k : Nat) (ivS ivR : IV) (msgs : List (List Bytes))
    (sent : List WireFrame) (hdig : (R.dig.fr, R.dig.fs) = (S.dig.fs, S.dig.fr)) (hne : ivS ≠ ivR)
    (hsend : (S.setKey k ivS).sendBufferedAll msgs = .ok (S', sent)) :
    (R.setKey k ivR).deliver sent = msgs.map List.flatten := by
  obtain ⟨ops, t, hfl, hs, hm⟩ := sendBufferedAll_spec msgs _ S' sent hsend
  have he : (S.setKey k ivS).withSend [] false = (S.withSend [] false).setKey k ivS := by
    cases S; rfl
  rw [he] at hs
  rw [← hm]
  exact messages_roundtrip_encrypted (S.withSend [] false) t R k ivS ivR ops sent hdig hne hfl hs

/-- **typed_put_any_length** (with C14's `int_char_frames_fit` / `Fits`): a frame whose payload
    is within the typed layer's per-mode bound (`MaxFrameSize`, minus 32 bytes of AES-GCM room on an
    encrypting stream) is always accepted by `sendMessageWithEnd` — so the typed layer's own
    splitting never produces a frame the sender (or, by `send_accept_recv_accept`, the receiver)
    rejects for its size. -/
theorem typed_frame_accepted (s : Stream) (data : Bytes) (flag : Nat)
    (hlen : data.length ≤ maxFramePayload s.crypting) (hctr : s.encCtr ≠ counterLimit) :
    ∃ s' f, s.sendFrame data flag = .ok (s', f) := by
  have hmax : maxFrameSize = 1048576 := rfl
  have hmsg : maxMessageSize = 1048576 := rfl
  unfold Stream.sendFrame
  have h1 : ¬ data.length > maxMessageSize := by
    unfold maxFramePayload gcmRoom at hlen; split at hlen <;> omega
  rw [if_neg h1]
  cases hk : s.key with
  | none => exact ⟨_, _, rfl⟩
  | some k =>
    cases he : s.encrypted with
    | false => exact ⟨_, _, rfl⟩
    | true =>
      simp only
      have hc : s.crypting = true := by simp [Stream.crypting, hk, he]
      rw [hc] at hlen
      have h2 : ¬ (data.length + tagLen + (if s.encCtr = 0 then ivLen else 0) > maxMessageSize) := by
        unfold maxFramePayload gcmRoom at hlen
        simp only [if_true] at hlen
        unfold tagLen ivLen
        split <;> omega
      rw [if_neg h2, if_neg hctr]
      exact ⟨_, _, rfl⟩

/-- **typed_strbytes_any_length**: `PutStringBytes` of a NUL-free string of ANY length — the branch
    for strings that fit a frame and the ≥ 1 MiB branch that writes the length prefix, streams the
    bytes and then the NUL through two `PutBytes` calls — puts exactly the reference encoding on the
    wire (on an encrypting stream: 8-byte length = len+1, the bytes, the NUL), after whatever was
    buffered, however the frames are cut. -/
theorem typed_strbytes_any_length (enc : Bool) (buf s : Bytes) (hnz : ∀ b ∈ s, b ≠ 0) (hlen : s.length + 1 < 2^64) :
    wireBytes (putStringBytesL enc buf s) = buf ++ Spec.enc enc (.str s) :=
  wireBytes_putStringBytes enc buf s hnz hlen

/-- **typed_bytes_any_length**: `PutBytes` of any length (split across frames above the frame
    payload limit) puts exactly the bytes on the wire after whatever was buffered. -/
theorem typed_bytes_any_length (enc : Bool) (buf data : Bytes) :
    wireBytes (putBytes enc buf data) = buf ++ data :=
  wireBytes_putBytes enc buf data

/-- **typed_rest_any_length**: `GetRemainingBytes` returns exactly the bytes of the message not yet
    consumed — any number of them, in any cut into frames (empty frames included) — and leaves the
    message exhausted; a connection that ends before the end-of-message frame is an error. -/
theorem typed_rest_any_length (d : Dec) :
    (∀ B, d.pending = some B → ∃ d', d.getRemaining = .ok (B, d') ∧ d'.pending = some []) ∧
    (d.pending = none → d.getRemaining = .error .eof) :=
  ⟨fun B h => getRemaining_spec d B h, getRemaining_truncated d⟩

/-! Non-vacuity (tests, not the claim): the band around the limit. -/
example : ((({} : Stream).setKey 1 ⟨0, []⟩).sendFrame (List.replicate 10 0) 1).isOk = true := by decide
example : maxMessageSize = 1048576 ∧ tagLen = 16 ∧ ivLen = 16 := by decide

/-! ### The incremental receive API -/

/-- the application's read loop: `ReadMessageBytes(n)` until it reports the end of the message -/
def readLoop : Nat → Stream → Nat → Bytes → Except Err (Stream × Bytes)
  | 0, s, _, acc => .ok (s, acc)
  | fuel + 1, s, n, acc =>
    match s.readMessageBytes n with
    | .error .eom => .ok (s, acc)
    | .error e => .error e
    | .ok (s', d) => readLoop fuel s' n (acc ++ d)

theorem readLoop_all : ∀ (fuel : Nat) (s : Stream) (n : Nat) (acc : Bytes),
    0 < n → s.inMessage = true → s.bytesRead ≤ s.recvBuf.length → s.recvBuf.length - s.bytesRead < fuel →
    readLoop fuel s n acc = .ok ({ s with bytesRead := s.recvBuf.length }, acc ++ s.recvBuf.drop s.bytesRead)
  | 0, s, n, acc, _, _, _, hf => by omega
  | fuel + 1, s, n, acc, hn, hin, hle, hf => by
    unfold readLoop Stream.readMessageBytes
    have hni : ¬ (!s.inMessage) = true := by simp [hin]
    rw [if_neg hni]
    by_cases hz : s.recvBuf.length - s.bytesRead = 0
    · rw [if_pos hz]
      have he : s.bytesRead = s.recvBuf.length := by omega
      have hd : s.recvBuf.drop s.bytesRead = [] := by rw [he]; simp
      rw [hd, List.append_nil]
      congr 2
      cases s; simp_all
    · rw [if_neg hz]
      simp only []
      have ih := readLoop_all fuel { s with bytesRead := s.bytesRead + min n (s.recvBuf.length - s.bytesRead) } n
        (acc ++ (s.recvBuf.drop s.bytesRead).take (min n (s.recvBuf.length - s.bytesRead))) hn hin
        (by simp only []; omega) (by simp only []; omega)
      rw [ih]
      simp only [List.append_assoc]
      congr 3
      rw [← List.drop_drop, List.take_append_drop]

/-- **incremental_equals_complete**: on any stream (plain or encrypted, any state) and any wire,
    if `ReceiveCompleteMessage` would return `msg`, then `StartMessageRead` + `ReadMessageBytes(n)`
    until end-of-message + `EndMessageRead` hands the application exactly `msg`, for every chunk
    size `n`, consumes the same frames, and leaves the stream clean for the next message. -/
theorem incremental_equals_complete (s s1 : Stream) (w w' : List WireFrame) (msg : Bytes) (n : Nat)
    (hn : 0 < n) (hclean : s.inMessage = false) (hb : s.recvBuf = [])
    (h : s.recvComplete w = .ok (s1, msg, w')) :
    ∃ s2 s3 s4, s.startMessageRead w = .ok (s2, w') ∧
      readLoop (msg.length + 1) s2 n [] = .ok (s3, msg) ∧
      s3.endMessageRead = .ok s4 ∧
      s4 = { s1 with recvBuf := [], totalMsg := 0, bytesRead := 0, inMessage := false } := by
  have hs : s = s.withBuf [] s.totalMsg := by cases s; simp_all [Stream.withBuf]
  have hrn := readNext_eq_complete w s s1 [] msg w' s.totalMsg h
  rw [← hs] at hrn
  let s2 : Stream := { s1 with recvBuf := msg, totalMsg := msg.length, inMessage := true, bytesRead := 0 }
  refine ⟨s2, { s2 with bytesRead := msg.length },
    { s1 with recvBuf := [], totalMsg := 0, bytesRead := 0, inMessage := false }, ?_, ?_, ?_, rfl⟩
  · unfold Stream.startMessageRead
    have : ¬ s.inMessage = true := by simp [hclean]
    rw [if_neg this, hrn]
    rfl
  · have := readLoop_all (msg.length + 1) s2 n [] hn rfl (Nat.zero_le _) (by show msg.length - 0 < msg.length + 1; omega)
    rw [this]
    show Except.ok (_, [] ++ List.drop 0 msg) = _
    simp
    rfl
  · unfold Stream.endMessageRead
    have h1 : ¬ (!({ s2 with bytesRead := msg.length } : Stream).inMessage) = true := by simp [s2]
    have h2 : ¬ ({ s2 with bytesRead := msg.length } : Stream).bytesRead < ({ s2 with bytesRead := msg.length } : Stream).totalMsg := by
      simp [s2]
    rw [if_neg h1, if_neg h2]

-- non-vacuity (tests): three buffered messages (two writes; no write at all; one write) are accepted
-- and delivered as three messages, plain and encrypted
example : (match ({} : Stream).sendBufferedAll [[[1, 2], [3]], [], [[9]]] with
    | .ok (_, fs) => Stream.deliver {} fs
    | .error _ => []) = [[1, 2, 3], [], [9]] := by decide
example : (match (({} : Stream).setKey 7 ⟨5, [1]⟩).sendBufferedAll [[[1, 2], [3]], [], [[9]]] with
    | .ok (_, fs) => Stream.deliver (({} : Stream).setKey 7 ⟨6, [2]⟩) fs
    | .error _ => []) = [[1, 2, 3], [], [9]] := by decide

/-- **buffered_incremental_plain**: the buffered writer composed with the incremental receive API.
    The frames of ONE buffered message (`StartMessage`, any writes, `EndMessage`; plaintext), read
    by `StartMessageRead`, `ReadMessageBytes(n)` until end-of-message and `EndMessageRead`, yield
    exactly the concatenation of the writes, for every chunk size `n`. -/
theorem buffered_incremental_plain (S S' R : Stream) (ws : List Bytes) (sent : List WireFrame) (n : Nat)
    (hn : 0 < n) (hS : S.crypting = false) (hR : R.crypting = false)
    (hclean : R.inMessage = false) (hb : R.recvBuf = [])
    (hsend : S.sendBuffered ws = .ok (S', sent)) :
    ∃ rest r2 r3 r4, R.startMessageRead sent = .ok (r2, rest) ∧
      readLoop (ws.flatten.length + 1) r2 n [] = .ok (r3, ws.flatten) ∧ r3.endMessageRead = .ok r4 := by
  obtain ⟨ops, t, hfl, hs, _, hm⟩ := sendBuffered_spec ws S S' sent hsend
  have hc : (S.withSend [] false).crypting = false := by
    simpa [Stream.crypting, Stream.withSend] using hS
  obtain ⟨r', hchain⟩ := plain_chain ops (S.withSend [] false) t R sent hc hR hfl hs
  have hm' : messagesOf [] ops = [ws.flatten] := by simpa [messagesOf] using hm []
  rcases recvCompleteAux_chain hchain [] with ⟨r1, msg, rest, ops2, hok, hmsg, _, _⟩ | ⟨_, hnone⟩
  · rw [hm'] at hmsg
    simp only [List.cons.injEq] at hmsg
    obtain ⟨rfl, _⟩ := hmsg
    obtain ⟨s2, s3, s4, h1, h2, h3, _⟩ :=
      incremental_equals_complete R r1 sent rest ws.flatten n hn hclean hb hok
    exact ⟨rest, s2, s3, s4, h1, h2, h3⟩
  · rw [hm'] at hnone; cases hnone

/-! ### "the typed-message layer accepts values of any length, splitting them across frames itself"

`typed_frame_accepted` says a frame WITHIN the per-mode bound is accepted; `Fits` used to be proved
for `putInt`/`putChar` only. Below: every frame the chunking putters produce is within the bound,
for values of ANY length, and the whole output of the typed layer for any value list is accepted by
the stream sender and passes the receiver's header checks. -/

/-- **typed_values_fit**: for data / strings of any length and any buffer within the bound, every
    frame flushed by `PutBytes`, `PutString`, `PutStringBytes`, and the buffer left behind, is at
    most `maxFramePayload enc` bytes; likewise for any sequence of values. -/
theorem typed_values_fit (enc : Bool) (buf : Bytes) (hb : buf.length ≤ maxFramePayload enc) :
    (∀ data, Fits enc (putBytes enc buf data)) ∧ (∀ s, Fits enc (putString enc buf s)) ∧
    (∀ s, Fits enc (putStringBytesL enc buf s)) ∧ (∀ s, Fits enc (putStringBytes enc buf s)) ∧
    (∀ vs, Fits enc (putAll enc buf vs)) :=
  ⟨fun d => fits_putBytes enc buf d hb, fun s => fits_putString enc buf s hb,
   fun s => fits_putStringBytesL enc buf s hb, fun s => fits_putStringBytes enc buf s hb,
   fun vs => fits_putAll enc vs buf hb⟩

/-- the frame sends a finished typed message denotes: each flushed frame as a partial frame (end
    flag 0), then `FinishMessage`'s buffer as the end-of-message frame (flag 1) -/
def typedOps (r : PutRes) : List SendOp := r.2.map (fun f => (f.1, 0)) ++ [(r.1, 1)]

/-- one accepted send keeps the crypto mode and advances the counter by at most one -/
theorem sendFrame_fits (s : Stream) (data : Bytes) (flag : Nat)
    (hlen : data.length ≤ maxFramePayload s.crypting) (hctr : s.encCtr < counterLimit) :
    ∃ s' f, s.sendFrame data flag = .ok (s', f) ∧ s'.crypting = s.crypting ∧ s'.encCtr ≤ s.encCtr + 1 := by
  have hmax : maxFrameSize = 1048576 := rfl
  have hmsg : maxMessageSize = 1048576 := rfl
  unfold Stream.sendFrame
  have h1 : ¬ data.length > maxMessageSize := by
    unfold maxFramePayload gcmRoom at hlen; split at hlen <;> omega
  rw [if_neg h1]
  cases hk : s.key with
  | none => exact ⟨_, _, rfl, by simp [Stream.crypting, hk], by simp⟩
  | some k =>
    cases he : s.encrypted with
    | false => exact ⟨_, _, rfl, by simp [Stream.crypting, hk, he], by simp⟩
    | true =>
      simp only
      have hc : s.crypting = true := by simp [Stream.crypting, hk, he]
      rw [hc] at hlen
      have h2 : ¬ (data.length + tagLen + (if s.encCtr = 0 then ivLen else 0) > maxMessageSize) := by
        unfold maxFramePayload gcmRoom at hlen
        simp only [if_true] at hlen
        unfold tagLen ivLen
        split <;> omega
      have h3 : ¬ s.encCtr = counterLimit := by omega
      rw [if_neg h2, if_neg h3]
      exact ⟨_, _, rfl, by simp [Stream.crypting, hk, he], by simp⟩

/-- a list of sends whose payloads are all within the bound is accepted in full (given counter
    room), and every frame produced passes the receiver's header checks -/
theorem sendAll_fits : ∀ (ops : List SendOp) (s : Stream),
    (∀ op ∈ ops, op.1.length ≤ maxFramePayload s.crypting ∧ op.2 ≤ 1) →
    s.encCtr + ops.length ≤ counterLimit →
    ∃ s' sent, s.sendAll ops = .ok (s', sent) ∧ sent.length = ops.length ∧
      ∀ f ∈ sent, checkHdr f = .ok () ∧ f.len = f.body.wireLen := by
  intro ops
  induction ops with
  | nil => intro s _ _; exact ⟨s, [], rfl, rfl, by simp⟩
  | cons op rest ih =>
    intro s hall hctr
    obtain ⟨d, fl⟩ := op
    obtain ⟨hd, hfl⟩ := hall (d, fl) (List.mem_cons_self ..)
    obtain ⟨s1, f, hsf, hcr, hc1⟩ := sendFrame_fits s d fl hd (by simp at hctr; omega)
    obtain ⟨s2, fs, hrest, hlen, hchk⟩ := ih s1
      (fun o ho => by rw [hcr]; exact hall o (List.mem_cons_of_mem _ ho)) (by simp at hctr; omega)
    refine ⟨s2, f :: fs, by simp [Stream.sendAll, hsf, hrest], by simp [hlen], ?_⟩
    intro g hg
    simp only [List.mem_cons] at hg
    rcases hg with rfl | hg
    · obtain ⟨a, b, _⟩ := send_accept_recv_accept s s1 d fl g hfl hsf
      exact ⟨a, b⟩
    · exact hchk g hg

/-- **typed_any_value_accepted**: encode ANY list of values (strings of any length included) with
    the typed layer starting from an empty buffer and finish the message; then every frame it
    emits — however many the splitting produced — is accepted by `sendMessageWithEnd` on a stream in
    the same crypto mode (with counter room for them), and each resulting wire frame passes the
    receiver's header validation (length within the limit with GCM tag and IV included, valid flag,
    header length = body length). Same for a single `PutBytes` / `PutStringBytes` of any length. -/
theorem typed_any_value_accepted (s : Stream) (r : PutRes) (hr : Fits s.crypting r)
    (hctr : s.encCtr + (r.2.length + 1) ≤ counterLimit) :
    ∃ s' sent, s.sendAll (typedOps r) = .ok (s', sent) ∧ sent.length = r.2.length + 1 ∧
      ∀ f ∈ sent, checkHdr f = .ok () ∧ f.len = f.body.wireLen := by
  have hlen : (typedOps r).length = r.2.length + 1 := by simp [typedOps]
  obtain ⟨s', sent, h1, h2, h3⟩ := sendAll_fits (typedOps r) s (by
    intro op hop
    simp only [typedOps, List.mem_append, List.mem_map, List.mem_singleton] at hop
    rcases hop with ⟨f, hf, rfl⟩ | rfl
    · exact ⟨hr.1 f hf, by omega⟩
    · exact ⟨hr.2, by omega⟩) (by rw [hlen]; exact hctr)
  exact ⟨s', sent, h1, by rw [h2, hlen], h3⟩

theorem typed_putAll_accepted (s : Stream) (vs : List Val)
    (hctr : s.encCtr + ((putAll s.crypting [] vs).2.length + 1) ≤ counterLimit) :
    ∃ s' sent, s.sendAll (typedOps (putAll s.crypting [] vs)) = .ok (s', sent) ∧
      ∀ f ∈ sent, checkHdr f = .ok () ∧ f.len = f.body.wireLen := by
  obtain ⟨s', sent, h1, _, h3⟩ := typed_any_value_accepted s _ (fits_putAll s.crypting vs [] (by simp)) hctr
  exact ⟨s', sent, h1, h3⟩

theorem typed_strbytes_accepted (s : Stream) (str : Bytes)
    (hctr : s.encCtr + ((putStringBytesL s.crypting [] str).2.length + 1) ≤ counterLimit) :
    ∃ s' sent, s.sendAll (typedOps (putStringBytesL s.crypting [] str)) = .ok (s', sent) ∧
      ∀ f ∈ sent, checkHdr f = .ok () ∧ f.len = f.body.wireLen := by
  obtain ⟨s', sent, h1, _, h3⟩ := typed_any_value_accepted s _ (fits_putStringBytesL s.crypting [] str (by simp)) hctr
  exact ⟨s', sent, h1, h3⟩

/-- non-vacuity: a 3-frame split on an encrypting stream (a scaled-down instance: `decide` cannot
    walk a megabyte; the theorem covers the real sizes) and the Fits hypotheses on small inputs -/
example : Fits true (putString true [1, 2] [65, 66]) := fits_putString true [1, 2] [65, 66] (by decide)
example : (typedOps ([9], [([1, 2], false), ([3], false)])).length = 3 := by decide
example : ((({} : Stream).setKey 1 ⟨0, []⟩).sendAll (typedOps ([9], [([1, 2], false), ([3], false)]))).isOk = true := by decide

/-! ### the length prefix of an encrypted string is an int32

`typed_strbytes_any_length` / `strbytes_layout` assume `len + 1 < 2^64`, the range of the model's
8-byte prefix. The Go code writes `PutInt32(int32(length))` (message.go PutString/PutStringBytes):
the low 32 bits, sign-extended. The honest bound is `2^31`. -/

/-- what `PutInt32(ctx, int32(length))` puts on the wire for a Go `int` length `n` -/
def goLenPrefix (n : Nat) : Bytes := be64 (toU64 (toI32 (n : Int)))

/-- below 2^31 the int32 conversion is the identity: Go's prefix is the reference prefix -/
theorem goLenPrefix_ok (n : Nat) (h : n < 2^31) : goLenPrefix n = be64 n := by
  unfold goLenPrefix
  rw [toI32_small n h, toU64_nat n (by omega)]

/-- **typed_strbytes_any_length_i32** (true bound): for a NUL-free string with `len + 1 < 2^31`,
    `PutStringBytes` puts exactly the reference encoding on the wire in both modes and at every
    length (both branches), AND the 8-byte prefix of that encoding is what Go's
    `PutInt32(int32(len+1))` writes. -/
theorem typed_strbytes_any_length_i32 (enc : Bool) (buf s : Bytes) (hnz : ∀ b ∈ s, b ≠ 0) (hlen : s.length + 1 < 2^31) :
    wireBytes (putStringBytesL enc buf s) = buf ++ Spec.enc enc (.str s) ∧
    wireBytes (putString enc buf s) = buf ++ Spec.enc enc (.str s) ∧
    Spec.enc true (.str s) = goLenPrefix (s.length + 1) ++ s ++ [0] := by
  refine ⟨wireBytes_putStringBytes enc buf s hnz (by omega), wireBytes_putString enc buf s hnz (by omega), ?_⟩
  rw [goLenPrefix_ok _ hlen]
  simp [Spec.enc]

/-- **strbytes_prefix_wraps** (finding, reported): at and above 2^31 Go's prefix is NOT the reference
    prefix. For `len + 1 = 2^31` it encodes −2^31 (the receiver's `GetString` rejects a negative
    length: the sender has streamed 2 GiB and got no error); for `len + 1 = 2^32 + 5` it encodes 5
    (a well-formed prefix announcing 5 bytes: the receiver returns a 5-byte string and reads the
    remaining 4 GiB as the next values). So `typed_strbytes_any_length` with its `< 2^64` hypothesis
    is a statement about the model's 64-bit prefix only; for the code the bound is 2^31
    (`typed_strbytes_any_length_i32`). Fixed in the library: PutString / PutStringBytes now refuse
    such a string on an encrypting stream instead of wrapping. -/
theorem strbytes_prefix_wraps :
    goLenPrefix (2^31) ≠ be64 (2^31) ∧ toI32 ((2^31 : Nat) : Int) = -(2^31 : Int) ∧
    goLenPrefix (2^32 + 5) = be64 5 := by
  decide

end Cedar.C01
