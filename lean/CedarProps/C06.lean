/-
  C06 — Session resumption requires the session key and never revives a dead session.
-/
import CedarProofs.CacheLemmas
import CedarProofs.Prefix
import CedarProofs.Keyed
import CedarProofs.CacheHistory
import CedarProps.C02

namespace Cedar.C06
open Cedar Cedar.SC

/-- **resume_needs_key / resume_restores_truth**: a successful server-side resumption found a
    live (not expired at lookup time) entry that carries an AES key; the connection is switched to
    that key, and the reported identity and authentication status are exactly the entry's (what the
    establishing handshake stored). -/
theorem resume_needs_key (c : Cache) (now : Nat) (sid : Str) (want : Bool) (nonce : Nat) (ra : Bool)
    (c' : Cache) (reply : ResumeReply) (o : ResumeOutcome)
    (h : serverResume c now sid want nonce ra = (c', reply, some o)) :
    ∃ e, c.get sid = some e ∧ e.expired now = false ∧ e.key.isSome = true ∧ o.key = e.key ∧ o.encrypted = true ∧
         o.user = e.user ∧ o.authenticated = e.authenticated ∧
         (want = true → reply = .authorized nonce) ∧ (ra = true → o.authenticated = true) := by
  unfold serverResume Cache.lookupNonExpired at h
  cases hg : c.get sid with
  | none => simp [hg] at h
  | some e =>
    simp only [hg] at h
    by_cases hx : e.expired now = true
    · simp [hx] at h
    · have hx' : e.expired now = false := by simpa using hx
      simp only [hx', Bool.false_eq_true, if_false] at h
      by_cases hk : (e.key.isSome && (e.crypto == "AES" || e.crypto == "AESGCM") && (!ra || e.authenticated)) = true
      · simp only [hk, if_true, Prod.mk.injEq, Option.some.injEq] at h
        obtain ⟨_, hr, ho⟩ := h
        subst ho
        refine ⟨e, rfl, hx', ?_, rfl, rfl, rfl, rfl, ?_, ?_⟩
        · simp only [Bool.and_eq_true] at hk; exact hk.1.1
        · intro hw; simp [hw] at hr; exact hr.symm
        · intro hr'; simp only [Bool.and_eq_true, hr', Bool.not_true, Bool.false_or] at hk; exact hk.2
      · simp [hk] at h

/-- **dead_stays_dead** (lookup level): an identifier that is not in the cache, or whose entry is
    expired at lookup time, or whose entry carries no key, is not resumed — and a requester that
    asked for a reply is told `SID_NOT_FOUND`. -/
theorem dead_not_resumed (c : Cache) (now : Nat) (sid : Str) (want : Bool) (nonce : Nat) (ra : Bool)
    (h : c.get sid = none ∨ (∃ e, c.get sid = some e ∧ (e.expired now = true ∨ e.key = none))) :
    (serverResume c now sid want nonce ra).2 = (if want then .sidNotFound else .none, none) := by
  unfold serverResume Cache.lookupNonExpired
  rcases h with h | ⟨e, he, hd⟩
  · simp [h]
  · simp only [he]
    rcases hd with hx | hk
    · simp [hx]
    · by_cases hx : e.expired now = true
      · simp [hx]
      · simp [hx, hk]

/-- the cache is a finite map: an invalidated identifier is gone, other identifiers are untouched,
    and only a later `Store` of that identifier brings it back -/
theorem invalidated_is_dead (c : Cache) (sid : Str) : (c.invalidate sid).get sid = none :=
  get_invalidate_self c sid

theorem never_stored_is_dead (sid : Str) : ({} : Cache).get sid = none := rfl

theorem other_ops_do_not_revive (c : Cache) (sid : Str) (e : Entry) (id' : Str)
    (hdead : c.get sid = none) (he : e.id ≠ sid) (hi : id' ≠ sid) :
    (c.store e).get sid = none ∧ (c.invalidate id').get sid = none := by
  refine ⟨?_, ?_⟩
  · rw [get_store_other c e sid (fun h => he h.symm)]; exact hdead
  · rw [get_invalidate_other c id' sid (fun h => hi h.symm)]; exact hdead

/-- an expired entry is removed by the lookup that finds it expired -/
theorem expired_lookup_removes (c : Cache) (now : Nat) (sid : Str) (e : Entry)
    (hg : c.get sid = some e) (hx : e.expired now = true) :
    (c.lookupNonExpired now sid).2 = none ∧ (c.lookupNonExpired now sid).1.get sid = none := by
  unfold Cache.lookupNonExpired
  simp only [hg, hx, if_true, true_and]
  exact lookup_filter_self _ _

/-- **required_auth_not_resumed**: a server whose policy for the named command REQUIRES
    authentication does not resume a session that was established without it — the requester is
    told the session is unknown (and comes back with a full handshake, in which authentication runs). -/
theorem required_auth_not_resumed (c : Cache) (now : Nat) (sid : Str) (want : Bool) (nonce : Nat) (e : Entry)
    (hg : c.get sid = some e) (hu : e.authenticated = false) :
    (serverResume c now sid want nonce true).2 = (if want then .sidNotFound else .none, none) := by
  unfold serverResume Cache.lookupNonExpired
  simp only [hg]
  by_cases hx : e.expired now = true
  · simp [hx]
  · simp [hx, hu]

/-- **fallback_dead_not_resumed**: a server with its own cache and the global fallback refuses an
    identifier that is dead in both. -/
theorem fallback_dead_not_resumed (own glob : Cache) (now : Nat) (sid : Str) (want : Bool) (nonce : Nat) (ra : Bool)
    (ho : own.get sid = none ∨ (∃ e, own.get sid = some e ∧ e.expired now = true))
    (hg : glob.get sid = none ∨ (∃ e, glob.get sid = some e ∧ (e.expired now = true ∨ e.key = none))) :
    (serverResume2 own glob now sid want nonce ra).2.2 = (if want then .sidNotFound else .none, none) := by
  have hl : (own.lookupNonExpired now sid).2 = none := by
    unfold Cache.lookupNonExpired
    rcases ho with h | ⟨e, he, hx⟩
    · simp [h]
    · simp [he, hx]
  unfold serverResume2
  simp only [hl]
  exact dead_not_resumed glob now sid want nonce ra hg

/-- **fallback_never_revives**: resuming through the global fallback does not copy the session
    into the server's own cache, so invalidating it where it lives (the global cache) is final:
    whatever happened before, the next request for that identifier is refused. -/
theorem fallback_never_revives (own glob : Cache) (now now' : Nat) (sid : Str) (w w' : Bool) (n n' : Nat) (ra ra' : Bool)
    (ho : own.get sid = none) :
    let r := serverResume2 own glob now sid w n ra
    r.1.get sid = none ∧
    (serverResume2 r.1 (r.2.1.invalidate sid) now' sid w' n' ra').2.2 = (if w' then .sidNotFound else .none, none) := by
  have hl : own.lookupNonExpired now sid = (own, none) := by
    unfold Cache.lookupNonExpired; simp [ho]
  have h1 : (serverResume2 own glob now sid w n ra).1 = own := by
    unfold serverResume2; simp [hl]
  refine ⟨by rw [h1]; exact ho, ?_⟩
  rw [h1]
  exact fallback_dead_not_resumed own _ now' sid w' n' ra' (Or.inl ho) (Or.inl (get_invalidate_self _ sid))

/-- **client_explicit_needs_key** (client side of "a session without a key is never resumed", the
    explicit-SessionID path; did not hold of the code as found — F-C06-client-explicit-keyless): a
    client handshake that names a cached session by id and reports it resumed found a live entry
    carrying a key under an AES-GCM protocol name, and reports that key. -/
theorem client_explicit_needs_key (c : Cache) (now : Nat) (sid : Str) (ans : ServerAnswer) (ra : Bool)
    (c' : Cache) (sid' : Str) (key : Option Nat) (user : String) (auth : Bool)
    (h : clientById c now sid ans ra = (c', .resumed sid' key user auth)) :
    key.isSome = true ∧ ∃ e, c.get sid = some e ∧ e.key = key ∧ (e.crypto = "AES" ∨ e.crypto = "AESGCM") := by
  unfold clientById Cache.lookupNonExpired at h
  cases hg : c.get sid with
  | none => simp [hg] at h
  | some e =>
    simp only [hg] at h
    by_cases hx : e.expired now = true
    · simp [hx] at h
    · simp only [hx, Bool.false_eq_true, if_false] at h
      by_cases hg2 : (!(e.key.isSome && (e.crypto == "AES" || e.crypto == "AESGCM")) || (ra && !e.authenticated)) = true
      · rw [if_pos hg2] at h; simp at h
      · rw [if_neg hg2] at h
        have hk : (e.key.isSome && (e.crypto == "AES" || e.crypto == "AESGCM")) = true := by
          cases hk : (e.key.isSome && (e.crypto == "AES" || e.crypto == "AESGCM")) with
          | true => rfl
          | false => exfalso; apply hg2; simp [hk]
        simp only [Bool.and_eq_true, Bool.or_eq_true, beq_iff_eq] at hk
        cases ans <;> simp at h
        obtain ⟨_, _, hkey, _, _⟩ := h
        exact ⟨by rw [← hkey]; exact hk.1, e, rfl, hkey, hk.2⟩

private def liveEntry : Entry :=
  { id := ['s'], addr := [], key := some 1, crypto := "AES", user := "u", authenticated := true,
    validCommands := [], expiration := none, lease := 0, tag := [] }

/-- non-vacuity: a live keyed session in the global cache IS resumed through the fallback -/
example : (serverResume2 {} (({} : Cache).store liveEntry) 5 ['s'] true 9).2.2.2.isSome = true := by
  decide

/-- **no_replay** (relative to the symbolic hash): on a resumed connection the first protected
    frame a receiver accepts was sealed with AAD digests equal to the receiver's own view of the
    cleartext exchanged on THIS connection. A frame recorded on an earlier connection was sealed
    over that connection's request/reply bytes; since request and reply now carry fresh values
    (fix D6) those bytes differ, so the recorded frame is rejected. -/
theorem replay_rejected (r : Stream) (k : Nat) (f : WireFrame) (iv : Option IV) (sl : Sealed)
    (hk : r.key = some k) (he : r.encrypted = true) (hc : r.decCtr = 0) (hfin : r.finRecvAAD = false)
    (hb : f.body = .ct iv sl)
    (hdiff : sl.aad.digests ≠ some (r.dig.fr, r.dig.fs)) :
    ∃ e, r.recvFrameWithEnd f = .error e := by
  unfold Stream.recvFrameWithEnd
  cases hch : checkHdr f with
  | error e => exact ⟨e, rfl⟩
  | ok u =>
    simp only
    by_cases hl : f.len = 0
    · simp [hl, Stream.crypting, hk, he]
    · simp only [hl, if_false, hk, he]
      have : ∃ e, r.openBody k f = .error e := by
        unfold Stream.openBody
        by_cases h0 : f.body.wireLen = 0
        · exact ⟨_, by rw [if_pos h0]⟩
        · rw [if_neg h0]
          by_cases h1 : r.decCtr = 0 ∧ f.body.wireLen < ivLen
          · exact ⟨_, by rw [if_pos h1]⟩
          · rw [if_neg h1]
            simp only [hc, if_true, hb, hfin]
            cases iv with
            | none => exact ⟨_, rfl⟩
            | some i =>
              simp only [Bool.false_eq_true, if_false]
              by_cases hie : i = r.encIV
              · exact ⟨_, by rw [if_pos hie]⟩
              · rw [if_neg hie]
                by_cases hcond : sl.key = k ∧ sl.nonce = i.nonce 0 ∧ sl.aad = ⟨some (r.dig.fr, r.dig.fs), f.flag, f.len⟩
                · exfalso; apply hdiff; rw [hcond.2.2]
                · exact ⟨_, by simp only []; rw [if_neg hcond]⟩
      obtain ⟨e, he'⟩ := this
      exact ⟨e, by rw [he']⟩

/-- distinct cleartext transcripts have distinct (symbolic) digests -/
theorem digests_differ (a b : Bytes) (h : a ≠ b) : Digest.H a ≠ Digest.H b := by
  intro heq; injection heq with h'; exact h h'

/-! ### the legacy no-reply mode: the part of "replays are rejected" that does NOT hold

`handleSessionResumption` answers only a request that carries `ResumeResponse = true`. A request
without it gets no server message at all before the protected traffic: the server's stream has
received the (fixed) request bytes, has sent nothing, and is keyed. -/

/-- the server's stream after `handleSessionResumption` accepted the cleartext request bytes `req`:
    they were fed to the receive digest; the reply — present only when one was asked for, and then
    carrying the fresh `ResumeNonce` — to the send digest; then the session key `k` was installed
    (`setupStreamEncryption`, own fresh base IV `iv`). -/
def serverAfterResume (req : Bytes) (reply : Option Bytes) (k : Nat) (iv : IV) : Stream :=
  let s0 : Stream := ({} : Stream).feedRecv req
  let s1 : Stream := match reply with
    | none => s0
    | some b => { s0 with dig := s0.dig.feedSend b }
  s1.setKey k iv

/-- "a replay of a recorded resumed connection is rejected", stated for the no-reply mode: whatever
    first frame a server connection of the session accepted, a second server connection that
    received the same request bytes (and, like the first, sent nothing) rejects. -/
def noreply_replay_statement : Prop :=
  ∀ (req : Bytes) (k : Nat) (iv1 iv2 : IV) (f : WireFrame),
    ((serverAfterResume req none k iv1).recvFrameWithEnd f).toBool = true →
    ((serverAfterResume req none k iv2).recvFrameWithEnd f).toBool = false

/-- the recorded first protected frame of a legitimate key-holding requester (its own base IV,
    AAD digests = (what it sent, what it received) = (H request, nothing)) -/
private def recordedFrame : WireFrame :=
  ⟨0, 33, .ct (some ⟨5, []⟩) ⟨7, (⟨5, []⟩ : IV).nonce 0, ⟨some (.H [1, 2, 3], .zero), 0, 33⟩, [42]⟩⟩

/-- **noreply_replay_fails** (known finding F-C06-noreply-replay): in the no-reply mode the
    statement is false — the recorded frame authenticates on a second connection. -/
theorem noreply_replay_fails : ¬ noreply_replay_statement := by
  intro h
  have := h [1, 2, 3] 7 ⟨1, []⟩ ⟨2, []⟩ recordedFrame (by decide)
  revert this
  decide

/-- **noreply_digests_repeat**: why — `replay_rejected` needs the recorded frame's AAD digests to
    differ from the fresh connection's `(dig.fr, dig.fs)`. In the no-reply mode they cannot differ:
    every server connection that received the same request has the same two digests (the receive
    digest is a function of the request, the send digest is the unused-direction placeholder), so a
    frame whose AAD matched the first connection matches every later one. The freshness hypothesis
    `hdiff` of `replay_rejected` is exactly what fails. -/
theorem noreply_digests_repeat (req : Bytes) (k : Nat) (iv1 iv2 : IV) :
    ((serverAfterResume req none k iv1).dig.fr, (serverAfterResume req none k iv1).dig.fs) =
    ((serverAfterResume req none k iv2).dig.fr, (serverAfterResume req none k iv2).dig.fs) ∧
    (serverAfterResume req none k iv2).dig.fs = .zero := by
  refine ⟨rfl, rfl⟩

/-- **reply_replay_rejected** (the part that holds): when a reply was asked for, the two
    connections' replies differ (fresh `ResumeNonce`), and then a frame sealed over the first
    connection's digests is rejected by the second — for every request, key, IVs and frame. -/
theorem reply_replay_rejected (req b1 b2 : Bytes) (k : Nat) (iv2 : IV) (f : WireFrame) (iv : Option IV) (sl : Sealed)
    (hfresh : b1 ≠ b2)
    (hb : f.body = .ct iv sl)
    (hrec : sl.aad.digests = some (.H req, .H b1)) :
    ∃ e, (serverAfterResume req (some b2) k iv2).recvFrameWithEnd f = .error e := by
  apply replay_rejected (serverAfterResume req (some b2) k iv2) k f iv sl rfl rfl rfl rfl hb
  rw [hrec]
  intro heq
  have : (Digest.H b1) = (serverAfterResume req (some b2) k iv2).dig.fs := by
    injection heq with h1; injection h1 with _ h2
  have h3 : (serverAfterResume req (some b2) k iv2).dig.fs = .H b2 := by
    simp [serverAfterResume, Stream.setKey, Stream.feedRecv, Dig.feedRecv, Dig.feedSend, Dig.finalize, Dig.fs]
  rw [h3] at this
  exact digests_differ b1 b2 hfresh this

/-! Non-vacuity (tests). -/
def live : Entry := { id := "s1".toList, addr := [], key := some 7, crypto := "AES", user := "alice", authenticated := true,
                      validCommands := [], expiration := some 2000, lease := 100, tag := [] }
def keyless : Entry := { live with id := "s2".toList, key := none, crypto := "" }
def cache0 : Cache := (({} : Cache).store live).store keyless
example : (serverResume cache0 1000 "s1".toList true 5).2 = (.authorized 5, some ⟨"alice", true, true, some 7⟩) := by decide
example : (serverResume cache0 1000 "s2".toList true 5).2 = (.sidNotFound, none) := by decide
example : (serverResume cache0 3000 "s1".toList false 5).2 = (.none, none) := by decide
example : (serverResume (cache0.invalidate "s1".toList) 1000 "s1".toList true 5).2 = (.sidNotFound, none) := by decide

/-! ### Wire-level meaning of a successful resumption

Clause: "a requester without the key can neither get a single byte accepted as application data nor
read anything sent to it; from the resumption reply onwards every byte on that connection is
protected by that key". `resume_needs_key` only reads fields of the outcome record; the theorem
below ties the outcome to the Stream model. -/

/-- **resumed_connection_protected**: let `serverResume` succeed with outcome `o`. Then `o.key` is
    the key `k` of the cached entry, and the server's stream as `handleSessionResumption` leaves it
    (`serverAfterResume`: request bytes received in clear, the reply — if one was asked for — sent in
    clear, then `setupStreamEncryption` with `k`), driven by ANY later history of application
    operations `hist` (sends, buffered writes, secrets, receives of arbitrary frames, crypto-on;
    everything but an explicit `SetCryptoMode(false)` by the application itself), satisfies
    `ProtectedBy … k`:
    (a) every frame accepted by `ReceiveFrameWithEnd`, `ReceiveFrame` or `GetSecret` is a genuine
        seal under `k` and the bytes handed over are its plaintext; a frame whose body is raw bytes
        or a seal under any other key is an error in those and in `ReceiveCompleteMessage`,
        `readNextFrame`/`StartMessageRead` and the typed layer's frame loop;
    (b) every frame the server put on the wire during `hist` is a non-empty `.ct` sealed under `k`,
        and no stream that does not hold `k` — in any state — gets anything out of it. -/
theorem resumed_connection_protected (c : Cache) (now : Nat) (sid : Str) (want : Bool) (nonce : Nat) (ra : Bool)
    (c' : Cache) (reply : ResumeReply) (o : ResumeOutcome)
    (h : serverResume c now sid want nonce ra = (c', reply, some o))
    (req : Bytes) (replyBytes : Option Bytes) (iv : IV) (hist : List Op)
    (hon : ∀ op ∈ hist, op.keepsCrypto = true) :
    ∃ k e, c.get sid = some e ∧ e.key = some k ∧ o.key = some k ∧ o.encrypted = true ∧
      ProtectedBy ((serverAfterResume req replyBytes k iv).run hist).1
                  ((serverAfterResume req replyBytes k iv).run hist).2 k := by
  obtain ⟨e, hg, _, hks, hok, hoe, _⟩ := resume_needs_key c now sid want nonce ra c' reply o h
  cases hk : e.key with
  | none => simp [hk] at hks
  | some k =>
    refine ⟨k, e, hg, hk, by rw [hok, hk], hoe, ?_⟩
    exact run_protected _ k (setKey_keyed _ k iv) hist hon

/-- corollary in the words of the clause: on the resumed connection a requester that does not hold
    the session key (all it can make are raw bytes and seals under its own keys `k' ≠ k`) gets no
    frame accepted at any point, and opens nothing the server sends. -/
theorem resumed_keyless_requester_locked_out (c : Cache) (now : Nat) (sid : Str) (want : Bool) (nonce : Nat) (ra : Bool)
    (c' : Cache) (reply : ResumeReply) (o : ResumeOutcome)
    (h : serverResume c now sid want nonce ra = (c', reply, some o))
    (req : Bytes) (replyBytes : Option Bytes) (iv : IV) (hist : List Op)
    (hon : ∀ op ∈ hist, op.keepsCrypto = true) :
    ∃ k, o.key = some k ∧
      (∀ g : WireFrame, (∀ ivo sl, g.body = .ct ivo sl → sl.key ≠ k) →
         ∃ e, ((serverAfterResume req replyBytes k iv).run hist).1.recvFrameWithEnd g = .error e) ∧
      (∀ f ∈ ((serverAfterResume req replyBytes k iv).run hist).2, ∀ r : Stream, r.key ≠ some k →
         ∃ e, r.recvFrameWithEnd f = .error e) := by
  obtain ⟨k, e, _, _, hok, _, hp⟩ :=
    resumed_connection_protected c now sid want nonce ra c' reply o h req replyBytes iv hist hon
  exact ⟨k, hok, fun g hg => (hp.rejects g hg).1, fun f hf r hr => (hp.sent_opaque f hf r hr).1⟩

/-! Non-vacuity: the hypotheses are met by `cache0`/"s1" (key 7) and a history with sends, a secret
    and a received junk frame; the server emits two frames in it; the key holder's first frame IS
    accepted on that stream while the same frame sealed under key 8 is not. -/
private def histDemo : List Op := [.send [1] 1, .recv ⟨1, 1, .raw [0]⟩, .secret [2], .crypto true]
private def keyHolderFrame (k : Nat) : WireFrame :=
  ⟨0, 33, .ct (some ⟨5, []⟩) ⟨k, (⟨5, []⟩ : IV).nonce 0, ⟨some (.H [1, 2, 3], .H [9]), 0, 33⟩, [42]⟩⟩

example : ∃ k, (some k = some 7) ∧
    ProtectedBy ((serverAfterResume [1,2,3] (some [9]) k ⟨2, []⟩).run histDemo).1
                ((serverAfterResume [1,2,3] (some [9]) k ⟨2, []⟩).run histDemo).2 k := by
  obtain ⟨k, e, hg, hk, hok, _, hp⟩ := resumed_connection_protected cache0 1000 "s1".toList true 5 false
    _ _ _ (rfl) [1,2,3] (some [9]) ⟨2, []⟩ histDemo (by decide)
  have h7 : some 7 = some k := hok
  exact ⟨k, h7.symm, hp⟩
example : ((serverAfterResume [1,2,3] (some [9]) 7 ⟨2, []⟩).run histDemo).2.length = 2 := by decide
example : (((serverAfterResume [1,2,3] (some [9]) 7 ⟨2, []⟩).run histDemo).1.recvFrameWithEnd (keyHolderFrame 7)).toBool = true := by decide
example : (((serverAfterResume [1,2,3] (some [9]) 7 ⟨2, []⟩).run histDemo).1.recvFrameWithEnd (keyHolderFrame 8)).toBool = false := by decide

/-! ### Replays of recorded connections, beyond the first frame

`replay_rejected` / `reply_replay_rejected` cover the FIRST protected frame and take the digest
difference as a hypothesis about that frame. Below: the whole resumed connection, against the C02
adversary enlarged by everything recorded on earlier connections of the session
(`C02.AdvWireS`), with the freshness facts as explicit session hypotheses. -/

/-- **resumed_replay_prefix**: a server connection resumed in the reply mode (reply bytes `b2`,
    carrying this connection's fresh `ResumeNonce`) hands its application only a prefix of the
    messages the key-holding client sends on THIS connection — whatever the adversary forges,
    reflects, or replays from this or any EARLIER connection of the session, at any position.
    Session hypotheses: the base IVs of earlier connections differ in their last 12 bytes from this
    client's (`hiv_fresh`), and every earlier first frame was sealed over a reply other than `b2`
    (`hnonce_fresh`: its second AAD digest is not `H b2` — a consequence of the fresh nonce under
    the free-constructor hash, `digests_differ`). In the no-reply mode the second hypothesis is
    unavailable and the statement fails (`noreply_replay_fails`). -/
theorem resumed_replay_prefix (req b2 : Bytes) (k : Nat) (ivS ivR : IV) (S S' R' : Stream)
    (ops opsR : List SendOp) (sent own old w : List WireFrame)
    (hivS : ivS.w0 < 2^32) (hivR : ivR.w0 < 2^32) (hsep : ivS.tail ≠ ivR.tail)
    (hsend : (S.setKey k ivS).sendAll ops = .ok (S', sent))
    (hown : (serverAfterResume req (some b2) k ivR).sendAll opsR = .ok (R', own))
    (hiv_fresh : ∀ f ∈ old, ∀ ivo c, f.body = .ct ivo c → c.key = k → c.nonce.tail ≠ ivS.tail)
    (hnonce_fresh : ∀ f ∈ old, ∀ ivo c, f.body = .ct ivo c → c.key = k →
        ∀ d1 d2, c.aad.digests = some (d1, d2) → d2 ≠ .H b2)
    (hadv : C02.AdvWireS k sent own old w) (n : Nat) :
    Stream.deliverFuel n (serverAfterResume req (some b2) k ivR) w <+: messagesOf [] ops := by
  let R0 : Stream := { (({} : Stream).feedRecv req) with dig := (({} : Stream).feedRecv req).dig.feedSend b2 }
  have hfs : R0.dig.fs = .H b2 := by
    simp [R0, Stream.feedRecv, Dig.feedRecv, Dig.feedSend, Dig.fs]
  have hold : C02.OldConnections k ivS (R0.dig.fr, R0.dig.fs) old :=
    ⟨hiv_fresh, fun f hf ivo c hb hk heq => hnonce_fresh f hf ivo c hb hk _ _ heq hfs⟩
  exact C02.recv_prefix_resumed S S' R0 R' k ivS ivR ops opsR sent own old w hivS hivR hsep hold hsend hown hadv n

/-! ### "never revives a dead session": all orderings

`invalidated_is_dead`, `other_ops_do_not_revive`, `expired_lookup_removes` are single steps. The
property quantifies over every ordering of cache operations. Below: histories (`List COp`,
CedarProofs/CacheHistory.lean) over the SessionCache model itself — `Store`, `Invalidate`,
`InvalidateExpired`, `LookupNonExpired`, `MapCommand`, server resumptions, client resumptions through
the command map and by explicit id, `storeClientSession` — in any order and number. -/

/-- what "no resumption of `S` succeeds" means in a cache state, at time `now` -/
def NoResume (c : Cache) (S : Str) (now : Nat) : Prop :=
  (∀ want nonce ra, (serverResume c now S want nonce ra).2 = (if want then .sidNotFound else .none, none)) ∧
  (∀ ans ra, (clientById c now S ans ra).2 = .resumeFailed S) ∧
  (∀ tag addr cmd ans ra sid key user auth,
      (clientTry c now tag addr cmd ans ra).2 = .resumed sid key user auth → sid ≠ S)

theorem noResume_of_dead (c : Cache) (S : Str) (t now : Nat) (hw : c.WF) (hd : c.DeadAt S t) (ht : t ≤ now) :
    NoResume c S now := by
  refine ⟨fun want nonce ra => ?_, fun ans ra => ?_, ?_⟩
  · apply dead_not_resumed
    cases hg : c.get S with
    | none => exact .inl rfl
    | some e =>
      obtain ⟨x, hx, hlt⟩ := hd e hg
      exact .inr ⟨e, rfl, .inl (by simp [Entry.expired, hx]; omega)⟩
  · have hn := dead_not_found hd ht
    unfold clientById
    cases hl : c.lookupNonExpired now S with
    | mk c1 found =>
      rw [hl] at hn
      simp only at hn
      subst hn
      rfl
  · intro tag addr cmd ans ra sid key user auth h
    unfold clientTry at h
    split at h
    · cases h
    · split at h
      · cases h
      · rename_i e hl
        obtain ⟨sid', _, hg, hlive⟩ := lookupByCommand_id c now tag addr cmd e hl
        have hne := live_hit_ne hw hd ht hg hlive
        split at h
        · cases h
        · cases ans <;> simp at h
          rw [← h.1]; exact hne

/-- **dead_stays_dead** (every ordering): let `S` be dead as of time `t` in a well-formed cache —
    absent, or present with an expiration before `t`. After ANY history of cache operations in which
    `S` is not stored again (no `Store` / `storeClientSession` of that identifier) and no operation
    reads a clock earlier than `t`, no resumption of `S` succeeds at any time `≥ t`: the server
    answers `SID_NOT_FOUND`, a client naming it explicitly fails, and no command-map route resumes
    it. Since every prefix of a history is a history, this holds at every point along it. -/
theorem dead_stays_dead (c : Cache) (S : Str) (t : Nat) (ops : List COp)
    (hwf : c.WF) (hdead : c.DeadAt S t)
    (hno : ∀ o ∈ ops, o.stores S = false) (htime : ∀ o ∈ ops, ∀ n, o.time = some n → t ≤ n) :
    ∀ pre post, ops = pre ++ post → ∀ now, t ≤ now → NoResume (c.runOps pre) S now := by
  intro pre post hsplit now ht
  subst hsplit
  exact noResume_of_dead _ S t now (wf_runOps pre c hwf)
    (dead_runOps pre c S t hwf hdead (fun o ho => hno o (List.mem_append_left _ ho))
      (fun o ho => htime o (List.mem_append_left _ ho))) ht

/-- **invalidate_wins_history**: any history `pre`, then `Invalidate S`, then any history `post` in
    which `S` is not stored again: at every point after the invalidation, at every time, no
    resumption of `S` succeeds. No assumption on the clock (an absent session is dead at time 0). -/
theorem invalidate_wins_history (c : Cache) (S : Str) (pre post : List COp) (hwf : c.WF)
    (hno : ∀ o ∈ post, o.stores S = false) :
    ∀ p1 p2, post = p1 ++ p2 → ∀ now, NoResume (c.runOps (pre ++ .invalidate S :: p1)) S now := by
  intro p1 p2 hsplit now
  have hw1 : ((c.runOps pre).invalidate S).WF := wf_invalidate (wf_runOps pre c hwf) S
  have hd1 : ((c.runOps pre).invalidate S).DeadAt S 0 := by
    intro e he; rw [get_invalidate_self] at he; cases he
  have hrun : c.runOps (pre ++ .invalidate S :: p1) = ((c.runOps pre).invalidate S).runOps p1 := by
    simp [Cache.runOps, List.foldl_append, COp.apply]
  rw [hrun]
  exact dead_stays_dead _ S 0 post hw1 hd1 hno (fun _ _ _ _ => Nat.zero_le _) p1 p2 hsplit now (Nat.zero_le _)

/-- **expired_stays_dead_history**: a session whose entry is expired at time `t` (whether or not a
    lookup has removed it yet) is never resumed afterwards, in any history that does not store it
    again and whose clock readings are `≥ t`. -/
theorem expired_stays_dead_history (c : Cache) (S : Str) (t : Nat) (e : Entry) (ops : List COp) (hwf : c.WF)
    (hg : c.get S = some e) (hx : e.expired t = true)
    (hno : ∀ o ∈ ops, o.stores S = false) (htime : ∀ o ∈ ops, ∀ n, o.time = some n → t ≤ n) :
    ∀ pre post, ops = pre ++ post → ∀ now, t ≤ now → NoResume (c.runOps pre) S now := by
  apply dead_stays_dead c S t ops hwf ?_ hno htime
  intro e' he'
  rw [hg] at he'
  simp only [Option.some.injEq] at he'
  subst he'
  unfold Entry.expired at hx
  cases hexp : e.expiration with
  | none => simp [hexp] at hx
  | some x => exact ⟨x, rfl, by simpa [hexp] using hx⟩

/-- every cache reachable from the empty one by these operations is well-formed, so `hwf` is no
    restriction -/
theorem reachable_wf (ops : List COp) : (({} : Cache).runOps ops).WF := wf_runOps ops {} wf_empty

/-- the hypothesis "not stored again" is needed, and is the only way back: a `Store` of the
    identifier after the invalidation makes it resumable again (a new handshake established it) -/
example : ((cache0.runOps [.invalidate "s1".toList, .store live]).get "s1".toList).isSome = true := by decide

/-! Non-vacuity: a history with resumptions of another session, a sweep, a client-side store and
    command mapping around an invalidation of "s1" (key 7) meets the hypotheses; "s1" is refused at
    the end, while before the invalidation it was resumable. -/
private def histPost : List COp :=
  [.serverResume 1000 "s2".toList true 1 false, .sweep 1500, .mapCommand [] "a".toList "c".toList "s1".toList,
   .clientStore "t".toList "a".toList keyless, .clientTry 1600 [] "a".toList "c".toList .authorized false,
   .clientById 1700 "s1".toList .authorized false, .lookup 1800 "s1".toList]
example : ∀ o ∈ histPost, o.stores "s1".toList = false := by decide
example : cache0.WF := wf_store (wf_store wf_empty live) keyless
example : (serverResume (cache0.runOps ([.serverResume 900 "s1".toList true 3 false] ++ .invalidate "s1".toList :: histPost))
    2000 "s1".toList true 5).2 = (.sidNotFound, none) := by decide
example : (serverResume (cache0.runOps [.serverResume 900 "s1".toList true 3 false]) 1000 "s1".toList true 5).2.2.isSome = true := by decide

end Cedar.C06
