/-
  C10 — Honest peers negotiate by the policy table and agree on the result.
-/
import CedarProofs.DecisionsTie
import CedarProofs.HandshakeLemmas
import CedarProofs.LoopComplete

namespace Cedar.C10
open Cedar Cedar.HS

/-- the four policy levels -/
def lvl : Fin 4 → String
  | 0 => lvlRequired | 1 => lvlPreferred | 2 => lvlOptional | 3 => lvlNever

/-- The decision table, written from the property text (independent of `negotiateSecurity`):
    `none` = the handshake fails; `some (authRuns, encOn)` otherwise. `haveAuth` / `haveCrypto`:
    a mutually usable authentication method / a common cipher exists. -/
def table (sa ca se ce : Fin 4) (haveAuth haveCrypto : Bool) : Option (Bool × Bool) :=
  let req (a b : Fin 4) : Bool := a == 0 || b == 0
  let nev (a b : Fin 4) : Bool := a == 3 || b == 3
  let pref (a b : Fin 4) : Bool := a == 1 || b == 1
  if (req sa ca && nev sa ca) || (req se ce && nev se ce) ||
     (req sa ca && !haveAuth) || (req se ce && !haveCrypto) then none
  else some (req sa ca || (!nev sa ca && pref sa ca && haveAuth),
             req se ce || (!nev se ce && pref se ce && haveCrypto))

/-- **honest_matches_spec** (level logic): for all 4^4 level combinations and both values of
    "a usable common method / cipher exists", the server's `negotiateSecurity` fails exactly when
    the table says so, and otherwise decides to authenticate / encrypt exactly as the table says:
    authentication runs iff either side requires it, or either prefers it while neither forbids it
    and a usable method exists; likewise encryption. (A finite table: decided by kernel evaluation.) -/
def agrees (r : Option NegErr × Bool × Bool) (t : Option (Bool × Bool)) : Bool :=
  match r, t with
  | (some _, _, _), none => true
  | (none, a, e), some (a', e') => a == a' && e == e'
  | _, _ => false

theorem honest_matches_spec : ∀ (sa ca se ce : Fin 4) (ha hc : Bool),
    agrees (negotiateCore (lvl sa) (lvl ca) (lvl se) (lvl ce) ha hc) (table sa ca se ce ha hc) = true := by
  decide

/-- lifting to arbitrary method and cipher lists: `negotiateSecurity` is `negotiateCore` applied to
    "is there a first common implemented method" / "is there a first common cipher". -/
theorem negotiate_is_core (srv cli : View) :
    let negAuth := (firstCommon (fun m => implemented m && m != authNone) srv.methods cli.methods).getD authNone
    let negCrypto := (firstCommon (fun _ => true) srv.ciphers cli.ciphers).getD ""
    (negotiate srv cli).2 = (negotiateCore srv.auth cli.auth srv.enc cli.enc (negAuth != authNone) (negCrypto != "")).1 ∧
    (negotiate srv cli).1.authentication = (negotiateCore srv.auth cli.auth srv.enc cli.enc (negAuth != authNone) (negCrypto != "")).2.1 ∧
    (negotiate srv cli).1.encryption = (negotiateCore srv.auth cli.auth srv.enc cli.enc (negAuth != authNone) (negCrypto != "")).2.2 :=
  ⟨rfl, rfl, rfl⟩

/-- the negotiated method is in both lists, implemented, and the first such in server order -/
theorem negotiated_method_common (srv cli : View) (m : String)
    (h : firstCommon (fun m => implemented m && m != authNone) srv.methods cli.methods = some m) :
    m ∈ srv.methods ∧ m ∈ cli.methods ∧ implemented m = true ∧ m ≠ authNone := by
  unfold firstCommon at h
  have hm := List.mem_of_find?_eq_some h
  have hp := List.find?_some h
  simp only [Bool.and_eq_true, bne_iff_ne, ne_eq] at hp
  exact ⟨hm, by simpa using hp.2, hp.1.1, hp.1.2⟩

/-- the client's own run of `negotiateSecurity` over an honest server's "YES"/"NO" response never
    contradicts the server's successful decision (so the client proceeds where the server does) -/
theorem client_view_consistent : ∀ (sa ca se ce : Fin 4) (ha hc : Bool),
    (negotiateCore (lvl sa) (lvl ca) (lvl se) (lvl ce) ha hc).1 = none →
    let a := (negotiateCore (lvl sa) (lvl ca) (lvl se) (lvl ce) ha hc).2.1
    let e := (negotiateCore (lvl sa) (lvl ca) (lvl se) (lvl ce) ha hc).2.2
    (negotiateCore (if a then "YES" else "NO") (lvl ca) (if e then "YES" else "NO") (lvl ce) ha hc).1 = none := by
  decide

theorem sharedKey_comm (a b : Nat) : sharedKey a b = sharedKey b a := by
  unfold sharedKey
  by_cases h1 : a ≤ b <;> by_cases h2 : b ≤ a <;> simp [h1, h2]
  · have : a = b := Nat.le_antisymm h1 h2
    rw [this]
  · omega

/-- the joint authentication loop is sound: success means the method is one both sides list and
    the exchange succeeded with the parties' credentials -/
theorem jointLoop_success {offered own : List String} {credOK : String → Bool} :
    ∀ (fuel mask : Nat) (ran : List (String × Bool)) (m : String) (ran' : List (String × Bool)),
      jointLoop offered own credOK fuel mask ran = .success m ran' →
      m ∈ offered ∧ m ∈ own ∧ credOK m = true ∧ (m, true) ∈ ran' := by
  intro fuel
  induction fuel with
  | zero => intro mask ran m ran' h; simp [jointLoop] at h
  | succ fuel ih =>
    intro mask ran m ran' h
    unfold jointLoop at h
    by_cases h0 : mask = 0
    · simp [h0] at h
    · rw [if_neg h0] at h
      split at h
      · cases h
      · rename_i mS hS
        simp only at h
        split at h
        · cases h
        · rename_i mC hC
          by_cases hok : mS = mC ∧ credOK mC = true
          · rw [if_pos hok] at h
            simp only [JointRes.success.injEq] at h
            obtain ⟨rfl, rfl⟩ := h
            exact ⟨List.mem_of_find?_eq_some hC, hok.1 ▸ List.mem_of_find?_eq_some hS, hok.2, by simp⟩
          · rw [if_neg hok] at h
            exact ih _ _ m ran' h

theorem honestAuthPhase_flag {c s d credOK b m ran} (h : honestAuthPhase c s d credOK = .ok (b, m, ran)) :
    b = d.authentication := by
  unfold honestAuthPhase at h
  cases hd : d.authentication with
  | false =>
    simp only [hd, Bool.not_false, if_true] at h
    split at h
    · cases h
    · simp only [Except.ok.injEq, Prod.mk.injEq] at h; exact h.1.symm
  | true =>
    simp only [hd, Bool.not_true, Bool.false_eq_true, if_false] at h
    repeat' split at h
    all_goals first | (simp only [Except.ok.injEq, Prod.mk.injEq] at h; exact h.1.symm) | cases h

theorem estKey_agree (nc ns : String) (a b : Option Nat)
    (hk : (estKey nc a a.isSome (keyKindOf b)).isSome = (estKey ns b b.isSome (keyKindOf a)).isSome) :
    estKey nc a a.isSome (keyKindOf b) = estKey ns b b.isSome (keyKindOf a) := by
  cases a with
  | none => cases b <;> simp [estKey, keyKindOf]
  | some x =>
    cases b with
    | none => simp [estKey, keyKindOf]
    | some y =>
      simp only [estKey, keyKindOf, Option.isSome_some, true_and] at hk ⊢
      by_cases h1 : nc = cryptoAES <;> by_cases h2 : ns = cryptoAES <;> simp [h1, h2, sharedKey_comm x y] at hk ⊢

theorem setupEnc_keys_agree {ce ci se si : String} {dce dse : Bool} {nc ns : String} {a b : Option Nat} {kc ks}
    (h1 : setupEnc ce ci dce nc a a.isSome (keyKindOf b) = .ok kc)
    (h2 : setupEnc se si dse ns b b.isSome (keyKindOf a) = .ok ks)
    (hk : kc.isSome = ks.isSome) : kc = ks := by
  obtain ⟨e1, _⟩ := setupEnc_ok h1
  obtain ⟨e2, _⟩ := setupEnc_ok h2
  rw [e1, e2] at hk ⊢
  exact estKey_agree nc ns a b hk

/-- **honest_agree**: whenever both honest endpoints succeed they report the same authentication
    and encryption outcome and the same session identifier, hold the same key, and ran the same
    exchanges (so they can immediately exchange messages both ways: C01/C02 over the shared key). -/
theorem honest_agree (c : ClientCfg) (s : ServerCfg) (credOK : String → Bool) (user sid : String)
    (co so : Outcome)
    (hc : (honestRun c s credOK user sid).client = .ok co)
    (hs : (honestRun c s credOK user sid).server = .ok so) :
    co.reportedAuth = so.reportedAuth ∧ co.reportedEnc = so.reportedEnc ∧ co.sid = so.sid ∧
    co.streamKey = so.streamKey ∧ co.reportedMethod = so.reportedMethod ∧ co.ran = so.ran := by
  unfold honestRun at hc hs
  rcases hneg : negotiate ⟨s.auth, s.enc, s.methods, s.ciphers⟩ ⟨c.auth, c.enc, c.methods, c.ciphers⟩ with ⟨d, nerr⟩
  simp only [hneg] at hc hs
  cases nerr with
  | some e => simp at hc
  | none =>
    simp only at hc hs
    rcases hcneg : negotiate ⟨(if d.authentication then "YES" else "NO"), (if d.encryption then "YES" else "NO"), s.methods, s.ciphers⟩ ⟨c.auth, c.enc, c.methods, c.ciphers⟩ with ⟨dc, cerr⟩
    simp only [hcneg] at hc hs
    cases cerr with
    | some e => simp at hc
    | none =>
      simp only at hc hs
      rcases hauth : honestAuthPhase c s d credOK with ⟨ce, se⟩ | ⟨didAuth, method, ran⟩
      · simp [hauth] at hc
      · simp only [hauth] at hc hs
        rcases hkc : setupEnc c.enc c.integ dc.encryption dc.negCrypto c.keyId c.keyId.isSome (keyKindOf s.keyId) with e1 | kc
        · rcases hks : setupEnc s.enc s.integ d.encryption d.negCrypto s.keyId s.keyId.isSome (keyKindOf c.keyId) with e2 | ks
          · simp [hkc, hks] at hc
          · simp [hkc, hks] at hc
        · rcases hks : setupEnc s.enc s.integ d.encryption d.negCrypto s.keyId s.keyId.isSome (keyKindOf c.keyId) with e2 | ks
          · simp [hkc, hks] at hc
          · simp only [hkc, hks] at hc hs
            by_cases hk : kc.isSome ≠ ks.isSome
            · simp [hk] at hc
            · simp only [hk, if_false, Except.ok.injEq] at hc hs
              subst hc hs
              have hkeys := setupEnc_keys_agree hkc hks (by simpa using hk)
              exact ⟨honestAuthPhase_flag hauth, by rw [hkeys], rfl, hkeys, rfl, rfl⟩

/-! Non-vacuity (tests): concrete honest pairs. -/
def cReq : ClientCfg := { auth := lvlRequired, enc := lvlOptional, integ := lvlOptional, methods := ["CLAIMTOBE"], ciphers := ["AES"] }
def sOpt : ServerCfg := { auth := lvlOptional, enc := lvlOptional, integ := lvlOptional, methods := ["PASSWORD", "CLAIMTOBE"], ciphers := ["AES"] }
example : (honestRun cReq sOpt (fun m => m == "CLAIMTOBE") "u" "sid").client.isOk = true := by decide
example : (honestRun { cReq with methods := ["PASSWORD"], auth := lvlPreferred } sOpt (fun _ => false) "u" "sid").client.isOk = true := by decide
example : (honestRun { cReq with methods := ["PASSWORD"] } sOpt (fun _ => false) "u" "sid").denied = true := by decide

/-! ### Completeness of the authentication retry loop -/

/-- **retry_loop_complete**: the bitmask retry loop of two honest endpoints (client offers the
    remaining mask, server answers with the first of its methods in it, both run it, a failed method
    is removed from the mask) ends in success with a method that works, WHENEVER some offered method
    works with the two parties' credentials — for every server order, every client order and any
    number of failing methods tried first. Hypothesis `BitSys`: the methods in play have distinct
    single-bit mask values (true of every implemented method except that TOKEN and IDTOKENS, two
    spellings of one method running one exchange, share a bit; before the fix F-C10-idtokens-bit
    IDTOKENS shared SCITOKENS' bit instead, and lists naming both — run by the matrix engine — made
    the two ends run different exchanges). -/
theorem retry_loop_complete (own offered : List String) (credOK : String → Bool)
    (hs : BitSys own offered) (hgood : ∃ g, g ∈ offered ∧ credOK g = true) :
    ∃ m ran, jointLoop offered own credOK (offered.length + 1) (bitmaskOf offered) [] = .success m ran ∧
      credOK m = true ∧ m ∈ offered ∧ m ∈ own :=  by
  obtain ⟨m, ran, h, hc⟩ := jointLoop_complete' hs hgood
  obtain ⟨h1, h2, _, _⟩ := jointLoop_success _ _ _ _ _ h
  exact ⟨m, ran, h, hc, h1, h2⟩

/-- the same at the level of the whole authentication phase of two honest endpoints -/
theorem honest_auth_complete (c : ClientCfg) (s : ServerCfg) (d : Decision) (credOK : String → Bool)
    (hd : d.authentication = true)
    (hs : BitSys s.methods (c.methods.filter (fun m => s.methods.contains m && (!isTokenMethod m || c.tokenCompat))))
    (hgood : ∃ g, g ∈ c.methods.filter (fun m => s.methods.contains m && (!isTokenMethod m || c.tokenCompat)) ∧ credOK g = true) :
    ∃ m ran, honestAuthPhase c s d credOK = .ok (true, m, ran) ∧ credOK m = true := by
  obtain ⟨m, ran, h, hc, _, _⟩ := retry_loop_complete _ _ credOK hs hgood
  obtain ⟨g, hg, _⟩ := hgood
  have hne : c.methods.filter (fun m => s.methods.contains m && (!isTokenMethod m || c.tokenCompat)) ≠ [] := by
    intro h0; rw [h0] at hg; cases hg
  have hsne : s.methods ≠ [] := by
    intro h0
    have := hs.sub g hg
    rw [h0] at this; cases this
  refine ⟨m, ran, ?_, hc⟩
  unfold honestAuthPhase
  simp only [hd, Bool.not_true, Bool.false_eq_true, if_false, hsne, hne]
  rw [h]

/-- non-vacuity: the hypothesis holds for the implemented methods (one of the two token spellings) -/
example : BitSys ["FS", "TOKEN", "KERBEROS", "SCITOKENS", "SSL", "CLAIMTOBE", "PASSWORD"] ["SSL", "PASSWORD", "FS", "CLAIMTOBE"] :=
  bitSys_of_check (by decide)
/-- and fails, as it must, when both spellings of the shared bit are listed -/
example : bitSysCheck ["TOKEN", "IDTOKENS"] ["TOKEN"] = false := by decide
/-- a run: the server prefers FS and KERBEROS, which fail between these two parties; SSL works -/
example : (match jointLoop ["SSL", "FS", "KERBEROS"] ["FS", "KERBEROS", "SSL"] (fun m => m == "SSL") 4
      (bitmaskOf ["SSL", "FS", "KERBEROS"]) [] with
    | .success m ran => (m, ran)
    | _ => ("", [])) = ("SSL", [("FS", false), ("KERBEROS", false), ("SSL", true)]) := by decide

/-! ### The whole honest run against the table; the denial and the session id as messages -/

/-- method / cipher list shapes of the quantifier (equal, disjoint, overlapping in both orders, empty on
    either side, the unimplemented PASSWORD only / first, two usable methods in both orders, no common
    cipher): `(client methods, server methods, client ciphers, server ciphers)` -/
def shapes : List (List String × List String × List String × List String) :=
  [ (["CLAIMTOBE"], ["CLAIMTOBE"], ["AES"], ["AES"]),
    (["PASSWORD"], ["PASSWORD"], ["AES"], ["AES"]),
    (["CLAIMTOBE"], ["PASSWORD"], ["AES"], ["AES"]),
    (["CLAIMTOBE", "PASSWORD"], ["PASSWORD", "CLAIMTOBE"], ["AES"], ["AES"]),
    (["CLAIMTOBE"], ["CLAIMTOBE"], ["AES"], ["3DES"]),
    ([], ["CLAIMTOBE"], ["AES"], ["AES"]),
    (["CLAIMTOBE"], [], ["AES"], ["AES"]),
    (["FS", "CLAIMTOBE"], ["FS", "CLAIMTOBE"], ["AES"], ["AES"]),
    (["CLAIMTOBE", "FS"], ["FS", "CLAIMTOBE"], ["AES"], []) ]

/-- does a method exist that both list, that this build implements and that works between the two
    parties (`credOK`); does a common cipher exist — written without `negotiateSecurity` -/
def usableMethod (cm sm : List String) (credOK : String → Bool) : Bool :=
  sm.any (fun m => cm.contains m && credOK m && m != "PASSWORD" && m != "NONE")
def commonCipher (cc sc : List String) : Bool := sc.any (fun x => cc.contains x)

/-- one cell of the matrix run through `honestRun`, compared with the table: the handshake fails on
    both ends exactly when the table says so, and then — and only then — the client holds an
    explicit denial; otherwise both succeed, authentication ran / encryption is on as the table
    says (encryption at least), and both report the same flags -/
def cellOK (sa ca se ce : Fin 4) (sh : List String × List String × List String × List String)
    (credOK : String → Bool) : Bool :=
  let c : ClientCfg := { auth := lvl ca, enc := lvl ce, integ := lvlOptional, methods := sh.1, ciphers := sh.2.2.1 }
  let s : ServerCfg := { auth := lvl sa, enc := lvl se, integ := lvlOptional, methods := sh.2.1, ciphers := sh.2.2.2 }
  let r := honestRun c s credOK "u" "sid"
  match table sa ca se ce (usableMethod sh.1 sh.2.1 credOK) (commonCipher sh.2.2.1 sh.2.2.2), r.client, r.server with
  | none, .error _, .error _ => r.denied
  | some (a, e), .ok co, .ok so =>
    !r.denied && co.reportedAuth == a && so.reportedAuth == a && (!e || (co.streamKey.isSome && so.streamKey.isSome)) &&
      co.reportedEnc == so.reportedEnc && co.sid == so.sid
  | _, _, _ => false

set_option maxRecDepth 100000 in
/-- **honest_run_matches_table**: for all 4^4 level combinations, every list shape above and the
    credentials "CLAIMTOBE works, FS does not" (so that in the two-method shapes the first common
    method fails on the wire and the second completes): the WHOLE handshake of two honest endpoints —
    both negotiations, the retry loop, both key set-ups, the post-authentication step — succeeds iff
    the table does not say fail, with the table's outcome, and the client is explicitly denied
    exactly in the failing cells. (Finite: decided by kernel evaluation; `honest_matches_spec` +
    `negotiate_is_core` + `honest_auth_complete` are the statements for arbitrary lists.) -/
theorem honest_run_matches_table : ∀ (sa ca se ce : Fin 4), ∀ sh ∈ shapes,
    cellOK sa ca se ce sh (fun m => m == "CLAIMTOBE") = true := by
  decide

/-- **preferred_failing_method_fails_late** — a cell in which the code does NOT follow the table
    (recorded finding F-C10-preferred-auth-fails-late): nobody requires authentication, the server
    prefers it, the only commonly listed method (FS) cannot complete between the two parties. No
    mutually usable method exists, so the table says: success, unauthenticated. `honestRun` — which
    the `matrix` engine compares with two real endpoints cell by cell, this shape included — decides
    to authenticate because a common method is LISTED, the exchange fails on the wire, the client
    gives up and both ends fail, without a denial. (`honest_run_matches_table` above does not cover
    it: in each of its shapes some listed method completes.) -/
theorem preferred_failing_method_fails_late :
    let c : ClientCfg := { auth := lvl 2, enc := lvl 2, integ := lvlOptional, methods := ["FS"], ciphers := ["AES"] }
    let s : ServerCfg := { auth := lvl 1, enc := lvl 2, integ := lvlOptional, methods := ["FS"], ciphers := ["AES"] }
    let r := honestRun c s (fun _ => false) "u" "sid"
    table 1 2 2 2 (usableMethod ["FS"] ["FS"] (fun _ => false)) (commonCipher ["AES"] ["AES"]) = some (false, false) ∧
    (match r.client, r.server with | .error _, .error _ => true | _, _ => false) = true ∧ r.denied = false := by
  decide

/-- the same cell when the listed method works: success, authenticated — the failure above is the
    run-time failure of the method, not the policy -/
example : cellOK 1 2 2 2 (["FS"], ["FS"], ["AES"], ["AES"]) (fun m => m == "FS") = true := by decide

/-- **server_denies_iff**: the server answers with the explicit denial (and fails) exactly when its
    `negotiateSecurity` fails — never a bare close for a policy mismatch -/
theorem server_denies_iff (cfg : ServerCfg) (cli : ClientScript) (sid : String) :
    (∃ e d, serverFull cfg cli sid = .denied e d) ↔
    (negotiate ⟨cfg.auth, cfg.enc, cfg.methods, cfg.ciphers⟩ ⟨cli.auth, cli.enc, cli.methods, cli.ciphers⟩).2 ≠ none := by
  unfold serverFull
  rcases hneg : negotiate ⟨cfg.auth, cfg.enc, cfg.methods, cfg.ciphers⟩ ⟨cli.auth, cli.enc, cli.methods, cli.ciphers⟩ with ⟨d, nerr⟩
  cases nerr with
  | some e => simp
  | none =>
    simp only [ne_eq, not_true_eq_false, iff_false]
    rintro ⟨e, d', h⟩
    repeat' split at h
    all_goals cases h

/-- **client_reads_denial**: a client that receives a negotiation response whose ReturnCode is set
    and is not AUTHORIZED fails with the "refused by the server" class — whatever else the response
    says, whatever its own policy: the denial is a MESSAGE the client acts on, not a closed socket -/
theorem client_reads_denial (cfg : ClientCfg) (srv : ServerScript) (rc : String)
    (h : srv.returnCode = some rc) (h1 : rc ≠ "") (h2 : rc ≠ "AUTHORIZED") :
    clientFull cfg srv = .error .refused := by
  unfold clientFull
  simp [rcRejected, h, h1, h2]

/-- **server_mints_sid** / **client_learns_sid**: the session identifier is chosen by the server
    (`sid` is its fresh draw) and the client's comes out of the post-authentication ad it READ — so
    "both report the same session identifier" is the statement that the ad carries the server's. -/
theorem server_mints_sid (cfg : ServerCfg) (cli : ClientScript) (sid : String) (o : Outcome) (d : Decision)
    (h : serverFull cfg cli sid = .ok o d) : o.sid = sid := by
  unfold serverFull at h
  repeat' split at h
  all_goals first | (simp only [SrvResult.ok.injEq] at h; rw [← h.1]) | cases h

theorem client_learns_sid (cfg : ClientCfg) (srv : ServerScript) (o : Outcome) (h : clientFull cfg srv = .ok o) :
    ∃ pa, srv.postAuth = some pa ∧ o.sid = pa.sid ∧ o.user = pa.user ∧ pa.sealed = o.streamKey.isSome := by
  unfold clientFull at h
  repeat' split at h
  all_goals first
    | (cases h; exact ⟨_, ‹srv.postAuth = some _›, rfl, rfl, Decidable.of_not_not (by assumption)⟩)
    | cases h


/-- **core_is_the_code** (tie T): the level logic the theorems above reason about, `negotiateCore`, IS
    the code of `security.negotiateSecurity` — for ALL level strings (the four standard levels, the
    empty string of an unset field, whatever a peer sends), both search outcomes, every combination:
    it equals `CedarGen.Decisions.negotiateSecurity`, the definition `tools/gen` (trans.go) translates
    statement by statement from the Go source on every run (error return k ↦ `errOf k`; the
    `Authentication` and `Encryption` fields of the negotiation as assigned on that path). A change
    of the decision logic in Go changes the generated definition and this proof no longer checks. -/
theorem core_is_the_code (sa ca se ce : String) (ha hc : Bool) :
    negotiateCore sa ca se ce ha hc =
      (let g := CedarGen.Decisions.negotiateSecurity sa ca se ce ha hc
       (Cedar.Tie.errOf g.ret, g.authentication, g.encryption)) :=
  Cedar.Tie.core_eq_gen sa ca se ce ha hc

/-- non-vacuity (tests): the generated code on three inputs, one with an unset level -/
example : (CedarGen.Decisions.negotiateSecurity "REQUIRED" "NEVER" "OPTIONAL" "OPTIONAL" true true).ret = 1 := by decide
example : CedarGen.Decisions.negotiateSecurity "PREFERRED" "" "OPTIONAL" "REQUIRED" true true = ⟨0, true, true, true⟩ := by decide
example : (CedarGen.Decisions.negotiateSecurity "OPTIONAL" "OPTIONAL" "PREFERRED" "OPTIONAL" true false).encryption = false := by decide

end Cedar.C10
