/-
  C18 — Filesystem authentication cannot be steered outside its directory.
  Property theorems only; helper lemmas and the shape predicates live in CedarProofs/FsPathLemmas.lean.
  Model: CedarModel/FsPath.lean (validateFSAuthPath, fsAddrLeaf, verifyFSPathEndpoint, the client
  exchange with its filesystem-effect log, the server's verification of the Lstat result).
-/
import CedarProofs.FsPathLemmas

namespace Cedar.C18

open Cedar Cedar.FsPath

/-! ## Clause 1 — what the validator accepts -/

/-- **validate_shape** (clause "only one whose path lies directly under the fixed temporary base
    directory with a name of the recognised shapes, and, for address-qualified names, naming the
    server endpoint it is really connected to"). For EVERY byte string `p`, mode and connection
    address: if the validator accepts `p` and returns `leaf`, then `p` is literally
    `fsAuthBaseDir ++ "/" ++ leaf`, `leaf` is a single non-empty component (no `/`, no NUL, not `.`
    or `..`), and `leaf` has one of the three recognised shapes — the address-qualified one only
    with the connection's own endpoint (same port string, same 16-byte address). -/
theorem validate_shape (p : Bytes) (remote : Bool) (peer : Peer) (leaf : Bytes)
    (h : validate p remote peer = .ok leaf) :
    p = baseDir ++ slash :: leaf ∧ leaf ≠ [] ∧ slash ∉ leaf ∧ (0 : UInt8) ∉ leaf ∧
    leaf ≠ dot ∧ leaf ≠ dotdot ∧ Recognised remote peer leaf := by
  obtain ⟨_, habs, hcl, hdir, hleaf, hs, hz, hd, hdd, hshape⟩ := validate_ok h
  subst hleaf
  obtain ⟨hp, _, hne⟩ := path_under_base habs hcl hdir hd hdd
  refine ⟨hp, hne, by simpa using hs, by simpa using hz, hd, hdd, ?_⟩
  rcases hshape with ⟨ip, port, ha, he⟩ | ⟨_, hm⟩
  · obtain ⟨r, hl, _, h1, h5, hdig, hr⟩ := fsAddrLeaf_spec ha
    obtain ⟨ph, a, hpeer, hi1, hi2⟩ := verifyEndpoint_ok he
    exact Or.inl ⟨ip, port, r, ph, a, hl, hpeer, hi1, hi2, h1, h5, hdig, hr⟩
  · cases remote with
    | false => exact Or.inr (Or.inl ⟨rfl, matchLocalRE_spec (by simpa using hm)⟩)
    | true => exact Or.inr (Or.inr ⟨rfl, matchRemoteRE_spec (by simpa using hm)⟩)

/-- **addr_qualified_names_peer** (clause "for address-qualified names, naming the server endpoint it
    is really connected to"): a leaf that parses as address-qualified (`fsAddrLeaf` recognises it) is
    accepted ONLY with the connection's endpoint — it never falls through to the historical shapes. -/
theorem addr_qualified_names_peer (p : Bytes) (remote : Bool) (peer : Peer) (leaf ip port : Bytes)
    (h : validate p remote peer = .ok leaf) (ha : fsAddrLeaf leaf remote = some (ip, port)) :
    ∃ ph a, peer = .hp ph port ∧ parseIP ip = some a ∧ parseIP ph = some a := by
  obtain ⟨_, _, _, _, _, _, _, _, _, hshape⟩ := validate_ok h
  rcases hshape with ⟨ip', port', ha', he⟩ | ⟨hn, _⟩
  · rw [ha] at ha'
    injection ha' with ha'
    injection ha' with h1 h2
    subst h1; subst h2
    exact verifyEndpoint_ok he
  · rw [ha] at hn; exact absurd hn (by simp)

/-! ## Clause 2 — every other path is refused -/

/-- **rejects_everything_else**: a path that is not `base/leaf` with a recognised single-component
    leaf is rejected, whatever it is (relative, non-canonical, nested, traversing, differently named). -/
theorem rejects_everything_else (p : Bytes) (remote : Bool) (peer : Peer)
    (h : ¬ ∃ leaf, p = baseDir ++ slash :: leaf ∧ slash ∉ leaf ∧ Recognised remote peer leaf) :
    ∃ e, validate p remote peer = .error e := by
  cases hv : validate p remote peer with
  | error e => exact ⟨e, rfl⟩
  | ok leaf =>
    obtain ⟨hp, _, hs, _, _, _, hr⟩ := validate_shape p remote peer leaf hv
    exact absurd ⟨leaf, hp, hs, hr⟩ h

/-- relative paths -/
theorem rejects_relative (p : Bytes) (remote : Bool) (peer : Peer) (h : p.head? ≠ some slash) :
    ∃ e, validate p remote peer = .error e := by
  apply rejects_everything_else
  rintro ⟨leaf, hp, _⟩
  apply h
  rw [hp, baseDir_eq]; rfl

/-- non-canonical paths (doubled or trailing slashes, `.` and `..` components, …) -/
theorem rejects_noncanonical (p : Bytes) (remote : Bool) (peer : Peer) (h : clean p ≠ p) :
    validate p remote peer = .error .empty ∨ validate p remote peer = .error .notAbs ∨
    validate p remote peer = .error .notClean := by
  unfold validate
  by_cases h1 : p = []
  · rw [if_pos h1]; exact Or.inl rfl
  · rw [if_neg h1]
    by_cases h2 : isAbs p = false
    · rw [if_pos h2]; exact Or.inr (Or.inl rfl)
    · rw [if_neg h2, if_pos h]; exact Or.inr (Or.inr rfl)

/-- nested paths: anything below a sub-directory of the base -/
theorem rejects_nested (a b : Bytes) (remote : Bool) (peer : Peer) :
    ∃ e, validate (baseDir ++ slash :: (a ++ slash :: b)) remote peer = .error e := by
  apply rejects_everything_else
  rintro ⟨leaf, hp, hs, _⟩
  have := List.append_cancel_left hp
  injection this with _ h2
  exact hs (by rw [← h2]; simp)

/-- any other parent directory: `d/l` with `d` different from the base -/
theorem rejects_other_parent (d l : Bytes) (remote : Bool) (peer : Peer) (hl : slash ∉ l) (hd : d ≠ baseDir) :
    ∃ e, validate (d ++ slash :: l) remote peer = .error e := by
  apply rejects_everything_else
  rintro ⟨leaf, hp, hs, _⟩
  have h1 := congrArg (splitB slash) hp
  rw [splitB_append_sep, splitB_append_sep, splitB_nosep slash l hl, splitB_nosep slash leaf hs] at h1
  have h2 := (List.append_inj' h1 rfl).2
  injection h2 with h2 _
  subst h2
  exact hd (List.append_cancel_right hp)

/-- traversal: a path with a `..` component anywhere -/
theorem rejects_traversal (p : Bytes) (remote : Bool) (peer : Peer) (h : dotdot ∈ splitB slash p) :
    ∃ e, validate p remote peer = .error e := by
  cases hv : validate p remote peer with
  | error e => exact ⟨e, rfl⟩
  | ok leaf =>
    exfalso
    obtain ⟨hp, _, hs, _, _, hdd, _⟩ := validate_shape p remote peer leaf hv
    rw [hp, splitB_append_sep, splitB_nosep slash leaf hs, baseDir_eq] at h
    have hb : splitB slash [47, 116, 109, 112] = [[], [116, 109, 112]] := by decide
    rw [hb] at h
    simp only [List.cons_append, List.nil_append, List.mem_cons, List.mem_nil_iff, or_false] at h
    rcases h with h | h | h
    · exact absurd h (by decide)
    · exact absurd h (by decide)
    · exact hdd h.symm

/-! ## The client exchange: filesystem effects for every server-supplied message -/

/-- **client_effects** (clauses "creates at most one directory", "any other path causes no filesystem
    change and a clean failure reply", "whatever the client created is removed again"): for every
    environment (connection address, outcome of the filesystem calls, transport outcomes — including a
    failing send of the result code —, server verdict) and every first message, EITHER the
    filesystem-effect log is empty and the result code is not 0, OR the received path was accepted
    by the validator with leaf `leaf`, the code is 0 and the log is exactly `mkdir leaf, remove leaf`. -/
theorem client_effects (env : Env) (remote : Bool) (m : PathMsg) :
    ((client env remote m).eff = [] ∧ (client env remote m).reply ≠ some 0) ∨
    ∃ p leaf, recvPath m = .ok p ∧ validate p remote env.peer = .ok leaf ∧
      (client env remote m).reply = some 0 ∧
      (client env remote m).eff = [.mkdir leaf, .remove leaf] := by
  unfold client
  cases hr : recvPath m with
  | error e => left; simp
  | ok p =>
    cases hc : created env remote p with
    | none =>
      left
      by_cases hs : env.sendOk = false <;> simp [hs, hc, effOf]
    | some leaf =>
      right
      have hv : validate p remote env.peer = .ok leaf := by
        unfold created at hc
        by_cases h0 : p = []
        · rw [if_pos h0] at hc; exact absurd hc (by simp)
        · rw [if_neg h0] at hc
          cases hv : validate p remote env.peer with
          | error e => rw [hv] at hc; exact absurd hc (by simp)
          | ok l =>
            rw [hv] at hc
            simp only at hc
            by_cases h1 : env.rootOk = true ∧ env.mkdirOk = true
            · rw [if_pos h1] at hc; injection hc with hc; rw [hc]
            · rw [if_neg h1] at hc; exact absurd hc (by simp)
      refine ⟨p, leaf, rfl, hv, ?_⟩
      by_cases hs : env.sendOk = false <;> simp [hs, hc, effOf]

/-- **client_mkdir_confined** (the headline): whatever a server sends and however the exchange goes,
    every directory the client creates is `fsAuthBaseDir/leaf` for the path string `p` it received,
    with `p = fsAuthBaseDir ++ "/" ++ leaf`, `leaf` a single component of a recognised shape (naming
    the connection's endpoint when address-qualified). -/
theorem client_mkdir_confined (env : Env) (remote : Bool) (m : PathMsg) (leaf : Bytes)
    (h : Eff.mkdir leaf ∈ (client env remote m).eff) :
    ∃ p, recvPath m = .ok p ∧ p = baseDir ++ slash :: leaf ∧ slash ∉ leaf ∧ (0 : UInt8) ∉ leaf ∧
      leaf ≠ dot ∧ leaf ≠ dotdot ∧ Recognised remote env.peer leaf := by
  rcases client_effects env remote m with ⟨he, _⟩ | ⟨p, l, hr, hv, _, he⟩
  · rw [he] at h; exact absurd h (by simp)
  · have hl : leaf = l := by
      rw [he] at h; simp at h; exact h
    subst hl
    obtain ⟨hp, _, hs, hz, hd, hdd, hrec⟩ := validate_shape p remote env.peer leaf hv
    exact ⟨p, hr, hp, hs, hz, hd, hdd, hrec⟩

/-- **at_most_one_mkdir**: the effect log never contains two directory creations. -/
theorem at_most_one_mkdir (env : Env) (remote : Bool) (m : PathMsg) :
    ((client env remote m).eff.filter (fun e => match e with | .mkdir _ => true | .remove _ => false)).length ≤ 1 := by
  rcases client_effects env remote m with ⟨he, _⟩ | ⟨p, l, _, _, _, he⟩ <;> rw [he] <;> simp

/-- **client_refuses** (clause "no filesystem change and a clean failure reply"): when the received
    path is empty or rejected by the validator, nothing is created or removed and the result code
    handed to the transport is −1. -/
theorem client_refuses (env : Env) (remote : Bool) (m : PathMsg) (p : Bytes) (hr : recvPath m = .ok p)
    (hrej : p = [] ∨ ∃ e, validate p remote env.peer = .error e) :
    (client env remote m).eff = [] ∧ (client env remote m).reply = some (-1) := by
  have hc : created env remote p = none := by
    unfold created
    rcases hrej with h0 | ⟨e, he⟩
    · rw [if_pos h0]
    · by_cases h0 : p = []
      · rw [if_pos h0]
      · rw [if_neg h0, he]
  unfold client
  rw [hr]
  by_cases hs : env.sendOk = false <;> simp [hs, hc, effOf]

/-- **client_no_path_no_effect**: a first message that is not one well-formed string within the size
    limit (broken stream, no terminator, over-long, trailing data) makes the client give up without
    touching the filesystem. -/
theorem client_no_path_no_effect (env : Env) (remote : Bool) (m : PathMsg) (e : CErr)
    (hr : recvPath m = .error e) :
    (client env remote m).eff = [] ∧ (client env remote m).reply = none ∧ (client env remote m).ret = .error e := by
  unfold client; rw [hr]; simp

/-- **client_cleanup** (clause "whatever the client created is removed again once the exchange
    completes"), for every path, every filesystem outcome and EVERY way the exchange can end (result
    code not deliverable, any verdict, trailing data, receive error): the log is empty or
    `mkdir leaf, remove leaf`. -/
theorem client_cleanup (env : Env) (remote : Bool) (m : PathMsg) :
    (client env remote m).eff = [] ∨ ∃ leaf, (client env remote m).eff = [.mkdir leaf, .remove leaf] := by
  rcases client_effects env remote m with ⟨he, _⟩ | ⟨p, l, _, _, _, he⟩
  · exact Or.inl he
  · exact Or.inr ⟨l, he⟩

/-! ## Clause 4 — the server's verification -/

/-- **server_accepts_only** (clause "the server accepts only a real, non-symlink, owner-only directory,
    recording its owner as the identity"): the verdict 0 is sent only if the client reported success,
    `Lstat` of the path succeeded and reports a directory, not a symbolic link, permission bits
    exactly 0700, link count 1 or 2, and the owner's uid resolves to a user name — and that name is
    the recorded identity. -/
theorem server_accepts_only (env : SrvEnv) (h : (server env).result = some 0) :
    env.cli = .result 0 ∧ ∃ s name, env.lstat = some s ∧ s.isDir = true ∧ s.isSymlink = false ∧
      s.perm = 0o700 ∧ (s.nlink = 1 ∨ s.nlink = 2) ∧ env.lookup s.uid = some name ∧
      (server env).user = some name := by
  have hg : ¬ env.genOk = false := by
    intro hg; unfold server at h; rw [if_pos hg] at h; simp at h
  cases hc : env.cli with
  | fail => unfold server at h; rw [if_neg hg, hc] at h; simp at h
  | extra => unfold server at h; rw [if_neg hg, hc] at h; simp at h
  | result n =>
    have hn : n = 0 := by
      apply Classical.byContradiction
      intro hn
      unfold server at h
      rw [if_neg hg, hc] at h
      simp only [if_neg hn] at h
      by_cases hs : env.sendOk = false <;> simp [hs] at h
    subst hn
    cases hv : verifyDir env.lstat env.lookup with
    | none =>
      unfold server at h
      rw [if_neg hg, hc] at h
      simp only [if_true, hv] at h
      by_cases hs : env.sendOk = false <;> simp [hs] at h
    | some name =>
      have hu : (server env).user = some name := by
        unfold server
        rw [if_neg hg, hc]
        simp only [if_true, hv]
        by_cases hs : env.sendOk = false <;> simp [hs]
      refine ⟨rfl, ?_⟩
      unfold verifyDir at hv
      cases hl : env.lstat with
      | none => rw [hl] at hv; simp at hv
      | some s =>
        rw [hl] at hv
        simp only at hv
        by_cases hok : s.isDir = true ∧ s.isSymlink = false ∧ s.perm = 0o700 ∧ (s.nlink = 1 ∨ s.nlink = 2)
        · rw [if_pos hok] at hv
          exact ⟨s, name, rfl, hok.1, hok.2.1, hok.2.2.1, hok.2.2.2, hv, hu⟩
        · rw [if_neg hok] at hv; simp at hv

/-- **server_identity_only_on_accept**: an identity is recorded only together with the verdict 0. -/
theorem server_identity_only_on_accept (env : SrvEnv) (name : Bytes) (h : (server env).user = some name) :
    (server env).result = some 0 := by
  unfold server at h ⊢
  by_cases hg : env.genOk = false
  · rw [if_pos hg] at h; simp at h
  rw [if_neg hg] at h ⊢
  cases hc : env.cli with
  | fail => rw [hc] at h; simp at h
  | extra => rw [hc] at h; simp at h
  | result n =>
    rw [hc] at h
    simp only at h ⊢
    by_cases hs : env.sendOk = false
    · rw [if_pos hs] at h ⊢; simp only at h ⊢; rw [h]; rfl
    · rw [if_neg hs] at h ⊢; simp only at h ⊢; rw [h]; rfl

/-- **server_success_means_verdict_zero**: the server's own return value is success only with verdict 0. -/
theorem server_success_means_verdict_zero (env : SrvEnv) (h : (server env).ret = .ok ()) :
    (server env).result = some 0 := by
  unfold server at h ⊢
  by_cases hg : env.genOk = false
  · rw [if_pos hg] at h; simp at h
  rw [if_neg hg] at h ⊢
  cases hc : env.cli with
  | fail => rw [hc] at h; simp at h
  | extra => rw [hc] at h; simp at h
  | result n =>
    rw [hc] at h
    simp only at h ⊢
    by_cases hs : env.sendOk = false
    · rw [if_pos hs] at h; simp at h
    · rw [if_neg hs] at h ⊢
      simp only at h ⊢
      cases hu : (if n = 0 then verifyDir env.lstat env.lookup else none) with
      | none => rw [hu] at h; simp at h
      | some u => rfl

/-! ## Non-vacuity (tests): each recognised shape is accepted, the exchange creates and removes it,
    near misses are refused, the server accepts a proper directory. -/

/-- "/tmp/FS_XXXjlv9Zj" -/
example : validate (asciiBytes "/tmp/FS_XXXjlv9Zj") false .nil = .ok (asciiBytes "FS_XXXjlv9Zj") := by decide
/-- "/tmp/FS_REMOTE_my_host_42_67890" -/
example : validate (asciiBytes "/tmp/FS_REMOTE_my_host_42_67890") true .nil = .ok (asciiBytes "FS_REMOTE_my_host_42_67890") := by decide
/-- address-qualified, IPv4, matching endpoint; the same name with another port on the connection -/
example : validate (asciiBytes "/tmp/FS_REMOTE_127.0.0.1_19618_XXXQ8dEz7") true (.hp (asciiBytes "127.0.0.1") (asciiBytes "19618"))
    = .ok (asciiBytes "FS_REMOTE_127.0.0.1_19618_XXXQ8dEz7") := by decide
example : validate (asciiBytes "/tmp/FS_REMOTE_127.0.0.1_19618_XXXQ8dEz7") true (.hp (asciiBytes "127.0.0.1") (asciiBytes "55555"))
    = .error .endpoint := by decide
/-- address-qualified, IPv6 spelled differently from the connection's address -/
example : validate (asciiBytes "/tmp/FS_::1_45089_XXXYtxDnq") false (.hp (asciiBytes "0:0:0:0:0:0:0:1") (asciiBytes "45089"))
    = .ok (asciiBytes "FS_::1_45089_XXXYtxDnq") := by decide
example : validate (asciiBytes "/tmp/FS_12345/../FS_67890") false .nil = .error .notClean := by decide
example : validate (asciiBytes "/tmp/sub/FS_12345") false .nil = .error .parent := by decide
example : validate (asciiBytes "/tmp/.X11-unix") false .nil = .error .shape := by decide
example : (client { peer := .nil } false (.payload (asciiBytes "/tmp/FS_12345" ++ [0]))).eff
    = [.mkdir (asciiBytes "FS_12345"), .remove (asciiBytes "FS_12345")] := by decide
example : (client { peer := .nil } false (.payload (asciiBytes "/var/tmp/FS_12345" ++ [0]))).reply = some (-1) := by decide
example : (server { cli := .result 0, lstat := some ⟨true, false, 0o700, 2, 1000⟩, lookup := fun _ => some [97] }).result = some 0 := by decide
example : (server { cli := .result 0, lstat := some ⟨true, false, 0o755, 2, 1000⟩, lookup := fun _ => some [97] }).result = some (-1) := by decide

end Cedar.C18
