/-
  C14 — Typed values use HTCondor's byte layout and survive frame boundaries.
  Property theorems only; helper lemmas live in CedarProofs/{CodecLemmas,CodecStr}.lean.
-/
import CedarProofs.CodecStr
import CedarProofs.CodecDouble

namespace Cedar.C14

open Cedar

/-- **layout**: for every sequence of well-formed values (all `int64`, all bytes, all NUL-free
    strings) and both string modes, the payload bytes the encoder puts on the wire — whatever
    its flush policy does with frame boundaries — are exactly the reference encodings in order:
    8-byte big-endian two's complement, single bytes, NUL-terminated strings with an 8-byte
    length prefix (terminator included) on encrypted streams. -/
theorem layout (enc : Bool) (vs : List Val) (h : ∀ v ∈ vs, v.wf) :
    wireBytes (putAll enc [] vs) = Spec.encAll enc vs := by
  simpa using wireBytes_putAll enc vs [] h

/-- **int_roundtrip**: every 64-bit integer survives encode/decode exactly. -/
theorem int_roundtrip (v : Int) (h1 : -(2^63 : Int) ≤ v) (h2 : v < (2^63 : Int)) :
    ofU64 (beVal (be64 (toU64 v))) = v := by
  rw [beVal_be64 _ (toU64_lt v), ofU64_toU64 v h1 h2]

/-- re-cutting payload bytes into frames: `ks` are the lengths of the partial frames, the
    remainder travels in the end-of-message frame (empty frames and cuts inside a value included) -/
def cutAt : Bytes → List Nat → List OutFrame
  | B, [] => [(B, true)]
  | B, k :: ks => (B.take k, false) :: cutAt (B.drop k) ks

theorem pending_cutAt : ∀ (ks : List Nat) (B : Bytes), pendingSrc (cutAt B ks) = some B := by
  intro ks
  induction ks with
  | nil => intro B; rfl
  | cons k ks ih => intro B; simp [cutAt, pendingSrc, ih]

/-- **cut_independence / roundtrip**: for every sequence of well-formed typed values, both string
    modes, and EVERY way of cutting the encoded bytes into frames, decoding returns exactly the
    values that were encoded and consumes exactly their bytes. -/
theorem cut_independence (enc : Bool) (vs : List Val) (h : ∀ v ∈ vs, v.wf) (ks : List Nat) :
    ∃ d', Dec.getAll enc ⟨[], false, cutAt (wireBytes (putAll enc [] vs)) ks⟩ vs = .ok (vs, d') ∧
          d'.pending = some [] := by
  apply getAll_spec enc vs _ [] h
  simp [Dec.pending, pending_cutAt, layout enc vs h]

/-- the decoder's result depends only on the payload byte sequence: two decoders with the same
    pending bytes, however framed or partially buffered, return the same values. -/
theorem same_bytes_same_values (enc : Bool) (vs : List Val) (h : ∀ v ∈ vs, v.wf) (d e : Dec) (rest : Bytes)
    (hd : d.pending = some (Spec.encAll enc vs ++ rest)) (he : e.pending = some (Spec.encAll enc vs ++ rest)) :
    ∃ d' e', Dec.getAll enc d vs = .ok (vs, d') ∧ Dec.getAll enc e vs = .ok (vs, e') ∧
             d'.pending = e'.pending := by
  obtain ⟨d', h1, h2⟩ := getAll_spec enc vs d rest h hd
  obtain ⟨e', h3, h4⟩ := getAll_spec enc vs e rest h he
  exact ⟨d', e', h1, h3, by rw [h2, h4]⟩

/-- **double_precision_partial**. A finite non-zero double is `F · 2^(exp−53)` with a 53-bit
    mantissa `2^52 ≤ |F| < 2^53`. The wire carries `fracInt` = the fraction scaled by
    `FracConst = 2^31 − 1` and truncated; whatever float rounding does before the truncation,
    `fracInt` is within 1 of the exact product `F·FracConst / 2^53`. Then the decoded fraction
    `fracInt / FracConst` is within relative error `2^-29` of the original — the format's 31-bit
    precision. (Partial: Go's `math.Frexp`, `math.Ldexp` and the float multiply/divide are
    represented by this integer inequality; gradual underflow of subnormal results is not
    modelled. The codec engine compares real doubles, random bit patterns and extremes.) -/
theorem double_precision_partial (F fracInt : Int) (hF : 4503599627370496 ≤ F.natAbs)          -- 2^52
    (hnear : (fracInt * 9007199254740992 - F * (fracConst : Int)).natAbs ≤ 9007199254740992) :   -- 2^53
    (fracInt * 9007199254740992 - F * (fracConst : Int)).natAbs * 536870912 ≤ fracConst * F.natAbs := by  -- 2^29
  have hc : fracConst = 2147483647 := rfl
  rw [hc] at hnear ⊢
  generalize (fracInt * 9007199254740992 - F * ((2147483647 : Nat) : Int)).natAbs = a at hnear ⊢
  generalize F.natAbs = b at hF ⊢
  omega

/-- **PutStringBytes has PutString's wire bytes**: in both string modes, from any buffer, for every
    NUL-free string — the ≥ one-frame branch (flush, length prefix, the bytes, then the terminator
    by a second `PutBytes`) included, terminator and all. -/
theorem strbytes_layout (enc : Bool) (buf s : Bytes) (hnz : ∀ b ∈ s, b ≠ 0) (hlen : s.length + 1 < 2^64) :
    wireBytes (putStringBytes enc buf s) = buf ++ Spec.enc enc (.str s) := by
  have hnul : truncNul s = s := takeWhile_all _ s (fun b hb => by simpa using hnz b hb)
  unfold putStringBytes
  simp only [hnul]
  by_cases hbig : s.length + 1 + (if enc = true then 8 else 0) > maxFramePayload enc
  · rw [if_pos hbig]
    rw [wireBytes_seqPut _ _ [0] (wireBytes_putBytes _ _ _)]
    rw [wireBytes_seqPut _ _ s (wireBytes_putBytes _ _ _)]
    cases enc with
    | false =>
      simp only [Bool.false_eq_true, if_false]
      by_cases hb : buf.length > 0
      · simp [hb, wireBytes, Spec.enc]
      · have : buf = [] := List.eq_nil_of_length_eq_zero (by omega)
        simp [this, wireBytes, Spec.enc]
    | true =>
      simp only [if_true]
      rw [wireBytes_seqPut _ _ (be64 (toU64 ((s.length + 1 : Nat) : Int))) (wireBytes_putInt _ _)]
      rw [toU64_nat _ hlen]
      by_cases hb : buf.length > 0
      · simp [hb, wireBytes, Spec.enc]
      · have : buf = [] := List.eq_nil_of_length_eq_zero (by omega)
        simp [this, wireBytes, Spec.enc]
  · rw [if_neg hbig]
    exact wireBytes_putString enc buf s hnz hlen

/-- **double_layout**: a double travels as exactly two 8-byte big-endian integers — the fraction
    scaled by `FracConst = 2^31 − 1` and truncated, then the binary exponent — in both string
    modes and whatever the flush policy does with frame boundaries (sixteen bytes in all). -/
theorem double_layout (enc : Bool) (m e : Int)
    (hfi : -(2^63 : Int) ≤ (encodeDbl m e).1 ∧ (encodeDbl m e).1 < (2^63 : Int))
    (he : -(2^63 : Int) ≤ e ∧ e < (2^63 : Int)) :
    wireBytes (putAll enc [] (dblVals m e)) = be64 (toU64 (encodeDbl m e).1) ++ be64 (toU64 e) ∧
    fracConst = 2147483647 := by
  refine ⟨?_, rfl⟩
  have hwf : ∀ v ∈ dblVals m e, v.wf := by
    intro v hv
    simp only [dblVals, List.mem_cons, List.mem_nil_iff, or_false] at hv
    rcases hv with rfl | rfl
    · exact hfi
    · exact he
  rw [layout enc (dblVals m e) hwf]
  simp [dblVals, Spec.encAll, Spec.enc]
  rfl

/-- **double_frac_range**: for every finite double (`|m| < 2^53`) the scaled fraction fits the
    int32 the sender converts it to (`|fracInt| < 2^31 − 1`), has the sign of the value, and the
    exponent travels unchanged. -/
theorem double_frac_range (m e : Int) (hm : m.natAbs < twoPow53) :
    (encodeDbl m e).1.natAbs < fracConst ∧ ((encodeDbl m e).1 < 0 → m < 0) ∧ (encodeDbl m e).2 = e :=
  ⟨by rw [encodeDbl_abs]; exact fracOfNat_lt _ hm, encodeDbl_sign m e, rfl⟩

/-- **double_precision** (about the model's `encodeDbl` / `decodeDbl`): for every finite non-zero
    double `m · 2^(e−53)`, `2^52 ≤ |m|`, the receiver reconstructs `fi / FracConst · 2^ex` with
    `(fi, ex) = encodeDbl m e`: the exponent is `e`, the denominator is `FracConst = 2^31 − 1`, and
    the fraction is within relative error `2^-29` of `m / 2^53` — on magnitudes and without
    division: `| |fi|·2^53 − |m|·FracConst | · 2^29 ≤ FracConst · |m|` (both truncated differences).
    The same bound holds for EVERY magnitude `q` that is `NearN` the exact quotient, which is
    what a Go run puts on the wire (float rounding before the truncation: the trusted part,
    measured with exact integers by the codec engine on every double sent). -/
theorem double_precision (m e : Int) (hm : twoPow53 / 2 ≤ m.natAbs) :
    (decodeDbl (encodeDbl m e).1 (encodeDbl m e).2).2 = e ∧
    (decodeDbl (encodeDbl m e).1 (encodeDbl m e).2).1.2 = fracConst ∧
    (((encodeDbl m e).1.natAbs * twoPow53 - m.natAbs * fracConst) * 536870912 ≤ fracConst * m.natAbs ∧
     (m.natAbs * fracConst - (encodeDbl m e).1.natAbs * twoPow53) * 536870912 ≤ fracConst * m.natAbs) ∧
    ∀ q, NearN m.natAbs q →
      (q * twoPow53 - m.natAbs * fracConst) * 536870912 ≤ fracConst * m.natAbs ∧
      (m.natAbs * fracConst - q * twoPow53) * 536870912 ≤ fracConst * m.natAbs := by
  refine ⟨rfl, rfl, ?_, fun q hq => precisionN _ q hm hq⟩
  rw [encodeDbl_abs]
  exact precisionN _ _ hm (fracOfNat_near _)

/-- non-vacuity: 1.0 = 2^52 · 2^(1−53) travels as (⌊FracConst/2⌋, 1); −0.75 keeps its sign -/
example : encodeDbl 4503599627370496 1 = (1073741823, 1) ∧ encodeDbl (-6755399441055744) 0 = (-1610612735, 0) := by decide

/-- **typed frames fit** (shared with C01): the integer and character encoders never let the
    buffer or a flushed frame exceed the largest payload a frame may carry in the current mode. -/
theorem int_char_frames_fit (enc : Bool) (buf : Bytes) (hb : buf.length ≤ maxFramePayload enc) (v : Int) (c : UInt8) :
    Fits enc (putInt buf v) ∧ Fits enc (putChar buf c) :=
  ⟨fits_putInt enc buf v hb, fits_putChar enc buf c hb⟩

/-! Non-vacuity (tests): concrete values, both modes, a cut in the middle of a value. -/
def demoVals : List Val := [.int (-2), .str [104, 105], .char 7, .int 9223372036854775807]
example : ∀ v ∈ demoVals, v.wf := by
  intro v hv
  simp only [demoVals, List.mem_cons, List.mem_nil_iff, or_false] at hv
  rcases hv with rfl | rfl | rfl | rfl <;> simp [Val.wf, binNullChar] <;> decide
example : (Dec.getAll true ⟨[], false, cutAt (wireBytes (putAll true [] demoVals)) [3, 0, 9]⟩ demoVals).isOk = true := by decide

end Cedar.C14
