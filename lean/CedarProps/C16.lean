/-
  C16 — A minted claim id and its import yield one shared, working session.
  Property theorems only; helper lemmas live in CedarProofs/Claim{Id,Info,Round,Mint}.lean,
  the model in CedarModel/ClaimId.lean.

  Reading of the model: `mint o now secret` is `MintClaimSession` with `time.Now() = now` and
  `randomHexKey() = secret`; `importClaim id io now'` is `ImportClaimSession`; `Key.hkdf` is HKDF as a
  free symbol; `resume client server sid t` is a client handshake naming `sid` explicitly against a
  server, both keyed from their caches (symbolic AEAD: data is delivered iff the keys agree).
-/
import CedarProofs.ClaimMint

namespace Cedar.C16

open Cedar Cedar.Claim

/-- what the grammar needs of a secret: no '#', no ']' -/
def SecretOk (s : Bytes) : Prop := 35 ∉ s ∧ 93 ∉ s

/-- lowercase hex, the alphabet of `randomHexKey` -/
def HexLower (s : Bytes) : Prop := ∀ b ∈ s, (48 ≤ b.toNat ∧ b.toNat ≤ 57) ∨ (97 ≤ b.toNat ∧ b.toNat ≤ 102)

/-- every secret `randomHexKey` can produce is acceptable to the grammar -/
theorem hex_secret_ok {s : Bytes} (h : HexLower s) : SecretOk s := by
  constructor <;> intro hm <;> rcases h _ hm with h | h <;> revert h <;> decide

/-- **parse_mint** (clause "claim id grammar split on the last '#'"): for ALL minting options the
    minter accepts — any sinful string (with '#', '[', ']', parameters), any birthdate and sequence
    number — and every hex secret, the strict parser cuts the minted id into exactly the session id
    `<sinful>#bday#seq`, the embedded policy text and the secret. -/
theorem parse_mint {o : MintOpts} {now : Int} {secret : Bytes} {m : Minted}
    (h : mint o now secret = .ok m) (hs : SecretOk secret) :
    parseStrict m.claimId = { sid := m.sid, info := m.info, key := secret } ∧
    m.sid = o.sinful ++ 35 :: (fmtInt o.birthdate ++ 35 :: fmtInt o.seq) ∧
    (parseStrict m.claimId).secSessionId = m.sid := by
  obtain ⟨info, pol, body, hm, _, _, hinfo, _, hne, hall⟩ := import_of_mint h
  have hp := (hall secret hne hs.1 hs.2 {} 0).1
  subst hm
  refine ⟨hp, rfl, ?_⟩
  show (parseStrict (sessionIdOf o ++ 35 :: (info ++ secret))).secSessionId = sessionIdOf o
  rw [hp]
  simp [Parsed.secSessionId, hinfo]

/-- **same_session** (clauses "same session identifier, derived key, policy"; mechanisms "same HKDF
    on both sides", "symmetrical registration"): importing a minted id NEVER fails, and the
    importer's cache entry has the minter's session id, the minter's key `HKDF(secret)` and cipher,
    and a policy that agrees with the minter's on EVERY attribute except `User`, where each side
    records the identity it attributes to the other. For all minting and import options. -/
theorem same_session {o : MintOpts} {now : Int} {secret : Bytes} {m : Minted}
    (h : mint o now secret = .ok m) (hs : SecretOk secret) (io : ImportOpts) (now' : Int) :
    ∃ im, importClaim m.claimId io now' = .ok im ∧
      im.sid = m.sid ∧ im.entry.id = m.entry.id ∧
      im.entry.key = m.entry.key ∧ m.entry.key = .hkdf secret ∧ im.entry.proto = m.entry.proto ∧
      (∀ k, k ≠ nUser → im.entry.policy.lookup k = m.entry.policy.lookup k) ∧
      im.entry.policy.lookup nUser = some (.s (importFQU io)) ∧
      m.entry.policy.lookup nUser = some (.s (mintFQU o)) ∧
      im.entry.inherited = true ∧ m.entry.inherited = true := by
  obtain ⟨info, pol, body, hm, _, _, _, _, hne, hall⟩ := import_of_mint h
  have hi := (hall secret hne hs.1 hs.2 io now').2
  subst hm
  refine ⟨_, hi, rfl, rfl, rfl, rfl, rfl, ?_, ?_, ?_, rfl, rfl⟩
  · intro k hk
    exact lookup_finishPolicy_user pol _ _ _ k hk
  · simp (config := { decide := true }) [importResult, finishPolicy, lookup_set]
  · simp (config := { decide := true }) [mintResult, finishPolicy, lookup_set]

/-- **expiry_agrees** (clause "same expiry", unconditional part): for all options, either both ends
    expire the session at the same embedded second, or the id carries no usable expiry and each end
    applies only its own local fallback (the minter its `Lifetime`, the importer its `Duration`). -/
theorem expiry_agrees {o : MintOpts} {now : Int} {secret : Bytes} {m : Minted}
    (h : mint o now secret = .ok m) (hs : SecretOk secret) (io : ImportOpts) (now' : Int) :
    ∃ im, importClaim m.claimId io now' = .ok im ∧
      ((∃ s, s > 0 ∧ m.entry.expiry = .unix s ∧ im.entry.expiry = .unix s) ∨
       (m.entry.expiry = fallbackExpiry o.lifetime now ∧ im.entry.expiry = fallbackExpiry io.duration now')) := by
  obtain ⟨info, pol, body, hm, _, _, _, _, hne, hall⟩ := import_of_mint h
  have hi := (hall secret hne hs.1 hs.2 io now').2
  subst hm
  refine ⟨_, hi, ?_⟩
  simp only [mintResult, importResult, claimExpiration_finish]
  unfold claimExpiration
  cases he : embeddedExpiry pol with
  | none => exact Or.inr ⟨rfl, rfl⟩
  | some secs =>
    refine Or.inl ⟨secs, ?_, rfl, rfl⟩
    unfold embeddedExpiry at he
    cases hv : pol.evalStr nSessionExpires with
    | none => simp [hv] at he
    | some v =>
      simp only [hv] at he
      cases hp : parseInt64 (trimSpace v) with
      | none => simp [hp] at he
      | some n =>
        simp only [hp] at he
        by_cases hpos : n > 0
        · simp only [hpos, if_true, Option.some.injEq] at he
          exact he ▸ hpos
        · simp [hpos] at he

/-- **policy_carried** (clauses "encryption/integrity/cipher/command policy and expiry", "policy
    export/import as inverse functions"): for well-formed minting options the policy text embedded
    in the id parses back to exactly the minted settings — encryption and integrity toggles, the
    full cipher list (',' restored), the command list, the expiry second, the compact version —
    and both cache entries record them (the entries' cipher is the one actually keyed, AESGCM). -/
theorem policy_carried {o : MintOpts} {now : Int} {secret : Bytes} {m : Minted}
    (h : mint o now secret = .ok m) (w : MintWf o now) :
    ∃ pol, importInfo m.info = .ok pol ∧
      pol.nonEmptyStr nEncryption = some (boolYesNo o.encryption) ∧
      pol.nonEmptyStr nIntegrity = some (boolYesNo o.integrity) ∧
      pol.nonEmptyStr nCryptoMethods = some (mintCipher o) ∧
      pol.nonEmptyStr nValidCommands = (if o.validCommands = [] then none else some (joinInts o.validCommands)) ∧
      pol.nonEmptyStr nRemoteVersion = (if o.remoteVersion = [] then none else some (shortVersion o.remoteVersion)) ∧
      pol.lookup nSessionExpires = (if o.lifetime > 0 then some (.s (fmtInt (unixOf (now + o.lifetime)))) else none) ∧
      (∀ k, k ∉ finishNames → m.entry.policy.lookup k = pol.lookup k) ∧
      m.entry.policy.lookup nCryptoMethods = some (.s sAESGCM) := by
  obtain ⟨info, pol, body, hm, hE, hI, _, _, _, _⟩ := import_of_mint h
  have wf := infoWf_wire w
  have hr := (exportInfo_roundtrip wf hE).1
  have hpol : pol = reimported (wirePolicy o now) := by
    rw [hI] at hr; exact Except.ok.inj hr
  obtain ⟨c1, c2, c3, c4, c5, c6⟩ := wirePolicy_content o now
  obtain ⟨r1, r2, r3, r4, r5, r6⟩ := reimported_carries wf
  subst hm
  refine ⟨pol, hI, ?_, ?_, ?_, ?_, ?_, ?_, ?_, ?_⟩
  · rw [hpol, r1, c1]
  · rw [hpol, r2, c2]
  · rw [hpol, r4, c3]
  · rw [hpol, r3, c5]
  · rw [hpol, r5, c4]; by_cases he : o.remoteVersion = [] <;> simp [he]
  · rw [hpol, r6]
    unfold expiresField
    rw [c6]
    by_cases hl : o.lifetime > 0
    · have := (w.expiry hl).1
      have hz : unixOf (now + o.lifetime) ≠ 0 := by omega
      simp [hl, hz]
    · simp [hl]
  · intro k hk
    exact lookup_finishPolicy_other pol _ _ k hk
  · simp (config := { decide := true }) [mintResult, finishPolicy, lookup_set]

/-- **expiry_lockstep** (clause "same expiry", for a bounded lifetime): when a lifetime is given,
    both ends expire the session at the same absolute second `(now + Lifetime).Unix()`, whatever
    fallback the importer configured; without a lifetime the minter never expires it. -/
theorem expiry_lockstep {o : MintOpts} {now : Int} {secret : Bytes} {m : Minted}
    (h : mint o now secret = .ok m) (hs : SecretOk secret) (w : MintWf o now) (io : ImportOpts) (now' : Int) :
    ∃ im, importClaim m.claimId io now' = .ok im ∧
      (o.lifetime > 0 → m.entry.expiry = .unix (unixOf (now + o.lifetime)) ∧
                        im.entry.expiry = .unix (unixOf (now + o.lifetime))) ∧
      (¬ o.lifetime > 0 → m.entry.expiry = .never ∧ im.entry.expiry = fallbackExpiry io.duration now') := by
  obtain ⟨pol, hI, _, _, _, _, _, hexp, _, _⟩ := policy_carried h w
  obtain ⟨info, pol', body, hm, _, hI', _, _, hne, hall⟩ := import_of_mint h
  have hi := (hall secret hne hs.1 hs.2 io now').2
  subst hm
  have : pol' = pol := by
    have e : importInfo info = .ok pol := hI
    rw [hI'] at e; exact Except.ok.inj e
  subst this
  refine ⟨_, hi, ?_, ?_⟩
  · intro hl
    have hE := w.expiry hl
    have hev : pol'.evalStr nSessionExpires = some (fmtInt (unixOf (now + o.lifetime))) := by
      unfold Policy.evalStr; rw [hexp]; simp [hl]
    simp only [mintResult, importResult, claimExpiration_finish]
    unfold claimExpiration embeddedExpiry
    simp only [hev, trimSpace_fmtInt, parseInt64_fmtInt _ (by omega) hE.2, hE.1, if_true, and_self]
  · intro hl
    have hev : pol'.evalStr nSessionExpires = none := by
      unfold Policy.evalStr; rw [hexp]; simp [hl]
    simp only [mintResult, importResult, claimExpiration_finish]
    unfold claimExpiration embeddedExpiry
    simp [hev, fallbackExpiry, hl]

/-- **info_roundtrip** (clause "the policy text embedded in the identifier survives a render/parse
    round trip"): for well-formed minting options, parsing the embedded text and rendering the
    resulting policy again gives the identical text. -/
theorem info_roundtrip {o : MintOpts} {now : Int} {secret : Bytes} {m : Minted}
    (h : mint o now secret = .ok m) (w : MintWf o now) :
    ∃ pol, importInfo m.info = .ok pol ∧ exportInfo pol = .ok m.info := by
  obtain ⟨info, pol, body, hm, hE, _, _, _, _, _⟩ := import_of_mint h
  have hr := exportInfo_roundtrip (infoWf_wire w) hE
  subst hm
  exact ⟨_, hr.1, hr.2⟩

/-- the same round trip for ANY policy whose exported values are well formed (no ';', cipher names
    without '.', int64 expiry, version fixed by `shortVersion`) — including a policy whose
    `SessionExpires` is a string rather than an integer -/
theorem export_import_export {p : Policy} (w : InfoWf p) {t : Bytes} (h : exportInfo p = .ok t) :
    ∃ q, importInfo t = .ok q ∧ exportInfo q = .ok t :=
  ⟨_, (exportInfo_roundtrip w h).1, (exportInfo_roundtrip w h).2⟩

/-- **different_secret_different_key** (clause "an importer holding a different secret cannot"):
    an importer holding the same id with ANY different (non-empty, '#'/']'-free) secret obtains the
    same session id but a different key. -/
theorem different_secret_different_key {o : MintOpts} {now : Int} {secret secret' : Bytes} {m : Minted}
    (h : mint o now secret = .ok m) (hs' : SecretOk secret') (hne' : secret' ≠ []) (hdiff : secret' ≠ secret)
    (io : ImportOpts) (now' : Int) :
    ∃ im, importClaim (m.sid ++ 35 :: (m.info ++ secret')) io now' = .ok im ∧
      im.sid = m.sid ∧ im.entry.key = .hkdf secret' ∧ im.entry.key ≠ m.entry.key := by
  obtain ⟨info, pol, body, hm, _, _, _, _, _, hall⟩ := import_of_mint h
  have hi := (hall secret' hne' hs'.1 hs'.2 io now').2
  subst hm
  refine ⟨_, hi, rfl, rfl, ?_⟩
  show Key.hkdf secret' ≠ Key.hkdf secret
  intro e
  exact hdiff (Key.hkdf.inj e)

/-- **corrupt_secret** (quantifier "single-character corruptions of the secret"): replace ONE
    character of the secret inside the minted id by ANY other byte — hex or not, '#' and ']'
    included. Then the import either fails or registers a session whose key differs from the
    minter's. -/
theorem corrupt_secret {o : MintOpts} {now : Int} {pre post : Bytes} {y x : UInt8} {m : Minted}
    (h : mint o now (pre ++ y :: post) = .ok m) (hs : SecretOk (pre ++ y :: post)) (hx : x ≠ y)
    (io : ImportOpts) (now' : Int) (im : Imported)
    (hi : importClaim (m.sid ++ 35 :: (m.info ++ (pre ++ x :: post))) io now' = .ok im) :
    im.entry.key ≠ m.entry.key := by
  obtain ⟨info, pol, body, hm, _, _, hinfo, hb, _, _⟩ := import_of_mint h
  subst hm
  obtain ⟨pol', _, _, _, him⟩ := importClaim_inv hi
  have h35a : (35 : UInt8) ∉ pre := fun e => hs.1 (by simp [e])
  have h35b : (35 : UInt8) ∉ post := fun e => hs.1 (by simp [e])
  have h93a : (93 : UInt8) ∉ pre := fun e => hs.2 (by simp [e])
  have h93b : (93 : UInt8) ∉ post := fun e => hs.2 (by simp [e])
  have hk := parseStrict_corrupt_key (sessionIdOf o) body pre post x hb h35a h35b h93a h93b
  subst hinfo
  rw [him]
  show Key.hkdf (parseStrict _).key ≠ Key.hkdf (pre ++ y :: post)
  intro e
  have e' := Key.hkdf.inj e
  rcases hk with hk | hk
  · have : pre ++ x :: post = pre ++ y :: post := hk.symm.trans e'
    exact hx (by simpa using this)
  · have : post = pre ++ y :: post := hk.symm.trans e'
    have hl := congrArg List.length this
    simp at hl
    omega

/-- **resumes_both_directions** (clause "either can open a connection to the other that resumes
    that session with no fresh handshake"): whatever else the two caches hold, once the minter has
    stored its entry and the importer its own, a client on EITHER side naming the session id finds
    it, the server on the other side finds it under the same id, no negotiation or authentication
    takes place, and data is delivered — at every instant at which the entries are not expired. -/
theorem resumes_both_directions {o : MintOpts} {now : Int} {secret : Bytes} {m : Minted}
    (h : mint o now secret = .ok m) (hs : SecretOk secret) (io : ImportOpts) (now' : Int) (cM cI : Cache) (t : Int) :
    ∃ im, importClaim m.claimId io now' = .ok im ∧
      (m.entry.expiry.expiredAt t = false → im.entry.expiry.expiredAt t = false →
        resume (cI.store im.entry) (cM.store m.entry) m.sid t = .resumed true ∧
        resume (cM.store m.entry) (cI.store im.entry) m.sid t = .resumed true) := by
  obtain ⟨im, hi, _, hid, hkey, _, _, _, _, _, _, _⟩ := same_session h hs io now'
  obtain ⟨info, pol, body, hm, _, _, _, _, _, _⟩ := import_of_mint h
  refine ⟨im, hi, ?_⟩
  intro h1 h2
  have hmid : m.entry.id = m.sid := by subst hm; rfl
  constructor
  · have := resume_stored cI cM im.entry m.entry t hid h2 h1
    rw [hid, hmid] at this
    rw [this, hkey]; simp
  · have := resume_stored cM cI m.entry im.entry t hid.symm h1 h2
    rw [hmid] at this
    rw [this, hkey]; simp

/-- **wrong_secret_never_delivers** (clause "while an importer holding a different secret cannot"):
    an endpoint whose cache entry for the session id was imported with a different secret may
    complete the (cleartext, unconfirmed) resumption exchange, but no data is delivered in either
    direction, at any time, whatever else the caches hold. -/
theorem wrong_secret_never_delivers {o : MintOpts} {now : Int} {secret secret' : Bytes} {m : Minted}
    (h : mint o now secret = .ok m) (hs' : SecretOk secret') (hne' : secret' ≠ []) (hdiff : secret' ≠ secret)
    (io : ImportOpts) (now' : Int) (cM cW : Cache) (t : Int) :
    ∃ w, importClaim (m.sid ++ 35 :: (m.info ++ secret')) io now' = .ok w ∧
      resume (cW.store w.entry) (cM.store m.entry) m.sid t ≠ .resumed true ∧
      resume (cM.store m.entry) (cW.store w.entry) m.sid t ≠ .resumed true := by
  obtain ⟨w, hi, hsid, _, hk⟩ := different_secret_different_key h hs' hne' hdiff io now'
  obtain ⟨info, pol, body, hm, _, _, _, _, _, hall⟩ := import_of_mint h
  have hmid : m.entry.id = m.sid := by subst hm; rfl
  have hwid : w.entry.id = m.sid := by
    have hi2 := (hall secret' hne' hs'.1 hs'.2 io now').2
    subst hm
    have : w = importResult (sessionIdOf o) io now' pol (.hkdf secret') := by
      have e : importClaim (sessionIdOf o ++ 35 :: (info ++ secret')) io now' = .ok w := hi
      rw [hi2] at e; exact (Except.ok.inj e).symm
    subst this; rfl
  refine ⟨w, hi, ?_, ?_⟩
  · have := resume_stored_ne cW cM w.entry m.entry t (hwid.trans hmid.symm) hk
    rwa [hwid] at this
  · have := resume_stored_ne cM cW m.entry w.entry t (hmid.trans hwid.symm) (fun e => hk e.symm)
    rwa [hmid] at this

/-- **public_independent_of_secret** (clause "the loggable public form never contains the secret"),
    as non-interference: the public form is a function of the minting options alone — two mints of
    the same options with different secrets have the same public form, namely `<sid>#...`; the
    public form the parser derives from the full id is the same text. -/
theorem public_independent_of_secret {o : MintOpts} {now now2 : Int} {s1 s2 : Bytes} {m1 m2 : Minted}
    (h1 : mint o now s1 = .ok m1) (h2 : mint o now2 s2 = .ok m2) (hs : SecretOk s1) :
    m1.publicId = m2.publicId ∧ m1.publicId = sessionIdOf o ++ b!"#..." ∧
    (parseStrict m1.claimId).publicId = m1.publicId := by
  obtain ⟨_, _, _, hm1, _, _, _, _, _, _⟩ := import_of_mint h1
  obtain ⟨_, _, _, hm2, _, _, _, _, _, _⟩ := import_of_mint h2
  have hp := (parse_mint h1 hs).1
  subst hm1; subst hm2
  refine ⟨rfl, rfl, ?_⟩
  rw [hp]
  simp [Parsed.publicId, mintResult, sessionIdOf_ne_nil]

/-- **filetrans_shared** (mechanism "symmetrical registration … ImportFileTransferSession"): any two
    holders of a minted id derive the same file-transfer session `filetrans.<sid>` keyed on the same
    `HKDF(secret)`. -/
theorem filetrans_shared {o : MintOpts} {now : Int} {secret : Bytes} {m : Minted}
    (h : mint o now secret = .ok m) (hs : SecretOk secret) (io1 io2 : ImportOpts) (t1 t2 : Int) :
    ∃ f1 f2, importFileTransfer m.claimId io1 t1 = .ok f1 ∧ importFileTransfer m.claimId io2 t2 = .ok f2 ∧
      f1.sid = str CedarGen.security.fileTransferSessionPrefix ++ m.sid ∧ f2.sid = f1.sid ∧
      f1.entry.id = f1.sid ∧ f2.entry.id = f1.sid ∧
      f1.entry.key = .hkdf secret ∧ f2.entry.key = .hkdf secret := by
  obtain ⟨hp, _, hsid⟩ := parse_mint h hs
  obtain ⟨_, _, _, hm, _, _, _, _, hne, _⟩ := import_of_mint h
  have hsne : m.sid ≠ [] := by subst hm; exact sessionIdOf_ne_nil o
  have hkey : (parseStrict m.claimId).key = secret := by rw [hp]
  have hft : ∀ io t, importFileTransfer m.claimId io t =
      .ok (ftResult (str CedarGen.security.fileTransferSessionPrefix ++ m.sid) io t (.hkdf secret)) := by
    intro io t
    unfold importFileTransfer
    rw [hsid, hkey]
    simp [hsne, hne, deriveSessionKey]
  exact ⟨_, _, hft io1 t1, hft io2 t2, rfl, rfl, rfl, rfl, rfl, rfl⟩

/-! Non-vacuity: concrete mints in the quantified domain — a sinful with '#', brackets and
    parameters, a cipher list, a long-form version, commands and a lifetime — succeed, satisfy the
    hypotheses, and the conclusions can be observed by evaluation. -/

def demoOpts : MintOpts :=
  { sinful := b!"<[::1]:9618?addrs=[--1]-9618&sock=slot1#7>", birthdate := 1700000000, seq := 7
    cryptoMethods := b!"AES,BLOWFISH", validCommands := [443, 444], lifetime := 3600000000000
    remoteVersion := b!"$CondorVersion: 25.4.0 2025-10-31 $", integrity := some false }

def demoNow : Int := 1790000000123456789
def demoSecret : Bytes := b!"00ff17a9"

example : (mint demoOpts demoNow demoSecret).toOption.map (·.info) =
    some b!"[CryptoMethods=\"AES\";CryptoMethodsList=\"AES.BLOWFISH\";Encryption=\"YES\";Integrity=\"NO\";SessionExpires=1790003600;ShortVersion=\"25.4.0\";ValidCommands=\"443,444\";]" := by
  decide

example : HexLower demoSecret := by unfold HexLower; decide

example : MintWf demoOpts demoNow := by
  refine ⟨by decide, Or.inr ?_, fun _ => by decide⟩
  exact VersionWf.long b!"$CondorVersion:" b!"25.4.0" b!"2025-10-31 $" 50 b!"5.4.0"
    (by decide) (by decide) (by decide) rfl (by decide) (by decide) (by decide) (by decide) (by decide) (by decide)

-- mint, import on the other side, resume in both directions at a later instant
set_option maxRecDepth 20000 in
example :
    (match mint demoOpts demoNow demoSecret with
     | .ok m =>
       (match importClaim m.claimId { peerAddr := b!"<[::1]:9618>" } (demoNow + 5) with
        | .ok im => decide (resume [im.entry] [m.entry] m.sid (demoNow + 9) = .resumed true) &&
                    decide (resume [m.entry] [im.entry] m.sid (demoNow + 9) = .resumed true) &&
                    decide (m.entry.expiry = .unix 1790003600) && decide (im.entry.expiry = .unix 1790003600)
        | .error _ => false)
     | .error _ => false) = true := by decide

-- a one-character corruption of the secret: imported, resumed, nothing delivered
set_option maxRecDepth 20000 in
example :
    (match mint demoOpts demoNow demoSecret with
     | .ok m =>
       (match importClaim (m.sid ++ 35 :: (m.info ++ b!"00ff17a8")) {} (demoNow + 5) with
        | .ok w => decide (resume [w.entry] [m.entry] m.sid (demoNow + 9) = .resumed false)
        | .error _ => false)
     | .error _ => false) = true := by decide

/-- a non-AES cipher list is refused by the minter -/
example : (match mint { demoOpts with cryptoMethods := b!"BLOWFISH,AES" } demoNow demoSecret with
    | .error .refused => true
    | _ => false) = true := by decide

end Cedar.C16
