/-
  C17 — Shared state is safe under concurrency (partial by nature: lock discipline, atomic
  sections, configuration copies and field disjointness over a model; the runtime's mutexes, maps
  and the Go memory model's DRF-SC guarantee are assumed, DESIGN §3).
  Property theorems only; helper lemmas live in CedarProofs/{LocksetLemmas,LocksetStream}.lean.
-/
import CedarGen.FactsCCB
import CedarProofs.LocksetLemmas
import CedarProofs.LocksetStream

namespace Cedar.C17

open Cedar Cedar.Lockset

/-- **lockset_sound** (Eraser soundness, once and for all). Threads issue lock / unlock / read /
    write events over mutexes with a shared mode. If every thread's events pass the scan for a
    guard map `g` — each read is made holding the variable's guard, each write holding it
    exclusively, variables without a guard are never written — then NO well-formed interleaving
    (any number of threads, any schedule the mutexes admit) contains two conflicting accesses next
    to each other. -/
theorem lockset_sound {L V : Type} [DecidableEq L] (g : V → Option L) (r : List (Nat × Ev L V)) (h : Held L)
    (hrun : Run Held.init r h) (hdisc : ∀ t, scan g [] (proj t r) = true) : ¬ HasRace r :=
  lockset_sound_gen g r h hrun hdisc

/-- **cache_discipline** (clause: the cache and its entries may be used from any number of
    goroutines — storing, looking up, renewing, expiring, invalidating, dumping — without data
    races or torn reads). The regenerated fact table (a) of every method of `SessionCache` and
    `SessionEntry` obeys the declared policy (`fieldGuard`: the two maps under the cache lock,
    `expiration` / `lastPeerVersion` / `inherited` under the entry's own lock, everything else
    never written after construction) and releases every lock it takes. Hence: let every thread
    run ANY sequence of calls of these methods on ANY cache / entry objects and be stopped
    anywhere; no interleaving has a data race on any field of any of the objects.
    Eraser's exemption is explicit: constructors (`NewSessionEntry`, `NewSessionCache`) write
    before the object is published and are not in the table. -/
theorem cache_discipline (progs : Nat → List Call) (r : List (Nat × Ev RL RV)) (h : Held RL)
    (hrun : Run Held.init r h)
    (hprog : ∀ t, ∃ rest, proj t r ++ rest = ((progs t).map (callEvents CedarGen.FactsLock.cacheMethods)).flatten) :
    ¬ HasRace r :=
  table_race_free CedarGen.FactsLock.cacheMethods (by decide) progs r h hrun hprog

/-- **cache_atomic_sections** (basis of "no lost invalidations"): every `SessionCache` method is
    ONE critical section of the cache lock — it opens with `mu.Lock`/`RLock`, closes with the
    matching unlock and does not release it in between — so under mutex exclusion the methods
    take effect one at a time, in some order (linearizable; the order is what `Lin.run` models),
    and writers hold the lock exclusively (`cache_discipline`). -/
theorem cache_atomic_sections : cacheSectionsOK CedarGen.FactsLock.cacheMethods = true := by decide

/-- **globals_once** (session_manager.go): the process-wide cache pointer is written only inside
    `sync.Once.Do` and read only there or after `Do` returned; the session counter is touched
    through `sync/atomic` only. -/
theorem globals_once : globalsOK CedarGen.FactsLock.globals = true := by decide

/-- **counter_minted_in_one_step** (session_manager.go, regenerated table): no function advances a
    package-level variable by an atomic load followed by a separate atomic store, and
    `GetNextSessionCounter` advances the session counter by one atomic read-modify-write. -/
theorem counter_minted_in_one_step :
    noSplitRMW CedarGen.FactsLock.globals = true ∧ counterRMW CedarGen.FactsLock.globals = true := by decide

/-- **atomic_mints_distinct** (clause: server handshakes sharing the process do not disturb one
    another — each mints its OWN session identifier): whatever the interleaving of any number of
    threads, when every mint is ONE atomic fetch-and-add all values handed out are pairwise distinct. -/
theorem atomic_mints_distinct (c : Nat) (l : List Mint.Step) (h : Mint.onlyAdds l) :
    (Mint.run { ctr := c } l).out.Nodup :=
  (Mint.run_adds l h { ctr := c } (by intro v hv; cases hv) List.nodup_nil).2

/-- **split_mint_collides**: a mint made of an atomic load and a separate atomic store hands the same
    value to two threads under the schedule load₁ load₂ store₁ store₂ — without any data race (why
    `counter_minted_in_one_step` is an obligation and the race detector is not enough). -/
theorem split_mint_collides (c : Nat) :
    (Mint.run { ctr := c } [.load 1, .load 2, .store 1, .store 2]).out = [c + 1, c + 1] := by
  simp [Mint.run, Mint.step]

/-- **client_store_files_entry_first** (auth.go storeClientSession, regenerated table of its cache
    calls in source order): the entry is stored before the first command mapping is made — the order
    `store_then_map_survives_sweep` is about (`map_then_store_loses_route`: the other order). -/
theorem client_store_files_entry_first : storeBeforeMap CedarGen.FactsLock.clientStoreCalls = true := by decide

/-- **store_then_map_survives_sweep** (clause: storing and expiring from any number of goroutines):
    `storeClientSession` files the entry FIRST and maps the commands afterwards; an expiry sweep of
    another goroutine that runs between any two of these steps finds the entry and leaves the
    mappings made so far — the completed handshake is routable. -/
theorem store_then_map_survives_sweep (info : Nat → Lin.EntInfo) (c : Lin.CC) (u ck : Nat) (hx : Lin.expired info u = false) :
    let c1 := (Lin.apply info c (.store u)).1
    let c2 := (Lin.apply info (Lin.apply info c1 .gc).1 (.mapCmd ck (info u).key)).1
    let c3 := (Lin.apply info c2 .gc).1
    (ck, (info u).key) ∈ c3.cmds ∧ Lin.aget c3.sessions (info u).key = some u := by
  intro c1 c2 c3
  have h1 : Lin.aget c1.sessions (info u).key = some u := by simp [c1, Lin.apply, Lin.aget]
  have hg1 : Lin.aget (Lin.apply info c1 .gc).1.sessions (info u).key = some u := by
    simp only [Lin.apply]
    exact Lin.aget_filter_live info c1.sessions _ u h1 hx
  have hm2 : (ck, (info u).key) ∈ c2.cmds := by simp [c2, Lin.apply]
  have hg2 : Lin.aget c2.sessions (info u).key = some u := by simpa [c2, Lin.apply] using hg1
  exact Lin.sweep_keeps_live_route info c2 ck _ u hm2 hg2 hx

/-- **map_then_store_loses_route**: in the other order (mappings first, entry last) a sweep in between
    sees the mapping as an orphan and deletes it: the session ends up stored but unreachable by command. -/
theorem map_then_store_loses_route :
    let info : Nat → Lin.EntInfo := fun _ => { key := 7, exp := .future }
    let c := (Lin.run info {} [.mapCmd 5 7, .gc, .store 0]).1
    Lin.aget c.sessions 7 = some 0 ∧ c.cmds = [] := by decide

/-- **invalidate_wins** (clause: no lost invalidations; post-condition "an invalidated id is
    unreachable by every lookup"). In every sequential order of cache operations (every
    linearization): once `Invalidate k` has taken effect, and until some thread `Store`s an entry
    with that id again, no `Lookup`, `LookupNonExpired` or `LookupByCommand` returns an entry with
    id `k`, and `k` is not in the cache at the end — whatever else (other stores, command
    mappings, sweeps, dumps, renewals) happens in between. -/
theorem invalidate_wins (info : Nat → Lin.EntInfo) (c : Lin.CC) (k : Nat) (ops : List Lin.Op)
    (hw : Lin.WF info c) (hno : ∀ o ∈ ops, ∀ u, o = .store u → (info u).key ≠ k) :
    let c1 := (Lin.apply info c (.invalidate k)).1
    Lin.aget (Lin.run info c1 ops).1.sessions k = none ∧
    ∀ res ∈ (Lin.run info c1 ops).2, res.names info k = false := by
  intro c1
  have hw1 : Lin.WF info c1 := Lin.apply_wf info c _ hw
  have ha1 : Lin.Absent c1 k := Lin.invalidate_absent info c k
  obtain ⟨h1, h2⟩ := Lin.run_absent info ops c1 k hw1 ha1 hno
  exact ⟨Lin.aget_none_of_not_mem h1, h2⟩

/-- **resumption_path_never_stores** (fact table (f), regenerated from security/auth.go): the two
    resumption paths — the server's `handleSessionResumption` and the client's `resumeSession`,
    function literals inside them included — call `LookupNonExpired` / `Invalidate` on a session
    cache and never `Store` (the lease is renewed in place on the entry object). Re-adding a
    `cache.Store(entry)` there — lock-correct and sequentially a no-op — breaks this theorem. -/
theorem resumption_path_never_stores : Lin.resumeCallsOK CedarGen.FactsLock.resumeCacheCalls = true := by decide

/-- **invalidate_wins_resumption**: `invalidate_wins` with its "nobody stores the id again"
    hypothesis discharged from the code for resumptions in flight: whatever cache operations the
    resumption paths issue (any number of handshakes, any interleaving with the invalidation — the
    operations are only required to be calls the regenerated table lists), an `Invalidate k` that
    has taken effect is final: no lookup names `k` afterwards and `k` is not in the cache. -/
theorem invalidate_wins_resumption (info : Nat → Lin.EntInfo) (c : Lin.CC) (k : Nat) (ops : List Lin.Op)
    (hw : Lin.WF info c)
    (hcode : ∀ o ∈ ops, (CedarGen.FactsLock.resumeCacheCalls.map (·.2)).contains o.method = true) :
    let c1 := (Lin.apply info c (.invalidate k)).1
    Lin.aget (Lin.run info c1 ops).1.sessions k = none ∧
    ∀ res ∈ (Lin.run info c1 ops).2, res.names info k = false := by
  apply invalidate_wins info c k ops hw
  intro o ho u heq
  subst heq
  have h1 := hcode _ ho
  have hns : (CedarGen.FactsLock.resumeCacheCalls.map (·.2)).contains "Store" = false := by decide
  have h2 : (Lin.Op.store u).method = "Store" := rfl
  rw [h2, hns] at h1
  exact absurd h1 (by decide)

/-- **fact_tables_inhabited**: the tables the inclusion theorems of this file range over still see
    the code they are about (non-vacuity as an obligation, not only as an example). -/
theorem fact_tables_inhabited :
    Cfg.tablesInhabited CedarGen.FactsLock.authSites CedarGen.FactsLock.configWrites CedarGen.FactsLock.globals
      CedarGen.FactsLock.streamMethods CedarGen.FactsLock.cacheMethods = true ∧
    CedarGen.FactsCCB.brokerWriteSites.isEmpty = false := by decide

/-- **wf_reachable**: the well-formedness `invalidate_wins` assumes holds in every reachable
    cache (entries are filed under their own id by `Store`; nothing else adds entries). -/
theorem wf_reachable (info : Nat → Lin.EntInfo) (ops : List Lin.Op) : Lin.WF info (Lin.run info {} ops).1 := by
  suffices h : ∀ c, Lin.WF info c → Lin.WF info (Lin.run info c ops).1 from h {} (Lin.wf_empty info)
  induction ops with
  | nil => exact fun c h => h
  | cons o os ih => exact fun c h => ih _ (Lin.apply_wf info c o h)

/-- **sweep_count** (post-condition "counts consistent"): `InvalidateExpired` returns exactly the
    number of sessions it removed. -/
theorem sweep_count (info : Nat → Lin.EntInfo) (c : Lin.CC) :
    ∃ n, (Lin.apply info c .gc).2 = .nat n ∧ n + (Lin.apply info c .gc).1.sessions.length = c.sessions.length := by
  refine ⟨c.sessions.length - (c.sessions.filter (fun p => !Lin.expired info p.2)).length, rfl, ?_⟩
  have := List.length_filter_le (fun p : Nat × Nat => !Lin.expired info p.2) c.sessions
  simp only [Lin.apply]
  omega

/-- **config_not_written** (clause: concurrent connections and handshakes may share one security
    configuration). Fact tables (c), (d): every library call of `NewAuthenticator` (client,
    server, ccb, SecurityManager) and the per-command configuration provider of the server hand
    over a private copy (`x := *shared; … &x`), and the only writes through a configuration that
    a function did not allocate are the declared ones into the Authenticator's own (copied)
    configuration. So no handshake path writes through the object the caller shares. -/
theorem config_not_written :
    Cfg.authSitesOK CedarGen.FactsLock.authSites = true ∧ Cfg.configWritesOK CedarGen.FactsLock.configWrites = true := by
  decide

/-- **handshakes_isolated** (clause: handshakes do not disturb one another). With one
    configuration copy per connection, in EVERY interleaving of any number of handshakes, a
    handshake that got as far as advertising a public key advertised its own — so the key the
    server derives from the advertisement is the key the client derives from its private half. -/
theorem handshakes_isolated (sched : List Nat) (i : Nat) (h : 2 ≤ (Cfg.runSched false {} sched).pc i) :
    Cfg.keysAgree (Cfg.runSched false {} sched) i = true := by
  have := (Cfg.inv_run sched {} Cfg.inv_init i).2 h
  simp [Cfg.keysAgree, this]

/-- **sharing_disturbs**: why the copy is necessary — with ONE shared configuration object the
    schedule A.new, B.new, A.advertise makes A advertise B's key (replayed against the real
    `NewAuthenticator` / `ClientHandshake` by the race engine, case `cfg-witness`). -/
theorem sharing_disturbs : ∃ sched : List Nat,
    2 ≤ (Cfg.runSched true {} sched).pc 0 ∧ Cfg.keysAgree (Cfg.runSched true {} sched) 0 = false :=
  ⟨[0, 1, 0], by decide, by decide⟩

/-- **established_after_handshake**: what the handshake leaves behind is an established stream —
    `SetSymmetricKey` (keyed session) or `FinalizeDigests` (plaintext session) freezes both
    digests, a keyed stream is encrypting, no secret toggle is open. -/
theorem established_after_handshake (s : Stream) (hb : s.beforeSecret = false) :
    (∀ k iv, Dir.Established (Dir.shared (s.setKey k iv))) ∧
    (s.key = none → Dir.Established (Dir.shared s.finalizeDigests)) := by
  constructor
  · intro k iv
    exact ⟨rfl, rfl, fun _ => rfl, hb⟩
  · intro hk
    refine ⟨rfl, rfl, ?_, hb⟩
    intro h
    simp [Dir.shared, Stream.finalizeDigests, hk] at h

/-- **directions_independent** (clause: once the handshake is over a stream may be written by one
    goroutine while another reads from it). For every established stream, every incoming wire
    and EVERY interleaving of send operations (SendMessage / SendPartialMessage / WriteFrame,
    WriteMessage, EndMessage, StartMessage, PutSecret) with receive operations
    (ReceiveFrameWithEnd / ReadFrame, ReceiveFrame, ReceiveCompleteMessage, StartMessageRead,
    ReadMessageBytes, EndMessageRead, GetSecret): what the sender observes — frames put on the
    wire, errors — is exactly what it observes running alone, and what the receiver observes —
    bytes delivered, errors — is exactly what it observes running alone. Each interleaving
    therefore equals the sequential composition; the stream stays established throughout. -/
theorem directions_independent (W : Dir.World) (hE : Dir.Established (Dir.shared W.s))
    (ops : List (Sum Dir.SendOp Dir.RecvOp)) :
    (Dir.runWorld W ops).2.filter Dir.Obs.isSent = (Dir.runWorld W (Dir.sendsOf ops)).2 ∧
    (Dir.runWorld W ops).2.filter (fun o => !o.isSent) = (Dir.runWorld W (Dir.recvsOf ops)).2 ∧
    Dir.Established (Dir.shared (Dir.runWorld W ops).1.s) :=
  ⟨Dir.sender_view ops W W hE rfl rfl rfl, Dir.receiver_view ops W W hE rfl rfl rfl rfl,
   Dir.established_preserved ops W hE⟩

/-- **send_touches_send_side_only / recv_touches_recv_side_only**: the frame conditions behind
    `directions_independent` — on an established stream a send operation leaves the receive-side
    fields and the shared fields (key, base IV `encIV`, crypto mode, frozen digests, toggle flag)
    exactly as they were (`encIV` is read by both directions since fix D16 — the receiver refuses
    a first frame announcing this endpoint's own IV — and written by neither), and computes the same result whatever the receive side holds; symmetrically for receive
    operations. -/
theorem send_touches_send_side_only (s : Stream) (hE : Dir.Established (Dir.shared s)) (op : Dir.SendOp)
    (s1 : Stream) (fs : List WireFrame) (h : Dir.applySend s op = .ok (s1, fs)) :
    Dir.recvSide s1 = Dir.recvSide s ∧ Dir.shared s1 = Dir.shared s :=
  (Dir.applySend_local s hE op).2 s1 fs h

theorem recv_touches_recv_side_only (s : Stream) (hE : Dir.Established (Dir.shared s)) (w : List WireFrame)
    (op : Dir.RecvOp) (s1 : Stream) (d : Bytes) (w1 : List WireFrame) (h : Dir.applyRecv s w op = .ok (s1, d, w1)) :
    Dir.sendSide s1 = Dir.sendSide s ∧ Dir.shared s1 = Dir.shared s :=
  (Dir.applyRecv_local s hE w op).2 s1 (d, w1) h

/-- **footprint_covers_code** (syntactic tie of `directions_independent` to stream.go): the
    regenerated field footprint (b) of every exported `stream.Stream` method lies within the
    footprint declared next to the model — reads within reads, unconditional writes within
    writes, guarded writes within writes ∪ guarded writes. A method that starts touching another
    field breaks this inclusion (and the race stress then looks for a schedule). -/
theorem footprint_covers_code : Dir.footprintCovers CedarGen.FactsLock.streamMethods = true := by decide

/-- **footprints_disjoint**: in the declared footprints, whatever a send-role method may write
    and a receive-role method may touch (or the other way round) is a handshake-digest field or
    the crypto-for-secret toggle, and is written under a guard only; the fields both directions
    read (key, `encryptIV`, connection, crypto mode) are written by no traffic method — the guards
    (`final…Digest == nil`, `gcm != nil && !encrypted`, `secretCryptoOn`) are false on established
    streams, which is what `send_touches_send_side_only` / `recv_touches_recv_side_only` show
    semantically; observers (`IsEncrypted`, `GetPeerAddr`, …) read fields no traffic operation
    writes unconditionally. -/
theorem footprints_disjoint : Dir.directionsDisjoint = true := by decide

/-- **secret_toggle_old_writes_shared**: the toggle as it was before fix C17-3 assigned the shared
    crypto-mode fields even when nothing changed — on an established stream whose
    `cryptoBeforeSecret` still had its zero value, `PutSecret`'s prepare step wrote a field the
    receiving goroutine's `GetSecret` writes too (a write/write race; recorded observation,
    replayed by the race engine on the unfixed tree). -/
theorem secret_toggle_old_writes_shared : ∃ s : Stream,
    Dir.Established (Dir.shared s) ∧ Dir.shared (Dir.prepareSecretOld s) ≠ Dir.shared s :=
  ⟨{ key := some 1, encrypted := true, dig := { finalSend := some .zero, finalRecv := some .zero } },
   ⟨rfl, rfl, fun _ => rfl, rfl⟩, by decide⟩

/-- **keyed_plain_secret_writes_shared** — the state `directions_independent` leaves out
    (`Established` demands that a keyed stream is encrypting), and why: on a stream that HOLDS a key
    but is not encrypting (C09's state), `PutSecret`'s prepare step, as the code has it today,
    changes the crypto mode — a field of the part both directions read — so a goroutine receiving on
    the same stream decides whether to decrypt by a flag the sending goroutine is flipping. Recorded
    finding F-C17-keyed-plain-secret-toggle (shown on the real streams by the race engine's
    `stream-secret-keyed-plain` workload: data races and disturbed transfers). -/
theorem keyed_plain_secret_writes_shared : ∃ s : Stream,
    (Dir.shared s).finalSend.isSome = true ∧ (Dir.shared s).finalRecv.isSome = true ∧
    s.key.isSome = true ∧ s.encrypted = false ∧ ¬ Dir.Established (Dir.shared s) ∧
    Dir.shared (Dir.prepareSecret s) ≠ Dir.shared s :=
  ⟨{ key := some 1, encrypted := false, dig := { finalSend := some .zero, finalRecv := some .zero } },
   rfl, rfl, rfl, rfl, by intro h; exact absurd (h.2.2.1 rfl) (by decide), by decide⟩

/-! Non-vacuity (tests). -/

-- the table is not empty and contains the methods the property names
example : (CedarGen.FactsLock.cacheMethods.map (·.1)).contains "SessionCache.InvalidateExpired" = true := by decide
example : (CedarGen.FactsLock.cacheMethods.map (·.1)).contains "SessionEntry.RenewLease" = true := by decide
-- the scan rejects the pre-fix shape of DebugDump (expiration read under the cache lock only)
example : scan fieldGuard [] [.racq "SessionCache", .rd ("SessionCache", "sessions"), .rd ("SessionEntry", "expiration"),
    .rrel "SessionCache"] = false := by decide
-- and accepts the fixed shape
example : bodyOK [.racq "SessionCache", .rd ("SessionCache", "sessions"), .acq "SessionEntry", .rd ("SessionEntry", "expiration"),
    .rel "SessionEntry", .rrel "SessionCache"] = true := by decide
-- a write under a read lock is rejected
example : scan fieldGuard [] [.racq "SessionCache", .wr ("SessionCache", "sessions"), .rrel "SessionCache"] = false := by decide
-- the sequential cache: an invalidated id stays away although its command mapping is re-added
example : (Lin.run (fun u => ⟨u % 2, .future⟩) {} [.store 0, .mapCmd 7 0, .invalidate 0, .mapCmd 7 0, .byCmd 7, .lookup 0]).2 =
    [.unit, .unit, .bool true, .unit, .ent none, .ent none] := by decide
-- an established keyed stream exists, and a send really changes the send side
example : Dir.Established (Dir.shared ((({} : Stream).setKey 1 ⟨5, []⟩))) := ⟨rfl, rfl, fun _ => rfl, rfl⟩
example : (Dir.applySend (({} : Stream).setKey 1 ⟨5, []⟩) (.frame [1, 2] 1)).isOk = true := by decide

/-- the stream-writing calls the CCB listener may contain: the registration message (sent before
    the reader and the heartbeat of that registration exist) and the one inside `writeToBroker` -/
def declaredBrokerWrites : List (String × String) :=
  [("register", "WriteControlAd"), ("writeToBroker", "WriteControlAd")]

/-- **broker_writers_serialised**: every write to a broker stream in ccb/listener.go (regenerated
    table) happens either in `register`, before any other goroutine knows the stream, or inside
    `writeToBroker`, which holds `writeMu` around it — so result writers and the heartbeat never
    write to the one stream at once while the reader runs. -/
theorem broker_writers_serialised :
    CedarGen.FactsCCB.brokerWriteSites.all (fun s => declaredBrokerWrites.contains s) = true ∧
    CedarGen.FactsCCB.writeToBrokerLocked = true := by decide

end Cedar.C17
