/-
  C19  Cancellation and deadlines always unblock stream operations.
  Property theorems only; helper lemmas live in CedarProofs/CancelLemmas.lean.

  Statement (property.json): every blocking operation on a stream, and therefore every handshake,
  returns promptly with an error (the context's own error for plain stream operations) once its
  context is cancelled or its deadline passes, no matter at which read or write the peer stalls,
  and the connection is then closed rather than left half-used.  A context that can never be
  cancelled adds no failure mode.

  Model: `Cedar.Cancel` — an operation is a list of calls of readWithContext / writeWithContext
  (`Step`), the environment chooses for every call whether the peer completes, fails or stalls the
  request and whether a cancellation / deadline fires before the call's entry guard (`pre`) or
  while the request is outstanding (`mid`).  `run cur` is the code as it is (entry guard closes the
  connection); `run false` is the code before the C19 fix.  "Returns" = returns without any
  further action of the peer (`Ret.blocked` is the only non-returning outcome); wall-clock
  promptness is measured by the `stall` engine, not proved.

  Tied to the code by CedarGen.FactsIO (regenerated on every run) and the `stall` engine.
-/
import CedarModel.Cancel
import CedarProofs.CancelLemmas
import CedarGen.FactsIO
import CedarGen.FactsNoCtx

namespace Cedar.C19
open Cedar Cedar.Cancel

/-! ### returns once the context is cancelled, wherever the peer stalls -/

/-- **unblocks** (clause "returns … once its context is cancelled or its deadline passes, no matter
    at which read or write the peer stalls").  For EVERY operation (any steps, any error handling),
    every environment (stall / failure / completion at every step, cancellation at every
    position) and both code variants: an operation that does not return has a context that has not
    fired — at any position up to and including the request it is blocked on.  Contrapositive: a
    cancellation or deadline that fires before or during the stalled request makes it return. -/
theorem unblocks (gc : Bool) (w : World) (p : List (Step × StepEnv)) (h : (run gc w p).2 = .blocked) :
    (run gc w p).1.err = none :=
  run_blocked gc p w h

/-- **cancelled_before** (cancellation fired BEFORE the operation / before the stall is reached).
    With the context already fired the operation returns at the next entry guard: it issues no
    request at all (so it cannot depend on the peer), it does not block, every step that is
    attempted yields the context's own error, hence an operation with at least one aborting step
    returns exactly that error, and the connection is closed. Loops that swallow errors (the
    handshakes' retry loops) therefore drain without touching the connection. -/
theorem cancelled_before (w : World) (p : List (Step × StepEnv)) (c : CtxErr) (h : w.err = some c) :
    (run cur w p).2 ≠ .blocked ∧ (run cur w p).1.io = w.io ∧
    ((∃ x ∈ p, x.1.onErr = .abort) → (run cur w p).2 = .ctx c) ∧
    (p ≠ [] → (run cur w p).1.closed = true) := by
  have := run_fired cur p w c h
  refine ⟨?_, this.1, this.2.2.2.1, fun hp => this.2.2.2.2 hp rfl⟩
  rcases this.2.2.1 with h' | h' <;> rw [h'] <;> simp

/-- **stall_cancel_during** (the k-th request never completes, cancellation / deadline fires DURING
    the stall).  For every number of completed steps before it (`a`), every continuation (`rest`)
    and both error kinds: the operation returns the context's own error, the connection is closed,
    exactly the k+1 requests were issued and nothing after the stalled one is attempted. -/
theorem stall_cancel_during (w : World) (a : List Step) (s : Step) (rest : List (Step × StepEnv)) (c : CtxErr)
    (hc : w.cancellable = true) (hn : w.err = none) (hcl : w.closed = false) (hs : s.onErr = .abort) :
    run cur w (quiet a ++ (s, { pre := none, peer := .stall, mid := some c }) :: rest) =
      ({ w with err := some c, closed := true, io := w.io + a.length + 1 }, .ctx c) := by
  rw [run_quiet_append cur a _ w hn hcl]
  have hsw : s.onErr ≠ .swallow := by rw [hs]; decide
  obtain ⟨cb, err, cl, cg, n⟩ := w
  simp only at hc hn hcl
  subst hc hn hcl
  simp [run, step, fire, effPeer, hsw]

/-- **stall_cancel_before** (cancellation / deadline fires BEFORE the stalled request is issued:
    after step j-1 returned, at the entry guard of step j ≤ k).  Whatever the peer would have done
    with that request, it is never issued: the operation returns the context's error at the guard,
    the connection is closed, exactly j requests were issued. -/
theorem stall_cancel_before (w : World) (a : List Step) (s : Step) (rest : List (Step × StepEnv)) (c : CtxErr)
    (peer : Peer) (mid : Option CtxErr) (hc : w.cancellable = true) (hn : w.err = none) (hcl : w.closed = false)
    (hs : s.onErr = .abort) :
    run cur w (quiet a ++ (s, { pre := some c, peer := peer, mid := mid }) :: rest) =
      ({ w with err := some c, closed := true, io := w.io + a.length }, .ctx c) := by
  rw [run_quiet_append cur a _ w hn hcl]
  have hsw : s.onErr ≠ .swallow := by rw [hs]; decide
  obtain ⟨cb, err, cl, cg, n⟩ := w
  simp only at hc hn hcl
  subst hc hn hcl
  simp [run, step, fire, hsw]

/-- **cancel_in_stop_window** (cancellation lands after the request completed — or failed on its
    own — and before `stop()`): the context's error wins over the I/O result, a watcher has been
    started, and once it has run (`settle`: needs nobody's help) the connection is closed. -/
theorem cancel_in_stop_window (w : World) (a : List Step) (s : Step) (rest : List (Step × StepEnv)) (c : CtxErr)
    (peer : Peer) (hc : w.cancellable = true) (hn : w.err = none) (hcl : w.closed = false)
    (hs : s.onErr = .abort) (hp : peer ≠ .stall) :
    (run cur w (quiet a ++ (s, { pre := none, peer := peer, mid := some c }) :: rest)).2 = .ctx c ∧
    (settle (run cur w (quiet a ++ (s, { pre := none, peer := peer, mid := some c }) :: rest)).1).closed = true := by
  rw [run_quiet_append cur a _ w hn hcl]
  have hsw : s.onErr ≠ .swallow := by rw [hs]; decide
  obtain ⟨cb, err, cl, cg, n⟩ := w
  simp only at hc hn hcl
  subst hc hn hcl
  cases peer with
  | stall => exact absurd rfl hp
  | done => simp [run, step, fire, effPeer, settle, hsw]
  | fail x => simp [run, step, fire, effPeer, settle, hsw]

/-! ### the error is the context's own, and the connection is closed -/

/-- **plain_error_is_ctx** (clause "the context's own error for plain stream operations").  A plain
    stream operation aborts on the first failing step.  For every such operation and environment:
    if the context has fired by the time the operation returns, what it returns is exactly the
    context's error (`context.Canceled` / `context.DeadlineExceeded`; the Go callers wrap it with
    `%w`, so `errors.Is` holds) — never an I/O error of the closed connection, never success.
    (The only exception is the operation with no I/O step at all on an already-fired context.) -/
theorem plain_error_is_ctx (gc : Bool) (w : World) (p : List (Step × StepEnv)) (c : CtxErr)
    (ha : allAbort p) (hp : p ≠ []) (h : (run gc w p).1.err = some c) : (run gc w p).2 = .ctx c := by
  rcases run_err_ret gc p w c ha h with h' | ⟨h', _⟩
  · exact h'
  · exact absurd h' hp

/-- conversely an operation returns the context's error only if the context has fired -/
theorem ctx_error_only_if_fired (gc : Bool) (w : World) (e : StepEnv) (c : CtxErr)
    (h : (step gc w e).2 = .ctx c) : (step gc w e).1.err = some c :=
  (step_ctx_iff gc w e c).mp h

/-- **closed_on_cancel** (clause "the connection is then closed rather than left half-used").  For
    every non-empty operation (any error handling), every initial state and every environment: if
    the context has fired by the time the operation returns, then `Close` has run on the
    connection or the watcher that runs it has been started; after the watcher has run the
    connection is closed.  This covers all three positions: entry guard, during the request, and
    the window before `stop()`. -/
theorem closed_on_cancel (w : World) (p : List (Step × StepEnv)) (c : CtxErr) (hp : p ≠ [])
    (h : (run cur w p).1.err = some c) : (settle (run cur w p).1).closed = true := by
  rcases run_closed p w c hp h with h' | h' <;> simp [settle, h']

/-- **guard_without_close_leaves_open** (record of the defect fixed for C19): in the code BEFORE the
    fix (`run false`) the clause fails — a cancellation observed at the entry guard returned the
    context's error with the connection open and no watcher started.  Witness: one read, context
    cancelled before it.  (Reproduced on the real code by the `stall` engine, schedule `guard`.) -/
theorem guard_without_close_leaves_open :
    ¬ (∀ (w : World) (p : List (Step × StepEnv)) (c : CtxErr), p ≠ [] → (run false w p).1.err = some c →
        (settle (run false w p).1).closed = true) := by
  intro h
  have := h { cancellable := true } [({ kind := .rd }, { pre := some .canceled, peer := .stall })] .canceled
    (by simp) (by decide)
  revert this
  decide

/-! ### a context that can never be cancelled adds no failure mode -/

/-- **never_cancellable_adds_nothing** (last sentence of the property).  With a context whose
    `Done()` is nil (context.Background / TODO) every operation is exactly the bare I/O: same
    result, same number of requests, and context and connection state untouched — whatever
    "cancellation" events the environment contains. In particular a stalled request blocks exactly
    as the bare read/write would, and no operation ever returns a context error. -/
theorem never_cancellable_adds_nothing (gc : Bool) (w : World) (p : List (Step × StepEnv))
    (hc : w.cancellable = false) (hn : w.err = none) :
    run gc w p = ({ w with io := (bareRun w.closed p w.io).1 }, (bareRun w.closed p w.io).2) :=
  run_bare gc p w hn (Or.inl hc)

/-- **unfired_adds_nothing**: the same for a cancellable context that does not fire during the
    operation (the watcher is registered and removed again without a trace). -/
theorem unfired_adds_nothing (gc : Bool) (w : World) (p : List (Step × StepEnv))
    (hs : silent p) (hn : w.err = none) :
    run gc w p = ({ w with io := (bareRun w.closed p w.io).1 }, (bareRun w.closed p w.io).2) :=
  run_bare gc p w hn (Or.inr hs)

/-- **stall_blocks_without_cancel** (the stall is real: without a cancellation the k-th request
    blocks the operation, cancellable context or not — so `unblocks` is not vacuous). -/
theorem stall_blocks_without_cancel (gc : Bool) (w : World) (a : List Step) (s : Step) (rest : List (Step × StepEnv))
    (hn : w.err = none) (hcl : w.closed = false) :
    run gc w (quiet a ++ (s, { pre := none, peer := .stall, mid := none }) :: rest) =
      ({ w with io := w.io + a.length + 1 }, .blocked) := by
  rw [run_quiet_append gc a _ w hn hcl]
  obtain ⟨cb, err, cl, cg, n⟩ := w
  simp only at hn hcl
  subst hn hcl
  cases cb <;> simp [run, step, fire, effPeer]

/-! ### fact tables: cancellation reaches every connection read/write -/

/-- the call sites that touch the connection, declared next to the model -/
def declaredConnIO : List (String × String × String × String) := [
  ("stream/stream.go", "readWithContext", "io.ReadFull(s.reader", ""),
  ("stream/stream.go", "writeWithContext", "s.writer.Write", "")]

/-- every use of the Stream fields conn / reader / writer, examined: none of them reads or writes
    outside readWithContext / writeWithContext (`GetConnection` hands the raw connection to the
    caller for the TLS upgrade; `SetTimeout` only type-asserts for socket options). -/
def declaredConnUses : List (String × String × String × String) := [
  ("stream/stream.go", "Close", "conn", "call:Close"),
  ("stream/stream.go", "GetConnection", "conn", "return"),
  ("stream/stream.go", "IsConnected", "conn", "nilcheck"),
  ("stream/stream.go", "SetConnection", "conn", "assign"),
  ("stream/stream.go", "SetConnection", "reader", "assign"),
  ("stream/stream.go", "SetConnection", "writer", "assign"),
  ("stream/stream.go", "SetTimeout", "conn", "assert:*net.TCPConn"),
  ("stream/stream.go", "readWithContext", "conn", "call:Close"),
  ("stream/stream.go", "readWithContext", "conn", "nilcheck"),
  ("stream/stream.go", "readWithContext", "reader", "arg:io.ReadFull"),
  ("stream/stream.go", "writeWithContext", "conn", "call:Close"),
  ("stream/stream.go", "writeWithContext", "conn", "nilcheck"),
  ("stream/stream.go", "writeWithContext", "writer", "call:Write")]

/-- **all_io_wrapped** (fact table (c)): every call in stream/ that reads or writes through the
    connection is one of the declared sites, all of which lie inside readWithContext /
    writeWithContext; and every mention of the connection fields is a declared, examined use. -/
theorem all_io_wrapped :
    (∀ x ∈ CedarGen.FactsIO.connIO, x ∈ declaredConnIO) ∧
    (∀ x ∈ declaredConnIO, x.2.1 = "readWithContext" ∨ x.2.1 = "writeWithContext") ∧
    (∀ x ∈ CedarGen.FactsIO.connUses, x ∈ declaredConnUses) ∧
    (∀ x ∈ declaredConnUses, (x.2.2.2 = "call:Write" ∨ x.2.2.2 = "call:Read" ∨ x.2.2.2 = "arg:io.ReadFull") →
        (x.2.1 = "readWithContext" ∨ x.2.1 = "writeWithContext")) := by
  decide

/-- the examined exceptions of fact table (d) -/
def declaredCtxFresh : List (String × String × String × String) := [
  -- demo wrapper, not on any handshake path
  ("security/auth.go", "PerformTokenAuthenticationDemo", "context.Background()", ""),
  -- exported pre-context entry points kept for API compatibility (fix F-C19-scitokens-noctx): each only
  -- forwards to its ...Context variant; the handshake (exchangeSciToken) calls the variant with its own context
  ("security/scitoken_auth.go", "DiscoverOIDCConfiguration", "context.Background()", ""),
  ("security/scitoken_auth.go", "FetchJWKS", "context.Background()", ""),
  ("security/scitoken_auth.go", "VerifySciToken", "context.Background()", "")]

def declaredCtxForeign : List (String × String × String × String) := [
  -- CEDARTLSConnection carries the handshake's own context (stored below) into crypto/tls's Read/Write
  ("security/ssl_auth.go", "Read", "c.ctx", "c.receiveMessage"),
  ("security/ssl_auth.go", "Write", "c.ctx", "c.sendMessage"),
  ("security/ssl_auth.go", "flushBufferedData", "c.ctx", "c.sendMessage")]

def declaredCtxStored : List (String × String × String × String) := [
  ("security/ssl_auth.go", "performTLSHandshake", "CEDARTLSConnection.ctx", "derived")]

/-- **ctx_threaded** (fact table (d)): in stream/, security/ and message/ no call passes a context
    that is not derived from the enclosing function's own context parameter, except the declared
    sites: the demo wrapper's `context.Background()` and `CEDARTLSConnection.ctx`, which is stored
    exactly once and from the handshake's own context parameter. -/
theorem ctx_threaded :
    (∀ x ∈ CedarGen.FactsIO.ctxFresh, x ∈ declaredCtxFresh) ∧
    (∀ x ∈ CedarGen.FactsIO.ctxForeign, x ∈ declaredCtxForeign) ∧
    (∀ x ∈ CedarGen.FactsIO.ctxStored, x ∈ declaredCtxStored) ∧
    (∀ x ∈ declaredCtxStored, x.2.2.2 = "derived") ∧
    (∀ x ∈ declaredCtxForeign, x.2.2.1 = "c.ctx") := by
  decide

/-- the examined exceptions of the table of blocking calls that take no context.
    `kerberosClient` asks the KDC for a service ticket through gokrb5, whose client API has no
    context parameter: a KERBEROS handshake cannot be cancelled during that round trip (bounded by
    the library's own KDC timeouts). OPEN — recorded here so that it stays visible; it needs a
    change of dependency or a watchdog goroutine, and Kerberos cannot run in this environment. -/
def declaredNoCtx : List (String × String × String × String) := [
  ("security/kerberos_auth.go", "kerberosClient", "cl.GetServiceTicket", "kerberos")]

/-- **no_contextless_blocking** (fact table (e)): `ctx_threaded` vouches for the context ARGUMENTS
    that exist; this one for the calls that have none. In security/ no function calls a blocking
    network or timer API that takes no context (`net.Dial*`, `http.Get/Post/...`, `(*http.Client).Get/
    Post/Head`, `(*http.Client).Do` on a request not built with a context, `tls.Dial`, `time.Sleep`,
    `exec.Command`, gokrb5 ticket requests) except the declared site. Before fix F-C19-scitokens-noctx
    the table also held `DiscoverOIDCConfiguration` and `FetchJWKS` (two `client.Get` with 10 s
    timeouts, reached from the server side of a SCITOKENS handshake through `VerifySciToken`): a
    stalled token issuer kept a cancelled handshake blocked for up to 20 s. -/
theorem no_contextless_blocking :
    ∀ x ∈ CedarGen.FactsNoCtx.blocking, x ∈ declaredNoCtx := by
  decide

/-- the pre-fix table violates the clause (witness: the OIDC discovery request) -/
theorem no_contextless_blocking_prefix_fails :
    ¬ (∀ x ∈ [("security/kerberos_auth.go", "kerberosClient", "cl.GetServiceTicket", "kerberos"),
              ("security/scitoken_auth.go", "DiscoverOIDCConfiguration", "(*http.Client).Get", "no context"),
              ("security/scitoken_auth.go", "FetchJWKS", "(*http.Client).Get", "no context")], x ∈ declaredNoCtx) := by
  decide

/-! ### non-vacuity -/

private def live : World := { cancellable := true }
private def bg : World := { cancellable := false }
private def rd : Step := { kind := .rd }
private def wr : Step := { kind := .wr }

-- ReceiveFrame (header read, body read) with the body stalled and a cancel during the stall
example : run cur live [(rd, {}), (rd, { peer := .stall, mid := some .canceled })] =
    ({ cancellable := true, err := some .canceled, closed := true, io := 2 }, .ctx .canceled) := by decide
-- the same stall under context.Background blocks, exactly like the bare read
example : run cur bg [(rd, {}), (rd, { peer := .stall, mid := some .canceled })] =
    ({ cancellable := false, io := 2 }, .blocked) := by decide
-- deadline passed before the operation: nothing is issued, connection closed
example : run cur live [(wr, { pre := some .deadline, peer := .stall })] =
    ({ cancellable := true, err := some .deadline, closed := true, io := 0 }, .ctx .deadline) := by decide
-- before the fix the same run left the connection open
example : run false live [(wr, { pre := some .deadline, peer := .stall })] =
    ({ cancellable := true, err := some .deadline, closed := false, io := 0 }, .ctx .deadline) := by decide
-- an I/O error with an unfired context stays the I/O error
example : run cur live [(wr, {}), (rd, { peer := .fail .eof })] = ({ cancellable := true, io := 2 }, .io .eof) := by decide
-- a retry loop that swallows errors drains without I/O after the cancel and ends at its aborting step
example : run cur live [({ kind := .rd, onErr := .swallow }, { peer := .stall, mid := some .canceled }),
      ({ kind := .wr, onErr := .swallow }, {}), (rd, {})] =
    ({ cancellable := true, err := some .canceled, closed := true, io := 1 }, .ctx .canceled) := by decide
-- cancellation in the window before stop(): the context's error wins, close is asynchronous
example : run cur live [(wr, { mid := some .canceled })] =
    ({ cancellable := true, err := some .canceled, closing := true, io := 1 }, .ctx .canceled) := by decide


/-- **fact_tables_not_vacuous**: the regenerated tables `all_io_wrapped`, `ctx_threaded` and
    `no_contextless_blocking` quantify over are inhabited and see what they are about — the
    connection I/O table holds the two wrapped primitives (a read and a write), the table of uses of
    the connection covers the stream's I/O fields, the scans visited at least 50 functions and 200
    calls. A renamed field or a moved package therefore cannot make the inclusions hold by emptying
    the tables (the generator also refuses to write an empty table). -/
theorem fact_tables_not_vacuous :
    CedarGen.FactsIO.connIO ≠ [] ∧ CedarGen.FactsIO.connUses ≠ [] ∧
    (∃ x ∈ CedarGen.FactsIO.connIO, x.2.1 = "readWithContext") ∧
    (∃ x ∈ CedarGen.FactsIO.connIO, x.2.1 = "writeWithContext") ∧
    50 ≤ CedarGen.FactsIO.funcsScanned ∧ 50 ≤ CedarGen.FactsNoCtx.funcsScanned ∧ 200 ≤ CedarGen.FactsNoCtx.callsScanned := by
  decide

end Cedar.C19
