/-
  C13 — Decoding is total and bounded: no panic, no runaway allocation, caps honoured.
  Property theorems only; helper lemmas live in CedarProofs/{DecodeLemmas,DecodeEntry,DecodeText}.lean.

  Every theorem is about ALL decoder states `s` — any buffered bytes, any sequence of frames still
  to come (any payloads, any end-of-message flags, possibly none), both string modes, key or no
  key, any meters — i.e. all byte sequences a peer can make the typed layer see; the frame layer
  theorems are about all raw wire byte strings. Meters: `frames` (frames taken from the wire),
  `calls` (string-level operations = loop rounds of the readers), `alloc` (bytes allocated),
  `need` (largest amount ever requested from the wire at once), `held` (longest value under
  construction), `depth` (stack frames of the multi-frame reader).
-/
import CedarProofs.DecodeText
import CedarProofs.DecodeNoEnd
import CedarGen.FactsAdRead
import CedarGen.FactsAlloc

namespace Cedar.C13

open Cedar Cedar.Decode

/-! ## total: malformed input yields an error, never a panic -/

/-- **total, typed values** — no typed read panics, whatever is buffered and whatever frames
    follow: bytes, integers, strings in both modes (a negative or absurd length prefix included),
    capped strings for every cap, raw byte runs for every requested count (negative, huge),
    skipped strings. -/
theorem total_typed (s : St) (cap : Nat) (n : Int) :
    (getChar s).1 ≠ .error .panic ∧ (getInt s).1 ≠ .error .panic ∧ (getInt32 s).1 ≠ .error .panic ∧
    (getString s).1 ≠ .error .panic ∧ (getStringMax cap s).1 ≠ .error .panic ∧
    (getBytes n s).1 ≠ .error .panic ∧ (skipString s).1 ≠ .error .panic :=
  ⟨(getChar_facts s _ _ rfl).np, (getInt_facts s _ _ rfl).1.np, (getInt32_facts s _ _ rfl).1.np,
   (getString_facts s _ _ rfl).1.np, (getStringMax_facts cap s _ _ rfl).str.np,
   (getBytes_facts n s _ _ rfl).np, (skipString_facts s _ _ rfl).2.1⟩

/-- **total, ClassAd receivers** — `GetClassAd`, `GetClassAdWithMaxSize cap` (every cap, every
    verdict of the expression parser), `GetClassAdRaw`, `GetClassAdRawBody n` (every count,
    negative and 2^62 included) and `SkipClassAdRaw` never panic — secret markers anywhere. -/
theorem total_classad (s : St) (cap : Nat) (pfail : Option Nat) (n : Int) :
    (getClassAd cap pfail s).1 ≠ .error .panic ∧ (getClassAdRaw s).1 ≠ .error .panic ∧
    (rawBody n s).1 ≠ .error .panic ∧ (skipClassAdRaw s).1 ≠ .error .panic :=
  ⟨(getClassAd_facts cap pfail s _ _ rfl).1.np, (getClassAdRaw_facts s _ _ rfl).np,
   (rawBody_facts n s _ _ rfl).np, (skipClassAdRaw_facts s _ _ rfl).1.np⟩

/-- **total, handshake records** — the TLS record reader (status, length, data), the key-exchange
    record, the identity string and the token of the token exchange never panic, whatever
    lengths the peer announces. -/
theorem total_handshake (s : St) :
    (tlsRecv s).1 ≠ .error .panic ∧ (exchangeKey s).1 ≠ .error .panic ∧
    (getIDString s).1 ≠ .error .panic ∧ (getToken s).1 ≠ .error .panic :=
  ⟨(tlsRecv_facts s _ _ rfl).np, (exchangeKey_facts s _ _ rfl).np, (getIDString_facts s _ _ rfl).1.np,
   (getStringMax_facts maxTokenLen s _ _ rfl).str.np⟩

/-- **total and linear, the remaining length-prefixed handshake readers** — the Kerberos request
    blob (code, length, data) and the optional raw fields of the token exchange's error-state
    branches (`fieldLen`, then that many raw bytes): never a panic, and what they allocate is paid
    for by bytes that arrived, whatever length the peer announces. (The other readers of these
    sub-protocols are `getIDString`, `getToken`, capped strings and integers: above.) -/
theorem total_linear_subprotocols (s : St) :
    (krbRead s).1 ≠ .error .panic ∧ Linear 0 s (krbRead s).2 ∧
    (rawField s).1 ≠ .error .panic ∧ Linear 0 s (rawField s).2 :=
  ⟨(tlsRecv_facts s _ _ (krbRead_eq s).symm).np, linear_of (tlsRecv_facts s _ _ (krbRead_eq s).symm).law,
   (rawField_facts s (rawField s).1 (rawField s).2 rfl).np, linear_of (rawField_facts s (rawField s).1 (rawField s).2 rfl).law⟩

/-- **total, framing** — for every wire byte string (and every fuel), one frame, a complete
    message, a message read through `StartMessageRead`, and the shared-port hand-off header
    end in a value or an error, never a panic. -/
theorem total_framing (encOn : Bool) (w : Bytes) (fuel : Nat) (acc : Bytes) (m : WMeter) :
    (recvFrame encOn w m).1 ≠ .error .panic ∧ (recvComplete encOn fuel w acc m).1 ≠ .error .panic ∧
    (readMessage encOn fuel w acc m).1 ≠ .error .panic ∧ (readPassSock w).1 ≠ .error .panic :=
  ⟨(recvFrame_facts encOn w m _ _ rfl).np, (recvComplete_facts encOn fuel w acc m _ _ rfl).1.np,
   (readMessage_facts encOn fuel w acc m _ _ rfl).1.np, (readPassSock_facts w).1⟩

/-- **total, claim-id text and session-state blob** — `ImportSessionInfoAttributes` accepts every
    text (a lone quote as value included — fix 6), `ImportSecSessionInfo` and
    `NewStreamWithCryptoState` reject or accept, never panic. (`ParseClaimIDStrict` is a total
    function returning a record: nothing to state.) -/
theorem total_text_blob (b : Bytes) :
    (∃ a, Claim.importAttrs b = .ok a) ∧ Claim.importInfo b ≠ .error .panic ∧ importBlob b ≠ .error .panic :=
  ⟨importAttrs_ok b, importInfo_np b, importBlob_np b⟩

/-! ## linear: work and allocation in proportion to the bytes received -/

/- `Linear k s s'` (CedarProofs/DecodeEntry.lean): the operation from `s` to `s'` took no more frames
   than the wire held (`frames' ≤ frames + nsrc`), performed at most `bytes + k` string-level
   operations (`calls' ≤ calls + bytes + k`) and allocated at most four times the unconsumed bytes
   (`alloc' ≤ alloc + 4·bytes`: buffer append, value copy, one more copy by the text builder). -/

/-- **linear, typed values** -/
theorem linear_typed (s : St) (cap : Nat) (n : Int) :
    Linear 0 s (getChar s).2 ∧ Linear 0 s (getInt s).2 ∧ Linear 1 s (getString s).2 ∧
    Linear 1 s (getStringMax cap s).2 ∧ Linear 0 s (getBytes n s).2 ∧ Linear 1 s (skipString s).2 :=
  ⟨linear_of (getChar_facts s _ _ rfl).law.toQ, linear_of (getInt_facts s _ _ rfl).1.law.toQ,
   linear_of (getString_facts s _ _ rfl).1.law.toQ, linear_of (getStringMax_facts cap s _ _ rfl).str.law.toQ,
   linear_of (getBytes_facts n s _ _ rfl).law.toQ, linear_of (skipString_facts s _ _ rfl).1.toQ⟩

/-- **linear, ClassAd receivers** — in particular the number of loop rounds of every receiver is
    bounded by the bytes of the message plus 4, NOT by the expression count the peer announced
    (fix 4), for every count. -/
theorem linear_classad (s : St) (cap : Nat) (pfail : Option Nat) (n : Int) :
    Linear 4 s (getClassAd cap pfail s).2 ∧ Linear 4 s (getClassAdRaw s).2 ∧
    Linear 4 s (rawBody n s).2 ∧ Linear 3 s (skipClassAdRaw s).2 :=
  ⟨linear_of (getClassAd_facts cap pfail s _ _ rfl).1.law, linear_of (getClassAdRaw_facts s _ _ rfl).law,
   linear_of (rawBody_facts n s _ _ rfl).law, linear_of (skipClassAdRaw_facts s _ _ rfl).1.law⟩

/-- **linear, handshake records** — the buffers of `receiveMessage` / `exchangeKey` are paid for
    by bytes that actually arrived (fix 2), whatever length was announced. -/
theorem linear_handshake (s : St) :
    Linear 0 s (tlsRecv s).2 ∧ Linear 0 s (exchangeKey s).2 ∧ Linear 1 s (getIDString s).2 ∧
    Linear 1 s (getToken s).2 :=
  ⟨linear_of (tlsRecv_facts s _ _ rfl).law, linear_of (exchangeKey_facts s _ _ rfl).law,
   linear_of (getIDString_facts s _ _ rfl).1.law, linear_of (getStringMax_facts maxTokenLen s _ _ rfl).str.law.toQ⟩

/-- **linear, framing** — reading a message off `w` parses at most `|w|/5 + 1` headers, allocates
    at most `2·|w|` plus one maximal frame (the payload buffer is sized from the header before its
    bytes arrive, bounded by `MaxMessageSize`), and the reader behind `StartMessageRead` uses
    constant stack (fix 5). -/
theorem linear_framing (encOn : Bool) (w : Bytes) (fuel : Nat) :
    let a := (recvComplete encOn fuel w [] {}).2
    let b := (readMessage encOn fuel w [] {}).2
    headerSize * a.frames ≤ w.length + headerSize ∧ a.alloc ≤ 2 * w.length + maxMessageSize ∧ a.depth = 0 ∧
    headerSize * b.frames ≤ w.length + headerSize ∧ b.alloc ≤ 2 * w.length + maxMessageSize ∧ b.depth ≤ 1 := by
  obtain ⟨fa, da⟩ := recvComplete_facts encOn fuel w [] {} _ _ rfl
  obtain ⟨fb, db⟩ := readMessage_facts encOn fuel w [] {} _ _ rfl
  have h1 := fa.frames
  have h2 := fa.alloc
  have h3 := fb.frames
  have h4 := fb.alloc
  simp only [Nat.mul_zero, Nat.zero_add] at h1 h2 h3 h4
  exact ⟨h1, h2, da, h3, h4, by simpa using db⟩

/-- **total, the frame reader without end flag and its callers** — `stream.ReceiveFrame`,
    `Stream.GetSecret` (key or no key) and `Stream.GetFile` end in a value or an error for every
    wire byte string: a size frame of any length and any signed value, chunk frames of any sizes,
    any end marker. -/
theorem total_framing_noend (key encOn : Bool) (w : Bytes) (m : WMeter) :
    (recvFrameNE encOn w m).1 ≠ .error .panic ∧ (getSecretW key encOn w m).1 ≠ .error .panic ∧
    (getFile encOn w m).1 ≠ .error .panic :=
  ⟨(recvFrameNE_facts encOn w m (recvFrameNE encOn w m).1 (recvFrameNE encOn w m).2 rfl).np,
   (getSecretW_facts key encOn w m (getSecretW key encOn w m).1 (getSecretW key encOn w m).2 rfl).np,
   (getFile_facts encOn w m (getFile encOn w m).1 (getFile encOn w m).2 rfl).1.np⟩

/-- **a header announcing more than `MaxMessageSize` is refused before any buffer is sized from
    it** — by both frame readers, with not a byte allocated (this is what keeps a 5-byte header
    from costing 4 GiB through `GetSecret` / `GetFile` / `ReadFrame`). -/
theorem oversize_header_refused (encOn : Bool) (w : Bytes) (m : WMeter)
    (h5 : Decode.headerSize ≤ w.length) (hbig : beVal ((w.drop 1).take 4) > Decode.maxMessageSize) :
    recvFrameNE encOn w m = (.error .tooLarge, { m with frames := m.frames + 1 }) ∧
    recvFrame encOn w m = (.error .tooLarge, { m with frames := m.frames + 1 }) := by
  have h : ¬ (!lenGe w Decode.headerSize) = true := by
    rw [(lenGe_iff w Decode.headerSize).mpr h5]; decide
  constructor
  · unfold recvFrameNE; rw [if_neg h]; simp only; rw [if_pos hbig]
  · unfold recvFrame; rw [if_neg h]; simp only; rw [if_pos hbig]

/-- **linear, the frame reader without end flag and its callers** — reading a secret or a whole
    file off `w` parses at most `|w|/5 + 1` headers and allocates at most `|w|` plus ONE maximal
    frame (only the last, failing read can have sized its buffer from a header whose payload
    never came), uses no recursion; and `GetFile` writes no more bytes to the file than the wire
    delivered, whatever file size the peer announced. -/
theorem linear_framing_noend (key encOn : Bool) (w : Bytes) :
    let a := (recvFrameNE encOn w {}).2
    let b := (getSecretW key encOn w {}).2
    let c := (getFile encOn w {}).2
    (Decode.headerSize * a.frames ≤ w.length + Decode.headerSize ∧ a.alloc ≤ w.length + Decode.maxMessageSize ∧ a.depth = 0) ∧
    (Decode.headerSize * b.frames ≤ w.length + Decode.headerSize ∧ b.alloc ≤ w.length + Decode.maxMessageSize ∧ b.depth = 0) ∧
    (Decode.headerSize * c.frames ≤ w.length + Decode.headerSize ∧ c.alloc ≤ w.length + Decode.maxMessageSize ∧ c.depth = 0) ∧
    ∀ t rest, (getFile encOn w {}).1 = .ok (t, rest) → t + rest.length ≤ w.length := by
  have fa := recvFrameNE_facts encOn w {} (recvFrameNE encOn w {}).1 (recvFrameNE encOn w {}).2 rfl
  have fb := getSecretW_facts key encOn w {} (getSecretW key encOn w {}).1 (getSecretW key encOn w {}).2 rfl
  obtain ⟨fc, hw⟩ := getFile_facts encOn w {} (getFile encOn w {}).1 (getFile encOn w {}).2 rfl
  have h1 := fa.frames; have h2 := fa.alloc
  have h3 := fb.frames; have h4 := fb.alloc
  have h5 := fc.frames; have h6 := fc.alloc
  simp only [Nat.mul_zero, Nat.zero_add] at h1 h2 h3 h4 h5 h6
  exact ⟨⟨h1, h2, fa.depth⟩, ⟨h3, h4, fb.depth⟩, ⟨h5, h6, fc.depth⟩, hw⟩

/-- the shared-port header reader allocates at most 64 bytes -/
theorem passsock_bounded (w : Bytes) : (readPassSock w).2 ≤ 64 := (readPassSock_facts w).2

/-! ## cap honoured -/

/-- **what `need` means** — frames are pulled only while the buffer is shorter than what was asked
    for: with frames of at most `F` payload bytes (the frame layer enforces `MaxMessageSize`),
    the buffer after `ensureData(n)` holds at most `n + F` bytes, or what it held before. -/
theorem buffer_bound (n F : Nat) (s : St) (hF : FramesLe F s.d.src) :
    (ensure n s).2.d.buf.length ≤ max s.d.buf.length (n + F) :=
  ensure_buffer_bound n F s hF

/-- **cap honoured, strings** — `GetStringWithMaxSize(cap)`: a returned value is at most `cap`
    bytes; never more than `max cap 8` bytes are requested from the wire at once and no value
    longer than `cap` is ever under construction; at most `cap + 8` bytes of the message are
    consumed, whatever length the peer announced or however long it keeps sending. -/
theorem cap_string (cap : Nat) (s : St) :
    (∀ v, (getStringMax cap s).1 = .ok v → v.length ≤ cap) ∧
    (getStringMax cap s).2.m.need ≤ max s.m.need (max cap 8) ∧
    (getStringMax cap s).2.m.held ≤ max s.m.held (max cap 8) ∧
    s.bytes ≤ (getStringMax cap s).2.bytes + cap + 8 :=
  ⟨(getStringMax_facts cap s _ _ rfl).resLen, (getStringMax_facts cap s _ _ rfl).capLaw.need,
   (getStringMax_facts cap s _ _ rfl).capLaw.held, getStringMax_consumed_le cap s⟩

/-- **cap honoured, the bounded ClassAd reader** (used for every handshake ad) — with `cap > 0`,
    whatever the expression count, the string lengths and the number of secret markers: nothing
    beyond `max cap 8` bytes is requested from the wire at once and no value longer than
    `max cap 8` is under construction at any point — the secret-marker branch included (fix 3). -/
theorem cap_classad (cap : Nat) (hc : 0 < cap) (pfail : Option Nat) (s : St) :
    (getClassAd cap pfail s).2.m.need ≤ max s.m.need (max cap 8) ∧
    (getClassAd cap pfail s).2.m.held ≤ max s.m.held (max cap 8) :=
  ⟨((getClassAd_facts cap pfail s _ _ rfl).2 hc).need, ((getClassAd_facts cap pfail s _ _ rfl).2 hc).held⟩

/-! ## "the bounded ClassAd reader used for every handshake ad" -/

/-- Enclosing functions in security/ and ccb/ that read a ClassAd which is NOT a handshake /
    control ad and may therefore use an uncapped reader. Hand-written; empty today: every ClassAd
    these two packages read from a peer (negotiation ad, post-authentication ad, resume reply,
    CCB control and reverse-connect ads) arrives before or while the peer is authenticated. -/
def notHandshakeAdReaders : List String := []

/-- the largest cap a handshake reader may pass (64 KiB: `ccb.maxControlAdSize`) -/
def maxHandshakeAdCap : Nat := 65536

/-- **every handshake ad is read by the bounded reader** — over the table of ALL calls of a ClassAd
    reader of package message in security/ and ccb/ (regenerated from the sources on every run,
    `tools/gen/facts_adread.go`): each is `GetClassAdWithMaxSize` with a compile-time constant cap
    between 1 and 64 KiB. A call of `GetClassAd`, `GetClassAdRaw`, … or a cap computed at run time
    added to a handshake breaks this theorem. -/
theorem handshake_ads_capped :
    ∀ s ∈ CedarGen.FactsAdRead.adReadSites,
      s.fn ∈ notHandshakeAdReaders ∨ (s.capped = true ∧ 0 < s.cap ∧ s.cap ≤ maxHandshakeAdCap) := by
  decide

/-- hence at every such site nothing beyond 64 KiB is ever requested from the wire at once or held
    under construction, whatever the peer sends (`cap_classad` at the site's cap) -/
theorem handshake_ads_bounded (pfail : Option Nat) (st : St) :
    ∀ s ∈ CedarGen.FactsAdRead.adReadSites, s.fn ∉ notHandshakeAdReaders →
      (getClassAd s.cap pfail st).2.m.need ≤ max st.m.need maxHandshakeAdCap ∧
      (getClassAd s.cap pfail st).2.m.held ≤ max st.m.held maxHandshakeAdCap := by
  intro s hs hn
  rcases handshake_ads_capped s hs with h | ⟨_, hpos, hle⟩
  · exact absurd h hn
  · obtain ⟨h1, h2⟩ := cap_classad s.cap hpos pfail st
    have : max s.cap 8 ≤ maxHandshakeAdCap := by
      have : (8 : Nat) ≤ maxHandshakeAdCap := by decide
      omega
    exact ⟨by omega, by omega⟩

/-- every slice allocation in the packages that handle peer input whose size is a VARIABLE, with what
    bounds that variable (read off the code; the engines measure the same sites dynamically) -/
def declaredVariableSized : List (String × String × String) := [
  -- shared-port header: the length field is checked against the header limit before the read (passsock_bounded)
  ("client/sharedport", "readPassSockHeader", "length"),
  -- control-message space for ONE descriptor: a function of the constant 4
  ("client/sharedport", "receiveForwardedConn", "syscall.CmsgSpace(4)"),
  -- typed layer: sized only after `ensureData` saw that many bytes ARRIVE in the message (linear_typed)
  ("message", "GetBytes", "numBytes"),
  ("message", "GetRemainingBytes", "m.buffer.Len()"),
  -- encrypted-mode string: the length prefix is rejected when negative or beyond what the message holds (total_typed)
  ("message", "GetString", "length"),
  -- capped string: at most the caller's cap (cap_string)
  ("message", "GetStringWithMaxSize", "bytesToRead"),
  -- key derivation: the caller's constant key length
  ("security", "deriveSessionKey", "keyLen"),
  -- SciToken: the announced size is checked against the sub-protocol limit first (fix 71218b1)
  ("security", "exchangeSciToken", "tokenSize"),
  -- minting: the caller's constant
  ("security", "randomHexKey", "nbytes"),
  -- session-state blob: each variable-length field is checked against the bytes left in the blob (total_text_blob)
  ("stream", "NewStreamWithCryptoState", "n"),
  -- frames: the announced length is checked against MaxMessageSize before the allocation (oversize_header_refused)
  ("stream", "ReceiveFrame", "messageLength"),
  ("stream", "ReceiveFrameWithEnd", "messageLength"),
  -- sending: plaintext length plus the constant overhead
  ("stream", "encryptDataWithAAD", "outputSize"),
  ("stream", "grabFrame", "n") ]

/-- **variable_sized_allocations_declared** — over the table of ALL slice allocations in stream/,
    message/, security/, ccb/, client/, server/, addresses/ whose size is neither a constant nor the
    length of something that already exists (regenerated on every run, `tools/gen/facts_alloc.go`):
    each is one of the sites above, whose size is bounded before the allocation. A `make([]byte, n)`
    on a freshly decoded length added anywhere in those packages is a new row and breaks this
    theorem, whether or not an engine drives that code. -/
theorem variable_sized_allocations_declared :
    (∀ s ∈ CedarGen.FactsAlloc.variableSized, s ∈ declaredVariableSized) ∧
    CedarGen.FactsAlloc.variableSized ≠ [] := by
  decide

/-- non-vacuity: the table is not empty — it lists the negotiation ad of both roles, the
    post-authentication ad, the resume reply and both CCB readers -/
example : CedarGen.FactsAdRead.adReadSites.length ≥ 6 ∧
    "GetClassAdWithMaxSize" ∈ CedarGen.FactsAdRead.adReaders ∧ "GetClassAd" ∈ CedarGen.FactsAdRead.adReaders := by decide

/-- **the skipping reader allocates (almost) nothing** — `SkipClassAdRaw` follows the secret marker
    by looking only at strings exactly as long as the marker (`skipStringIs`: a `GetBytes` of at
    most `|marker| + 1 = 4` bytes); whatever the ad, it never asks the wire for more than 8 bytes at
    once and never holds a value longer than 8 bytes. -/
theorem cap_skip (s : St) :
    (skipClassAdRaw s).2.m.need ≤ max s.m.need 8 ∧ (skipClassAdRaw s).2.m.held ≤ max s.m.held 8 :=
  ⟨(skipClassAdRaw_facts s _ _ rfl).2.need, (skipClassAdRaw_facts s _ _ rfl).2.held⟩

/-- **cap exceeded ⇒ the read FAILS** (not only "consumption is bounded"): with `cap > 0`,
    * a plaintext string whose first `cap` buffered bytes hold no terminator is refused
      (`sizeExceeded`) — it is not returned truncated;
    * an encrypted-mode string announcing more than `cap` bytes is never returned, whatever follows;
    * in the bounded ClassAd reader, once the running total has reached the cap, the next string —
      expression, secret after a marker, MyType, TargetType — is refused without touching the
      message (`sizeExceeded`, state unchanged), so the ad as a whole fails. -/
theorem cap_exceeded_fails (cap : Nat) (hc : 0 < cap) :
    (∀ (s : St) (pre rest : Bytes), s.enc = false → s.d.buf = pre ++ rest → pre.length = cap →
        (∀ b ∈ pre, b ≠ 0) → (getStringMax cap s).1 = .error .sizeExceeded) ∧
    (∀ (s : St) (len : Int) (s1 : St), s.enc = true → getInt32 s.call = (.ok len, s1) → (cap : Int) < len →
        ∀ v, (getStringMax cap s).1 ≠ .ok v) ∧
    (∀ (total : Nat) (s : St), cap ≤ total →
        adString cap total s = (.error .sizeExceeded, s) ∧ adSecret cap total s = (.error .sizeExceeded, s)) :=
  ⟨fun s pre rest henc hb hl hnz => getStringMax_plain_fails cap hc s pre rest henc hb hl hnz,
   fun s len s1 henc hlen hbig => getStringMax_enc_fails cap hc s len s1 henc hlen hbig,
   fun total s ht => adString_over_budget cap total hc ht s⟩

/-- non-vacuity: cap 4 on the plaintext bytes "abcdef\0" fails; cap 8 returns the string -/
example : isErr .sizeExceeded (getStringMax 4 { d := { buf := [97, 98, 99, 100, 101, 102, 0] } }).1 = true ∧
    (getStringMax 8 { d := { buf := [97, 98, 99, 100, 101, 102, 0] } }).1.isOk = true := by decide

/-- **cap honoured, token exchange** — identity strings and tokens are read under their limits
    (`AUTH_PW_MAX_NAME_LEN`, `AUTH_PW_MAX_TOKEN_LEN`). -/
theorem cap_handshake (s : St) :
    (∀ v, (getIDString s).1 = .ok v → v.length ≤ maxNameLen) ∧
    (getIDString s).2.m.held ≤ max s.m.held (max maxNameLen 8) ∧
    (∀ v, (getToken s).1 = .ok v → v.length ≤ maxTokenLen) ∧
    (getToken s).2.m.held ≤ max s.m.held (max maxTokenLen 8) :=
  ⟨(getIDString_facts s _ _ rfl).2.2, (getIDString_facts s _ _ rfl).2.1.held,
   (getStringMax_facts maxTokenLen s _ _ rfl).resLen, (getStringMax_facts maxTokenLen s _ _ rfl).capLaw.held⟩

/-! ## the code before the fixes violated each clause (witnesses replayed on the Go code by the
    `decode` engine; the fixed model above is what the library now does) -/

/-- an encrypted-mode message whose first eight bytes are the length −1 -/
def negLen : St := { d := { src := [(List.replicate 8 255, true)] }, enc := true }

def legacy_total_statement : Prop := ∀ s, (Legacy.getStringEnc s).1 ≠ .error .panic

/-- **total failed (defect 1)**: `GetString` on an encrypted stream reached `make([]byte, -1)`. -/
theorem legacy_total_fails : ¬ legacy_total_statement := by
  intro h
  have : isErr .panic (Legacy.getStringEnc negLen).1 = true := by decide
  exact h negLen ((isErr_iff _ _).mp this)

/-- the same input is rejected as malformed now -/
example : isErr .malformed (getString negLen).1 = true := by decide

/-- a 16-byte TLS record announcing `n` data bytes -/
def tlsMsg (n : Nat) : St := { d := { src := [(be64 2 ++ be64 n, true)] } }

def legacy_alloc_statement : Prop := ∀ s, (Legacy.tlsRecv s).2.m.alloc ≤ s.m.alloc + 4 * s.bytes

/-- **linear allocation failed (defect 2)**: `receiveMessage` sized a buffer from the peer's
    integer — 2^40 bytes for a 16-byte message. -/
theorem legacy_alloc_fails : ¬ legacy_alloc_statement := by
  intro h
  have h1 : (Legacy.tlsRecv (tlsMsg (2^40))).2.m.alloc ≥ 2^40 := by decide
  have h2 : (tlsMsg (2^40)).m.alloc + 4 * (tlsMsg (2^40)).bytes = 64 := by decide
  have := h (tlsMsg (2^40))
  omega

/-- now: at most 64 bytes for that message, and an end-of-message error -/
example : (tlsRecv (tlsMsg (2^40))).2.m.alloc ≤ 64 ∧ isErr .eom (tlsRecv (tlsMsg (2^40))).1 = true := by decide

def legacy_steps_statement : Prop :=
  ∃ k, ∀ n s, (Legacy.rawLoop n s []).2.m.calls ≤ s.m.calls + s.bytes + k

/-- **linear steps failed (defect 4)**: on an exhausted plaintext message the raw reader went
    round once per ANNOUNCED expression — no bound in terms of the input exists. -/
theorem legacy_steps_fails : ¬ legacy_steps_statement := by
  intro ⟨k, h⟩
  have := h (k + 1) (sEOM {})
  rw [legacy_rawLoop_calls] at this
  have hb : (sEOM {}).bytes = 0 := rfl
  have hc : (sEOM {}).m.calls = 0 := rfl
  omega

def legacy_depth_statement : Prop :=
  ∃ D, ∀ w fuel, (Legacy.readMessage false fuel w [] 0 {}).2.depth ≤ D

/-- **bounded recursion failed (defect 5)**: `readNextFrame` used one stack frame per partial
    frame — `k` empty partial frames (5·k wire bytes) give depth `k + 1`. -/
theorem legacy_depth_fails : ¬ legacy_depth_statement := by
  intro ⟨D, h⟩
  have := h (flood D) (D + 1)
  rw [legacy_depth D (D + 1) 0 [] {} (Nat.lt_succ_self _)] at this
  simp only [Nat.zero_add] at this
  have : D + 1 ≤ D := Nat.le_trans (Nat.le_max_right _ _) this
  omega

/-- a plaintext message: the marker, then a 12-byte secret -/
def markerMsg : St := { d := { src := [([90, 75, 77, 0, 65, 61, 49, 50, 51, 52, 53, 54, 55, 56, 57, 48, 0], true)] } }

def legacy_cap_statement : Prop :=
  ∀ cap total s, 0 < cap → (Legacy.adSecret cap total s).2.m.held ≤ max s.m.held (max cap 8)

/-- **cap honoured failed (defect 3)**: the secret after a marker was read with no budget. -/
theorem legacy_cap_fails : ¬ legacy_cap_statement := by
  intro h
  have h0 : (getString markerMsg).2.m.held = 3 := by decide
  have h1 : (Legacy.adSecret 4 4 (getString markerMsg).2).2.m.held = 12 := by decide
  have := h 4 4 (getString markerMsg).2 (by decide)
  rw [h0, h1] at this
  omega

/-- now the same secret is refused once the budget is used up -/
example : isErr .sizeExceeded (adSecret 4 4 (getString markerMsg).2).1 = true := by decide

/-- non-vacuity: a 3-byte file in two chunks is received (size, "ab", "c", 666), 3 bytes written;
    a header announcing 2^20+1 bytes is refused with nothing allocated -/
def fileWire : Bytes := [1,0,0,0,8, 0,0,0,0,0,0,0,3, 1,0,0,0,2, 97,98, 1,0,0,0,1, 99, 1,0,0,0,4, 0,0,2,154]
example : (match (getFile false fileWire {}).1 with | .ok (3, []) => true | _ => false) = true ∧
    (getFile false fileWire {}).2.alloc = 15 := by decide
example : isErr .tooLarge (getSecretW false false [1, 0, 16, 0, 1] {}).1 = true ∧
    (getSecretW false false [1, 0, 16, 0, 1] {}).2.alloc = 0 := by decide

/-! Non-vacuity: a valid ad with a secret, read by every receiver in both modes. -/
def demoPlain : St := { d := { src := [(be64 2 ++ [65, 61, 49, 0, 90, 75, 77, 0, 66, 61, 50, 0, 77, 0, 0], true)] } }
example : isErr .panic (getClassAd 0 none demoPlain).1 = false ∧ (getClassAd 0 none demoPlain).1.isOk = true := by decide
example : (getClassAd 64 none demoPlain).1.isOk = true ∧ (skipClassAdRaw demoPlain).1.isOk = true := by decide
example : (getClassAd 7 none demoPlain).1.isOk = false := by decide
example : (getClassAdRaw demoPlain).1.isOk = true := by decide
/-- the skipping reader takes the marker path and ends where the parsing reader ends -/
example : (skipClassAdRaw demoPlain).2.m.calls = (getClassAd 0 none demoPlain).2.m.calls ∧
    (skipClassAdRaw demoPlain).2.bytes = 0 := by decide

end Cedar.C13
