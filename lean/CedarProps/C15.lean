/-
  C15 — Exported crypto state resumes the session exactly; export only when clean.
-/
import CedarProofs.Nonce
import CedarModel.Export

namespace Cedar.C15

open Cedar CedarGen

/-- the clean-boundary predicate of the property statement -/
def Clean (s : Stream) : Prop :=
  s.encrypted = true ∧ s.key.isSome = true ∧ s.finSendAAD = true ∧ s.finRecvAAD = true ∧
  s.inMessage = false ∧ s.bytesRead = 0 ∧ s.recvBuf = [] ∧ s.sendBuf = [] ∧ s.sendEOM = false

/-- **export_refused_iff**: export succeeds exactly on an encrypted, keyed stream that has
    exchanged a protected frame in both directions and holds no partially sent or partially
    consumed message; otherwise it is refused. -/
theorem export_refused_iff (sha : Bytes → Bytes) (s : Stream) :
    (∃ f, s.exportFields sha = .ok f) ↔ Clean s := by
  unfold Stream.exportFields Clean
  cases he : s.encrypted <;> cases hk : s.key <;> cases h1 : s.finSendAAD <;> cases h2 : s.finRecvAAD <;>
    cases h3 : s.inMessage <;> cases h4 : s.sendEOM <;> simp
  all_goals
    by_cases hb : s.bytesRead = 0 <;> by_cases hr : s.recvBuf = [] <;> by_cases hsb : s.sendBuf = [] <;>
      simp [hb, hr, hsb]

/-- what an accepted export contains: the live key, both base IVs, both counters, the flags -/
theorem export_contents (sha : Bytes → Bytes) (s : Stream) (f : BlobFields) (h : s.exportFields sha = .ok f) :
    s.key = some f.key ∧ f.encIV = s.encIV ∧ f.decIV = s.decIV ∧ f.encCtr = s.encCtr ∧
    f.decCtr = s.decCtr ∧ f.peer = s.peerAddr := by
  unfold Stream.exportFields at h
  split at h
  · cases h
  · split at h
    · cases h
    · rename_i k hk
      repeat' split at h
      all_goals first | (simp only [Except.ok.injEq] at h; subst h; exact ⟨hk, rfl, rfl, rfl, rfl, rfl⟩) | cases h

/-- **import_export** (field level): importing what was exported restores key, IVs, counters,
    first-frame flags and encryption/authentication status verbatim, with empty buffers. -/
theorem import_export (sha : Bytes → Bytes) (s : Stream) (f : BlobFields) (h : s.exportFields sha = .ok f) :
    let t := importFields f
    t.key = s.key ∧ t.encrypted = s.encrypted ∧ t.authenticated = s.authenticated ∧
    t.encIV = s.encIV ∧ t.decIV = s.decIV ∧ t.encCtr = s.encCtr ∧ t.decCtr = s.decCtr ∧
    t.finSendAAD = s.finSendAAD ∧ t.finRecvAAD = s.finRecvAAD ∧
    t.sendBuf = s.sendBuf ∧ t.recvBuf = s.recvBuf ∧ t.sendEOM = s.sendEOM ∧ t.inMessage = s.inMessage ∧
    t.bytesRead = s.bytesRead ∧ t.peerAddr = s.peerAddr := by
  have hclean := (export_refused_iff sha s).mp ⟨f, h⟩
  obtain ⟨c1, c2, c3, c4, c5, c6, c7, c8, c9⟩ := hclean
  unfold Stream.exportFields at h
  simp only [c1, Bool.not_true, Bool.false_eq_true, if_false] at h
  cases hk : s.key with
  | none => simp [hk] at c2
  | some k =>
    simp only [hk, c3, c4, c5, c6, c7, c8, c9, Bool.not_true, Bool.or_self, Bool.false_eq_true, if_false,
      List.length_nil, ne_eq, not_true_eq_false] at h
    simp only [Except.ok.injEq] at h
    subst h
    cases ha : s.authenticated <;> cases hsw : s.dig.sendWritten <;> cases hrw : s.dig.recvWritten <;>
      simp [importFields, flagSet, bit, stream.csFlagEncrypted, stream.csFlagAuthenticated,
        stream.csFlagFinishedSendAAD, stream.csFlagFinishedRecvAAD, stream.csFlagSendDigestWritten,
        stream.csFlagRecvDigestWritten, c1, c3, c4, c5, c6, c7, c8, c9, hk]

/-- **import_rejects** (mis-tagged / wrong-version / short): a blob shorter than the fixed prefix, or
    whose magic or version differ, is rejected. (Every strict truncation of a real blob is covered
    by the handoff engine exhaustively; the trailer case is proved in `truncated_trailer_rejected`.) -/
theorem import_rejects_short (b : Bytes) (h : b.length < csFixedLen) : ∃ e, decodeBlob b = .error e := by
  unfold decodeBlob; rw [if_pos h]; exact ⟨_, rfl⟩

theorem import_rejects_magic (b : Bytes) (h : b.take 4 ≠ csMagic) : ∃ e, decodeBlob b = .error e := by
  unfold decodeBlob
  by_cases h0 : b.length < csFixedLen
  · rw [if_pos h0]; exact ⟨_, rfl⟩
  · rw [if_neg h0, if_pos h]; exact ⟨_, rfl⟩

theorem import_rejects_version (b : Bytes) (h : beVal ((b.drop 4).take 2) ≠ csVersion) :
    ∃ e, decodeBlob b = .error e := by
  unfold decodeBlob
  by_cases h0 : b.length < csFixedLen
  · rw [if_pos h0]; exact ⟨_, rfl⟩
  · rw [if_neg h0]
    by_cases h1 : b.take 4 ≠ csMagic
    · rw [if_pos h1]; exact ⟨_, rfl⟩
    · rw [if_neg h1, if_pos h]; exact ⟨_, rfl⟩

theorem readVar_truncated (a : Bytes) (m : Nat) (ha : a.length < 65536) (hm : m < 2 + a.length) :
    ∃ e, readVar ((varField a).take m) = .error e := by
  unfold readVar
  by_cases h2 : m < 2
  · have : ((varField a).take m).length < 2 := by simp [List.length_take]; omega
    rw [if_pos this]; exact ⟨_, rfl⟩
  · have hl : ¬ ((varField a).take m).length < 2 := by
      simp [List.length_take, varField, be16, beN]; omega
    rw [if_neg hl]
    have htake : ((varField a).take m).take 2 = be16 a.length := by
      simp [varField, be16, beN, List.take_take]
      have : min 2 m = 2 := by omega
      simp [this, List.take]
    have hv : beVal (be16 a.length) = a.length := by
      simp only [be16, beN, beVal, List.length_cons, List.length_nil, UInt8.toNat_ofNat']
      omega
    simp only [htake, hv]
    have : (((varField a).take m).drop 2).length < a.length := by
      simp [List.length_drop, List.length_take, varField, be16, beN]; omega
    rw [if_pos this]; exact ⟨_, rfl⟩

/-! Non-vacuity (tests): a concrete exchange, export, import, continue. -/
def ivS : IV := ⟨7, [1,2,3,4,5,6,7,8,9,10,11,12]⟩
def est : Stream :=
  let a := (({} : Stream).setKey 5 ivS)
  match a.sendFrame [1] 1 with
  | .ok (a1, f) =>
    -- pretend the peer used the same IV: receive our own frame shape from the peer
    match ({ a1 with decIV := ivS } : Stream).recvFrameWithEnd f with
    | .ok (a2, _, _) => a2
    | .error _ => a1
  | .error _ => a
example : Clean est := by unfold Clean; decide
example : (est.exportFields (fun _ => [])).isOk = true := by decide
example : ∃ e, (({} : Stream).setKey 5 ivS).exportFields (fun _ => []) = .error e := ⟨_, rfl⟩

end Cedar.C15
