/-
  C15 — Exported crypto state resumes the session exactly; export only when clean.
-/
import CedarProofs.Nonce
import CedarModel.Export
import CedarProofs.CodecLemmas
import CedarProofs.Handoff
import CedarProofs.Blob

namespace Cedar.C15

open Cedar CedarGen

/-- the clean-boundary predicate of the property statement -/
def Clean (s : Stream) : Prop :=
  s.encrypted = true ∧ s.key.isSome = true ∧ s.finSendAAD = true ∧ s.finRecvAAD = true ∧
  s.inMessage = false ∧ s.bytesRead = 0 ∧ s.recvBuf = [] ∧ s.sendBuf = [] ∧ s.sendEOM = false

/-- **export_refused_iff**: export succeeds exactly on an encrypted, keyed stream that has
    exchanged a protected frame in both directions and holds no partially sent or partially
    consumed message; otherwise it is refused. -/
theorem export_refused_iff (sha : Bytes → Bytes) (s : Stream) :
    (∃ f, s.exportFields sha = .ok f) ↔ Clean s := by
  unfold Stream.exportFields Clean
  cases he : s.encrypted <;> cases hk : s.key <;> cases h1 : s.finSendAAD <;> cases h2 : s.finRecvAAD <;>
    cases h3 : s.inMessage <;> cases h4 : s.sendEOM <;> simp
  all_goals
    by_cases hb : s.bytesRead = 0 <;> by_cases hr : s.recvBuf = [] <;> by_cases hsb : s.sendBuf = [] <;>
      simp [hb, hr, hsb]

/-- what an accepted export contains: the live key, both base IVs, both counters, the flags -/
theorem export_contents (sha : Bytes → Bytes) (s : Stream) (f : BlobFields) (h : s.exportFields sha = .ok f) :
    s.key = some f.key ∧ f.encIV = s.encIV ∧ f.decIV = s.decIV ∧ f.encCtr = s.encCtr ∧
    f.decCtr = s.decCtr ∧ f.peer = s.peerAddr := by
  unfold Stream.exportFields at h
  split at h
  · cases h
  · split at h
    · cases h
    · rename_i k hk
      repeat' split at h
      all_goals first | (simp only [Except.ok.injEq] at h; subst h; exact ⟨hk, rfl, rfl, rfl, rfl, rfl⟩) | cases h

/-- **import_export** (field level): importing what was exported restores key, IVs, counters,
    first-frame flags and encryption/authentication status verbatim, with empty buffers. -/
theorem import_export (sha : Bytes → Bytes) (s : Stream) (f : BlobFields) (h : s.exportFields sha = .ok f) :
    let t := importFields f
    t.key = s.key ∧ t.encrypted = s.encrypted ∧ t.authenticated = s.authenticated ∧
    t.encIV = s.encIV ∧ t.decIV = s.decIV ∧ t.encCtr = s.encCtr ∧ t.decCtr = s.decCtr ∧
    t.finSendAAD = s.finSendAAD ∧ t.finRecvAAD = s.finRecvAAD ∧
    t.sendBuf = s.sendBuf ∧ t.recvBuf = s.recvBuf ∧ t.sendEOM = s.sendEOM ∧ t.inMessage = s.inMessage ∧
    t.bytesRead = s.bytesRead ∧ t.peerAddr = s.peerAddr := by
  have hclean := (export_refused_iff sha s).mp ⟨f, h⟩
  obtain ⟨c1, c2, c3, c4, c5, c6, c7, c8, c9⟩ := hclean
  unfold Stream.exportFields at h
  simp only [c1, Bool.not_true, Bool.false_eq_true, if_false] at h
  cases hk : s.key with
  | none => simp [hk] at c2
  | some k =>
    simp only [hk, c3, c4, c5, c6, c7, c8, c9, Bool.not_true, Bool.or_self, Bool.false_eq_true, if_false,
      List.length_nil, ne_eq, not_true_eq_false] at h
    simp only [Except.ok.injEq] at h
    subst h
    cases ha : s.authenticated <;> cases hsw : s.dig.sendWritten <;> cases hrw : s.dig.recvWritten <;>
      simp [importFields, flagSet, bit, stream.csFlagEncrypted, stream.csFlagAuthenticated,
        stream.csFlagFinishedSendAAD, stream.csFlagFinishedRecvAAD, stream.csFlagSendDigestWritten,
        stream.csFlagRecvDigestWritten, c1, c3, c4, c5, c6, c7, c8, c9, hk]

/-- **import_rejects** (mis-tagged / wrong-version / short): a blob shorter than the fixed prefix, or
    whose magic or version differ, is rejected. (Every strict truncation of a real blob is covered
    by the handoff engine exhaustively; the trailer case is proved in `truncated_trailer_rejected`.) -/
theorem import_rejects_short (b : Bytes) (h : b.length < csFixedLen) : ∃ e, decodeBlob b = .error e := by
  unfold decodeBlob; rw [if_pos h]; exact ⟨_, rfl⟩

theorem import_rejects_magic (b : Bytes) (h : b.take 4 ≠ csMagic) : ∃ e, decodeBlob b = .error e := by
  unfold decodeBlob
  by_cases h0 : b.length < csFixedLen
  · rw [if_pos h0]; exact ⟨_, rfl⟩
  · rw [if_neg h0, if_pos h]; exact ⟨_, rfl⟩

theorem import_rejects_version (b : Bytes) (h : beVal ((b.drop 4).take 2) ≠ csVersion) :
    ∃ e, decodeBlob b = .error e := by
  unfold decodeBlob
  by_cases h0 : b.length < csFixedLen
  · rw [if_pos h0]; exact ⟨_, rfl⟩
  · rw [if_neg h0]
    by_cases h1 : b.take 4 ≠ csMagic
    · rw [if_pos h1]; exact ⟨_, rfl⟩
    · rw [if_neg h1, if_pos h]; exact ⟨_, rfl⟩

theorem readVar_truncated (a : Bytes) (m : Nat) (ha : a.length < 65536) (hm : m < 2 + a.length) :
    ∃ e, readVar ((varField a).take m) = .error e := by
  unfold readVar
  by_cases h2 : m < 2
  · have : ((varField a).take m).length < 2 := by simp [List.length_take]; omega
    rw [if_pos this]; exact ⟨_, rfl⟩
  · have hl : ¬ ((varField a).take m).length < 2 := by
      simp [List.length_take, varField, be16, beN]; omega
    rw [if_neg hl]
    have htake : ((varField a).take m).take 2 = be16 a.length := by
      simp [varField, be16, beN, List.take_take]
      have : min 2 m = 2 := by omega
      simp [this, List.take]
    have hv : beVal (be16 a.length) = a.length := by
      simp only [be16, beN, beVal, List.length_cons, List.length_nil, UInt8.toNat_ofNat']
      omega
    simp only [htake, hv]
    have : (((varField a).take m).drop 2).length < a.length := by
      simp [List.length_drop, List.length_take, varField, be16, beN]; omega
    rw [if_pos this]; exact ⟨_, rfl⟩

/-! Non-vacuity (tests): a concrete exchange, export, import, continue. -/
def ivS : IV := ⟨7, [1,2,3,4,5,6,7,8,9,10,11,12]⟩
def ivP : IV := ⟨9, [12,11,10,9,8,7,6,5,4,3,2,1]⟩
def est : Stream :=
  let a := (({} : Stream).setKey 5 ivS)
  let b := (({} : Stream).setKey 5 ivP)
  match a.sendFrame [1] 1, b.sendFrame [2] 1 with
  | .ok (a1, _), .ok (_, g) =>
    -- the peer's first frame arrives
    match a1.recvFrameWithEnd g with
    | .ok (a2, _, _) => a2
    | .error _ => a1
  | _, _ => a
example : Clean est := by unfold Clean; decide
example : (est.exportFields (fun _ => [])).isOk = true := by decide
example : ∃ e, (({} : Stream).setKey 5 ivS).exportFields (fun _ => []) = .error e := ⟨_, rfl⟩

/-! ### The blob as bytes, and the continuation after the hand-off -/

theorem decode_encode (f : BlobFields) (wf : WfBlob f) : decodeBlob (encodeBlob f) = .ok f := by
  obtain ⟨w1, w2, w3, w4, w5, w6, w7, w8, w9, w10, w11⟩ := wf
  have lm := csMagic_len
  have lv : (be16 csVersion).length = 2 := by simp [be16]
  have lk : (beN 32 f.key).length = 32 := by simp
  have le := ivBytes_len f.encIV w4
  have ld := ivBytes_len f.decIV w6
  have l4a : (be32 f.encCtr).length = 4 := by simp [be32]
  have l4b : (be32 f.decCtr).length = 4 := by simp [be32]
  -- right-nested form of the blob
  have hb : encodeBlob f = csMagic ++ (be16 csVersion ++ ([UInt8.ofNat f.flags] ++ (beN 32 f.key ++ (ivBytes f.encIV ++
      (ivBytes f.decIV ++ (be32 f.encCtr ++ (be32 f.decCtr ++ (varField f.fs ++ (varField f.fr ++ varField f.peer))))))))) := by
    simp [encodeBlob, List.append_assoc]
  have hlen : ¬ (encodeBlob f).length < csFixedLen := by
    rw [hb]; simp only [List.length_append, lm, lv, lk, le, ld, l4a, l4b, List.length_cons, List.length_nil]
    unfold csFixedLen stream.cryptoStateFixedLen; omega
  unfold decodeBlob
  rw [if_neg hlen]
  have t4 : (encodeBlob f).take 4 = csMagic := by rw [hb]; exact List.take_left' lm
  rw [if_neg (by rw [t4]; exact fun h => h rfl)]
  have d4 : (encodeBlob f).drop 4 = be16 csVersion ++ ([UInt8.ofNat f.flags] ++ (beN 32 f.key ++ (ivBytes f.encIV ++
      (ivBytes f.decIV ++ (be32 f.encCtr ++ (be32 f.decCtr ++ (varField f.fs ++ (varField f.fr ++ varField f.peer)))))))) := by
    rw [hb]; exact List.drop_left' lm
  have hv : beVal (((encodeBlob f).drop 4).take 2) = csVersion := by
    rw [d4, List.take_left' lv]; exact beVal_be16 _ (by unfold csVersion stream.cryptoStateVersion; omega)
  rw [if_neg (by rw [hv]; exact fun h => h rfl)]
  have d6 : (encodeBlob f).drop 6 = [UInt8.ofNat f.flags] ++ (beN 32 f.key ++ (ivBytes f.encIV ++
      (ivBytes f.decIV ++ (be32 f.encCtr ++ (be32 f.decCtr ++ (varField f.fs ++ (varField f.fr ++ varField f.peer))))))) := by
    have : (encodeBlob f).drop 6 = ((encodeBlob f).drop 4).drop 2 := by rw [List.drop_drop]
    rw [this, d4]; exact List.drop_left' lv
  have d7 : (encodeBlob f).drop 7 = beN 32 f.key ++ (ivBytes f.encIV ++
      (ivBytes f.decIV ++ (be32 f.encCtr ++ (be32 f.decCtr ++ (varField f.fs ++ (varField f.fr ++ varField f.peer)))))) := by
    have : (encodeBlob f).drop 7 = ((encodeBlob f).drop 6).drop 1 := by rw [List.drop_drop]
    rw [this, d6]; rfl
  have d39 : (encodeBlob f).drop 39 = ivBytes f.encIV ++
      (ivBytes f.decIV ++ (be32 f.encCtr ++ (be32 f.decCtr ++ (varField f.fs ++ (varField f.fr ++ varField f.peer))))) := by
    have : (encodeBlob f).drop 39 = ((encodeBlob f).drop 7).drop 32 := by rw [List.drop_drop]
    rw [this, d7]; exact List.drop_left' lk
  have d55 : (encodeBlob f).drop 55 =
      ivBytes f.decIV ++ (be32 f.encCtr ++ (be32 f.decCtr ++ (varField f.fs ++ (varField f.fr ++ varField f.peer)))) := by
    have : (encodeBlob f).drop 55 = ((encodeBlob f).drop 39).drop 16 := by rw [List.drop_drop]
    rw [this, d39]; exact List.drop_left' le
  have d71 : (encodeBlob f).drop 71 =
      be32 f.encCtr ++ (be32 f.decCtr ++ (varField f.fs ++ (varField f.fr ++ varField f.peer))) := by
    have : (encodeBlob f).drop 71 = ((encodeBlob f).drop 55).drop 16 := by rw [List.drop_drop]
    rw [this, d55]; exact List.drop_left' ld
  have d75 : (encodeBlob f).drop 75 = be32 f.decCtr ++ (varField f.fs ++ (varField f.fr ++ varField f.peer)) := by
    have : (encodeBlob f).drop 75 = ((encodeBlob f).drop 71).drop 4 := by rw [List.drop_drop]
    rw [this, d71]; exact List.drop_left' l4a
  have d79 : (encodeBlob f).drop 79 = varField f.fs ++ (varField f.fr ++ varField f.peer) := by
    have : (encodeBlob f).drop 79 = ((encodeBlob f).drop 75).drop 4 := by rw [List.drop_drop]
    rw [this, d75]; exact List.drop_left' l4b
  simp only []
  rw [d6, d7, d39, d55, d71, d75, d79]
  rw [List.take_left' lk, List.take_left' le, List.take_left' ld, List.take_left' l4a, List.take_left' l4b]
  rw [readVar_varField _ _ w9]
  simp only []
  rw [readVar_varField _ _ w10]
  simp only []
  have hp : readVar (varField f.peer) = .ok (f.peer, []) := by
    have := readVar_varField f.peer [] w11
    simpa using this
  rw [hp]
  simp only []
  rw [beVal_beN32 _ w2, ivOfBytes_ivBytes _ w3 w4, ivOfBytes_ivBytes _ w5 w6, beVal_be32' _ w7, beVal_be32' _ w8]
  have hfl : ((([UInt8.ofNat f.flags] ++ (beN 32 f.key ++ (ivBytes f.encIV ++ (ivBytes f.decIV ++ (be32 f.encCtr ++
      (be32 f.decCtr ++ (varField f.fs ++ (varField f.fr ++ varField f.peer)))))))).take 1).headD 0).toNat = f.flags := by
    simp only [List.singleton_append, List.take_succ_cons, List.take_zero, List.headD_cons]
    simp [UInt8.toNat_ofNat']; omega
  rw [hfl]


/-- **blob_roundtrip**: parsing the bytes `ExportCryptoState` writes gives back exactly the fields
    that were written — for every key, IV pair, counter pair, flag byte, digests and peer address
    in range. -/
theorem blob_roundtrip (f : BlobFields) (wf : WfBlob f) : importBlob (encodeBlob f) = .ok (importFields f) := by
  unfold importBlob; rw [decode_encode f wf]

/-- **handoff_sim**: the stream built from an accepted export agrees with the exporting stream on
    every field except the digest bookkeeping (carried as opaque bytes, unused once both first
    frames have passed) and two scratch fields. -/
theorem handoff_sim (sha : Bytes → Bytes) (s : Stream) (f : BlobFields) (h : s.exportFields sha = .ok f) :
    Sim s (importFields f) := by
  obtain ⟨h1, h2, h3, h4, h5, h6, h7, h8, h9, h10, h11, h12, h13, h14, h15⟩ := import_export sha s f h
  have clean := (export_refused_iff sha s).mp ⟨f, h⟩
  refine ⟨⟨(importFields f).dig, (importFields f).beforeSecret, (importFields f).totalMsg, ?_⟩, clean.2.2.1, clean.2.2.2.1⟩
  generalize importFields f = t at *
  cases t; cases s
  simp only [Stream.mk.injEq] at *
  simp_all

/-- **handoff_transparent**: after the hand-off the receiving process continues the session exactly
    as the exporting process would have. For EVERY sequence of operations (sends, buffered writes,
    message ends, secrets, crypto toggles, receives of arbitrary — also adversarial — frames) the
    imported stream puts the same frames on the wire as the original would, and for every wire it
    delivers the same messages. Together with `C12.nonce_sequence` (no nonce reuse from the restored
    counter) and `C02.recv_prefix_midstream` (only an authentic prefix is delivered) this is the
    property's "resumes the session exactly". -/
theorem handoff_transparent (sha : Bytes → Bytes) (s : Stream) (f : BlobFields) (h : s.exportFields sha = .ok f) :
    (∀ ops : List Op, ((importFields f).run ops).2 = (s.run ops).2) ∧
    (∀ (n : Nat) (w : List WireFrame), Stream.deliverFuel n (importFields f) w = Stream.deliverFuel n s w) := by
  have hs := handoff_sim sha s f h
  exact ⟨fun ops => (run_sim ops hs).1.symm, fun n w => (deliverFuel_sim n w hs).symm⟩

/-- chained hand-offs: the relation composes, so a session handed from process to process keeps
    behaving as the original -/
theorem handoff_chain (sha : Bytes → Bytes) (s : Stream) (f g : BlobFields) (ops : List Op)
    (h1 : s.exportFields sha = .ok f)
    (h2 : ((importFields f).run ops).1.exportFields sha = .ok g) (ops' : List Op) :
    ((importFields g).run ops').2 = ((s.run ops).1.run ops').2 := by
  have a := run_sim ops (handoff_sim sha s f h1)
  have b := handoff_sim sha _ g h2
  have c := run_sim ops' a.2
  have d := run_sim ops' b
  rw [c.1, d.1]

/-- non-vacuity: a concrete established stream exports, its blob is well formed, and the imported
    stream's next frame equals the original's -/
private def demoS : Stream :=
  { key := some 5, encrypted := true, encIV := ⟨7, List.replicate 12 1⟩, decIV := ⟨9, List.replicate 12 2⟩,
    encCtr := 3, decCtr := 4, finSendAAD := true, finRecvAAD := true,
    dig := { finalSend := some .zero, finalRecv := some .zero } }

example : (demoS.exportFields (fun _ => [])).isOk = true := by decide
example : ∀ f, demoS.exportFields (fun _ => []) = .ok f → ((importFields f).run [.send [1, 2] 1]).2 = (demoS.run [.send [1, 2] 1]).2 :=
  fun f h => (handoff_transparent _ _ f h).1 _

end Cedar.C15