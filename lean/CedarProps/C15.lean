/-
  C15 — Exported crypto state resumes the session exactly; export only when clean.
-/
import CedarProofs.Nonce
import CedarModel.Export
import CedarProofs.CodecLemmas
import CedarProofs.Handoff
import CedarProofs.Blob

namespace Cedar.C15

open Cedar CedarGen

/-- the clean-boundary predicate of the property statement -/
def Clean (s : Stream) : Prop :=
  s.encrypted = true ∧ s.key.isSome = true ∧ s.finSendAAD = true ∧ s.finRecvAAD = true ∧
  s.inMessage = false ∧ s.bytesRead = 0 ∧ s.recvBuf = [] ∧ s.sendBuf = [] ∧ s.sendEOM = false

/-- **export_refused_iff**: export succeeds exactly on an encrypted, keyed stream that has
    exchanged a protected frame in both directions and holds no partially sent or partially
    consumed message; otherwise it is refused. -/
theorem export_refused_iff (sha : Bytes → Bytes) (s : Stream) :
    (∃ f, s.exportFields sha = .ok f) ↔ Clean s := by
  unfold Stream.exportFields Clean
  cases he : s.encrypted <;> cases hk : s.key <;> cases h1 : s.finSendAAD <;> cases h2 : s.finRecvAAD <;>
    cases h3 : s.inMessage <;> cases h4 : s.sendEOM <;> simp
  all_goals
    by_cases hb : s.bytesRead = 0 <;> by_cases hr : s.recvBuf = [] <;> by_cases hsb : s.sendBuf = [] <;>
      simp [hb, hr, hsb]

/-- what an accepted export contains: the live key, both base IVs, both counters, the flags -/
theorem export_contents (sha : Bytes → Bytes) (s : Stream) (f : BlobFields) (h : s.exportFields sha = .ok f) :
    s.key = some f.key ∧ f.encIV = s.encIV ∧ f.decIV = s.decIV ∧ f.encCtr = s.encCtr ∧
    f.decCtr = s.decCtr ∧ f.peer = s.peerAddr := by
  unfold Stream.exportFields at h
  split at h
  · cases h
  · split at h
    · cases h
    · rename_i k hk
      repeat' split at h
      all_goals first | (simp only [Except.ok.injEq] at h; subst h; exact ⟨hk, rfl, rfl, rfl, rfl, rfl⟩) | cases h

/-- **import_export** (field level): importing what was exported restores key, IVs, counters,
    first-frame flags and encryption/authentication status verbatim, with empty buffers. -/
theorem import_export (sha : Bytes → Bytes) (s : Stream) (f : BlobFields) (h : s.exportFields sha = .ok f) :
    let t := importFields f
    t.key = s.key ∧ t.encrypted = s.encrypted ∧ t.authenticated = s.authenticated ∧
    t.encIV = s.encIV ∧ t.decIV = s.decIV ∧ t.encCtr = s.encCtr ∧ t.decCtr = s.decCtr ∧
    t.finSendAAD = s.finSendAAD ∧ t.finRecvAAD = s.finRecvAAD ∧
    t.sendBuf = s.sendBuf ∧ t.recvBuf = s.recvBuf ∧ t.sendEOM = s.sendEOM ∧ t.inMessage = s.inMessage ∧
    t.bytesRead = s.bytesRead ∧ t.peerAddr = s.peerAddr := by
  have hclean := (export_refused_iff sha s).mp ⟨f, h⟩
  obtain ⟨c1, c2, c3, c4, c5, c6, c7, c8, c9⟩ := hclean
  unfold Stream.exportFields at h
  simp only [c1, Bool.not_true, Bool.false_eq_true, if_false] at h
  cases hk : s.key with
  | none => simp [hk] at c2
  | some k =>
    simp only [hk, c3, c4, c5, c6, c7, c8, c9, Bool.not_true, Bool.or_self, Bool.false_eq_true, if_false,
      List.length_nil, ne_eq, not_true_eq_false] at h
    simp only [Except.ok.injEq] at h
    subst h
    cases ha : s.authenticated <;> cases hsw : s.dig.sendWritten <;> cases hrw : s.dig.recvWritten <;>
      simp [importFields, flagSet, bit, stream.csFlagEncrypted, stream.csFlagAuthenticated,
        stream.csFlagFinishedSendAAD, stream.csFlagFinishedRecvAAD, stream.csFlagSendDigestWritten,
        stream.csFlagRecvDigestWritten, c1, c3, c4, c5, c6, c7, c8, c9, hk]

/-- **import_identity**: the session's identity survives the hand-off. Whatever connection the
    stream is rebuilt around (`connAddr`: the remote address `NewStream` records for it — typically a
    local unix socket, not the peer), the imported stream reports the exporter's authentication
    status, and the exporter's peer address whenever the exporter had one; only a session that never
    knew its peer takes the new connection's address. Everything else is as in `import_export`. -/
theorem import_identity (sha : Bytes → Bytes) (s : Stream) (f : BlobFields) (connAddr : Bytes)
    (h : s.exportFields sha = .ok f) :
    let t := importFieldsAround connAddr f
    t.authenticated = s.authenticated ∧
    (s.peerAddr ≠ [] → t.peerAddr = s.peerAddr) ∧ (s.peerAddr = [] → t.peerAddr = connAddr) ∧
    t.key = s.key ∧ t.encrypted = s.encrypted ∧ t.encIV = s.encIV ∧ t.decIV = s.decIV ∧
    t.encCtr = s.encCtr ∧ t.decCtr = s.decCtr := by
  obtain ⟨h1, h2, h3, h4, h5, h6, h7, _, _, _, _, _, _, _, h15⟩ := import_export sha s f h
  have hp : f.peer = s.peerAddr := (export_contents sha s f h).2.2.2.2.2
  refine ⟨h3, ?_, ?_, h1, h2, h4, h5, h6, h7⟩
  · intro hne
    have : f.peer.length > 0 := by
      rw [hp]; cases hs : s.peerAddr with
      | nil => exact absurd hs hne
      | cons a t => simp
    show (if f.peer.length > 0 then f.peer else connAddr) = s.peerAddr
    rw [if_pos this, hp]
  · intro he
    show (if f.peer.length > 0 then f.peer else connAddr) = connAddr
    have : ¬ f.peer.length > 0 := by rw [hp, he]; simp
    rw [if_neg this]

/-- with the connection in view the imported stream IS the one `import_export`, `handoff_sim`,
    `handoff_transparent` and `handoff_chain` speak about, whenever the exporter knew its peer -/
theorem import_around_eq (sha : Bytes → Bytes) (s : Stream) (f : BlobFields) (connAddr : Bytes)
    (h : s.exportFields sha = .ok f) (hne : s.peerAddr ≠ []) :
    importFieldsAround connAddr f = importFields f := by
  have hp : f.peer = s.peerAddr := (export_contents sha s f h).2.2.2.2.2
  have : f.peer.length > 0 := by
    rw [hp]; cases hs : s.peerAddr with
    | nil => exact absurd hs hne
    | cons a t => simp
  simp [importFieldsAround, this, importFields]

/-- **import_rejects** (mis-tagged / wrong-version / short): a blob shorter than the fixed prefix, or
    whose magic or version differ, is rejected. (Every strict truncation of a real blob is covered
    by the handoff engine exhaustively; the trailer case is proved in `truncated_trailer_rejected`.) -/
theorem import_rejects_short (b : Bytes) (h : b.length < csFixedLen) : ∃ e, decodeBlob b = .error e := by
  unfold decodeBlob; rw [if_pos h]; exact ⟨_, rfl⟩

theorem import_rejects_magic (b : Bytes) (h : b.take 4 ≠ csMagic) : ∃ e, decodeBlob b = .error e := by
  unfold decodeBlob
  by_cases h0 : b.length < csFixedLen
  · rw [if_pos h0]; exact ⟨_, rfl⟩
  · rw [if_neg h0, if_pos h]; exact ⟨_, rfl⟩

theorem import_rejects_version (b : Bytes) (h : beVal ((b.drop 4).take 2) ≠ csVersion) :
    ∃ e, decodeBlob b = .error e := by
  unfold decodeBlob
  by_cases h0 : b.length < csFixedLen
  · rw [if_pos h0]; exact ⟨_, rfl⟩
  · rw [if_neg h0]
    by_cases h1 : b.take 4 ≠ csMagic
    · rw [if_pos h1]; exact ⟨_, rfl⟩
    · rw [if_neg h1, if_pos h]; exact ⟨_, rfl⟩

/-! Non-vacuity (tests): a concrete exchange, export, import, continue. -/
def ivS : IV := ⟨7, [1,2,3,4,5,6,7,8,9,10,11,12]⟩
def ivP : IV := ⟨9, [12,11,10,9,8,7,6,5,4,3,2,1]⟩
def est : Stream :=
  let a := (({} : Stream).setKey 5 ivS)
  let b := (({} : Stream).setKey 5 ivP)
  match a.sendFrame [1] 1, b.sendFrame [2] 1 with
  | .ok (a1, _), .ok (_, g) =>
    -- the peer's first frame arrives
    match a1.recvFrameWithEnd g with
    | .ok (a2, _, _) => a2
    | .error _ => a1
  | _, _ => a
example : Clean est := by unfold Clean; decide
example : (est.exportFields (fun _ => [])).isOk = true := by decide
example : ∃ e, (({} : Stream).setKey 5 ivS).exportFields (fun _ => []) = .error e := ⟨_, rfl⟩

/-! ### The blob as bytes, and the continuation after the hand-off -/

theorem decode_encode (f : BlobFields) (wf : WfBlob f) : decodeBlob (encodeBlob f) = .ok f := by
  rw [encodeBlob_split, decode_fixed f wf, decodeTrailer_trailer f wf]

/-- **import_rejects_truncated**: EVERY strict prefix of a well-formed blob is rejected — a
    truncated hand-off is never mistaken for a complete one. -/
theorem import_rejects_truncated (f : BlobFields) (wf : WfBlob f) (n : Nat) (hn : n < (encodeBlob f).length) :
    ∃ e, importBlob ((encodeBlob f).take n) = .error e := by
  have hfl := fixedPart_len f wf
  unfold importBlob
  by_cases h79 : n < 79
  · have : ((encodeBlob f).take n).length < csFixedLen := by
      rw [List.length_take]; unfold csFixedLen stream.cryptoStateFixedLen; omega
    obtain ⟨e, he⟩ := import_rejects_short _ this
    rw [he]; exact ⟨e, rfl⟩
  · rw [encodeBlob_split] at hn ⊢
    obtain ⟨m, rfl⟩ : ∃ m, n = (fixedPart f).length + m := ⟨n - 79, by omega⟩
    rw [List.take_length_add_append, decode_fixed f wf]
    have hm : m < (trailer f).length := by simp only [List.length_append] at hn; omega
    obtain ⟨e, he⟩ := decodeTrailer_truncated f.fs f.fr f.peer wf.fs wf.fr wf.peer m hm
    unfold trailer
    rw [he]; exact ⟨e, rfl⟩

/-- **blob_roundtrip**: parsing the bytes `ExportCryptoState` writes gives back exactly the fields
    that were written — for every key, IV pair, counter pair, flag byte, digests and peer address
    in range. -/
theorem blob_roundtrip (f : BlobFields) (wf : WfBlob f) : importBlob (encodeBlob f) = .ok (importFields f) := by
  unfold importBlob; rw [decode_encode f wf]

/-- **handoff_sim**: the stream built from an accepted export agrees with the exporting stream on
    every field except the digest bookkeeping (carried as opaque bytes, unused once both first
    frames have passed) and two scratch fields. -/
theorem handoff_sim (sha : Bytes → Bytes) (s : Stream) (f : BlobFields) (h : s.exportFields sha = .ok f) :
    Sim s (importFields f) := by
  obtain ⟨h1, h2, h3, h4, h5, h6, h7, h8, h9, h10, h11, h12, h13, h14, h15⟩ := import_export sha s f h
  have clean := (export_refused_iff sha s).mp ⟨f, h⟩
  refine ⟨⟨(importFields f).dig, (importFields f).beforeSecret, (importFields f).totalMsg, ?_⟩, clean.2.2.1, clean.2.2.2.1⟩
  generalize importFields f = t at *
  cases t; cases s
  simp only [Stream.mk.injEq] at *
  simp_all

/-- **handoff_transparent**: after the hand-off the receiving process continues the session exactly
    as the exporting process would have. For EVERY sequence of operations (sends, buffered writes,
    message ends, secrets, crypto toggles, receives of arbitrary — also adversarial — frames) the
    imported stream puts the same frames on the wire as the original would, and for every wire it
    delivers the same messages. Together with `C12.nonce_sequence` (no nonce reuse from the restored
    counter) and `C02.recv_prefix_midstream` (only an authentic prefix is delivered) this is the
    property's "resumes the session exactly". -/
theorem handoff_transparent (sha : Bytes → Bytes) (s : Stream) (f : BlobFields) (h : s.exportFields sha = .ok f) :
    (∀ ops : List Op, ((importFields f).run ops).2 = (s.run ops).2) ∧
    (∀ (n : Nat) (w : List WireFrame), Stream.deliverFuel n (importFields f) w = Stream.deliverFuel n s w) := by
  have hs := handoff_sim sha s f h
  exact ⟨fun ops => (run_sim ops hs).1.symm, fun n w => (deliverFuel_sim n w hs).symm⟩

/-- chained hand-offs: the relation composes, so a session handed from process to process keeps
    behaving as the original -/
theorem handoff_chain (sha : Bytes → Bytes) (s : Stream) (f g : BlobFields) (ops : List Op)
    (h1 : s.exportFields sha = .ok f)
    (h2 : ((importFields f).run ops).1.exportFields sha = .ok g) (ops' : List Op) :
    ((importFields g).run ops').2 = ((s.run ops).1.run ops').2 := by
  have a := run_sim ops (handoff_sim sha s f h1)
  have b := handoff_sim sha _ g h2
  have c := run_sim ops' a.2
  have d := run_sim ops' b
  rw [c.1, d.1]

/-- non-vacuity: a concrete established stream exports, its blob is well formed, and the imported
    stream's next frame equals the original's -/
private def demoS : Stream :=
  { key := some 5, encrypted := true, encIV := ⟨7, List.replicate 12 1⟩, decIV := ⟨9, List.replicate 12 2⟩,
    encCtr := 3, decCtr := 4, finSendAAD := true, finRecvAAD := true,
    dig := { finalSend := some .zero, finalRecv := some .zero } }

example : (demoS.exportFields (fun _ => [])).isOk = true := by decide
example : ∀ f, demoS.exportFields (fun _ => []) = .ok f → ((importFields f).run [.send [1, 2] 1]).2 = (demoS.run [.send [1, 2] 1]).2 :=
  fun f h => (handoff_transparent _ _ f h).1 _

end Cedar.C15