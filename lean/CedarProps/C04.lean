/-
  C04 — The cleartext handshake is bound into the secure channel.
  Relative to the symbolic hash (free constructor `Digest.H`, DESIGN §3).
-/
import CedarProofs.Prefix
import CedarProps.C01
import CedarProps.C02
import CedarProofs.FirstFrame

namespace Cedar.C04
open Cedar

/-- **digest_covers_everything (send)**: while the send digest is not frozen, every frame
    `sendMessageWithEnd` emits in the clear is fed to it, header and payload, in order. -/
theorem sent_frames_are_fed (s s' : Stream) (d : Bytes) (fl : Nat) (f : WireFrame)
    (hfin : s.dig.finalSend = none) (hc : s.crypting = false)
    (h : s.sendFrame d fl = .ok (s', f)) :
    s'.dig.sendFed = s.dig.sendFed ++ (hdrBytes fl d.length ++ d) ∧ s'.dig.sendWritten = true ∧
    f = ⟨fl, d.length, .raw d⟩ ∧ s'.dig.finalSend = none ∧ s'.dig.recvFed = s.dig.recvFed := by
  unfold Stream.sendFrame at h
  by_cases h1 : d.length > maxMessageSize
  · rw [if_pos h1] at h; cases h
  · rw [if_neg h1] at h
    have fin : ∀ s1 : Stream, s1 = { s with dig := s.dig.feedSend (hdrBytes fl d.length ++ d) } →
        (Except.ok (s1, (⟨fl, d.length, .raw d⟩ : WireFrame)) : Except Err _) = .ok (s', f) →
        s'.dig.sendFed = s.dig.sendFed ++ (hdrBytes fl d.length ++ d) ∧ s'.dig.sendWritten = true ∧
        f = ⟨fl, d.length, .raw d⟩ ∧ s'.dig.finalSend = none ∧ s'.dig.recvFed = s.dig.recvFed := by
      intro s1 hs1 h
      simp only [Except.ok.injEq, Prod.mk.injEq] at h
      obtain ⟨rfl, rfl⟩ := h
      subst hs1
      simp [Dig.feedSend, hfin]
    unfold Stream.crypting at hc
    rcases Option.eq_none_or_eq_some s.key with hk | ⟨k, hk⟩
    · simp only [hk] at h; exact fin _ (by simp [hk]) h
    · have he : s.encrypted = false := by simpa [hk] using hc
      simp only [hk, he] at h; exact fin _ (by simp [hk, he]) h

/-- **digest_covers_everything (receive)**: while the receive digest is not frozen, every cleartext
    frame `ReceiveFrameWithEnd` accepts — empty ones included — is fed to it, header and payload. -/
theorem received_frames_are_fed (s s' : Stream) (f : WireFrame) (p : Bytes) (fl : Nat)
    (hfin : s.dig.finalRecv = none) (hc : s.crypting = false) (hlen : f.len = f.body.wireLen)
    (h : s.recvFrameWithEnd f = .ok (s', p, fl)) :
    s'.dig.recvFed = s.dig.recvFed ++ (hdrBytes f.flag f.len ++ p) ∧ s'.dig.recvWritten = true ∧
    f.body = .raw p ∧ fl = f.flag ∧ s'.dig.finalRecv = none ∧ s'.dig.sendFed = s.dig.sendFed := by
  unfold Stream.recvFrameWithEnd at h
  cases hch : checkHdr f with
  | error e => simp [hch] at h
  | ok u =>
    simp only [hch] at h
    by_cases h0 : f.len = 0
    · simp only [h0, if_true, hc, Bool.false_eq_true, if_false, Except.ok.injEq, Prod.mk.injEq] at h
      obtain ⟨rfl, rfl, rfl⟩ := h
      have hb : f.body = .raw [] := by
        rw [h0] at hlen
        cases hbody : f.body with
        | raw b => simp [hbody, Body.wireLen] at hlen; rw [List.eq_nil_of_length_eq_zero hlen.symm]
        | ct iv sl => cases iv <;> simp [hbody, Body.wireLen, tagLen, ivLen] at hlen <;> omega
      simp [Stream.feedRecv, Dig.feedRecv, hfin, h0, hb]
    · simp only [h0, if_false] at h
      unfold Stream.crypting at hc
      have plain : ∀ (h : (match f.body with
            | .raw b => (Except.ok (s.feedRecv (hdrBytes f.flag f.len ++ b), b, f.flag) : Except Err _)
            | .ct _ _ => .error .malformed) = .ok (s', p, fl)),
          s'.dig.recvFed = s.dig.recvFed ++ (hdrBytes f.flag f.len ++ p) ∧ s'.dig.recvWritten = true ∧
          f.body = .raw p ∧ fl = f.flag ∧ s'.dig.finalRecv = none ∧ s'.dig.sendFed = s.dig.sendFed := by
        intro h
        cases hbody : f.body with
        | raw b =>
          simp only [hbody, Except.ok.injEq, Prod.mk.injEq] at h
          obtain ⟨rfl, rfl, rfl⟩ := h
          simp [Stream.feedRecv, Dig.feedRecv, hfin]
        | ct iv sl => simp [hbody] at h
      rcases Option.eq_none_or_eq_some s.key with hk | ⟨k, hk⟩
      · simp only [hk] at h; exact plain h
      · have he : s.encrypted = false := by simpa [hk] using hc
        simp only [hk, he] at h; exact plain h

/-- **transcript_binding**: if a receiver accepts, as the first protected frame of a direction, the
    seal a sender produced as ITS first protected frame, then the receiver's (received, sent)
    digests equal the sender's (sent, received) digests. -/
theorem transcript_binding (S S' R R' : Stream) (k : Nat) (d p : Bytes) (fl fl' : Nat) (f g : WireFrame)
    (hSk : S.key = some k) (hSe : S.encrypted = true) (hSc : S.encCtr = 0) (hSf : S.finSendAAD = false)
    (hsend : S.sendFrame d fl = .ok (S', f))
    (hRk : R.key = some k) (hRe : R.encrypted = true) (hRc : R.decCtr = 0) (hRf : R.finRecvAAD = false)
    (hsame : ∃ ivo ivo' sl, f.body = .ct ivo sl ∧ g.body = .ct ivo' sl)   -- the relay may re-head / re-IV it, not re-seal it
    (hrecv : R.recvFrameWithEnd g = .ok (R', p, fl')) :
    R.dig.fr = S.dig.fs ∧ R.dig.fs = S.dig.fr := by
  obtain ⟨ivo, ivo', sl, hfb, hgb⟩ := hsame
  -- the sender's seal carries (S.fs, S.fr)
  have hsl : sl.aad.digests = some (S.dig.fs, S.dig.fr) := by
    unfold Stream.sendFrame at hsend
    by_cases h1 : d.length > maxMessageSize
    · rw [if_pos h1] at hsend; cases hsend
    · rw [if_neg h1] at hsend
      simp only [hSk, hSe] at hsend
      by_cases h2 : d.length + tagLen + (if S.encCtr = 0 then ivLen else 0) > maxMessageSize
      · rw [if_pos h2] at hsend; cases hsend
      · rw [if_neg h2] at hsend
        by_cases h3 : S.encCtr = counterLimit
        · rw [if_pos h3] at hsend; cases hsend
        · rw [if_neg h3] at hsend
          simp only [Except.ok.injEq, Prod.mk.injEq] at hsend
          obtain ⟨_, rfl⟩ := hsend
          simp only [Stream.sealFrame, hSf, Bool.false_eq_true, if_false, Body.ct.injEq] at hfb
          rw [← hfb.2]
  -- the receiver only accepts a seal carrying (R.fr, R.fs)
  have hno := C02_style_open R k g p fl' R' hRk hRe hRc hRf hrecv
  obtain ⟨iv2, sl2, hg2, hd2⟩ := hno
  rw [hgb] at hg2
  simp only [Body.ct.injEq] at hg2
  rw [← hg2.2] at hd2
  rw [hsl] at hd2
  simp only [Option.some.injEq, Prod.mk.injEq] at hd2
  exact ⟨hd2.1.symm, hd2.2.symm⟩
where
  C02_style_open (R : Stream) (k : Nat) (g : WireFrame) (p : Bytes) (fl' : Nat) (R' : Stream)
      (hRk : R.key = some k) (hRe : R.encrypted = true) (hRc : R.decCtr = 0) (hRf : R.finRecvAAD = false)
      (hrecv : R.recvFrameWithEnd g = .ok (R', p, fl')) :
      ∃ iv sl, g.body = .ct iv sl ∧ sl.aad.digests = some (R.dig.fr, R.dig.fs) := by
    unfold Stream.recvFrameWithEnd at hrecv
    cases hch : checkHdr g with
    | error e => simp [hch] at hrecv
    | ok u =>
      simp only [hch] at hrecv
      by_cases h0 : g.len = 0
      · simp [h0, Stream.crypting, hRk, hRe] at hrecv
      · simp only [h0, if_false, hRk, hRe] at hrecv
        cases hopen : R.openBody k g with
        | error e => simp [hopen] at hrecv
        | ok r =>
          unfold Stream.openBody at hopen
          by_cases ha : g.body.wireLen = 0
          · rw [if_pos ha] at hopen; cases hopen
          · rw [if_neg ha] at hopen
            by_cases hb : R.decCtr = 0 ∧ g.body.wireLen < ivLen
            · rw [if_pos hb] at hopen; cases hopen
            · rw [if_neg hb] at hopen
              simp only [hRc, if_true, hRf, Bool.false_eq_true, if_false] at hopen
              cases hbody : g.body with
              | raw b => simp [hbody] at hopen
              | ct iv sl =>
                cases iv with
                | none => simp [hbody] at hopen
                | some i =>
                  simp only [hbody] at hopen
                  by_cases hie : i = R.encIV
                  · rw [if_pos hie] at hopen; cases hopen
                  · rw [if_neg hie] at hopen
                    obtain ⟨hcond, _⟩ := ite_ok hopen
                    exact ⟨some i, sl, rfl, by rw [hcond.2.2]⟩

/-- with the free hash, equal digests mean equal transcripts: both endpoints fed exactly the same
    cleartext bytes (frame headers included, hence the same frame boundaries) in that direction,
    or neither exchanged any -/
theorem same_digest_same_bytes (a b : Bytes) (wa wb : Bool)
    (h : (if wa then Digest.H a else Digest.zero) = (if wb then Digest.H b else Digest.zero)) :
    wa = wb ∧ (wa = true → a = b) := by
  cases wa <;> cases wb <;> simp at h ⊢
  exact h

/-- **tamper_kills_first_frame**: if what the receiver saw in the clear (in either direction)
    differs from what the sender saw, the first protected frame does not authenticate — no
    application data is accepted over a channel whose negotiation was tampered with. -/
theorem tamper_kills_first_frame (S S' R : Stream) (k : Nat) (d : Bytes) (fl : Nat) (f g : WireFrame)
    (hSk : S.key = some k) (hSe : S.encrypted = true) (hSc : S.encCtr = 0) (hSf : S.finSendAAD = false)
    (hsend : S.sendFrame d fl = .ok (S', f))
    (hRk : R.key = some k) (hRe : R.encrypted = true) (hRc : R.decCtr = 0) (hRf : R.finRecvAAD = false)
    (hsame : ∃ ivo ivo' sl, f.body = .ct ivo sl ∧ g.body = .ct ivo' sl)
    (hdiff : R.dig.fr ≠ S.dig.fs ∨ R.dig.fs ≠ S.dig.fr) :
    ∃ e, R.recvFrameWithEnd g = .error e := by
  cases hr : R.recvFrameWithEnd g with
  | error e => exact ⟨e, rfl⟩
  | ok r =>
    obtain ⟨R', p, fl'⟩ := r
    have := transcript_binding S S' R R' k d p fl fl' f g hSk hSe hSc hSf hsend hRk hRe hRc hRf hsame hr
    rcases hdiff with h | h
    · exact absurd this.1 h
    · exact absurd this.2 h

/-! Non-vacuity (tests): an honest cleartext exchange binds; one flipped cleartext byte kills the
    first protected frame. -/
def exch (tamper : Bool) : Option Bool :=
  let a : Stream := {}
  let b : Stream := {}
  match a.sendFrame [1, 2, 3] 1 with
  | .ok (a1, f) =>
    let f' : WireFrame := if tamper then { f with body := .raw [1, 2, 4] } else f
    match b.recvFrameWithEnd f' with
    | .ok (b1, _, _) =>
      let a2 := a1.setKey 9 ⟨1, []⟩
      let b2 := b1.setKey 9 ⟨2, []⟩
      match a2.sendFrame [7] 1 with
      | .ok (_, g) => some (b2.recvFrameWithEnd g).isOk
      | .error _ => none
    | .error _ => none
  | .error _ => none
example : exch false = some true := by decide
example : exch true = some false := by decide

/-! ### Frame boundaries are part of the transcript -/

/-- what the digest is fed for a sequence of cleartext frames: header and payload of each, in order -/
def fedOf (fs : List (Nat × Bytes)) : Bytes := (fs.map (fun f => encodeRawFrame f.1 f.2)).flatten

def FrameOK (f : Nat × Bytes) : Prop := f.1 ≤ maxEndFlag ∧ f.2.length ≤ maxMessageSize

/-- **transcript_determines_frames**: the bytes fed to a digest determine the SEQUENCE OF FRAMES that
    were exchanged — their number, their end flags, their lengths and their payloads — not just the
    concatenated payload. So two endpoints whose digests agree (`same_digest_same_bytes`) saw the
    same frames: splitting a frame in two, merging two, inserting or removing an empty one, or
    rewriting an end flag in transit changes the transcript although the message parses the same. -/
theorem transcript_determines_frames : ∀ (fs gs : List (Nat × Bytes)),
    (∀ f ∈ fs, FrameOK f) → (∀ g ∈ gs, FrameOK g) → fedOf fs = fedOf gs → fs = gs
  | [], [], _, _, _ => rfl
  | [], g :: gs, _, _, h => by
    simp [fedOf, encodeRawFrame, hdrBytes] at h
  | f :: fs, [], _, _, h => by
    simp [fedOf, encodeRawFrame, hdrBytes] at h
  | f :: fs, g :: gs, hf, hg, h => by
    have h1 := hf f (List.mem_cons_self ..)
    have h2 := hg g (List.mem_cons_self ..)
    have e : encodeRawFrame f.1 f.2 ++ fedOf fs = encodeRawFrame g.1 g.2 ++ fedOf gs := by
      simpa [fedOf] using h
    have d1 := C01.frame_roundtrip f.1 f.2 (fedOf fs) h1.1 h1.2
    have d2 := C01.frame_roundtrip g.1 g.2 (fedOf gs) h2.1 h2.2
    rw [e, d2] at d1
    simp only [Except.ok.injEq, Prod.mk.injEq] at d1
    obtain ⟨e1, e2, e3⟩ := d1
    have ih := transcript_determines_frames fs gs (fun x hx => hf x (List.mem_cons_of_mem _ hx))
      (fun x hx => hg x (List.mem_cons_of_mem _ hx)) e3.symm
    have : f = g := Prod.ext e1.symm e2.symm
    rw [this, ih]

/-- a message delivered as two frames and the same message delivered as one have different transcripts -/
example : fedOf [(0, [1, 2]), (1, [3])] ≠ fedOf [(1, [1, 2, 3])] := by decide
/-- an empty partial frame changes the transcript; so does another accepted end flag -/
example : fedOf [(0, []), (1, [7])] ≠ fedOf [(1, [7])] := by decide
example : fedOf [(2, [7])] ≠ fedOf [(1, [7])] := by decide

/-! ### One statement: accepting the first protected frame means both ends saw the same frames -/

/-- the digest of a cleartext history of frames: all-zero when nothing was exchanged -/
def digestOf (fs : List (Nat × Bytes)) : Digest := if fs = [] then .zero else .H (fedOf fs)

/-- the running (not yet frozen) send / receive transcript of `s` is the frame list `fs` -/
def SentIs (s : Stream) (fs : List (Nat × Bytes)) : Prop :=
  s.dig.finalSend = none ∧ s.dig.sendFed = fedOf fs ∧ s.dig.sendWritten = !fs.isEmpty
def RecvdIs (s : Stream) (fs : List (Nat × Bytes)) : Prop :=
  s.dig.finalRecv = none ∧ s.dig.recvFed = fedOf fs ∧ s.dig.recvWritten = !fs.isEmpty

theorem fedOf_append (fs : List (Nat × Bytes)) (fl : Nat) (d : Bytes) :
    fedOf (fs ++ [(fl, d)]) = fedOf fs ++ (hdrBytes fl d.length ++ d) := by
  simp [fedOf, encodeRawFrame]

/-- every cleartext frame sent extends the sender's transcript by exactly that frame -/
theorem sentIs_step (s s' : Stream) (fs : List (Nat × Bytes)) (d : Bytes) (fl : Nat) (f : WireFrame)
    (h : SentIs s fs) (hc : s.crypting = false) (hs : s.sendFrame d fl = .ok (s', f)) :
    SentIs s' (fs ++ [(fl, d)]) := by
  obtain ⟨h1, h2, _⟩ := h
  obtain ⟨a, b, _, c, _⟩ := sent_frames_are_fed s s' d fl f h1 hc hs
  exact ⟨c, by rw [a, h2, fedOf_append], by simp [b]⟩

/-- every cleartext frame accepted extends the receiver's transcript by exactly that frame -/
theorem recvdIs_step (s s' : Stream) (fs : List (Nat × Bytes)) (f : WireFrame) (p : Bytes) (fl : Nat)
    (h : RecvdIs s fs) (hc : s.crypting = false) (hlen : f.len = f.body.wireLen) (hp : f.len = p.length)
    (hr : s.recvFrameWithEnd f = .ok (s', p, fl)) :
    RecvdIs s' (fs ++ [(fl, p)]) := by
  obtain ⟨h1, h2, _⟩ := h
  obtain ⟨a, b, _, e, c, _⟩ := received_frames_are_fed s s' f p fl h1 hc hlen hr
  exact ⟨c, by rw [a, h2, fedOf_append, e, hp], by simp [b]⟩

theorem sentIs_fs (s : Stream) (fs : List (Nat × Bytes)) (h : SentIs s fs) : s.dig.fs = digestOf fs := by
  obtain ⟨h1, h2, h3⟩ := h
  cases fs with
  | nil => simp [Dig.fs, h1, h3, digestOf]
  | cons x xs => simp [Dig.fs, h1, h2, h3, digestOf]

theorem recvdIs_fr (s : Stream) (fs : List (Nat × Bytes)) (h : RecvdIs s fs) : s.dig.fr = digestOf fs := by
  obtain ⟨h1, h2, h3⟩ := h
  cases fs with
  | nil => simp [Dig.fr, h1, h3, digestOf]
  | cons x xs => simp [Dig.fr, h1, h2, h3, digestOf]

/-- installing the key freezes the digests at their current value -/
theorem setKey_keeps_digests (s : Stream) (k : Nat) (iv : IV) :
    (s.setKey k iv).dig.fs = s.dig.fs ∧ (s.setKey k iv).dig.fr = s.dig.fr := by
  simp [Stream.setKey, Dig.finalize, Dig.fs, Dig.fr]

theorem digestOf_inj (fs gs : List (Nat × Bytes)) (hf : ∀ f ∈ fs, FrameOK f) (hg : ∀ g ∈ gs, FrameOK g)
    (h : digestOf fs = digestOf gs) : fs = gs := by
  unfold digestOf at h
  by_cases a : fs = [] <;> by_cases b : gs = []
  · rw [a, b]
  · simp [a, b] at h
  · simp [a, b] at h
  · simp only [a, b, if_false, Digest.H.injEq] at h
    exact transcript_determines_frames fs gs hf hg h

/-- **accept_means_same_frames** (the property's first sentence, one statement). Let the sender have
    SENT the cleartext frames `sS` and RECEIVED `rS` before it installed its key, and the receiver
    have RECEIVED `rR` and SENT `sR` before it installed the same key (histories as built by
    `sentIs_step` / `recvdIs_step` from every frame the stream code emits or accepts, empty frames
    and every accepted end flag included). If the receiver accepts, as the first protected frame of
    the direction, the seal the sender produced as its first protected frame, then
    `rR = sS` and `sR = rS`: both endpoints have seen exactly the same sequence of cleartext frames
    — number, end flags, lengths and payloads — in each direction. Contrapositive: any edit of the
    cleartext phase (byte, flag, insertion, removal, split, merge), in either direction, makes the
    first protected frame fail. -/
theorem accept_means_same_frames (S0 R0 S S' R R' : Stream) (k : Nat) (ivS ivR : IV) (d p : Bytes) (fl fl' : Nat)
    (f g : WireFrame) (sS rS rR sR : List (Nat × Bytes))
    (hsS : SentIs S0 sS) (hrS : RecvdIs S0 rS) (hrR : RecvdIs R0 rR) (hsR : SentIs R0 sR)
    (hS : S = S0.setKey k ivS) (hR : R = R0.setKey k ivR)
    (hok : (∀ x ∈ sS, FrameOK x) ∧ (∀ x ∈ rS, FrameOK x) ∧ (∀ x ∈ rR, FrameOK x) ∧ (∀ x ∈ sR, FrameOK x))
    (hsend : S.sendFrame d fl = .ok (S', f))
    (hsame : ∃ ivo ivo' sl, f.body = .ct ivo sl ∧ g.body = .ct ivo' sl)
    (hrecv : R.recvFrameWithEnd g = .ok (R', p, fl')) :
    rR = sS ∧ sR = rS := by
  have hb := transcript_binding S S' R R' k d p fl fl' f g (by simp [hS, Stream.setKey]) (by simp [hS, Stream.setKey])
    (by simp [hS, Stream.setKey]) (by simp [hS, Stream.setKey]) hsend (by simp [hR, Stream.setKey]) (by simp [hR, Stream.setKey])
    (by simp [hR, Stream.setKey]) (by simp [hR, Stream.setKey]) hsame hrecv
  have kS := setKey_keeps_digests S0 k ivS
  have kR := setKey_keeps_digests R0 k ivR
  rw [hS, hR, kS.1, kS.2, kR.1, kR.2, sentIs_fs _ _ hsS, recvdIs_fr _ _ hrS, recvdIs_fr _ _ hrR, sentIs_fs _ _ hsR] at hb
  exact ⟨digestOf_inj _ _ hok.2.2.1 hok.1 hb.1, digestOf_inj _ _ hok.2.2.2 hok.2.1 hb.2⟩

/-- non-vacuity: a fresh stream has the empty history, and one cleartext send gives a one-frame history -/
example : SentIs ({} : Stream) [] ∧ RecvdIs ({} : Stream) [] := by
  refine ⟨⟨rfl, rfl, rfl⟩, ⟨rfl, rfl, rfl⟩⟩
example : ∃ s' f, ({} : Stream).sendFrame [1, 2, 3] 1 = .ok (s', f) ∧ SentIs s' [(1, [1, 2, 3])] := by
  refine ⟨_, _, rfl, ?_⟩
  exact sentIs_step {} _ [] [1, 2, 3] 1 _ ⟨rfl, rfl, rfl⟩ rfl rfl

/-! ### The same, without assuming which seal the accepted frame carries

`accept_means_same_frames` assumes `hsame` (the accepted frame carries the sender's first seal).
Below that is DERIVED: the frame `g` is ANY frame of the C02 adversary's closure (`C02.AdvWire`:
arbitrary headers; body = arbitrary bytes, or any seal the sender emitted in `sent`, first or later,
or any seal the receiving endpoint itself emitted in `own`, reflected; IV prefix kept, stripped or
replaced; seals under other keys at will). -/

/-- core, at the `decryptDataWithAAD` level -/
theorem same_frames_of_open (S0 R0 S' R' : Stream) (k : Nat) (ivS ivR : IV)
    (ops opsR : List SendOp) (sent own : List WireFrame) (g : WireFrame) (p : Bytes) (ivr : IV)
    (sS rS rR sR : List (Nat × Bytes))
    (hsS : SentIs S0 sS) (hrS : RecvdIs S0 rS) (hrR : RecvdIs R0 rR) (hsR : SentIs R0 sR)
    (hok : (∀ x ∈ sS, FrameOK x) ∧ (∀ x ∈ rS, FrameOK x) ∧ (∀ x ∈ rR, FrameOK x) ∧ (∀ x ∈ sR, FrameOK x))
    (hivS : ivS.w0 < 2^32) (hivR : ivR.w0 < 2^32) (hsep : ivS.tail ≠ ivR.tail)
    (hsend : (S0.setKey k ivS).sendAll ops = .ok (S', sent))
    (hown : (R0.setKey k ivR).sendAll opsR = .ok (R', own))
    (hadv : C02.AdvWire k sent own [g])
    (hopen : (R0.setKey k ivR).openBody k g = .ok (ivr, p)) :
    rR = sS ∧ sR = rS ∧
    ∃ f ivo sl, sent.head? = some f ∧ f.body = .ct ivo sl ∧ g.body = .ct (some ivS) sl ∧ sl.plain = p := by
  obtain ⟨items, hsent, _, _, _, _⟩ := sendAll_spec ops _ S' 0 sent (setKey_sendInv S0 k ivS) hsend
  obtain ⟨itemsR, hownE, _, _, _, _⟩ := sendAll_spec opsR _ R' 0 own (setKey_sendInv R0 k ivR) hown
  have hg := C02.advWire_advFrame (dgR := (R0.dig.fs, R0.dig.fr)) hsep hsent hownE hadv g (List.mem_singleton.mpr rfl)
  obtain ⟨it, hit, hgb, hdg, hp, _⟩ :=
    first_open_is_senders_seal (r := R0.setKey k ivR) hivS rfl (by simp [Stream.setKey]) rfl hivR hg hopen
  have kR := setKey_keeps_digests R0 k ivR
  rw [kR.1, kR.2, sentIs_fs _ _ hsS, recvdIs_fr _ _ hrS, recvdIs_fr _ _ hrR, sentIs_fs _ _ hsR] at hdg
  simp only [Prod.mk.injEq] at hdg
  refine ⟨digestOf_inj _ _ hok.2.2.1 hok.1 hdg.1.symm, digestOf_inj _ _ hok.2.2.2 hok.2.1 hdg.2.symm, ?_⟩
  cases items with
  | nil => simp at hit
  | cons it0 tl =>
    simp only [List.getElem?_cons_zero, Option.some.injEq] at hit
    subst hit
    refine ⟨frameAt k ivS (S0.dig.fs, S0.dig.fr) 0 it0, some ivS, _, by rw [hsent]; rfl, rfl, hgb, ?_⟩
    rw [hp]; rfl

/-- **accept_means_same_frames_adv** (the property's first sentence against the C02 adversary).
    The sender SENT cleartext frames `sS` and RECEIVED `rS` before installing its key, the receiver
    RECEIVED `rR` and SENT `sR` before installing the same key; then the sender's application
    performs ANY accepted send history `ops`, the receiving endpoint any `opsR` of its own, and the
    adversary presents ANY frame `g` of its closure. If `ReceiveFrameWithEnd` accepts `g` as the
    first protected frame of the direction, then `rR = sS` and `sR = rS` — both ends saw exactly the
    same cleartext frames in each direction — and `g` carries the sender's FIRST seal (what
    `accept_means_same_frames` assumed as `hsame`). One session hypothesis, as in C02: the two fresh
    IVs differ in their last 12 bytes. -/
theorem accept_means_same_frames_adv (S0 R0 S' R' R'' : Stream) (k : Nat) (ivS ivR : IV)
    (ops opsR : List SendOp) (sent own : List WireFrame) (g : WireFrame) (p : Bytes) (fl' : Nat)
    (sS rS rR sR : List (Nat × Bytes))
    (hsS : SentIs S0 sS) (hrS : RecvdIs S0 rS) (hrR : RecvdIs R0 rR) (hsR : SentIs R0 sR)
    (hok : (∀ x ∈ sS, FrameOK x) ∧ (∀ x ∈ rS, FrameOK x) ∧ (∀ x ∈ rR, FrameOK x) ∧ (∀ x ∈ sR, FrameOK x))
    (hivS : ivS.w0 < 2^32) (hivR : ivR.w0 < 2^32) (hsep : ivS.tail ≠ ivR.tail)
    (hsend : (S0.setKey k ivS).sendAll ops = .ok (S', sent))
    (hown : (R0.setKey k ivR).sendAll opsR = .ok (R', own))
    (hadv : C02.AdvWire k sent own [g])
    (hrecv : (R0.setKey k ivR).recvFrameWithEnd g = .ok (R'', p, fl')) :
    rR = sS ∧ sR = rS ∧
    ∃ f ivo sl, sent.head? = some f ∧ f.body = .ct ivo sl ∧ g.body = .ct (some ivS) sl ∧ sl.plain = p := by
  obtain ⟨ivr, hopen⟩ := C02.no_bypass _ R'' k g p fl' rfl rfl hrecv
  exact same_frames_of_open S0 R0 S' R' k ivS ivR ops opsR sent own g p ivr sS rS rR sR hsS hrS hrR hsR hok
    hivS hivR hsep hsend hown hadv hopen

/-- the same when the first protected frame is read with plain `ReceiveFrame` (GetSecret / GetFile) -/
theorem accept_means_same_frames_adv_recvFrame (S0 R0 S' R' R'' : Stream) (k : Nat) (ivS ivR : IV)
    (ops opsR : List SendOp) (sent own : List WireFrame) (g : WireFrame) (p : Bytes)
    (sS rS rR sR : List (Nat × Bytes))
    (hsS : SentIs S0 sS) (hrS : RecvdIs S0 rS) (hrR : RecvdIs R0 rR) (hsR : SentIs R0 sR)
    (hok : (∀ x ∈ sS, FrameOK x) ∧ (∀ x ∈ rS, FrameOK x) ∧ (∀ x ∈ rR, FrameOK x) ∧ (∀ x ∈ sR, FrameOK x))
    (hivS : ivS.w0 < 2^32) (hivR : ivR.w0 < 2^32) (hsep : ivS.tail ≠ ivR.tail)
    (hsend : (S0.setKey k ivS).sendAll ops = .ok (S', sent))
    (hown : (R0.setKey k ivR).sendAll opsR = .ok (R', own))
    (hadv : C02.AdvWire k sent own [g])
    (hrecv : (R0.setKey k ivR).recvFrame g = .ok (R'', p)) :
    rR = sS ∧ sR = rS := by
  obtain ⟨ivr, hopen⟩ := C02.no_bypass_recvFrame _ R'' k g p rfl rfl hrecv
  have := same_frames_of_open S0 R0 S' R' k ivS ivR ops opsR sent own g p ivr sS rS rR sR hsS hrS hrR hsR hok
    hivS hivR hsep hsend hown hadv hopen
  exact ⟨this.1, this.2.1⟩

/-- **tamper_kills_first_frame_adv**: contrapositive — if the two ends' cleartext histories differ in
    either direction, NO frame the adversary can build is accepted as the first protected frame. -/
theorem tamper_kills_first_frame_adv (S0 R0 S' R' : Stream) (k : Nat) (ivS ivR : IV)
    (ops opsR : List SendOp) (sent own : List WireFrame) (g : WireFrame)
    (sS rS rR sR : List (Nat × Bytes))
    (hsS : SentIs S0 sS) (hrS : RecvdIs S0 rS) (hrR : RecvdIs R0 rR) (hsR : SentIs R0 sR)
    (hok : (∀ x ∈ sS, FrameOK x) ∧ (∀ x ∈ rS, FrameOK x) ∧ (∀ x ∈ rR, FrameOK x) ∧ (∀ x ∈ sR, FrameOK x))
    (hivS : ivS.w0 < 2^32) (hivR : ivR.w0 < 2^32) (hsep : ivS.tail ≠ ivR.tail)
    (hsend : (S0.setKey k ivS).sendAll ops = .ok (S', sent))
    (hown : (R0.setKey k ivR).sendAll opsR = .ok (R', own))
    (hadv : C02.AdvWire k sent own [g])
    (hdiff : rR ≠ sS ∨ sR ≠ rS) :
    ∃ e, (R0.setKey k ivR).recvFrameWithEnd g = .error e := by
  cases hr : (R0.setKey k ivR).recvFrameWithEnd g with
  | error e => exact ⟨e, rfl⟩
  | ok r =>
    obtain ⟨R'', p, fl'⟩ := r
    have := accept_means_same_frames_adv S0 R0 S' R' R'' k ivS ivR ops opsR sent own g p fl' sS rS rR sR
      hsS hrS hrR hsR hok hivS hivR hsep hsend hown hadv hr
    rcases hdiff with h | h
    · exact absurd this.1 h
    · exact absurd this.2.1 h

/-! Non-vacuity: client sends one cleartext frame, server receives it; both key; the client's two
    protected frames form `sent`; the adversary presents the first one (accepted), and the second one
    re-headed with the client's IV (in the closure, rejected). -/
private def cS0 : Stream := match ({} : Stream).sendFrame [1, 2, 3] 1 with | .ok (s, _) => s | .error _ => {}
private def cR0 : Stream := match ({} : Stream).recvFrameWithEnd ⟨1, 3, .raw [1, 2, 3]⟩ with | .ok (s, _, _) => s | .error _ => {}
private def cSent : List WireFrame := match (cS0.setKey 9 ⟨1, [1]⟩).sendAll [([7], 1), ([8], 1)] with | .ok (_, fs) => fs | .error _ => []
example : SentIs cS0 [(1, [1, 2, 3])] ∧ RecvdIs cS0 [] ∧ RecvdIs cR0 [(1, [1, 2, 3])] ∧ SentIs cR0 [] := by
  refine ⟨⟨rfl, rfl, rfl⟩, ⟨rfl, rfl, rfl⟩, ⟨rfl, rfl, rfl⟩, ⟨rfl, rfl, rfl⟩⟩
example : cSent.length = 2 ∧ ((cR0.setKey 9 ⟨2, [2]⟩).recvFrameWithEnd (cSent.headD default)).toBool = true := by decide
example : C02.AdvWire 9 cSent [] [cSent.headD default] := by
  intro g hg
  simp only [List.mem_singleton] at hg
  subst hg
  exact ⟨by decide, fun _ => .inl ⟨cSent.headD default, by decide, _, rfl⟩⟩

end Cedar.C04
