/-
  C05 — The server runs a command only on a session that meets that command's policy.
  The session flags are the handshake's reported outcome; C03 (`*_reported_*_is_real`,
  `*_required_*`) and C06 (`resume_needs_key`) show they equal the connection's real state.
-/
import CedarModel.Dispatch
import CedarProofs.DecisionsTie
import CedarProps.C03

namespace Cedar.C05
open Cedar Cedar.HS Cedar.Disp

/-- **dispatch_sound**: on one connection, for every sequence of follow-on commands and every
    keep-alive behaviour of the handlers, each handler the authenticated path invokes is registered,
    is not raw, and the session meets that command's CURRENT security level (authentication
    REQUIRED ⇒ authenticated; encryption or integrity REQUIRED ⇒ encrypted) and — when an
    authorizer is configured — the session's identity is currently authorized at one of the
    command's levels. -/
theorem dispatch_sound (s : Server) (sess : Sess) (keep : Nat → Bool) :
    ∀ (rest : List Nat) (cmd : Nat) (c : Nat), Ev.ran c ∈ s.serveAuth sess keep cmd rest →
      ∃ h, s.lookup c = some h ∧ h.raw = false ∧
           levelOK (s.policyFor c) sess.authenticated sess.encrypted = true ∧
           s.authorizedFor c sess.user = true := by
  intro rest
  induction rest with
  | nil =>
    intro cmd c hmem
    unfold Server.serveAuth at hmem
    cases hl : s.lookup cmd with
    | none => simp [hl] at hmem
    | some h =>
      simp only [hl] at hmem
      by_cases hr : h.raw = true
      · simp [hr] at hmem
      · by_cases hs : s.satisfies cmd sess = true
        · have hr' : h.raw = false := by simpa using hr
          simp only [hr', Bool.false_eq_true, if_false, hs, Bool.not_true] at hmem
          have hc : c = cmd := by
            by_cases hk : keep cmd = true <;> simp [hk] at hmem <;> exact hmem
          subst hc
          unfold Server.satisfies at hs
          simp only [Bool.and_eq_true] at hs
          exact ⟨h, hl, hr', hs.1, hs.2⟩
        · have hr' : h.raw = false := by simpa using hr
          simp [hr', hs] at hmem
  | cons next rest' ih =>
    intro cmd c hmem
    unfold Server.serveAuth at hmem
    cases hl : s.lookup cmd with
    | none => simp [hl] at hmem
    | some h =>
      simp only [hl] at hmem
      by_cases hr : h.raw = true
      · simp [hr] at hmem
      · have hr' : h.raw = false := by simpa using hr
        by_cases hs : s.satisfies cmd sess = true
        · simp only [hr', Bool.false_eq_true, if_false, hs, Bool.not_true] at hmem
          have here : ∃ h, s.lookup cmd = some h ∧ h.raw = false ∧
              levelOK (s.policyFor cmd) sess.authenticated sess.encrypted = true ∧
              s.authorizedFor cmd sess.user = true := by
            unfold Server.satisfies at hs
            simp only [Bool.and_eq_true] at hs
            exact ⟨h, hl, hr', hs.1, hs.2⟩
          by_cases hk : keep cmd = true
          · simp only [hk, Bool.not_true, Bool.false_eq_true, if_false, List.mem_cons, Ev.ran.injEq] at hmem
            rcases hmem with rfl | hmem
            · exact here
            · exact ih next c hmem
          · simp only [hk, Bool.not_false, if_true, List.mem_cons, Ev.ran.injEq, List.mem_nil_iff, or_false] at hmem
            rcases hmem with rfl | hmem
            · exact here
            · cases hmem
        · simp [hr', hs] at hmem

/-- what `levelOK` means -/
theorem levelOK_meaning (p : Policy) (a e : Bool) (h : levelOK (some p) a e = true) :
    (p.auth = lvlRequired → a = true) ∧ ((p.enc = lvlRequired ∨ p.integ = lvlRequired) → e = true) := by
  unfold levelOK at h
  simp only at h
  constructor
  · intro hp
    by_cases ha : a = true
    · exact ha
    · have : a = false := by simpa using ha
      simp [hp, this] at h
  · intro hp
    by_cases he : e = true
    · exact he
    · have he' : e = false := by simpa using he
      by_cases h1 : p.auth = lvlRequired ∧ a = false
      · simp [h1] at h
      · simp [h1, hp, he'] at h

/-- **raw_auth_separation**: the raw path invokes only raw handlers, the authenticated path only
    non-raw ones. -/
theorem raw_path_only_raw (s : Server) (cmd c : Nat) (h : Ev.ran c ∈ s.serveRaw cmd) :
    ∃ hd, s.lookup c = some hd ∧ hd.raw = true := by
  unfold Server.serveRaw at h
  cases hl : s.lookup cmd with
  | none => simp [hl] at h
  | some hd =>
    simp only [hl] at h
    by_cases hr : hd.raw = true
    · simp only [hr, if_true, List.mem_cons, Ev.ran.injEq, List.mem_nil_iff, or_false] at h
      rcases h with rfl | h
      · exact ⟨hd, hl, hr⟩
      · cases h
    · simp [hr] at h

theorem auth_path_never_raw (s : Server) (sess : Sess) (keep : Nat → Bool) (rest : List Nat) (cmd c : Nat)
    (h : Ev.ran c ∈ s.serveAuth sess keep cmd rest) : ∃ hd, s.lookup c = some hd ∧ hd.raw = false := by
  obtain ⟨hd, h1, h2, _, _⟩ := dispatch_sound s sess keep rest cmd c h
  exact ⟨hd, h1, h2⟩

/-- **refuse_closes**: an unknown, raw-on-the-authenticated-path or refused command runs no handler
    and closes the connection. (In this two-outcome model every dispatch ends `.closed`; the real
    `ServeConn` has a third handler outcome, `KeepOpen()`, after which it does NOT close — see
    `serveAuthH`, `dispatch_ends` below: a run ends closed unless the LAST handler, having passed
    every check, took ownership of the connection. A refusal always closes.) -/
theorem refuse_closes (s : Server) (sess : Sess) (keep : Nat → Bool) (cmd : Nat) (rest : List Nat)
    (h : s.lookup cmd = none ∨ (∃ hd, s.lookup cmd = some hd ∧ hd.raw = true) ∨ s.satisfies cmd sess = false) :
    s.serveAuth sess keep cmd rest = [.closed] := by
  unfold Server.serveAuth
  rcases h with h | ⟨hd, h1, h2⟩ | h
  · simp [h]
  · simp [h1, h2]
  · cases hl : s.lookup cmd with
    | none => rfl
    | some hd =>
      simp only
      by_cases hr : hd.raw = true
      · simp [hr]
      · simp [hr, h]

theorem raw_refuse_closes (s : Server) (cmd : Nat)
    (h : s.lookup cmd = none ∨ (∃ hd, s.lookup cmd = some hd ∧ hd.raw = false)) : s.serveRaw cmd = [.closed] := by
  unfold Server.serveRaw
  rcases h with h | ⟨hd, h1, h2⟩
  · simp [h]
  · simp [h1, h2]

/-- **valid_commands_sound**: the commands advertised after authentication are only commands the
    session could run right now under the dispatch-time check: registered, not raw, the command's
    current level met by the session, AND the session's identity authorized at one of the command's
    levels by the current authorizer (nothing is advertised without an authorizer; a command
    registered with no level is never advertised). -/
theorem valid_commands_sound (s : Server) (sess : Sess) (c : Nat) (h : c ∈ s.validCommands sess) :
    ∃ hd a, (c, hd) ∈ s.handlers ∧ hd.raw = false ∧
          levelOK (s.policyFor c) sess.authenticated sess.encrypted = true ∧
          s.authorizer = some a ∧ hd.perms.any (fun perm => a perm sess.user) = true := by
  unfold Server.validCommands at h
  cases ha : s.authorizer with
  | none => simp [ha] at h
  | some a =>
    simp only [ha, List.mem_map, List.mem_filter] at h
    obtain ⟨⟨c', hd⟩, ⟨hmem, hcond⟩, rfl⟩ := h
    simp only [Bool.and_eq_true, Bool.not_eq_true'] at hcond
    exact ⟨hd, a, hmem, hcond.1.1.1, hcond.1.2, rfl, hcond.2⟩

/-- **valid_commands_dispatchable**: when the handler table is a map (the entry advertised is the
    one `lookup` finds — `Handle` replaces, never duplicates), every advertised command passes the
    very check the dispatch loop applies (`sessionSatisfies`): the advertisement is never broader
    than what the session can run now. -/
theorem valid_commands_dispatchable (s : Server) (sess : Sess) (c : Nat) (h : c ∈ s.validCommands sess)
    (hmap : ∀ hd, (c, hd) ∈ s.handlers → s.lookup c = some hd) :
    s.satisfies c sess = true := by
  obtain ⟨hd, a, hmem, _, hlv, haz, hany⟩ := valid_commands_sound s sess c h
  unfold Server.satisfies Server.authorizedFor
  rw [hlv, haz, hmap hd hmem]
  simpa using hany

/-- **no_level_never_authorized**: with an authorizer configured, a command registered with no
    permission level is refused for every identity (there is no level the identity could hold). -/
theorem no_level_never_authorized (s : Server) (a : String → String → Bool) (c : Nat) (hd : Handler) (sess : Sess)
    (ha : s.authorizer = some a) (hl : s.lookup c = some hd) (hp : hd.perms = []) :
    s.satisfies c sess = false := by
  unfold Server.satisfies Server.authorizedFor
  simp [ha, hl, hp]

/-- **levelOK_is_the_code** (tie T): the level test every theorem above uses, `levelOK`, IS the code
    of `server.commandLevelSatisfied` once the applicable policy object has been selected — for ALL
    level strings and both session flags it equals `CedarGen.Decisions.commandLevelSatisfied`, which
    `tools/gen` (trans.go) translates statement by statement from the Go source on every run. -/
theorem levelOK_is_the_code (p : Policy) (authenticated encrypted : Bool) :
    levelOK (some p) authenticated encrypted =
      CedarGen.Decisions.commandLevelSatisfied p.auth p.enc p.integ authenticated encrypted :=
  Cedar.Tie.levelOK_eq_gen p authenticated encrypted

/-- **satisfies_is_the_code** (tie T): the gate every dispatch theorem above goes through,
    `Server.satisfies`, IS the code of `server.sessionSatisfies` for a session that exists: it passes
    exactly when `CedarGen.Decisions.sessionSatisfies` — translated statement by statement from the Go
    source on every run — returns nil, for every verdict of the level test and, when an Authorizer is
    configured, of `authorized` (whose verdict the code does not consult otherwise).  Reordering the
    tests, dropping one, or making the authorization test conditional on something else changes the
    generated definition and breaks this proof. -/
theorem satisfies_is_the_code (s : Server) (cmd : Nat) (sess : Sess) (authorizedNow : Bool)
    (hA : ∀ a, s.authorizer = some a → authorizedNow = s.authorizedFor cmd sess.user) :
    s.satisfies cmd sess =
      ((CedarGen.Decisions.sessionSatisfies false
          (levelOK (s.policyFor cmd) sess.authenticated sess.encrypted)
          s.authorizer.isSome authorizedNow).ret == 0) :=
  Cedar.Tie.satisfies_eq_gen s cmd sess authorizedNow hA

/-- **no_session_no_command** (tie T): without a negotiated session the translated code refuses
    (return 1 = "no negotiated session") whatever the other verdicts are. -/
theorem no_session_no_command (l h a : Bool) :
    (CedarGen.Decisions.sessionSatisfies true l h a).ret = 1 :=
  Cedar.Tie.nil_session_refused_gen l h a

example : CedarGen.Decisions.commandLevelSatisfied "REQUIRED" "OPTIONAL" "REQUIRED" true false = false := by decide
example : CedarGen.Decisions.commandLevelSatisfied "" "PREFERRED" "" false false = true := by decide

/-! Non-vacuity (tests). -/
def srv : Server :=
  { handlers := [(7, ⟨false, ["READ"]⟩), (8, ⟨false, ["DAEMON"]⟩), (9, ⟨true, []⟩)],
    policyFor := fun c => if c = 8 then some ⟨lvlRequired, lvlRequired, lvlOptional⟩ else some ⟨lvlOptional, lvlOptional, lvlOptional⟩,
    authorizer := some (fun perm user => perm == "READ" || (perm == "DAEMON" && user == "alice")) }
example : srv.serveAuth ⟨true, true, "alice"⟩ (fun _ => true) 7 [8, 7] = [.ran 7, .ran 8, .ran 7, .closed] := by decide
example : srv.serveAuth ⟨false, true, "bob"⟩ (fun _ => true) 7 [8, 7] = [.ran 7, .closed] := by decide
example : srv.serveAuth ⟨true, false, "alice"⟩ (fun _ => true) 7 [8] = [.ran 7, .closed] := by decide
example : srv.serveAuth ⟨true, true, "alice"⟩ (fun _ => true) 9 [] = [.closed] := by decide
example : srv.serveRaw 7 = [.closed] ∧ srv.serveRaw 9 = [.ran 9, .closed] := by decide
example : srv.satisfies 8 ⟨true, true, "bob"⟩ = false ∧
    (CedarGen.Decisions.sessionSatisfies false true true false).ret = 3 ∧
    (CedarGen.Decisions.sessionSatisfies false false true true).ret = 2 ∧
    (CedarGen.Decisions.sessionSatisfies false true false false).ret = 0 := by decide

/-! ### dispatch_sound over a session that really came out of a handshake

`dispatch_sound` takes the session record as a free parameter. Here the record is the one the
server builds from the outcome of the C03 server machine (`serverFull`) or of the C06 resumption
machine (`serverResume`), and "authenticated" / "encrypted" are replaced by what happened on the
wire in that handshake. -/

/-- how the session a connection is served under came about -/
inductive Origin
  | full (cfg : ServerCfg) (cli : ClientScript) (sid : String) (o : Outcome) (adv : Decision)
         (h : serverFull cfg cli sid = .ok o adv)
  | resumed (cache : SC.Cache) (now : Nat) (sid : SC.Str) (want : Bool) (nonce : Nat) (ra : Bool)
         (c' : SC.Cache) (reply : SC.ResumeReply) (o : SC.ResumeOutcome)
         (h : SC.serverResume cache now sid want nonce ra = (c', reply, some o))

/-- the record `ServeConn` consults (`neg.Authentication`, `neg.Encryption`, `neg.User`) -/
def Origin.sess : Origin → Sess
  | .full _ _ _ o _ _ => ⟨o.reportedAuth, o.reportedEnc, o.user⟩
  | .resumed _ _ _ _ _ _ _ _ o _ => ⟨o.authenticated, o.encrypted, o.user⟩

/-- really authenticated: in THIS handshake one of the server's own listed methods ran to successful
    completion with the peer and yielded the session's identity — or the session resumed is a live
    cache entry that was established authenticated, whose identity is the one reported. -/
def Origin.reallyAuthenticated : Origin → Prop
  | .full cfg cli _ o _ _ => ∃ m ∈ cfg.methods, (m, true) ∈ o.ran ∧ cli.authOK m = some o.user
  | .resumed cache now sid _ _ _ _ _ o _ =>
      ∃ e, cache.get sid = some e ∧ e.expired now = false ∧ e.authenticated = true ∧ o.user = e.user

/-- really encrypted: a session key is installed on the stream (full handshake: `streamKey`, the
    model's ground truth; resumption: the key of the live cache entry — `C06.resumed_connection_protected`
    and `C03.*_traffic_protected` say what that means on the wire). -/
def Origin.reallyKeyed : Origin → Prop
  | .full _ _ _ o _ _ => ∃ k, o.streamKey = some k
  | .resumed cache _ sid _ _ _ _ _ o _ => ∃ k e, cache.get sid = some e ∧ e.key = some k ∧ o.key = some k

/-- the flags of the record are true only when the thing really happened -/
theorem origin_flags_real (og : Origin) :
    (og.sess.authenticated = true → og.reallyAuthenticated) ∧ (og.sess.encrypted = true → og.reallyKeyed) := by
  cases og with
  | full cfg cli sid o adv h =>
    obtain ⟨method, user, ran, key, _, hauth, _, rfl⟩ := C03.serverFull_ok h
    refine ⟨fun ha => ?_, fun he => ?_⟩
    · rcases serverAuthPhase_spec hauth with ⟨hf, _, _⟩ | ⟨_, hm, hin, hok, _, _⟩
      · simp only [Origin.sess] at ha; rw [hf] at ha; cases ha
      · exact ⟨method, hm, hin, hok⟩
    · simp only [Origin.sess] at he
      cases key with
      | none => simp at he
      | some k => exact ⟨k, rfl⟩
  | resumed cache now sid want nonce ra c' reply o h =>
    obtain ⟨e, hg, hx, hks, hok, _, hu, ha, _, _⟩ := C06.resume_needs_key cache now sid want nonce ra c' reply o h
    refine ⟨fun hauth => ⟨e, hg, hx, by rw [← ha]; exact hauth, hu⟩, fun _ => ?_⟩
    cases hk : e.key with
    | none => simp [hk] at hks
    | some k => exact ⟨k, e, hg, hk, by rw [hok, hk]⟩

/-- **dispatch_sound_real**: on a connection whose session came out of a server handshake (full or
    resumed), for every sequence of follow-on commands and keep-alive behaviours, a handler that runs
    is registered and not raw, and for that command's CURRENT policy `p`:
    authentication REQUIRED ⇒ a method really completed in that handshake with the identity the
    session carries (or the resumed entry was established authenticated);
    encryption or integrity REQUIRED ⇒ a session key is installed on the stream;
    and the identity is authorized for the command when an authorizer is configured. -/
theorem dispatch_sound_real (s : Server) (og : Origin) (keep : Nat → Bool) (rest : List Nat) (cmd c : Nat)
    (hran : Ev.ran c ∈ s.serveAuth og.sess keep cmd rest) :
    ∃ h, s.lookup c = some h ∧ h.raw = false ∧
      (∀ p, s.policyFor c = some p →
         (p.auth = lvlRequired → og.reallyAuthenticated) ∧
         ((p.enc = lvlRequired ∨ p.integ = lvlRequired) → og.reallyKeyed)) ∧
      s.authorizedFor c og.sess.user = true := by
  obtain ⟨h, hl, hr, hlv, haz⟩ := dispatch_sound s og.sess keep rest cmd c hran
  refine ⟨h, hl, hr, fun p hp => ?_, haz⟩
  rw [hp] at hlv
  obtain ⟨h1, h2⟩ := levelOK_meaning p _ _ hlv
  exact ⟨fun hq => (origin_flags_real og).1 (h1 hq), fun hq => (origin_flags_real og).2 (h2 hq)⟩

/-! Non-vacuity: a full handshake of a server with CLAIMTOBE against a client that really runs it,
    then commands 7, 8 (auth+enc REQUIRED), 7 — all run. -/
private def cliDemo : ClientScript :=
  { auth := lvlRequired, enc := lvlRequired, methods := ["CLAIMTOBE"], ciphers := ["AES"], key := .good 1,
    masks := [2], authOK := fun m => if m = "CLAIMTOBE" then some "alice" else none }
private def cfgDemo : ServerCfg :=
  { auth := lvlRequired, enc := lvlRequired, integ := lvlOptional, methods := ["CLAIMTOBE"], ciphers := ["AES"] }
private def outDemo : Outcome :=
  { reportedAuth := true, reportedEnc := true, reportedMethod := "CLAIMTOBE", user := "alice", sid := "sid",
    validCommands := "", streamKey := some (sharedKey 2 1), ran := [("CLAIMTOBE", true)] }
private theorem demoFull : serverFull cfgDemo cliDemo "sid" = .ok outDemo ⟨"CLAIMTOBE", "AES", true, true⟩ := by rfl
private def ogFull : Origin := .full cfgDemo cliDemo "sid" outDemo _ demoFull
private def ogResumed : Origin :=
  .resumed C06.cache0 1000 "s1".toList true 5 false (SC.serverResume C06.cache0 1000 "s1".toList true 5 false).1
    (.authorized 5) ⟨"alice", true, true, some 7⟩ (by rfl)
example : srv.serveAuth ogFull.sess (fun _ => true) 7 [8, 7] = [.ran 7, .ran 8, .ran 7, .closed] := by decide
example : srv.serveAuth ogResumed.sess (fun _ => true) 7 [8] = [.ran 7, .ran 8, .closed] := by decide

/-! ### all three handler outcomes (`KeepOpen()` included) -/

/-- with handlers that never return `KeepOpen()` the three-outcome loop is the two-outcome one -/
theorem serveAuthH_eq (s : Server) (sess : Sess) (res : Nat → HRes) (hno : ∀ c, res c ≠ .keepOpen) :
    ∀ (rest : List Nat) (cmd : Nat),
      s.serveAuthH sess res cmd rest = s.serveAuth sess (fun c => res c == .keepAlive) cmd rest := by
  intro rest
  induction rest with
  | nil =>
    intro cmd
    unfold Server.serveAuthH Server.serveAuth
    cases hl : s.lookup cmd with
    | none => rfl
    | some h =>
      simp only
      by_cases hr : h.raw = true
      · simp [hr]
      · by_cases hs : s.satisfies cmd sess = true
        · cases hres : res cmd with
          | keepOpen => exact absurd hres (hno cmd)
          | done => simp [hr, hs, hres]
          | keepAlive => simp [hr, hs, hres]
        · simp [hr, hs]
  | cons next rest' ih =>
    intro cmd
    unfold Server.serveAuthH Server.serveAuth
    cases hl : s.lookup cmd with
    | none => rfl
    | some h =>
      simp only
      by_cases hr : h.raw = true
      · simp [hr]
      · by_cases hs : s.satisfies cmd sess = true
        · cases hres : res cmd with
          | keepOpen => exact absurd hres (hno cmd)
          | done => simp [hr, hs, hres]
          | keepAlive => simp [hr, hs, hres, ih next]
        · simp [hr, hs]

/-- **dispatch_sound_H**: `dispatch_sound` for the three-outcome loop — whatever the handlers return
    (ownership transfer included), each handler invoked is registered, not raw, and the session met
    the command's level and authorization at the moment of dispatch. -/
theorem dispatch_sound_H (s : Server) (sess : Sess) (res : Nat → HRes) :
    ∀ (rest : List Nat) (cmd : Nat) (c : Nat), Ev.ran c ∈ s.serveAuthH sess res cmd rest →
      ∃ h, s.lookup c = some h ∧ h.raw = false ∧ s.satisfies c sess = true := by
  intro rest
  induction rest with
  | nil =>
    intro cmd c hmem
    unfold Server.serveAuthH at hmem
    cases hl : s.lookup cmd with
    | none => simp [hl] at hmem
    | some h =>
      simp only [hl] at hmem
      by_cases hr : h.raw = true
      · simp [hr] at hmem
      · have hr' : h.raw = false := by simpa using hr
        by_cases hs : s.satisfies cmd sess = true
        · have hc : c = cmd := by
            cases hres : res cmd <;> simp [hr', hs, hres] at hmem <;> exact hmem
          subst hc; exact ⟨h, hl, hr', hs⟩
        · simp [hr', hs] at hmem
  | cons next rest' ih =>
    intro cmd c hmem
    unfold Server.serveAuthH at hmem
    cases hl : s.lookup cmd with
    | none => simp [hl] at hmem
    | some h =>
      simp only [hl] at hmem
      by_cases hr : h.raw = true
      · simp [hr] at hmem
      · have hr' : h.raw = false := by simpa using hr
        by_cases hs : s.satisfies cmd sess = true
        · cases hres : res cmd with
          | keepOpen => simp [hr', hs, hres] at hmem; subst hmem; exact ⟨h, hl, hr', hs⟩
          | done => simp [hr', hs, hres] at hmem; subst hmem; exact ⟨h, hl, hr', hs⟩
          | keepAlive =>
            simp only [hr', hs, hres, Bool.false_eq_true, if_false, Bool.not_true, List.mem_cons, Ev.ran.injEq] at hmem
            rcases hmem with rfl | hmem
            · exact ⟨h, hl, hr', hs⟩
            · exact ih next c hmem
        · simp [hr', hs] at hmem

/-- **dispatch_ends**: how a dispatch ends, three-outcome loop: with the connection closed by the
    server — or, the one exception, with a handler that had passed every check returning
    `KeepOpen()` (it owns the connection from then on). -/
theorem dispatch_ends (s : Server) (sess : Sess) (res : Nat → HRes) :
    ∀ (rest : List Nat) (cmd : Nat),
      (s.serveAuthH sess res cmd rest).getLast? = some .closed ∨
      ∃ c, (s.serveAuthH sess res cmd rest).getLast? = some (.ran c) ∧ res c = .keepOpen := by
  intro rest
  induction rest with
  | nil =>
    intro cmd
    unfold Server.serveAuthH
    cases hl : s.lookup cmd with
    | none => left; rfl
    | some h =>
      simp only
      by_cases hr : h.raw = true
      · left; simp [hr]
      · by_cases hs : s.satisfies cmd sess = true
        · cases hres : res cmd with
          | keepOpen => right; exact ⟨cmd, by simp [hr, hs], hres⟩
          | done => left; simp [hr, hs]
          | keepAlive => left; simp [hr, hs]
        · left; simp [hr, hs]
  | cons next rest' ih =>
    intro cmd
    unfold Server.serveAuthH
    cases hl : s.lookup cmd with
    | none => left; rfl
    | some h =>
      simp only
      by_cases hr : h.raw = true
      · left; simp [hr]
      · by_cases hs : s.satisfies cmd sess = true
        · cases hres : res cmd with
          | keepOpen => right; exact ⟨cmd, by simp [hr, hs], hres⟩
          | done => left; simp [hr, hs]
          | keepAlive =>
            have hne : s.serveAuthH sess res next rest' ≠ [] := by
              unfold Server.serveAuthH
              repeat' split
              all_goals simp
            simp only [hr, hs, Bool.false_eq_true, if_false, Bool.not_true, List.getLast?_cons_of_ne_nil hne] 
            exact ih next
        · left; simp [hr, hs]

/-- a refusal closes in the three-outcome loop too -/
theorem refuse_closes_H (s : Server) (sess : Sess) (res : Nat → HRes) (cmd : Nat) (rest : List Nat)
    (h : s.lookup cmd = none ∨ (∃ hd, s.lookup cmd = some hd ∧ hd.raw = true) ∨ s.satisfies cmd sess = false) :
    s.serveAuthH sess res cmd rest = [.closed] := by
  unfold Server.serveAuthH
  rcases h with h | ⟨hd, h1, h2⟩ | h
  · simp [h]
  · simp [h1, h2]
  · cases hl : s.lookup cmd with
    | none => rfl
    | some hd =>
      simp only
      by_cases hr : hd.raw = true
      · simp [hr]
      · simp [hr, h]

example : srv.serveAuthH ⟨true, true, "alice"⟩ (fun c => if c = 8 then .keepOpen else .keepAlive) 7 [8, 7] = [.ran 7, .ran 8] := by decide
example : srv.serveAuthH ⟨false, true, "bob"⟩ (fun _ => .keepOpen) 8 [] = [.closed] := by decide
example : srv.serveRawH (fun _ => .keepOpen) 9 = [.ran 9] ∧ srv.serveRawH (fun _ => .keepOpen) 7 = [.closed] := by decide


/-! ### reconfiguration DURING a connection

`dispatch_sound` fixes the server for the whole connection.  A kept-alive connection can outlive a
reconfiguration (a level raised, a permission revoked); the property speaks of the command's CURRENT
policy, so each follow-on command must be judged by the server in force when it arrives —
a verdict reached earlier on the same connection must not be remembered.  `serveAuthSw s1 s2 … n`
is the loop whose first `n` commands arrive under `s1` and the rest under `s2`.
`switch_before_step`: a command run before the switch is the one that arrived, met `s1`, and the
remainder of the run is the loop for the remaining commands with one fewer before the switch;
`switch_after`: everything run from the switch on meets `s2` (whatever ran before);
`switch_none`: with `s1 = s2` the loop is `serveAuth`. -/

theorem switch_none (s : Server) (sess : Sess) (keep : Nat → Bool) :
    ∀ (n cmd : Nat) (rest : List Nat), serveAuthSw s s sess keep n cmd rest = s.serveAuth sess keep cmd rest := by
  intro n
  induction n with
  | zero => intro cmd rest; rfl
  | succ n ih =>
    intro cmd rest
    unfold serveAuthSw Server.serveAuth
    cases rest with
    | nil => rfl
    | cons next rest' => (simp only [ih]; try rfl)

theorem switch_after (s1 s2 : Server) (sess : Sess) (keep : Nat → Bool) (cmd : Nat) (rest : List Nat) (c : Nat)
    (h : Ev.ran c ∈ serveAuthSw s1 s2 sess keep 0 cmd rest) :
    ∃ hd, s2.lookup c = some hd ∧ hd.raw = false ∧
      levelOK (s2.policyFor c) sess.authenticated sess.encrypted = true ∧ s2.authorizedFor c sess.user = true :=
  dispatch_sound s2 sess keep rest cmd c h

theorem switch_before_step (s1 s2 : Server) (sess : Sess) (keep : Nat → Bool) (n cmd : Nat) (rest : List Nat)
    (c : Nat) (tl : List Ev) (h : serveAuthSw s1 s2 sess keep (n+1) cmd rest = Ev.ran c :: tl) :
    c = cmd ∧
    (∃ hd, s1.lookup c = some hd ∧ hd.raw = false ∧ s1.satisfies c sess = true) ∧
    (tl = [.closed] ∨ ∃ next rest', rest = next :: rest' ∧ tl = serveAuthSw s1 s2 sess keep n next rest') := by
  unfold serveAuthSw at h
  cases hl : s1.lookup cmd with
  | none => simp [hl] at h
  | some hd =>
    simp only [hl] at h
    by_cases hr : hd.raw = true
    · simp [hr] at h
    · have hr' : hd.raw = false := by simpa using hr
      by_cases hs : s1.satisfies cmd sess = true
      · simp only [hr', Bool.false_eq_true, if_false, hs, Bool.not_true] at h
        by_cases hk : keep cmd = true
        · simp only [hk, Bool.not_true, Bool.false_eq_true, if_false] at h
          cases rest with
          | nil =>
            simp only [List.cons.injEq, Ev.ran.injEq] at h
            obtain ⟨hc, ht⟩ := h
            subst hc
            exact ⟨rfl, ⟨hd, hl, hr', hs⟩, Or.inl ht.symm⟩
          | cons next rest' =>
            simp only [List.cons.injEq, Ev.ran.injEq] at h
            obtain ⟨hc, ht⟩ := h
            subst hc
            exact ⟨rfl, ⟨hd, hl, hr', hs⟩, Or.inr ⟨next, rest', rfl, ht.symm⟩⟩
        · have hk' : keep cmd = false := by simpa using hk
          simp only [hk', Bool.not_false, if_true, List.cons.injEq, Ev.ran.injEq] at h
          obtain ⟨hc, ht⟩ := h
          subst hc
          exact ⟨rfl, ⟨hd, hl, hr', hs⟩, Or.inl ht.symm⟩
      · have hs' : s1.satisfies cmd sess = false := by simpa using hs
        simp [hr', hs'] at h

example : serveAuthSw srv { srv with authorizer := some (fun _ _ => false) } ⟨true, true, "alice"⟩ (fun _ => true) 2 7 [8, 7, 7]
    = [.ran 7, .ran 8, .closed] ∧
    serveAuthSw srv srv ⟨true, true, "alice"⟩ (fun _ => true) 2 7 [8, 7, 7] = [.ran 7, .ran 8, .ran 7, .ran 7, .closed] := by decide


/-- **switch_late**: a reconfiguration that takes effect only after the last command of the connection
    has arrived changes nothing: the run is `s1`'s. -/
theorem switch_late (s1 s2 : Server) (sess : Sess) (keep : Nat → Bool) :
    ∀ (n cmd : Nat) (rest : List Nat), rest.length < n →
      serveAuthSw s1 s2 sess keep n cmd rest = s1.serveAuth sess keep cmd rest := by
  intro n
  induction n with
  | zero => intro cmd rest h; omega
  | succ n ih =>
    intro cmd rest h
    unfold serveAuthSw Server.serveAuth
    cases rest with
    | nil => rfl
    | cons next rest' =>
      have h' : rest'.length < n := by simp at h; omega
      simp only [ih next rest' h']

/-- **switch_sound**: whatever the moment of the switch, every handler that runs is admitted by one of
    the two configurations (`switch_before_step` / `switch_after` say which one). -/
theorem switch_sound (s1 s2 : Server) (sess : Sess) (keep : Nat → Bool) :
    ∀ (n cmd : Nat) (rest : List Nat) (c : Nat), Ev.ran c ∈ serveAuthSw s1 s2 sess keep n cmd rest →
      (∃ hd, s1.lookup c = some hd ∧ hd.raw = false ∧ s1.satisfies c sess = true) ∨
      (∃ hd, s2.lookup c = some hd ∧ hd.raw = false ∧
        levelOK (s2.policyFor c) sess.authenticated sess.encrypted = true ∧ s2.authorizedFor c sess.user = true) := by
  intro n
  induction n with
  | zero => intro cmd rest c h; exact Or.inr (switch_after s1 s2 sess keep cmd rest c h)
  | succ n ih =>
    intro cmd rest c h
    generalize hrun : serveAuthSw s1 s2 sess keep (n+1) cmd rest = run at h
    cases run with
    | nil => simp at h
    | cons ev tl =>
      cases ev with
      | closed =>
        -- a run that starts with `closed` is `[closed]`
        unfold serveAuthSw at hrun
        cases hl : s1.lookup cmd with
        | none => simp [hl] at hrun; subst hrun; simp at h
        | some hd =>
          simp only [hl] at hrun
          by_cases hr : hd.raw = true
          · simp [hr] at hrun; subst hrun; simp at h
          · have hr' : hd.raw = false := by simpa using hr
            by_cases hs : s1.satisfies cmd sess = true
            · simp only [hr', Bool.false_eq_true, if_false, hs, Bool.not_true] at hrun
              by_cases hk : keep cmd = true
              · simp only [hk, Bool.not_true, Bool.false_eq_true, if_false] at hrun
                cases rest <;> simp at hrun
              · have hk' : keep cmd = false := by simpa using hk
                simp [hk'] at hrun
            · have hs' : s1.satisfies cmd sess = false := by simpa using hs
              simp [hr', hs'] at hrun; subst hrun; simp at h
      | ran c' =>
        obtain ⟨hc, hadm, htl⟩ := switch_before_step s1 s2 sess keep n cmd rest c' tl hrun
        simp only [List.mem_cons, Ev.ran.injEq] at h
        rcases h with h | h
        · subst h; exact Or.inl hadm
        · rcases htl with htl | ⟨next, rest', _, htl⟩
          · subst htl; simp at h
          · subst htl; exact ih next rest' c h

end Cedar.C05
