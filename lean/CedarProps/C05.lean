/-
  C05 — The server runs a command only on a session that meets that command's policy.
  The session flags are the handshake's reported outcome; C03 (`*_reported_*_is_real`,
  `*_required_*`) and C06 (`resume_needs_key`) show they equal the connection's real state.
-/
import CedarModel.Dispatch
import CedarProofs.DecisionsTie

namespace Cedar.C05
open Cedar Cedar.HS Cedar.Disp

/-- **dispatch_sound**: on one connection, for every sequence of follow-on commands and every
    keep-alive behaviour of the handlers, each handler the authenticated path invokes is registered,
    is not raw, and the session meets that command's CURRENT security level (authentication
    REQUIRED ⇒ authenticated; encryption or integrity REQUIRED ⇒ encrypted) and — when an
    authorizer is configured — the session's identity is currently authorized at one of the
    command's levels. -/
theorem dispatch_sound (s : Server) (sess : Sess) (keep : Nat → Bool) :
    ∀ (rest : List Nat) (cmd : Nat) (c : Nat), Ev.ran c ∈ s.serveAuth sess keep cmd rest →
      ∃ h, s.lookup c = some h ∧ h.raw = false ∧
           levelOK (s.policyFor c) sess.authenticated sess.encrypted = true ∧
           s.authorizedFor c sess.user = true := by
  intro rest
  induction rest with
  | nil =>
    intro cmd c hmem
    unfold Server.serveAuth at hmem
    cases hl : s.lookup cmd with
    | none => simp [hl] at hmem
    | some h =>
      simp only [hl] at hmem
      by_cases hr : h.raw = true
      · simp [hr] at hmem
      · by_cases hs : s.satisfies cmd sess = true
        · have hr' : h.raw = false := by simpa using hr
          simp only [hr', Bool.false_eq_true, if_false, hs, Bool.not_true] at hmem
          have hc : c = cmd := by
            by_cases hk : keep cmd = true <;> simp [hk] at hmem <;> exact hmem
          subst hc
          unfold Server.satisfies at hs
          simp only [Bool.and_eq_true] at hs
          exact ⟨h, hl, hr', hs.1, hs.2⟩
        · have hr' : h.raw = false := by simpa using hr
          simp [hr', hs] at hmem
  | cons next rest' ih =>
    intro cmd c hmem
    unfold Server.serveAuth at hmem
    cases hl : s.lookup cmd with
    | none => simp [hl] at hmem
    | some h =>
      simp only [hl] at hmem
      by_cases hr : h.raw = true
      · simp [hr] at hmem
      · have hr' : h.raw = false := by simpa using hr
        by_cases hs : s.satisfies cmd sess = true
        · simp only [hr', Bool.false_eq_true, if_false, hs, Bool.not_true] at hmem
          have here : ∃ h, s.lookup cmd = some h ∧ h.raw = false ∧
              levelOK (s.policyFor cmd) sess.authenticated sess.encrypted = true ∧
              s.authorizedFor cmd sess.user = true := by
            unfold Server.satisfies at hs
            simp only [Bool.and_eq_true] at hs
            exact ⟨h, hl, hr', hs.1, hs.2⟩
          by_cases hk : keep cmd = true
          · simp only [hk, Bool.not_true, Bool.false_eq_true, if_false, List.mem_cons, Ev.ran.injEq] at hmem
            rcases hmem with rfl | hmem
            · exact here
            · exact ih next c hmem
          · simp only [hk, Bool.not_false, if_true, List.mem_cons, Ev.ran.injEq, List.mem_nil_iff, or_false] at hmem
            rcases hmem with rfl | hmem
            · exact here
            · cases hmem
        · simp [hr', hs] at hmem

/-- what `levelOK` means -/
theorem levelOK_meaning (p : Policy) (a e : Bool) (h : levelOK (some p) a e = true) :
    (p.auth = lvlRequired → a = true) ∧ ((p.enc = lvlRequired ∨ p.integ = lvlRequired) → e = true) := by
  unfold levelOK at h
  simp only at h
  constructor
  · intro hp
    by_cases ha : a = true
    · exact ha
    · have : a = false := by simpa using ha
      simp [hp, this] at h
  · intro hp
    by_cases he : e = true
    · exact he
    · have he' : e = false := by simpa using he
      by_cases h1 : p.auth = lvlRequired ∧ a = false
      · simp [h1] at h
      · simp [h1, hp, he'] at h

/-- **raw_auth_separation**: the raw path invokes only raw handlers, the authenticated path only
    non-raw ones. -/
theorem raw_path_only_raw (s : Server) (cmd c : Nat) (h : Ev.ran c ∈ s.serveRaw cmd) :
    ∃ hd, s.lookup c = some hd ∧ hd.raw = true := by
  unfold Server.serveRaw at h
  cases hl : s.lookup cmd with
  | none => simp [hl] at h
  | some hd =>
    simp only [hl] at h
    by_cases hr : hd.raw = true
    · simp only [hr, if_true, List.mem_cons, Ev.ran.injEq, List.mem_nil_iff, or_false] at h
      rcases h with rfl | h
      · exact ⟨hd, hl, hr⟩
      · cases h
    · simp [hr] at h

theorem auth_path_never_raw (s : Server) (sess : Sess) (keep : Nat → Bool) (rest : List Nat) (cmd c : Nat)
    (h : Ev.ran c ∈ s.serveAuth sess keep cmd rest) : ∃ hd, s.lookup c = some hd ∧ hd.raw = false := by
  obtain ⟨hd, h1, h2, _, _⟩ := dispatch_sound s sess keep rest cmd c h
  exact ⟨hd, h1, h2⟩

/-- **refuse_closes**: an unknown, raw-on-the-authenticated-path or refused command runs no handler
    and closes the connection; every dispatch ends with the connection closed. -/
theorem refuse_closes (s : Server) (sess : Sess) (keep : Nat → Bool) (cmd : Nat) (rest : List Nat)
    (h : s.lookup cmd = none ∨ (∃ hd, s.lookup cmd = some hd ∧ hd.raw = true) ∨ s.satisfies cmd sess = false) :
    s.serveAuth sess keep cmd rest = [.closed] := by
  unfold Server.serveAuth
  rcases h with h | ⟨hd, h1, h2⟩ | h
  · simp [h]
  · simp [h1, h2]
  · cases hl : s.lookup cmd with
    | none => rfl
    | some hd =>
      simp only
      by_cases hr : hd.raw = true
      · simp [hr]
      · simp [hr, h]

theorem raw_refuse_closes (s : Server) (cmd : Nat)
    (h : s.lookup cmd = none ∨ (∃ hd, s.lookup cmd = some hd ∧ hd.raw = false)) : s.serveRaw cmd = [.closed] := by
  unfold Server.serveRaw
  rcases h with h | ⟨hd, h1, h2⟩
  · simp [h]
  · simp [h1, h2]

/-- **valid_commands_sound**: the commands advertised after authentication are only commands the
    session could run right now under the dispatch-time check: registered, not raw, the command's
    current level met by the session, AND the session's identity authorized at one of the command's
    levels by the current authorizer (nothing is advertised without an authorizer; a command
    registered with no level is never advertised). -/
theorem valid_commands_sound (s : Server) (sess : Sess) (c : Nat) (h : c ∈ s.validCommands sess) :
    ∃ hd a, (c, hd) ∈ s.handlers ∧ hd.raw = false ∧
          levelOK (s.policyFor c) sess.authenticated sess.encrypted = true ∧
          s.authorizer = some a ∧ hd.perms.any (fun perm => a perm sess.user) = true := by
  unfold Server.validCommands at h
  cases ha : s.authorizer with
  | none => simp [ha] at h
  | some a =>
    simp only [ha, List.mem_map, List.mem_filter] at h
    obtain ⟨⟨c', hd⟩, ⟨hmem, hcond⟩, rfl⟩ := h
    simp only [Bool.and_eq_true, Bool.not_eq_true'] at hcond
    exact ⟨hd, a, hmem, hcond.1.1.1, hcond.1.2, rfl, hcond.2⟩

/-- **valid_commands_dispatchable**: when the handler table is a map (the entry advertised is the
    one `lookup` finds — `Handle` replaces, never duplicates), every advertised command passes the
    very check the dispatch loop applies (`sessionSatisfies`): the advertisement is never broader
    than what the session can run now. -/
theorem valid_commands_dispatchable (s : Server) (sess : Sess) (c : Nat) (h : c ∈ s.validCommands sess)
    (hmap : ∀ hd, (c, hd) ∈ s.handlers → s.lookup c = some hd) :
    s.satisfies c sess = true := by
  obtain ⟨hd, a, hmem, _, hlv, haz, hany⟩ := valid_commands_sound s sess c h
  unfold Server.satisfies Server.authorizedFor
  rw [hlv, haz, hmap hd hmem]
  simpa using hany

/-- **no_level_never_authorized**: with an authorizer configured, a command registered with no
    permission level is refused for every identity (there is no level the identity could hold). -/
theorem no_level_never_authorized (s : Server) (a : String → String → Bool) (c : Nat) (hd : Handler) (sess : Sess)
    (ha : s.authorizer = some a) (hl : s.lookup c = some hd) (hp : hd.perms = []) :
    s.satisfies c sess = false := by
  unfold Server.satisfies Server.authorizedFor
  simp [ha, hl, hp]

/-- **levelOK_is_the_code** (tie T): the level test every theorem above uses, `levelOK`, IS the code
    of `server.commandLevelSatisfied` once the applicable policy object has been selected — for ALL
    level strings and both session flags it equals `CedarGen.Decisions.commandLevelSatisfied`, which
    `tools/gen` (trans.go) translates statement by statement from the Go source on every run. -/
theorem levelOK_is_the_code (p : Policy) (authenticated encrypted : Bool) :
    levelOK (some p) authenticated encrypted =
      CedarGen.Decisions.commandLevelSatisfied p.auth p.enc p.integ authenticated encrypted :=
  Cedar.Tie.levelOK_eq_gen p authenticated encrypted

example : CedarGen.Decisions.commandLevelSatisfied "REQUIRED" "OPTIONAL" "REQUIRED" true false = false := by decide
example : CedarGen.Decisions.commandLevelSatisfied "" "PREFERRED" "" false false = true := by decide

/-! Non-vacuity (tests). -/
def srv : Server :=
  { handlers := [(7, ⟨false, ["READ"]⟩), (8, ⟨false, ["DAEMON"]⟩), (9, ⟨true, []⟩)],
    policyFor := fun c => if c = 8 then some ⟨lvlRequired, lvlRequired, lvlOptional⟩ else some ⟨lvlOptional, lvlOptional, lvlOptional⟩,
    authorizer := some (fun perm user => perm == "READ" || (perm == "DAEMON" && user == "alice")) }
example : srv.serveAuth ⟨true, true, "alice"⟩ (fun _ => true) 7 [8, 7] = [.ran 7, .ran 8, .ran 7, .closed] := by decide
example : srv.serveAuth ⟨false, true, "bob"⟩ (fun _ => true) 7 [8, 7] = [.ran 7, .closed] := by decide
example : srv.serveAuth ⟨true, false, "alice"⟩ (fun _ => true) 7 [8] = [.ran 7, .closed] := by decide
example : srv.serveAuth ⟨true, true, "alice"⟩ (fun _ => true) 9 [] = [.closed] := by decide
example : srv.serveRaw 7 = [.closed] ∧ srv.serveRaw 9 = [.ran 9, .closed] := by decide

end Cedar.C05
