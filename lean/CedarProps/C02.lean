/-
  C02 — An encrypted stream delivers only an authentic, in-order prefix of what was sent.
  Property theorems only; helper lemmas live in CedarProofs/Prefix.lean.
-/
import CedarProofs.Prefix

namespace Cedar.C02

open Cedar

/-- The on-path adversary (Dolev–Yao, DESIGN §3): the wire the receiver sees is *any* list of
    frames with arbitrary headers whose bodies are arbitrary bytes or seals that occur in frames
    the sender emitted (IV prefix kept, stripped or replaced) — i.e. frames may be dropped,
    duplicated, reordered, replayed, truncated, bit-flipped (⇒ junk), forged (⇒ junk, including
    empty frames) or re-headed. It cannot make a seal under the session key itself. -/
def AdvWire (k : Nat) (sent w : List WireFrame) : Prop :=
  ∀ g ∈ w, match g.body with
    | .raw _ => True
    | .ct ivo c => (∀ i, ivo = some i → i.w0 < 2^32) ∧
                   (c.key = k → ∃ f ∈ sent, ∃ ivo', f.body = .ct ivo' c)

theorem advWire_advFrame {k iv dg c0 items sent w}
    (hsent : sent = framesFrom k iv dg c0 items) (h : AdvWire k sent w) :
    ∀ g ∈ w, AdvFrame k iv dg c0 items g := by
  intro g hg
  have := h g hg
  unfold AdvFrame
  cases hb : g.body with
  | raw b => trivial
  | ct ivo c =>
    simp only [hb] at this ⊢
    refine ⟨this.1, fun hk => ?_⟩
    obtain ⟨f, hf, ivo', hfb⟩ := this.2 hk
    rw [hsent] at hf
    obtain ⟨j, it, hj, hfe⟩ := mem_framesFrom items c0 f hf
    refine ⟨j, it, hj, ?_⟩
    rw [hfe] at hfb
    simp only [frameAt, Body.ct.injEq] at hfb
    exact hfb.2.symm

/-- **recv_prefix** (fresh session). Two endpoints install the same key; the sender's application
    performs any sequence of frame sends `ops` that the sender accepts; the adversary rewrites the
    wire arbitrarily within `AdvWire`. Whatever `ReceiveCompleteMessage` hands the receiving
    application before its first error is a prefix of the messages sent, boundaries intact. -/
theorem recv_prefix (S S' R : Stream) (k : Nat) (ivS ivR : IV) (ops : List SendOp)
    (sent w : List WireFrame) (hivS : ivS.w0 < 2^32)
    (hsend : (S.setKey k ivS).sendAll ops = .ok (S', sent))
    (hadv : AdvWire k sent w) (n : Nat) :
    Stream.deliverFuel n (R.setKey k ivR) w <+: messagesOf [] ops := by
  obtain ⟨items, hsent, hops, hlim, _, _⟩ :=
    sendAll_spec ops _ S' 0 sent (setKey_sendInv S k ivS) hsend
  have hr : RecvInv (R.setKey k ivR) k ivS 0 0 :=
    ⟨rfl, rfl, rfl, by simp [Stream.setKey], fun h => absurd rfl h⟩
  have := deliver_prefix (dg := (S.dig.fs, S.dig.fr)) hivS hlim n (R.setKey k ivR) w 0 (Nat.zero_le _) hr
    (advWire_advFrame hsent hadv)
  simpa [hops] using this

/-- **recv_prefix_midstream**: the same for an established session picked up at any counter value
    (after earlier traffic, or after a crypto-state hand-off, C15): the receiver delivers a prefix
    of what is sent from here on. -/
theorem recv_prefix_midstream (S S' R : Stream) (k : Nat) (iv : IV) (dg : Digest × Digest) (c0 : Nat)
    (ops : List SendOp) (sent w : List WireFrame) (hiv : iv.w0 < 2^32)
    (hS : SendInv S k iv dg c0) (hR : RecvInv R k iv c0 0)
    (hsend : S.sendAll ops = .ok (S', sent))
    (hadv : AdvWire k sent w) (n : Nat) :
    Stream.deliverFuel n R w <+: messagesOf [] ops := by
  obtain ⟨items, hsent, hops, hlim, _, _⟩ := sendAll_spec ops S S' c0 sent hS hsend
  have := deliver_prefix (dg := dg) hiv hlim n R w 0 (Nat.zero_le _) hR (advWire_advFrame hsent hadv)
  simpa [hops] using this

/-- **no_bypass**: on a keyed, encrypting stream every frame `ReceiveFrameWithEnd` accepts went
    through `decryptDataWithAAD` — there is no length class (empty frames included) that is
    returned without authentication. -/
theorem no_bypass (r r' : Stream) (k : Nat) (g : WireFrame) (d : Bytes) (fl : Nat)
    (hk : r.key = some k) (he : r.encrypted = true)
    (h : r.recvFrameWithEnd g = .ok (r', d, fl)) :
    ∃ iv, r.openBody k g = .ok (iv, d) := by
  unfold Stream.recvFrameWithEnd at h
  split at h
  · cases h
  · split at h
    · simp [Stream.crypting, hk, he] at h
    · simp only [hk, he] at h
      split at h
      · cases h
      · rename_i iv p hopen
        simp only [Except.ok.injEq, Prod.mk.injEq] at h
        exact ⟨iv, by rw [hopen, h.2.1]⟩

/-- the plain `ReceiveFrame` path (GetSecret, GetFile) has no bypass either -/
theorem no_bypass_recvFrame (r r' : Stream) (k : Nat) (g : WireFrame) (d : Bytes)
    (hk : r.key = some k) (he : r.encrypted = true)
    (h : r.recvFrame g = .ok (r', d)) :
    ∃ iv, r.openBody k g = .ok (iv, d) := by
  unfold Stream.recvFrame at h
  split at h
  · cases h
  · split at h
    · simp [Stream.crypting, hk, he] at h
    · simp only [hk, he] at h
      split at h
      · cases h
      · rename_i iv p hopen
        simp only [Except.ok.injEq, Prod.mk.injEq] at h
        exact ⟨iv, by rw [hopen, h.2]⟩

/-! Non-vacuity: a concrete two-message exchange meets the hypotheses and is delivered in full;
    with the middle frame dropped only the first message arrives. (These are tests, not the claim.) -/
def ivA : IV := ⟨0xfffffffe, [1,2,3,4,5,6,7,8,9,10,11,12]⟩
def demoOps : List SendOp := [([1,2], 0), ([3], 1), ([], 1), ([9,9], 1)]
def demoSent : List WireFrame :=
  match ((({} : Stream).setKey 7 ivA).sendAll demoOps) with
  | .ok (_, fs) => fs
  | .error _ => []

example : demoSent.length = 4 := by decide
example : Stream.deliver (({} : Stream).setKey 7 ⟨5, []⟩) demoSent = [[1,2,3], [], [9,9]] := by decide
example : Stream.deliver (({} : Stream).setKey 7 ⟨5, []⟩) (demoSent.eraseIdx 1) = [] := by decide
example : Stream.deliver (({} : Stream).setKey 7 ⟨5, []⟩) (demoSent.eraseIdx 2) = [[1,2,3]] := by decide
example : Stream.deliver (({} : Stream).setKey 7 ⟨5, []⟩) (demoSent ++ [⟨1, 0, .raw []⟩]) = [[1,2,3], [], [9,9]] := by decide

end Cedar.C02
