/-
  C02 — An encrypted stream delivers only an authentic, in-order prefix of what was sent.
  Property theorems only; helper lemmas live in CedarProofs/Prefix.lean.
-/
import CedarProofs.Prefix
import CedarProofs.IncrPrefix
import CedarProofs.TypedPrefix
import CedarProofs.PrefixOld

namespace Cedar.C02

open Cedar

/-- The on-path adversary (Dolev–Yao, DESIGN §3): the wire the receiver sees is *any* list of
    frames with arbitrary headers whose bodies are arbitrary bytes or seals under the session key
    that occur in frames the sender emitted (`sent`) **or in frames the receiving endpoint itself
    emitted in the other direction (`own`: reflection)**, IV prefix kept, stripped or replaced —
    i.e. frames may be dropped, duplicated, reordered, replayed, truncated, bit-flipped (⇒ junk),
    forged (⇒ junk, including empty frames), re-headed or reflected. It cannot make a seal under the
    session key itself; the two endpoints are the only holders of the key. -/
def AdvWire (k : Nat) (sent own w : List WireFrame) : Prop :=
  ∀ g ∈ w, match g.body with
    | .raw _ => True
    | .ct ivo c => (∀ i, ivo = some i → i.w0 < 2^32) ∧
                   (c.key = k → (∃ f ∈ sent, ∃ ivo', f.body = .ct ivo' c) ∨
                                (∃ f ∈ own, ∃ ivo', f.body = .ct ivo' c))

/-- a seal of the other direction is `Foreign` to this one: its nonce has another IV tail, and if
    it carries digests (a first frame) its nonce is that direction's own base IV -/
theorem own_is_foreign {k : Nat} {ivS ivR : IV} {dgR : Digest × Digest} {cR : Nat} {itemsR : List Item}
    (hsep : ivS.tail ≠ ivR.tail)
    {f : WireFrame} (hf : f ∈ framesFrom k ivR dgR cR itemsR) {ivo : Option IV} {c : Sealed}
    (hb : f.body = .ct ivo c) : Foreign ivS ivR c := by
  obtain ⟨j, it, _, hfe⟩ := mem_framesFrom itemsR cR f hf
  rw [hfe] at hb
  simp only [frameAt, Body.ct.injEq] at hb
  rw [← hb.2]
  refine ⟨fun a h => ?_, ?_⟩
  · simp only [sealedAt, IV.nonce, IV.mk.injEq] at h
    exact hsep h.2.symm
  · simp only [sealedAt]
    by_cases hz : cR + j = 0
    · intro _; rw [hz]
    · rw [if_neg hz]; intro h; exact absurd rfl h

theorem advWire_advFrame {k iv ivR dg dgR c0 cR items itemsR sent own w}
    (hsep : iv.tail ≠ ivR.tail)
    (hsent : sent = framesFrom k iv dg c0 items) (hown : own = framesFrom k ivR dgR cR itemsR)
    (h : AdvWire k sent own w) :
    ∀ g ∈ w, AdvFrame k iv dg ivR c0 items g := by
  intro g hg
  have := h g hg
  unfold AdvFrame
  cases hb : g.body with
  | raw b => trivial
  | ct ivo c =>
    simp only [hb] at this ⊢
    refine ⟨this.1, fun hk => ?_⟩
    rcases this.2 hk with ⟨f, hf, ivo', hfb⟩ | ⟨f, hf, ivo', hfb⟩
    · left
      rw [hsent] at hf
      obtain ⟨j, it, hj, hfe⟩ := mem_framesFrom items c0 f hf
      refine ⟨j, it, hj, ?_⟩
      rw [hfe] at hfb
      simp only [frameAt, Body.ct.injEq] at hfb
      exact hfb.2.symm
    · right
      rw [hown] at hf
      exact own_is_foreign hsep hf hfb

/-- **recv_prefix** (fresh session). Two endpoints install the same key with their own fresh IVs;
    the sender's application performs any sequence of frame sends `ops` that the sender accepts,
    the receiving endpoint itself sends any `opsR` in the other direction; the adversary rewrites
    the wire arbitrarily within `AdvWire` (its own bytes, the sender's seals, the receiver's own
    seals reflected). Whatever `ReceiveCompleteMessage` hands the receiving application before its
    first error is a prefix of the messages sent, boundaries intact.
    The one hypothesis about the session: the two fresh IVs differ in their last 12 bytes (`hsep`:
    two independent `crypto/rand` draws). No hypothesis on the transcript digests is needed: a
    reflected first frame announces the receiver's own base IV, which it refuses (fix D16). -/
theorem recv_prefix (S S' R R' : Stream) (k : Nat) (ivS ivR : IV) (ops opsR : List SendOp)
    (sent own w : List WireFrame) (hivS : ivS.w0 < 2^32) (hivR : ivR.w0 < 2^32)
    (hsep : ivS.tail ≠ ivR.tail)
    (hsend : (S.setKey k ivS).sendAll ops = .ok (S', sent))
    (hown : (R.setKey k ivR).sendAll opsR = .ok (R', own))
    (hadv : AdvWire k sent own w) (n : Nat) :
    Stream.deliverFuel n (R.setKey k ivR) w <+: messagesOf [] ops := by
  obtain ⟨items, hsent, hops, hlim, _, _⟩ :=
    sendAll_spec ops _ S' 0 sent (setKey_sendInv S k ivS) hsend
  obtain ⟨itemsR, hownE, _, _, _, _⟩ :=
    sendAll_spec opsR _ R' 0 own (setKey_sendInv R k ivR) hown
  have hr : RecvInv (R.setKey k ivR) k ivS 0 0 :=
    ⟨rfl, rfl, rfl, by simp [Stream.setKey], fun h => absurd rfl h⟩
  have := deliver_prefix (dg := (S.dig.fs, S.dig.fr)) (ownIV := ivR) hivS hlim n
    (R.setKey k ivR) w 0 (Nat.zero_le _) hr (fun _ => ⟨rfl, hivR⟩)
    (advWire_advFrame (dgR := (R.dig.fs, R.dig.fr)) hsep hsent hownE hadv)
  simpa [hops] using this

/-- **recv_prefix_midstream**: the same for an established session picked up at any counter values
    (after earlier traffic, or after a crypto-state hand-off, C15): the receiver delivers a prefix
    of what is sent from here on, whatever is replayed, forged or reflected. -/
theorem recv_prefix_midstream (S S' R R' : Stream) (k : Nat) (iv ivR : IV) (dg dgR : Digest × Digest) (c0 cR : Nat)
    (ops opsR : List SendOp) (sent own w : List WireFrame) (hiv : iv.w0 < 2^32) (hivR : ivR.w0 < 2^32)
    (hsep : iv.tail ≠ ivR.tail)
    (hS : SendInv S k iv dg c0) (hR : RecvInv R k iv c0 0) (hRs : SendInv R k ivR dgR cR)
    (hsend : S.sendAll ops = .ok (S', sent)) (hown : R.sendAll opsR = .ok (R', own))
    (hadv : AdvWire k sent own w) (n : Nat) :
    Stream.deliverFuel n R w <+: messagesOf [] ops := by
  obtain ⟨items, hsent, hops, hlim, _, _⟩ := sendAll_spec ops S S' c0 sent hS hsend
  obtain ⟨itemsR, hownE, _, _, _, _⟩ := sendAll_spec opsR R R' cR own hRs hown
  have := deliver_prefix (dg := dg) (ownIV := ivR) hiv hlim n R w 0 (Nat.zero_le _) hR (fun _ => ⟨hRs.iv, hivR⟩)
    (advWire_advFrame hsep hsent hownE hadv)
  simpa [hops] using this

theorem items_flags {items : List Item} {ops : List SendOp} (hops : items.map Item.op = ops)
    (hfl : ∀ op ∈ ops, op.2 ≤ 1) : ∀ it ∈ items, it.flag ≤ 1 := by
  intro it hit
  have : it.op ∈ ops := by rw [← hops]; exact List.mem_map_of_mem hit
  exact hfl _ this

/-- **recv_prefix_incremental**: the prefix guarantee for the OTHER message-level receive path —
    `StartMessageRead` (→ `readNextFrame`), `ReadMessageBytes(chunk)` until it reports end-of-message,
    `EndMessageRead` — for every chunk size, every send history whose end flags are the ones the
    sending API can produce (0/1), and every Dolev–Yao rewriting of the wire: what the application
    is handed before the first error is a prefix of the messages sent, boundaries intact. In
    particular a wire that ends (or is cut) inside a multi-frame message yields an error, never the
    truncated message. The receiving stream starts outside a message with an empty receive buffer. -/
theorem recv_prefix_incremental (S S' R R' : Stream) (k : Nat) (ivS ivR : IV) (ops opsR : List SendOp)
    (sent own w : List WireFrame) (hivS : ivS.w0 < 2^32) (hivR : ivR.w0 < 2^32)
    (hsep : ivS.tail ≠ ivR.tail) (hfl : ∀ op ∈ ops, op.2 ≤ 1)
    (hclean : R.inMessage = false) (hbuf : R.recvBuf = [])
    (hsend : (S.setKey k ivS).sendAll ops = .ok (S', sent))
    (hown : (R.setKey k ivR).sendAll opsR = .ok (R', own))
    (hadv : AdvWire k sent own w) (chunk : Nat) (hchunk : 0 < chunk) (fuel : Nat) :
    Stream.deliverIncFuel fuel chunk (R.setKey k ivR) w <+: messagesOf [] ops := by
  obtain ⟨items, hsent, hops, hlim, _, _⟩ :=
    sendAll_spec ops _ S' 0 sent (setKey_sendInv S k ivS) hsend
  obtain ⟨itemsR, hownE, _, _, _, _⟩ :=
    sendAll_spec opsR _ R' 0 own (setKey_sendInv R k ivR) hown
  have hr : RecvInv (R.setKey k ivR) k ivS 0 0 :=
    ⟨rfl, rfl, rfl, by simp [Stream.setKey], fun h => absurd rfl h⟩
  have := deliverInc_prefix (dg := (S.dig.fs, S.dig.fr)) (ownIV := ivR) hchunk hivS hlim (items_flags hops hfl) fuel
    (R.setKey k ivR) w 0 (Nat.zero_le _) hr (fun _ => ⟨rfl, hivR⟩)
    (advWire_advFrame (dgR := (R.dig.fs, R.dig.fr)) hsep hsent hownE hadv) hclean hbuf
  simpa [hops] using this

/-- **recv_prefix_incremental_midstream**: the same from any reachable state of an established
    session (after earlier traffic, or after a crypto-state hand-off, C15). -/
theorem recv_prefix_incremental_midstream (S S' R R' : Stream) (k : Nat) (iv ivR : IV) (dg dgR : Digest × Digest) (c0 cR : Nat)
    (ops opsR : List SendOp) (sent own w : List WireFrame) (hiv : iv.w0 < 2^32) (hivR : ivR.w0 < 2^32)
    (hsep : iv.tail ≠ ivR.tail) (hfl : ∀ op ∈ ops, op.2 ≤ 1)
    (hclean : R.inMessage = false) (hbuf : R.recvBuf = [])
    (hS : SendInv S k iv dg c0) (hR : RecvInv R k iv c0 0) (hRs : SendInv R k ivR dgR cR)
    (hsend : S.sendAll ops = .ok (S', sent)) (hown : R.sendAll opsR = .ok (R', own))
    (hadv : AdvWire k sent own w) (chunk : Nat) (hchunk : 0 < chunk) (fuel : Nat) :
    Stream.deliverIncFuel fuel chunk R w <+: messagesOf [] ops := by
  obtain ⟨items, hsent, hops, hlim, _, _⟩ := sendAll_spec ops S S' c0 sent hS hsend
  obtain ⟨itemsR, hownE, _, _, _, _⟩ := sendAll_spec opsR R R' cR own hRs hown
  have := deliverInc_prefix (dg := dg) (ownIV := ivR) hchunk hiv hlim (items_flags hops hfl) fuel R w 0
    (Nat.zero_le _) hR (fun _ => ⟨hRs.iv, hivR⟩) (advWire_advFrame hsep hsent hownE hadv) hclean hbuf
  simpa [hops] using this

/-- **recv_prefix_frames**: the frame-level receive path — plain `ReceiveFrame`, on which
    `GetSecret` and `GetFile` sit and which returns no end flag — hands the application only an
    in-order prefix of the frame PAYLOADS the sender's application passed to `sendMessageWithEnd`,
    under the same adversary: no forged, empty, replayed or reflected frame is ever handed over. -/
theorem recv_prefix_frames (S S' R R' : Stream) (k : Nat) (ivS ivR : IV) (ops opsR : List SendOp)
    (sent own w : List WireFrame) (hivS : ivS.w0 < 2^32) (hivR : ivR.w0 < 2^32)
    (hsep : ivS.tail ≠ ivR.tail)
    (hsend : (S.setKey k ivS).sendAll ops = .ok (S', sent))
    (hown : (R.setKey k ivR).sendAll opsR = .ok (R', own))
    (hadv : AdvWire k sent own w) :
    Stream.deliverFrames (R.setKey k ivR) w <+: ops.map Prod.fst := by
  obtain ⟨items, hsent, hops, hlim, _, _⟩ :=
    sendAll_spec ops _ S' 0 sent (setKey_sendInv S k ivS) hsend
  obtain ⟨itemsR, hownE, _, _, _, _⟩ :=
    sendAll_spec opsR _ R' 0 own (setKey_sendInv R k ivR) hown
  have hr : RecvInv (R.setKey k ivR) k ivS 0 0 :=
    ⟨rfl, rfl, rfl, by simp [Stream.setKey], fun h => absurd rfl h⟩
  have := deliverFrames_prefix (dg := (S.dig.fs, S.dig.fr)) (ownIV := ivR) hivS hlim
    w (R.setKey k ivR) 0 (Nat.zero_le _) hr (fun _ => ⟨rfl, hivR⟩)
    (advWire_advFrame (dgR := (R.dig.fs, R.dig.fr)) hsep hsent hownE hadv)
  have hp : items.map Item.plain = ops.map Prod.fst := by
    rw [← hops, List.map_map]; rfl
  simpa [hp] using this

/-- **no_bypass**: on a keyed, encrypting stream every frame `ReceiveFrameWithEnd` accepts went
    through `decryptDataWithAAD` — there is no length class (empty frames included) that is
    returned without authentication. -/
theorem no_bypass (r r' : Stream) (k : Nat) (g : WireFrame) (d : Bytes) (fl : Nat)
    (hk : r.key = some k) (he : r.encrypted = true)
    (h : r.recvFrameWithEnd g = .ok (r', d, fl)) :
    ∃ iv, r.openBody k g = .ok (iv, d) := by
  unfold Stream.recvFrameWithEnd at h
  split at h
  · cases h
  · split at h
    · simp [Stream.crypting, hk, he] at h
    · simp only [hk, he] at h
      split at h
      · cases h
      · rename_i iv p hopen
        simp only [Except.ok.injEq, Prod.mk.injEq] at h
        exact ⟨iv, by rw [hopen, h.2.1]⟩

/-- the plain `ReceiveFrame` path (GetSecret, GetFile) has no bypass either -/
theorem no_bypass_recvFrame (r r' : Stream) (k : Nat) (g : WireFrame) (d : Bytes)
    (hk : r.key = some k) (he : r.encrypted = true)
    (h : r.recvFrame g = .ok (r', d)) :
    ∃ iv, r.openBody k g = .ok (iv, d) := by
  unfold Stream.recvFrame at h
  split at h
  · cases h
  · split at h
    · simp [Stream.crypting, hk, he] at h
    · simp only [hk, he] at h
      split at h
      · cases h
      · rename_i iv p hopen
        simp only [Except.ok.injEq, Prod.mk.injEq] at h
        exact ⟨iv, by rw [hopen, h.2]⟩

/-! Non-vacuity: a concrete two-message exchange meets the hypotheses and is delivered in full;
    with the middle frame dropped only the first message arrives. (These are tests, not the claim.) -/
def ivA : IV := ⟨0xfffffffe, [1,2,3,4,5,6,7,8,9,10,11,12]⟩
def demoOps : List SendOp := [([1,2], 0), ([3], 1), ([], 1), ([9,9], 1)]
def demoSent : List WireFrame :=
  match ((({} : Stream).setKey 7 ivA).sendAll demoOps) with
  | .ok (_, fs) => fs
  | .error _ => []

example : demoSent.length = 4 := by decide
example : Stream.deliver (({} : Stream).setKey 7 ⟨5, []⟩) demoSent = [[1,2,3], [], [9,9]] := by decide
example : Stream.deliver (({} : Stream).setKey 7 ⟨5, []⟩) (demoSent.eraseIdx 1) = [] := by decide
example : Stream.deliver (({} : Stream).setKey 7 ⟨5, []⟩) (demoSent.eraseIdx 2) = [[1,2,3]] := by decide
example : Stream.deliver (({} : Stream).setKey 7 ⟨5, []⟩) (demoSent ++ [⟨1, 0, .raw []⟩]) = [[1,2,3], [], [9,9]] := by decide

-- the incremental API on the same wires: full delivery; a wire cut inside the multi-frame message
-- delivers nothing (never the truncated message); plain ReceiveFrame hands over the payloads
example : Stream.deliverIncFuel 9 2 (({} : Stream).setKey 7 ⟨5, []⟩) demoSent = [[1,2,3], [], [9,9]] := by decide
example : Stream.deliverIncFuel 9 2 (({} : Stream).setKey 7 ⟨5, []⟩) (demoSent.take 1) = [] := by decide
example : Stream.deliverIncFuel 9 1 (({} : Stream).setKey 7 ⟨5, []⟩) (demoSent.eraseIdx 2) = [[1,2,3]] := by decide
example : Stream.deliverFrames (({} : Stream).setKey 7 ⟨5, []⟩) demoSent = [[1,2], [3], [], [9,9]] := by decide
example : Stream.deliverFrames (({} : Stream).setKey 7 ⟨5, []⟩) (⟨1, 0, .raw []⟩ :: demoSent) = [] := by decide

/-- **reflection_rejected** (the case that failed before fix D16, as a concrete test): on a stream
    keyed with NOTHING exchanged in clear beforehand both transcript digests are the zero digest,
    so the first-frame AAD is the same in both directions; an endpoint's own first frame, reflected
    with its IV prefix, used to be accepted as the peer's first frame. It is refused now. -/
theorem reflection_rejected :
    let A := ({} : Stream).setKey 7 ivA
    (match A.sendAll [([1, 2], 1)] with
     | .ok (_, fs) => Stream.deliver A fs
     | .error _ => [[0]]) = [] := by decide

/-! ### The typed layer's receive path

`Message.ensureData` / `Message.GetRemainingBytes` pull frames with `ReceiveFrameWithEnd` and end
the message at the first frame whose end flag is non-zero — any of 1..10, not only 1
(`Stream.recvRestAux`). -/

/-- **recv_prefix_typed** (fresh session): under the adversary of `recv_prefix`, what the typed
    layer's message loop hands the application before its first error is a prefix of the messages
    sent AS THE TYPED LAYER DELIMITS THEM (`messagesOfT`: a message ends at the first non-zero end
    flag), for every send history — whatever flags the sender used — and every rewriting of the
    wire; no forged, replayed, re-flagged, reflected or truncated frame ends, extends or starts a
    message. -/
theorem recv_prefix_typed (S S' R R' : Stream) (k : Nat) (ivS ivR : IV) (ops opsR : List SendOp)
    (sent own w : List WireFrame) (hivS : ivS.w0 < 2^32) (hivR : ivR.w0 < 2^32)
    (hsep : ivS.tail ≠ ivR.tail)
    (hsend : (S.setKey k ivS).sendAll ops = .ok (S', sent))
    (hown : (R.setKey k ivR).sendAll opsR = .ok (R', own))
    (hadv : AdvWire k sent own w) (n : Nat) :
    Stream.deliverRestFuel n (R.setKey k ivR) w <+: messagesOfT [] ops := by
  obtain ⟨items, hsent, hops, hlim, _, _⟩ :=
    sendAll_spec ops _ S' 0 sent (setKey_sendInv S k ivS) hsend
  obtain ⟨itemsR, hownE, _, _, _, _⟩ :=
    sendAll_spec opsR _ R' 0 own (setKey_sendInv R k ivR) hown
  have hr : RecvInv (R.setKey k ivR) k ivS 0 0 :=
    ⟨rfl, rfl, rfl, by simp [Stream.setKey], fun h => absurd rfl h⟩
  have := deliverRest_prefix (dg := (S.dig.fs, S.dig.fr)) (ownIV := ivR) hivS hlim n
    (R.setKey k ivR) w 0 (Nat.zero_le _) hr (fun _ => ⟨rfl, hivR⟩)
    (advWire_advFrame (dgR := (R.dig.fs, R.dig.fr)) hsep hsent hownE hadv)
  simpa [hops] using this

/-- with the end flags the sending API produces (0 / 1) the typed layer's messages are the
    messages sent: the same prefix statement as `recv_prefix`, boundaries intact -/
theorem recv_prefix_typed_01 (S S' R R' : Stream) (k : Nat) (ivS ivR : IV) (ops opsR : List SendOp)
    (sent own w : List WireFrame) (hivS : ivS.w0 < 2^32) (hivR : ivR.w0 < 2^32)
    (hsep : ivS.tail ≠ ivR.tail) (hfl : ∀ op ∈ ops, op.2 ≤ 1)
    (hsend : (S.setKey k ivS).sendAll ops = .ok (S', sent))
    (hown : (R.setKey k ivR).sendAll opsR = .ok (R', own))
    (hadv : AdvWire k sent own w) (n : Nat) :
    Stream.deliverRestFuel n (R.setKey k ivR) w <+: messagesOf [] ops := by
  rw [← messagesOfT_eq ops [] hfl]
  exact recv_prefix_typed S S' R R' k ivS ivR ops opsR sent own w hivS hivR hsep hsend hown hadv n

/-- **recv_prefix_typed_midstream**: the same from any reachable state of an established session -/
theorem recv_prefix_typed_midstream (S S' R R' : Stream) (k : Nat) (iv ivR : IV) (dg dgR : Digest × Digest) (c0 cR : Nat)
    (ops opsR : List SendOp) (sent own w : List WireFrame) (hiv : iv.w0 < 2^32) (hivR : ivR.w0 < 2^32)
    (hsep : iv.tail ≠ ivR.tail)
    (hS : SendInv S k iv dg c0) (hR : RecvInv R k iv c0 0) (hRs : SendInv R k ivR dgR cR)
    (hsend : S.sendAll ops = .ok (S', sent)) (hown : R.sendAll opsR = .ok (R', own))
    (hadv : AdvWire k sent own w) (n : Nat) :
    Stream.deliverRestFuel n R w <+: messagesOfT [] ops := by
  obtain ⟨items, hsent, hops, hlim, _, _⟩ := sendAll_spec ops S S' c0 sent hS hsend
  obtain ⟨itemsR, hownE, _, _, _, _⟩ := sendAll_spec opsR R R' cR own hRs hown
  have := deliverRest_prefix (dg := dg) (ownIV := ivR) hiv hlim n R w 0 (Nat.zero_le _) hR (fun _ => ⟨hRs.iv, hivR⟩)
    (advWire_advFrame hsep hsent hownE hadv)
  simpa [hops] using this

/-! Non-vacuity: the typed loop on the demo wire delivers all three messages; with the middle frame
    of the first message dropped, nothing; with the LAST frame's flag rewritten 1 -> 7 by the
    adversary the frame is rejected (the flag is in the AAD), so flags 2..10 cannot be forged into
    message ends; a sender that itself uses flag 7 ends a message there. -/
example : Stream.deliverRestFuel 9 (({} : Stream).setKey 7 ⟨5, []⟩) demoSent = [[1,2,3], [], [9,9]] := by decide
example : Stream.deliverRestFuel 9 (({} : Stream).setKey 7 ⟨5, []⟩) (demoSent.eraseIdx 1) = [] := by decide
example : Stream.deliverRestFuel 9 (({} : Stream).setKey 7 ⟨5, []⟩)
    (demoSent.take 3 ++ (demoSent.drop 3).map (fun f => { f with flag := 7 })) = [[1,2,3], []] := by decide
example : (match ((({} : Stream).setKey 7 ivA).sendAll [([1], 0), ([2], 7), ([3], 1)]) with
    | .ok (_, fs) => Stream.deliverRestFuel 9 (({} : Stream).setKey 7 ⟨5, []⟩) fs
    | .error _ => []) = [[1, 2], [3]] := by decide

/-! ### Replay across connections of one session

A resumed connection is keyed with the SAME session key as the earlier connections of the session,
so the adversary also holds every protected frame recorded on those (`old`, both directions).
`AdvWire` excludes them by hypothesis. `AdvWireS` adds them; the two facts that make them harmless
are stated as explicit session hypotheses (`OldConnections`), like `hsep`. -/

/-- `AdvWire` plus the frames `old` recorded on earlier connections of the session -/
def AdvWireS (k : Nat) (sent own old w : List WireFrame) : Prop :=
  ∀ g ∈ w, match g.body with
    | .raw _ => True
    | .ct ivo c => (∀ i, ivo = some i → i.w0 < 2^32) ∧
                   (c.key = k → (∃ f ∈ sent, ∃ ivo', f.body = .ct ivo' c) ∨
                                (∃ f ∈ own, ∃ ivo', f.body = .ct ivo' c) ∨
                                (∃ f ∈ old, ∃ ivo', f.body = .ct ivo' c))

/-- Session hypotheses about the recorded frames, seen from the current receiver (sender base IV
    `ivS`, expected first-frame digest pair `rdg`):
    `iv_fresh` — every earlier connection used, in each direction, a base IV whose last 12 bytes
    differ from the current sender's (independent `crypto/rand` draws per `SetSymmetricKey`);
    `transcript_fresh` — an earlier connection's first frames were sealed over another cleartext
    transcript (the resumption reply carries a fresh `ResumeNonce`; in the legacy no-reply mode this
    FAILS: `C06.noreply_replay_fails`, known finding F-C06-noreply-replay). -/
structure OldConnections (k : Nat) (ivS : IV) (rdg : Digest × Digest) (old : List WireFrame) : Prop where
  iv_fresh : ∀ f ∈ old, ∀ ivo c, f.body = .ct ivo c → c.key = k → c.nonce.tail ≠ ivS.tail
  transcript_fresh : ∀ f ∈ old, ∀ ivo c, f.body = .ct ivo c → c.key = k → c.aad.digests ≠ some rdg

theorem advWireS_advFrameO {k iv ivR dg dgR rdg c0 cR items itemsR sent own old w}
    (hsep : iv.tail ≠ ivR.tail)
    (hsent : sent = framesFrom k iv dg c0 items) (hown : own = framesFrom k ivR dgR cR itemsR)
    (hold : OldConnections k iv rdg old)
    (h : AdvWireS k sent own old w) :
    ∀ g ∈ w, AdvFrameO k iv dg ivR rdg c0 items g := by
  intro g hg
  have := h g hg
  unfold AdvFrameO
  cases hb : g.body with
  | raw b => trivial
  | ct ivo c =>
    simp only [hb] at this ⊢
    refine ⟨this.1, fun hk => ?_⟩
    rcases this.2 hk with ⟨f, hf, ivo', hfb⟩ | ⟨f, hf, ivo', hfb⟩ | ⟨f, hf, ivo', hfb⟩
    · left
      rw [hsent] at hf
      obtain ⟨j, it, hj, hfe⟩ := mem_framesFrom items c0 f hf
      refine ⟨j, it, hj, ?_⟩
      rw [hfe] at hfb
      simp only [frameAt, Body.ct.injEq] at hfb
      exact hfb.2.symm
    · right; left
      rw [hown] at hf
      exact own_is_foreign hsep hf hfb
    · right; right
      exact ⟨hold.iv_fresh f hf ivo' c hfb hk, hold.transcript_fresh f hf ivo' c hfb hk⟩

/-- **recv_prefix_resumed**: `recv_prefix` against the adversary that also replays, re-heads and
    re-IVs frames recorded on EARLIER connections of the same session (same key): under the two
    session hypotheses of `OldConnections`, `ReceiveCompleteMessage` still delivers only a prefix of
    the messages sent on THIS connection. Not only the first frame (`C06.replay_rejected`): every
    position of every message. -/
theorem recv_prefix_resumed (S S' R R' : Stream) (k : Nat) (ivS ivR : IV) (ops opsR : List SendOp)
    (sent own old w : List WireFrame) (hivS : ivS.w0 < 2^32) (hivR : ivR.w0 < 2^32)
    (hsep : ivS.tail ≠ ivR.tail)
    (hold : OldConnections k ivS (R.dig.fr, R.dig.fs) old)
    (hsend : (S.setKey k ivS).sendAll ops = .ok (S', sent))
    (hown : (R.setKey k ivR).sendAll opsR = .ok (R', own))
    (hadv : AdvWireS k sent own old w) (n : Nat) :
    Stream.deliverFuel n (R.setKey k ivR) w <+: messagesOf [] ops := by
  obtain ⟨items, hsent, hops, hlim, _, _⟩ :=
    sendAll_spec ops _ S' 0 sent (setKey_sendInv S k ivS) hsend
  obtain ⟨itemsR, hownE, _, _, _, _⟩ :=
    sendAll_spec opsR _ R' 0 own (setKey_sendInv R k ivR) hown
  have hr : RecvInv (R.setKey k ivR) k ivS 0 0 :=
    ⟨rfl, rfl, rfl, by simp [Stream.setKey], fun h => absurd rfl h⟩
  have hd : ((R.setKey k ivR).dig.fr, (R.setKey k ivR).dig.fs) = (R.dig.fr, R.dig.fs) := by
    simp [Stream.setKey, Dig.finalize, Dig.fs, Dig.fr]
  have := deliver_prefixO (dg := (S.dig.fs, S.dig.fr)) (ownIV := ivR) (rdg := (R.dig.fr, R.dig.fs)) hivS hlim n
    (R.setKey k ivR) w 0 (Nat.zero_le _) hr (fun _ => ⟨rfl, hivR, hd⟩)
    (advWireS_advFrameO (dgR := (R.dig.fs, R.dig.fr)) hsep hsent hownE hold hadv)
  simpa [hops] using this

/-- the same for the typed layer's receive loop -/
theorem recv_prefix_typed_resumed (S S' R R' : Stream) (k : Nat) (ivS ivR : IV) (ops opsR : List SendOp)
    (sent own old w : List WireFrame) (hivS : ivS.w0 < 2^32) (hivR : ivR.w0 < 2^32)
    (hsep : ivS.tail ≠ ivR.tail)
    (hold : OldConnections k ivS (R.dig.fr, R.dig.fs) old)
    (hsend : (S.setKey k ivS).sendAll ops = .ok (S', sent))
    (hown : (R.setKey k ivR).sendAll opsR = .ok (R', own))
    (hadv : AdvWireS k sent own old w) (n : Nat) :
    Stream.deliverRestFuel n (R.setKey k ivR) w <+: messagesOfT [] ops := by
  obtain ⟨items, hsent, hops, hlim, _, _⟩ :=
    sendAll_spec ops _ S' 0 sent (setKey_sendInv S k ivS) hsend
  obtain ⟨itemsR, hownE, _, _, _, _⟩ :=
    sendAll_spec opsR _ R' 0 own (setKey_sendInv R k ivR) hown
  have hr : RecvInv (R.setKey k ivR) k ivS 0 0 :=
    ⟨rfl, rfl, rfl, by simp [Stream.setKey], fun h => absurd rfl h⟩
  have hd : ((R.setKey k ivR).dig.fr, (R.setKey k ivR).dig.fs) = (R.dig.fr, R.dig.fs) := by
    simp [Stream.setKey, Dig.finalize, Dig.fs, Dig.fr]
  have := deliverRest_prefixO (dg := (S.dig.fs, S.dig.fr)) (ownIV := ivR) (rdg := (R.dig.fr, R.dig.fs)) hivS hlim n
    (R.setKey k ivR) w 0 (Nat.zero_le _) hr (fun _ => ⟨rfl, hivR, hd⟩)
    (advWireS_advFrameO (dgR := (R.dig.fs, R.dig.fr)) hsep hsent hownE hold hadv)
  simpa [hops] using this

/-- the same for the incremental API (`StartMessageRead`, `ReadMessageBytes(chunk)`…, `EndMessageRead`) -/
theorem recv_prefix_incremental_resumed (S S' R R' : Stream) (k : Nat) (ivS ivR : IV) (ops opsR : List SendOp)
    (sent own old w : List WireFrame) (hivS : ivS.w0 < 2^32) (hivR : ivR.w0 < 2^32)
    (hsep : ivS.tail ≠ ivR.tail) (hfl : ∀ op ∈ ops, op.2 ≤ 1)
    (hclean : R.inMessage = false) (hbuf : R.recvBuf = [])
    (hold : OldConnections k ivS (R.dig.fr, R.dig.fs) old)
    (hsend : (S.setKey k ivS).sendAll ops = .ok (S', sent))
    (hown : (R.setKey k ivR).sendAll opsR = .ok (R', own))
    (hadv : AdvWireS k sent own old w) (chunk : Nat) (hchunk : 0 < chunk) (fuel : Nat) :
    Stream.deliverIncFuel fuel chunk (R.setKey k ivR) w <+: messagesOf [] ops := by
  obtain ⟨items, hsent, hops, hlim, _, _⟩ :=
    sendAll_spec ops _ S' 0 sent (setKey_sendInv S k ivS) hsend
  obtain ⟨itemsR, hownE, _, _, _, _⟩ :=
    sendAll_spec opsR _ R' 0 own (setKey_sendInv R k ivR) hown
  have hr : RecvInv (R.setKey k ivR) k ivS 0 0 :=
    ⟨rfl, rfl, rfl, by simp [Stream.setKey], fun h => absurd rfl h⟩
  have hd : ((R.setKey k ivR).dig.fr, (R.setKey k ivR).dig.fs) = (R.dig.fr, R.dig.fs) := by
    simp [Stream.setKey, Dig.finalize, Dig.fs, Dig.fr]
  have := deliverInc_prefixO (dg := (S.dig.fs, S.dig.fr)) (ownIV := ivR) (rdg := (R.dig.fr, R.dig.fs)) hchunk hivS hlim
    (items_flags hops hfl) fuel (R.setKey k ivR) w 0 (Nat.zero_le _) hr (fun _ => ⟨rfl, hivR, hd⟩)
    (advWireS_advFrameO (dgR := (R.dig.fs, R.dig.fr)) hsep hsent hownE hold hadv) hclean hbuf
  simpa [hops] using this

/-- the same for plain `ReceiveFrame` (GetSecret / GetFile): a prefix of the frame payloads -/
theorem recv_prefix_frames_resumed (S S' R R' : Stream) (k : Nat) (ivS ivR : IV) (ops opsR : List SendOp)
    (sent own old w : List WireFrame) (hivS : ivS.w0 < 2^32) (hivR : ivR.w0 < 2^32)
    (hsep : ivS.tail ≠ ivR.tail)
    (hold : OldConnections k ivS (R.dig.fr, R.dig.fs) old)
    (hsend : (S.setKey k ivS).sendAll ops = .ok (S', sent))
    (hown : (R.setKey k ivR).sendAll opsR = .ok (R', own))
    (hadv : AdvWireS k sent own old w) :
    Stream.deliverFrames (R.setKey k ivR) w <+: ops.map Prod.fst := by
  obtain ⟨items, hsent, hops, hlim, _, _⟩ :=
    sendAll_spec ops _ S' 0 sent (setKey_sendInv S k ivS) hsend
  obtain ⟨itemsR, hownE, _, _, _, _⟩ :=
    sendAll_spec opsR _ R' 0 own (setKey_sendInv R k ivR) hown
  have hr : RecvInv (R.setKey k ivR) k ivS 0 0 :=
    ⟨rfl, rfl, rfl, by simp [Stream.setKey], fun h => absurd rfl h⟩
  have hd : ((R.setKey k ivR).dig.fr, (R.setKey k ivR).dig.fs) = (R.dig.fr, R.dig.fs) := by
    simp [Stream.setKey, Dig.finalize, Dig.fs, Dig.fr]
  have := deliverFrames_prefixO (dg := (S.dig.fs, S.dig.fr)) (ownIV := ivR) (rdg := (R.dig.fr, R.dig.fs)) hivS hlim
    w (R.setKey k ivR) 0 (Nat.zero_le _) hr (fun _ => ⟨rfl, hivR, hd⟩)
    (advWireS_advFrameO (dgR := (R.dig.fs, R.dig.fr)) hsep hsent hownE hold hadv)
  have hp : items.map Item.plain = ops.map Prod.fst := by
    rw [← hops, List.map_map]; rfl
  simpa [hp] using this

/-- `AdvWire` is the special case with nothing recorded -/
theorem advWire_advWireS {k sent own w} (h : AdvWire k sent own w) : AdvWireS k sent own [] w := by
  intro g hg
  have := h g hg
  cases hb : g.body with
  | raw b => trivial
  | ct ivo c =>
    simp only [hb] at this ⊢
    exact ⟨this.1, fun hk => (this.2 hk).elim .inl (fun x => .inr (.inl x))⟩

/-! Non-vacuity: an earlier connection of the session (key 7, another base IV, a one-byte cleartext
    exchange, so other digests) whose recorded frames meet `OldConnections`; replayed in front of /
    inside / behind the current connection's frames they are rejected and delivery stops there. -/
def ivOld : IV := ⟨3, [9,9,9,9,9,9,9,9,9,9,9,9]⟩
def oldSent : List WireFrame :=
  match (((({} : Stream).feedRecv [1]).setKey 7 ivOld).sendAll [([5, 5], 1), ([6], 1)]) with
  | .ok (_, fs) => fs
  | .error _ => []
example : oldSent.length = 2 ∧ oldSent.all (fun f => match f.body with
    | .ct _ c => c.key == 7 && c.nonce.tail != ivA.tail && c.aad.digests != some (.zero, .zero)
    | .raw _ => false) = true := by decide
example : Stream.deliver (({} : Stream).setKey 7 ⟨5, []⟩) (demoSent ++ oldSent) = [[1,2,3], [], [9,9]] := by decide
example : Stream.deliver (({} : Stream).setKey 7 ⟨5, []⟩) (oldSent ++ demoSent) = [] := by decide
example : Stream.deliver (({} : Stream).setKey 7 ⟨5, []⟩) (demoSent.take 2 ++ oldSent.drop 1 ++ demoSent.drop 2) = [[1,2,3]] := by decide

end Cedar.C02
