/-
  C12 — Protected frames follow the AES-GCM wire format; no nonce is ever reused.
  Property theorems only; helper lemmas live in CedarProofs/{Prefix,Nonce}.lean.
  The two correspondence obligations `ref_accepts_impl` / `impl_accepts_ref` are discharged by the
  gcmformat engine (refcodec, an independent implementation of the documented format).
-/
import CedarProofs.Nonce
import CedarGen.Literals
import CedarModel.Codec

namespace Cedar.C12

open Cedar

/-- **wire_format**: in an established protected direction (key `k`, base IV `iv`, handshake
    digests `dg`, counter `c`), the frame emitted for `data` is
    `hdr ‖ [iv if c = 0] ‖ seal k (iv with leading word + c) aad data`, with
    `hdr.len = |data| + 16 (+16 with the IV)`, `aad = [Hs ‖ Hr] ‖ hdr` on the first frame of the
    direction and `hdr` afterwards; the counter advances by one and never reaches the limit. -/
theorem wire_format {s s' : Stream} {k iv dg c data flag f}
    (h : SendInv s k iv dg c) (hs : s.sendFrame data flag = .ok (s', f)) :
    f = ⟨flag, data.length + tagLen + (if c = 0 then ivLen else 0),
          .ct (if c = 0 then some iv else none)
              ⟨k, iv.nonce c, ⟨if c = 0 then some dg else none, flag,
                                data.length + tagLen + (if c = 0 then ivLen else 0)⟩, data⟩⟩ ∧
    c < counterLimit ∧ SendInv s' k iv dg (c + 1) := by
  obtain ⟨hlt, _, hf, hlen, hinv, _, _⟩ := sendFrame_spec h hs
  refine ⟨?_, hlt, hinv⟩
  rw [hf, hlen]
  simp [frameAt, sealedAt]

/-- digests in the first frame's AAD: the hash of the cleartext fed before the key was installed,
    or the all-zero placeholder for a direction in which nothing was sent in the clear. -/
theorem first_aad_digests (s : Stream) (k : Nat) (iv : IV) (hs : s.dig.finalSend = none) (hr : s.dig.finalRecv = none) :
    SendInv (s.setKey k iv) k iv
      (if s.dig.sendWritten then .H s.dig.sendFed else .zero,
       if s.dig.recvWritten then .H s.dig.recvFed else .zero) 0 := by
  have := setKey_sendInv s k iv
  simpa [Dig.fs, Dig.fr, hs, hr] using this

/-- **nonces_distinct**: in *any* history of operations on a stream — sends, buffered writes,
    secrets with crypto toggled, receives in the other direction, in any interleaving — the
    (key, nonce) pairs of the protected frames it emits are pairwise distinct. The counter may
    start anywhere (imported session state included). -/
theorem nonces_distinct (s : Stream) (ops : List Op) (hb : s.encCtr ≤ counterLimit) :
    ((s.run ops).2.filterMap nonceOf).Pairwise (· ≠ ·) := by
  obtain ⟨n, _, _, _, hle, hlist⟩ := run_summary ops s hb
  rw [hlist, List.pairwise_map]
  refine List.Pairwise.imp_of_mem ?_ (List.pairwise_lt_range (n := n))
  intro a b ha hb' hab
  have ha' : a < n := List.mem_range.mp ha
  have hb'' : b < n := List.mem_range.mp hb'
  intro heq
  simp only [Prod.mk.injEq, true_and] at heq
  have := @nonce_inj s.encIV (s.encCtr + a) (s.encCtr + b)
    (by unfold counterLimit at hle; simp only [Nat.reducePow]; omega)
    (by unfold counterLimit at hle; simp only [Nat.reducePow]; omega) heq
  omega

/-- the nonces used are exactly `iv+c, iv+c+1, …` — one counter value per protected frame, the key
    and the base IV never change along a history (only `SetSymmetricKey` draws an IV). -/
theorem nonce_sequence (s : Stream) (ops : List Op) (hb : s.encCtr ≤ counterLimit) :
    ∃ n, (s.run ops).2.filterMap nonceOf =
           (List.range n).map (fun i => (s.key.getD 0, s.encIV.nonce (s.encCtr + i))) ∧
         (s.run ops).1.encIV = s.encIV ∧ (s.run ops).1.key = s.key ∧
         (s.run ops).1.encCtr = s.encCtr + n ∧ s.encCtr + n ≤ counterLimit := by
  obtain ⟨n, h1, h2, h3, h4, h5⟩ := run_summary ops s hb
  exact ⟨n, h5, h1, h2, h3, h4⟩

/-- **lost_frame_nonce_not_reused** (write failure): a protected frame is sealed — and its counter
    value consumed — before its bytes are handed to the connection; when that write then fails
    (deadline mid-frame, short write) the stream is in the very state `s'` it is in after a
    successful send, although all, part or none of `f` reached the wire. Whatever the application
    does next on the stream (any history `ops`, through any sending API), no frame it emits carries
    the (key, nonce) pair the lost frame was sealed under. -/
theorem lost_frame_nonce_not_reused (s s' : Stream) (d : Bytes) (fl : Nat) (f : WireFrame) (ops : List Op)
    (hb : s.encCtr ≤ counterLimit) (hs : s.sendFrame d fl = .ok (s', f)) :
    ∀ p ∈ (s'.run ops).2.filterMap nonceOf, nonceOf f ≠ some p := by
  have h := nonces_distinct s (.send d fl :: ops) hb
  have hrun : (s.run (.send d fl :: ops)).2 = f :: (s'.run ops).2 := by
    simp [Stream.run, Stream.step, okOr, hs]
  rw [hrun] at h
  intro p hp hf
  rw [List.filterMap_cons, hf] at h
  exact (List.pairwise_cons.mp h).1 p hp rfl

/-- **refuses_wrap**: at counter `0xffffffff` a protected send returns an error and emits nothing. -/
theorem refuses_wrap (s : Stream) (k : Nat) (data : Bytes) (flag : Nat)
    (hk : s.key = some k) (he : s.encrypted = true) (hc : s.encCtr = counterLimit) :
    ∃ e, s.sendFrame data flag = .error e := by
  unfold Stream.sendFrame
  simp only [hk, he]
  by_cases h1 : data.length > maxMessageSize
  · exact ⟨_, by rw [if_pos h1]⟩
  · rw [if_neg h1]
    by_cases h2 : data.length + tagLen + (if s.encCtr = 0 then ivLen else 0) > maxMessageSize
    · exact ⟨_, by rw [if_pos h2]⟩
    · rw [if_neg h2, if_pos hc]; exact ⟨_, rfl⟩

/-- **iv_once**: `SetSymmetricKey` is one RNG draw (its `freshIV` parameter) and resets the
    counter; the IV travels with the frame whose counter is 0 and with no other. -/
theorem iv_once {s s' : Stream} {k iv dg c data flag f}
    (h : SendInv s k iv dg c) (hs : s.sendFrame data flag = .ok (s', f)) :
    (c = 0 → ∃ sl, f.body = .ct (some iv) sl) ∧ (c ≠ 0 → ∃ sl, f.body = .ct none sl) := by
  obtain ⟨_, _, hf, _, _, _, _⟩ := sendFrame_spec h hs
  constructor
  · intro hc; rw [hf]; simp [frameAt, hc]
  · intro hc; rw [hf]; simp [frameAt, hc]

theorem setKey_resets (s : Stream) (k : Nat) (iv : IV) :
    (s.setKey k iv).encIV = iv ∧ (s.setKey k iv).encCtr = 0 ∧ (s.setKey k iv).decCtr = 0 ∧
    (s.setKey k iv).key = some k ∧ (s.setKey k iv).encrypted = true := ⟨rfl, rfl, rfl, rfl, rfl⟩

/-- **size_literals_are_the_code** (tie T): the sizes the format theorems are stated with — the
    16-byte GCM tag, the 16-byte IV sent with a direction's first frame (frame counter 0), and the
    32 bytes of room the typed layer leaves for both on an encrypted stream — are the integer
    literals of `stream.calculateEncryptedSize` and `message.maxFramePayload`, regenerated from the
    source on every run (`tools/gen/literals.go`). -/
theorem size_literals_are_the_code :
    CedarGen.Literals.calculateEncryptedSize = [tagLen, 0, ivLen] ∧
    CedarGen.Literals.maxFramePayload = [gcmRoom] ∧ gcmRoom = tagLen + ivLen := by
  decide

/-! Non-vacuity (tests): a history with secrets toggled and a nonce word that wraps while the
    counter does not. -/
def demo : Stream := ({} : Stream).setKey 3 ⟨0xffffffff, [1,2,3,4,5,6,7,8,9,10,11,12]⟩
example : ((demo.run [.send [1] 1, .crypto false, .secret [2,3], .send [4] 1, .crypto true, .send [] 1]).2.filterMap nonceOf).map (·.2.w0)
    = [0xffffffff, 0, 1] := by decide

end Cedar.C12
