/-
  C08 — ClassAds survive the wire; decoder shortcuts agree with the full parser.
  Property theorems only; helper lemmas live in CedarProofs/{SkipLemmas,AdWireLemmas,AdWireRound,LiteralLemmas}.lean.

  Reading of the statement (DESIGN §4 C08, report (h)):
    * "the expression the full parser assigns to the text": the external parser is a parameter — its
      verdict `pok`, its literal syntax described by `LitGrammar` (tested against classad.ParseExpr on
      every run); a minus sign in front of a numeric literal denotes the negative literal.
    * "consume exactly the same bytes": the three receivers end in the SAME reader state (buffered bytes,
      unread frames, crypto mode), for every frame sequence — well-formed or not.
-/
import CedarProofs.AdWireRound
import CedarProofs.C08Prefix

namespace Cedar.C08

open Cedar

/-! ## Decode side: the shortcuts in front of the parser, the fallback behind it -/

/-- **shortcut_agrees** (the for-all-strings claim). For EVERY value text `s` and every behaviour of
    strconv's range check: if the literal fast path of the decoder fires with value `v`, then the
    external parser's literal syntax reads `s` as exactly `v` — booleans in any ASCII case, integers
    without leading zeros within int64, reals `digits . digits [exponent]`, one quoted token free of
    quotes, backslashes and ill-formed UTF-8. -/
theorem shortcut_agrees (ferr : Bytes → Bool) (s : Bytes) (v : LitVal) (h : tryLit ferr s = some v) :
    LitGrammar v s :=
  tryLit_litCore ferr s v h

/-- **decoded_value**: whatever `parseAndInsertExpression` makes of an expression string `name = text`, the
    attribute is the text before the first '=' (blanks trimmed, non-empty) and its value is
    (a) a literal the parser's syntax assigns to the value text, or
    (b) the parser's own result for the value text, which it accepted, or
    (c) — only when the parser rejected the value text and no shortcut fired — the old-ClassAd reading of a
        lone quoted string. -/
theorem decoded_value (ferr pok : Bytes → Bool) (e a : Bytes) (o : Outcome)
    (h : parseAndInsert ferr pok e = .ok (a, o)) :
    ∃ l r, splitEq e = some (l, r) ∧ a = trimSpace l ∧ a ≠ [] ∧
      ((∃ x, o = .lit x ∧ LitGrammar x (trimSpace r)) ∨
       (o = .full (trimSpace r) ∧ pok (trimSpace r) = true ∧ tryLit ferr (trimSpace r) = none) ∨
       (∃ x, o = .old x ∧ pok (trimSpace r) = false ∧ tryLit ferr (trimSpace r) = none ∧
          isQuoted (trimSpace (trimSpace r)) = true ∧ decodeOld (unquote (trimSpace (trimSpace r))) = some x)) := by
  obtain ⟨l, r, hs, ha, hne, hc⟩ := parseAndInsert_cases ferr pok e a o h
  refine ⟨l, r, hs, ha, hne, ?_⟩
  rcases hc with ⟨x, ho, ht⟩ | ⟨ho, ht, hp⟩ | ⟨x, ho, ht, hp, hq, hd⟩
  · exact .inl ⟨x, ho, shortcut_agrees ferr _ x ht⟩
  · exact .inr (.inl ⟨ho, hp, ht⟩)
  · exact .inr (.inr ⟨x, ho, hp, ht, hq, hd⟩)

/-- **fallback_sound**: the old-style string fallback fires only behind a parser rejection, and never
    where a shortcut fired (so never on a text LitGrammar's shortcut productions cover). -/
theorem fallback_sound (ferr pok : Bytes → Bool) (e a x : Bytes)
    (h : parseAndInsert ferr pok e = .ok (a, .old x)) :
    ∃ l r, splitEq e = some (l, r) ∧ pok (trimSpace r) = false ∧ tryLit ferr (trimSpace r) = none ∧
      decodeOld (unquote (trimSpace (trimSpace r))) = some x := by
  obtain ⟨l, r, hs, _, _, hc⟩ := parseAndInsert_cases ferr pok e a (.old x) h
  refine ⟨l, r, hs, ?_⟩
  rcases hc with ⟨y, ho, _⟩ | ⟨ho, _, _⟩ | ⟨y, ho, ht, hp, _, hd⟩
  · cases ho
  · cases ho
  · injection ho with ho; subst ho; exact ⟨hp, ht, hd⟩

/-- **old_string_roundtrip**: the fallback yields the old-ClassAd reading — for every byte string, its
    old-style quoting (quote written backslash-quote, every other byte, a lone backslash included,
    written as is) is read back exactly. -/
theorem old_string_roundtrip (x : Bytes) : decodeOld (oldRender x) = some x := decodeOld_render x

/-- a rejected expression string is a clean "malformed" error (no other failure class exists) -/
theorem decode_error_class (ferr pok : Bytes → Bool) (e : Bytes) (x : Err)
    (h : parseAndInsert ferr pok e = .error x) : x = .malformed := parseAndInsert_err ferr pok e x h

/-! ## Wire side: three receivers over one layout -/

/-- **receivers_same_bytes**. For EVERY reader state — any buffered bytes, any sequence of frames (cut
    anywhere, well-formed or not), either string mode, with or without a session key: whenever the
    raw-text receiver or the parsing receiver succeeds, the skipping receiver succeeds too and ends in
    the very same reader state; hence all three leave exactly the same bytes unread. This includes the
    in-band secret marker: all three read the field behind it under crypto-for-secret. -/
theorem receivers_same_bytes (ferr pok : Bytes → Bool) (r : Rd) :
    (∀ ad r', r.getRaw = .ok (ad, r') → r.skipAd = .ok r') ∧
    (∀ items r', r.getAd ferr pok = .ok (items, r') → r.skipAd = .ok r') ∧
    (∀ ad items r' r'', r.getRaw = .ok (ad, r') → r.getAd ferr pok = .ok (items, r'') → r' = r'') := by
  refine ⟨fun ad r' h => skipAd_of_getRaw r ad r' h, fun items r' h => skipAd_of_getAd ferr pok r items r' h, ?_⟩
  intro ad items r' r'' h1 h2
  have a := skipAd_of_getRaw r ad r' h1
  have b := skipAd_of_getAd ferr pok r items r'' h2
  rw [a] at b; injection b

/-- **receivers_fail_together**. For every reader state: if the skipping receiver fails with error `e`
    (it only ever fails by running out of message / connection, or with what the frame source reports),
    the raw-text receiver and the parsing receiver fail too — with `e`, or earlier with "malformed";
    conversely, if the raw-text or the parsing receiver fails with anything but "malformed" (i.e. by
    running out of message), the skipping receiver fails with the same error. -/
theorem receivers_fail_together (ferr pok : Bytes → Bool) (r : Rd) (e : Err) :
    (r.skipAd = .error e → (r.getRaw = .error e ∨ r.getRaw = .error .malformed) ∧
                            (r.getAd ferr pok = .error e ∨ r.getAd ferr pok = .error .malformed)) ∧
    (r.getRaw = .error e → e ≠ .malformed → r.skipAd = .error e) ∧
    (r.getAd ferr pok = .error e → e ≠ .malformed → r.skipAd = .error e) := by
  refine ⟨fun h => ⟨getRaw_of_skipAd_err r e h, getAd_of_skipAd_err ferr pok r e h⟩, ?_, ?_⟩
  · intro h hne
    cases hs : r.skipAd with
    | error e1 =>
      rcases getRaw_of_skipAd_err r e1 hs with hr | hr
      · rw [h] at hr; injection hr with hr; rw [hr]
      · rw [h] at hr; injection hr with hr; exact absurd hr hne
    | ok r' => exact absurd (getRaw_err_of_skipAd_ok r r' e hs h) hne
  · intro h hne
    cases hs : r.skipAd with
    | error e1 =>
      rcases getAd_of_skipAd_err ferr pok r e1 hs with hr | hr
      · rw [h] at hr; injection hr with hr; rw [hr]
      · rw [h] at hr; injection hr with hr; exact absurd hr hne
    | ok r' => exact absurd (getAd_err_of_skipAd_ok ferr pok r r' e hs h) hne

/-- **wire_layout**: whatever the encoder's flush policy does with frame boundaries, the payload bytes a
    sender (PutClassAdRaw / PutClassAdRawBytes; PutClassAd after attribute selection) emits for an ad
    are: the expression count, each `name = expr` string, MyType, TargetType — in the reference
    encoding of the current string mode. -/
theorem wire_layout (enc : Bool) (exprs : List Bytes) (my tg : Bytes)
    (hc : exprs.length < 2^63) (hw : ∀ e ∈ exprs, (Val.str e).wf) (hmy : (Val.str my).wf) (htg : (Val.str tg).wf) :
    wireBytes (putAdRaw enc [] exprs my tg) = Spec.encAll enc (adVals exprs my tg) := by
  unfold putAdRaw
  have := wireBytes_putAll enc (adVals exprs my tg) [] (by
    intro v hv
    unfold adVals at hv
    simp only [List.mem_cons, List.mem_append, List.mem_map, List.mem_nil_iff, or_false] at hv
    rcases hv with rfl | ⟨e, he, rfl⟩ | rfl | rfl
    · exact count_wf _ hc
    · exact hw e he
    · exact hmy
    · exact htg)
  simpa using this

/-- **wire_roundtrip**. For every ad whose expression strings and type names are well-formed strings
    (NUL-free, shorter than 2 GiB, not the in-band marker), every list `tail` of typed values that
    follows the ad in the same message, both string modes (plaintext / encrypted streams), with or
    without a session key, and EVERY way `ks` of cutting the message's bytes into frames (single- and
    multi-frame, cuts inside the count, inside a length prefix, inside a string):
      * GetClassAdRaw returns exactly the sender's expression strings and type names,
      * GetClassAd inserts exactly what `parseAndInsertExpression` makes of each string, in order, then
        the type names — with exactly the sender's attribute names,
      * SkipClassAdRaw succeeds,
    and all three stop in the same state, with exactly the bytes of `tail` left unread. -/
theorem wire_roundtrip (ferr pok : Bytes → Bool) (enc keyed : Bool) (exprs : List Bytes) (items : List Item)
    (my tg : Bytes) (tail : List Val) (ks : List Nat)
    (hc : exprs.length < 2^63) (hw : ∀ e ∈ exprs, ExprWF e) (hmy : TypeWF my) (htg : TypeWF tg)
    (htail : ∀ v ∈ tail, v.wf) (hpa : parseAll ferr pok exprs = .ok items) :
    let r := Rd.fresh enc keyed (cutFrames (wireBytes (putAll enc [] (adVals exprs my tg ++ tail))) ks)
    ∃ r', r.getRaw = .ok (⟨exprs, my, tg⟩, r') ∧
          r.getAd ferr pok = .ok (items ++ typeItems my tg, r') ∧
          r.skipAd = .ok r' ∧
          r'.d.pending = some (Spec.encAll enc tail) ∧
          items.map (·.1) = exprs.map nameOf := by
  intro r
  have hwf : ∀ v ∈ adVals exprs my tg ++ tail, v.wf := by
    intro v hv
    rw [List.mem_append] at hv
    rcases hv with hv | hv
    · unfold adVals at hv
      simp only [List.mem_cons, List.mem_append, List.mem_map, List.mem_nil_iff, or_false] at hv
      rcases hv with rfl | ⟨e, he, rfl⟩ | rfl | rfl
      · exact count_wf _ hc
      · exact (hw e he).1
      · exact hmy.1
      · exact htg.1
    · exact htail v hv
  have hp : r.d.pending = some (Spec.encAll r.mode (adVals exprs my tg) ++ Spec.encAll enc tail) := by
    show (Rd.fresh enc keyed _).d.pending = _
    rw [fresh_pending, wireBytes_putAll enc _ [] hwf, encAll_append]
    rfl
  obtain ⟨r1, h1, hp1, _⟩ := getRaw_spec r exprs my tg _ hc hw hmy htg hp
  obtain ⟨r2, h2, _, _⟩ := getAd_spec ferr pok r exprs items my tg _ hc hw hmy.1 htg.1 hpa hp
  have hs1 := skipAd_of_getRaw r _ r1 h1
  have hs2 := skipAd_of_getAd ferr pok r _ r2 h2
  have : r1 = r2 := by rw [hs1] at hs2; injection hs2
  subst this
  exact ⟨r1, h1, h2, hs1, hp1, parseAll_names ferr pok exprs items hpa⟩

/-! ## For the record: the code before the fixes violated both clauses (witnesses = the replays of the findings) -/

/-- before fix F-C08-shortcuts the integer shortcut accepted `007` (as 7), which the parser rejects -/
theorem prefix_shortcut_int_fails : ¬ (∀ s v, Prefix.intShortcut s = some v → LitGrammar v s) := by
  intro h
  have := h [48, 48, 55] (.int 7) (by decide)
  revert this; decide

/-- before fix F-C08-shortcuts the string shortcut read `"a" + "b"` as the string `a" + "b` -/
theorem prefix_shortcut_string_fails : ¬ (∀ t v, Prefix.strShortcut t = some v → LitGrammar v t) := by
  intro h
  have := h [34, 97, 34, 32, 43, 32, 34, 98, 34] (.str [97, 34, 32, 43, 32, 34, 98]) (by decide)
  revert this; decide

/-- a message on a keyed, non-encrypting stream: one counted expression sent as marker + secret field
    (`A = 1` in the encrypted string format), empty type names, then the integer 77 -/
def secretDemo : Rd :=
  { d := ⟨[], false, [(be64 1 ++ [90, 75, 77, 0], false),
                      (be64 6 ++ [65, 32, 61, 32, 49, 0], false),
                      ([0, 0] ++ be64 77, true)]⟩, mode := false, keyed := true }

/-- before fix F-C08-skip-marker the skipping receiver consumed different bytes than the other two -/
theorem prefix_receivers_same_bytes_fails :
    ¬ (∀ (r : Rd) ad r', r.getRaw = .ok (ad, r') → Prefix.skipAd r = .ok r') := by
  intro h
  have hraw : (match secretDemo.getRaw with | .ok (_, r') => r'.d.buf == be64 77 | .error _ => false) = true := by decide
  have hskip : (match Prefix.skipAd secretDemo with | .ok r' => r'.d.buf == be64 77 | .error _ => false) = false := by decide
  cases hg : secretDemo.getRaw with
  | error e => rw [hg] at hraw; cases hraw
  | ok p =>
    obtain ⟨ad, r'⟩ := p
    rw [hg] at hraw
    rw [h secretDemo ad r' hg] at hskip
    simp only at hraw hskip
    rw [hraw] at hskip; cases hskip

/-- … and the fixed receiver agrees on the same message -/
example : (match secretDemo.skipAd with | .ok r' => r'.d.buf == be64 77 | .error _ => false) = true := by decide

/-! ## Non-vacuity (tests): a concrete ad through the whole chain, both modes, a cut inside a value -/

def demoExprs : List Bytes :=
  [[65, 32, 61, 32, 45, 53],                          -- `A = -5`
   [66, 61, 34, 120, 34],                             -- `B="x"`
   [67, 32, 61, 32, 97, 32, 43, 32, 49]]              -- `C = a + 1`
def demoMy : Bytes := [74, 111, 98]                   -- "Job"

example : tryLit (fun _ => false) [45, 53] = some (.int (-5)) := by decide
example : LitGrammar (.int (-5)) [32, 45, 53, 32] := by decide
example : litParse [48, 48, 55] = none := by decide                                    -- `007` is not a literal
example : tryLit (fun _ => false) [48, 48, 55] = none := by decide                     -- … and no shortcut fires on it
example : tryLit (fun _ => false) [34, 97, 34, 32, 43, 32, 34, 98, 34] = none := by decide   -- `"a" + "b"` goes to the parser
example : litParse [34, 97, 34, 32, 34, 98, 34] = some (.str [97, 98]) := by decide    -- `"a" "b"` is the string ab
example : (match (Rd.fresh true false (cutFrames (wireBytes (putAll true [] (adVals demoExprs demoMy [] ++ [.int 77]))) [3, 0, 20])).getRaw with
    | .ok (ad, r') => ad.exprs == demoExprs && ad.myType == demoMy && ad.targetType == [] && r'.d.buf == be64 77
    | .error _ => false) = true := by decide
example : ((Rd.fresh false true (cutFrames (wireBytes (putAll false [] (adVals demoExprs demoMy [] ++ [.int 77]))) [9])).skipAd).isOk = true := by decide

end Cedar.C08
