/-
  C09 — Private attributes are never serialised unless asked for, nor sent in the clear.
  Property theorems only; the model is CedarModel/Privacy.lean (over CedarModel/Codec.lean and
  CedarModel/Stream.lean), helper lemmas live in CedarProofs/PrivacyLemmas.lean and
  CedarProofs/PrivacyRecv.lean.
-/
import CedarProofs.PrivacyLemmas
import CedarModel.PrivacyScope
import CedarProofs.PrivacyRecv

namespace Cedar.C09

open Cedar Cedar.Privacy

/-! ## Which names are private -/

/-- **matched case-insensitively**: both predicates see a name only through its case-folded
    form, so every case variant of a private name is private (and of a public one, public). -/
theorem case_insensitive (n m : Bytes) (h : lower n = lower m) :
    isPrivV1 n = isPrivV1 m ∧ isPrivV2 n = isPrivV2 m ∧ isPriv n = isPriv m :=
  ⟨isPrivV1_fold n m h, isPrivV2_fold n m h, isPriv_fold n m h⟩

/-- the property's fixed claim / capability / transfer-key names -/
def fixedNames : List Bytes :=
  ["claimid", "claimids", "claimidlist", "childclaimids", "capability", "transferkey"].map asciiBytes

/-- **the fixed names**: every case variant of the claim / capability / transfer-key names is
    private (the table is regenerated from the classad dependency on every run). -/
theorem fixed_names_private (n : Bytes) (h : lower n ∈ fixedNames) : isPrivV1 n = true := by
  have hsub : ∀ x ∈ fixedNames, v1Table.contains x = true := by decide
  exact hsub _ h

/-- **the reserved prefix**: every name that starts with a case variant of the prefix is private,
    whatever follows. -/
theorem prefix_names_private (p rest : Bytes) (h : lower p = v2Prefix) : isPrivV2 (p ++ rest) = true := by
  have hl : p.length = v2Prefix.length := by rw [← lower_length p, h]
  have htake : (p ++ rest).take v2Prefix.length = p := by
    rw [← hl, List.take_left']; rfl
  have hge : lenGe (p ++ rest) v2Prefix.length = true :=
    (lenGe_iff _ _).mpr (by simp [hl])
  have hself : lower v2Prefix = v2Prefix := by decide
  simp [isPrivV2, hge, htake, h, hself]

/-- names shorter than the prefix, or not starting with it, are not reserved-prefix names -/
theorem prefix_needed (n : Bytes) (h : isPrivV2 n = true) :
    ∃ p rest, n = p ++ rest ∧ lower p = lower v2Prefix := by
  simp only [isPrivV2, Bool.and_eq_true, beq_iff_eq] at h
  exact ⟨n.take v2Prefix.length, n.drop v2Prefix.length, (List.take_append_drop _ _).symm, h.2⟩

/-! ## The decision -/

/-- the opt-in, in terms of the option bits: IncludePrivate set and NoPrivate clear -/
theorem optedIn_iff (c : Config) :
    includePrivate c = true ↔ (c.options &&& optIncludePrivate ≠ 0 ∧ c.options &&& optNoPrivate = 0) := by
  simp [includePrivate, hasOpt]

/-- the two bits are distinct single bits (regenerated constants) -/
theorem option_bits_distinct :
    optIncludePrivate &&& optNoPrivate = 0 ∧ optIncludePrivate ≠ 0 ∧ optNoPrivate ≠ 0 := by decide

/-- **serialised iff** (both filter paths): an attribute of the ad is written iff it passes the
    whitelist when there is one, is not private (nor listed in EncryptedAttrs) unless the caller
    opted in without also asking for exclusion, and is not a reserved-prefix attribute when the
    peer is known to be too old. For every option word, whitelist, EncryptedAttrs list, peer. -/
theorem sent_iff (c : Config) (ad : Ad) (a : Attr) :
    a ∈ attrsToSend c ad ↔
      a ∈ ad ∧ (c.whitelist = [] ∨ a.name ∈ c.whitelist) ∧
      ((isPriv a.name = true ∨ a.name ∈ c.encryptedAttrs) → includePrivate c = true) ∧
      (isPrivV2 a.name = true → peerTooOld c = false) := by
  rw [mem_attrsToSend, keep_iff]

/-- **default deny**: a private attribute — any case variant, whitelisted or not — is among the
    serialised attributes only if the caller set IncludePrivate and did not set NoPrivate. -/
theorem default_deny (c : Config) (ad : Ad) (a : Attr) (hp : isPriv a.name = true)
    (hs : a ∈ attrsToSend c ad) :
    c.options &&& optIncludePrivate ≠ 0 ∧ c.options &&& optNoPrivate = 0 :=
  (optedIn_iff c).mp (((sent_iff c ad a).mp hs).2.2.1 (.inl hp))

/-- nothing is ever added: what is serialised is a sub-list of the ad's own attributes -/
theorem sent_sublist (c : Config) (ad : Ad) : (attrsToSend c ad).Sublist ad := by
  rw [attrsToSend_eq_filter]; exact List.filter_sublist

/-- `BuiltSinceVersion(9,9,0)` is the lexicographic comparison: the peer is "too old" exactly
    when its version is strictly before the cut-off (regenerated literals) -/
theorem tooOld_iff (c : Config) (v : Version) (h : c.peer = some v) :
    peerTooOld c = true ↔
      (v.major < CedarGen.Private.v2CutoffMajor ∨
       (v.major = CedarGen.Private.v2CutoffMajor ∧ v.minor < CedarGen.Private.v2CutoffMinor) ∨
       (v.major = CedarGen.Private.v2CutoffMajor ∧ v.minor = CedarGen.Private.v2CutoffMinor ∧
          v.patch < CedarGen.Private.v2CutoffPatch)) := by
  simp only [peerTooOld, h, Version.builtSince]
  generalize CedarGen.Private.v2CutoffMajor = M
  generalize CedarGen.Private.v2CutoffMinor = m
  generalize CedarGen.Private.v2CutoffPatch = p
  by_cases h1 : v.major > M
  · rw [if_pos h1]
    constructor
    · intro hh; simp at hh
    · intro hh; omega
  · rw [if_neg h1]
    by_cases h2 : v.major = M ∧ v.minor > m
    · rw [if_pos h2]
      constructor
      · intro hh; simp at hh
      · intro hh; omega
    · rw [if_neg h2]
      by_cases h3 : v.major = M ∧ v.minor = m ∧ v.patch ≥ p
      · rw [if_pos h3]
        constructor
        · intro hh; simp at hh
        · intro hh; omega
      · rw [if_neg h3]
        constructor
        · intro _; omega
        · intro _; rfl

/-- the cut-off is 9.9.0 -/
theorem cutoff_is_9_9_0 : CedarGen.Private.v2CutoffMajor = 9 ∧ CedarGen.Private.v2CutoffMinor = 9 ∧
    CedarGen.Private.v2CutoffPatch = 0 := by decide

/-- **version gate**: a reserved-prefix attribute is serialised only if the peer is not known to
    be older than the cut-off — whatever the options say. -/
theorem v2_gate (c : Config) (ad : Ad) (a : Attr) (hp : isPrivV2 a.name = true)
    (hs : a ∈ attrsToSend c ad) : peerTooOld c = false :=
  ((sent_iff c ad a).mp hs).2.2.2 hp

/-- an unknown peer version does not withhold (non-vacuity of the gate's other side) -/
theorem unknown_peer_not_old (c : Config) (h : c.peer = none) : peerTooOld c = false := by
  simp [peerTooOld, h]

/-! ## Without the opt-in nothing on the wire depends on the private attributes -/

/-- **non-interference**: if two ads have the same public attributes (same names, expressions,
    order) then without the opt-in the serialiser does exactly the same thing on both — same
    frames, same buffer, same stream state — for every evaluator, option word, whitelist,
    EncryptedAttrs, peer version, stream state and prior buffer content. Hence neither the names
    nor the values of private attributes (nor their number or positions) occur in, or influence,
    any emitted byte. -/
theorem wire_independent_of_private (ev : Eval) (c : Config) (s : Stream) (buf : Bytes) (ad1 ad2 : Ad)
    (hopt : includePrivate c = false) (hpub : publicPart ad1 = publicPart ad2) :
    putAd ev c s buf ad1 = putAd ev c s buf ad2 := by
  unfold putAd putAdWith
  have h1 := items_publicPart ev c s hopt ad1
  have h2 := items_publicPart ev c s hopt ad2
  unfold items at h1 h2
  rw [h1, h2, hpub]

/-- the same for a whole message (`PutClassAd` on a fresh message, then `FinishMessage`) -/
theorem message_independent_of_private (ev : Eval) (c : Config) (s : Stream) (ad1 ad2 : Ad)
    (hopt : includePrivate c = false) (hpub : publicPart ad1 = publicPart ad2) :
    sendAd ev c s ad1 = sendAd ev c s ad2 := by
  unfold sendAd
  rw [wire_independent_of_private ev c s [] ad1 ad2 hopt hpub]

/-- in particular an ad serialises exactly like the ad with its private attributes deleted -/
theorem same_as_redacted (ev : Eval) (c : Config) (s : Stream) (ad : Ad) (hopt : includePrivate c = false) :
    sendAd ev c s ad = sendAd ev c s (publicPart ad) :=
  message_independent_of_private ev c s ad (publicPart ad) hopt (by simp [publicPart, List.filter_filter])

/-- the two ads of the witness below: the same public attribute `MyType = ClaimId`, different secrets -/
def leakAd (secret : String) : Ad :=
  [⟨asciiBytes "MyType", asciiBytes "ClaimId"⟩, ⟨asciiBytes "ClaimId", asciiBytes secret⟩]

/-- **why the type trailer is evaluated without the private attributes** (the defect this check
    found in the unchanged tree, replayed on the Go code by the `privacy` engine): had MyType /
    TargetType been evaluated in the whole ad, as `putClassAdToMessageWithOptions` did, the
    non-interference statement would be false — with default options the ad
    `[MyType = ClaimId; ClaimId = "s1"]` puts the claim id into the cleartext trailer. -/
theorem unredacted_types_fails :
    ¬ (∀ (ev : Eval) (c : Config) (s : Stream) (ad1 ad2 : Ad), includePrivate c = false →
        publicPart ad1 = publicPart ad2 →
        (putAdWith (fun ad _ => ad) ev c s [] ad1).2.1 = (putAdWith (fun ad _ => ad) ev c s [] ad2).2.1) := by
  intro h
  have := h (refEval 3) {} {} (leakAd "\"s1\"") (leakAd "\"s2\"") (by decide) (by decide)
  revert this
  decide

/-- **the type trailer is independent of the private attributes of the ad's scopes**: the trailer
    is evaluated, and the evaluator resolves `PARENT.x` / `TARGET.x` in the enclosing and the matched
    ad. For every evaluator, every ad and every pair of scope ads that agree on their public
    attributes, the two trailer values are the same — another ad's `ClaimId` cannot reach the
    cleartext trailer through `MyType = TARGET.ClaimId` (fix ce45501), whether or not the
    serialised ad has private attributes of its own. -/
theorem types_independent_of_scope_private (ev : EvalS) (enc : List Bytes) (ad : Ad)
    (p1 p2 t1 t2 : Option Ad) (hp : p1.map redactScope = p2.map redactScope)
    (ht : t1.map redactScope = t2.map redactScope) :
    typeItemsScoped ev enc ad p1 t1 = typeItemsScoped ev enc ad p2 t2 := by
  unfold typeItemsScoped
  simp only [hp, ht]

def scope_types_legacy_statement : Prop :=
  ∀ (ev : EvalS) (enc : List Bytes) (ad : Ad) (p1 p2 t1 t2 : Option Ad),
    p1.map redactScope = p2.map redactScope → t1.map redactScope = t2.map redactScope →
    Legacy.typeItemsScoped ev enc ad p1 t1 = Legacy.typeItemsScoped ev enc ad p2 t2

/-- a matched ad holding only a claim id -/
def claimAd (secret : String) : Ad := [⟨asciiBytes "ClaimId", asciiBytes secret⟩]

/-- **before the fix the statement was false** (found by the `privacy` engine on the Go code,
    findings/F-C09-type-trailer-scope.json): with the scopes kept as they are, two matched ads that
    differ only in their `ClaimId` give different trailers. -/
theorem scope_types_legacy_fails : ¬ scope_types_legacy_statement := by
  intro h
  have := h targetClaimEval [] [] none none (some (claimAd "s1")) (some (claimAd "s2")) (by decide) (by decide)
  revert this
  decide

/-- the fixed trailer of that witness carries neither secret -/
example : typeItemsScoped targetClaimEval [] [] none (some (claimAd "s1")) =
    typeItemsScoped targetClaimEval [] [] none (some (claimAd "s2")) := by decide

/-! ## With the opt-in, on a stream that holds a key but is not encrypting -/

/-- the frame the stream puts on the wire for a payload is raw exactly when the stream is not
    encrypting at that moment, and an AES-GCM seal of that very payload when it is: this is what
    `PFrame.sealed` records (ties the typed layer's frames to the L2 stream model). -/
theorem sealed_iff_ciphertext (s s' : Stream) (p : Bytes) (flag : Nat) (f : WireFrame)
    (h : s.sendFrame p flag = .ok (s', f)) :
    (s.crypting = false → f.body = .raw p) ∧
    (s.crypting = true → ∃ iv sl, f.body = .ct iv sl ∧ sl.plain = p) := by
  unfold Stream.sendFrame at h
  by_cases hl : p.length > maxMessageSize
  · rw [if_pos hl] at h; cases h
  · rw [if_neg hl] at h
    cases hk : s.key with
    | none =>
      simp only [hk] at h
      simp only [Except.ok.injEq, Prod.mk.injEq] at h
      obtain ⟨_, rfl⟩ := h
      exact ⟨fun _ => rfl, fun hc => by simp [Stream.crypting, hk] at hc⟩
    | some k =>
      cases he : s.encrypted with
      | false =>
        simp only [hk, he] at h
        simp only [Except.ok.injEq, Prod.mk.injEq] at h
        obtain ⟨_, rfl⟩ := h
        exact ⟨fun _ => rfl, fun hc => by simp [Stream.crypting, he] at hc⟩
      | true =>
        simp only [hk, he] at h
        by_cases h1 : p.length + tagLen + (if s.encCtr = 0 then ivLen else 0) > maxMessageSize
        · rw [if_pos h1] at h; cases h
        · rw [if_neg h1] at h
          by_cases h2 : s.encCtr = counterLimit
          · rw [if_pos h2] at h; cases h
          · rw [if_neg h2] at h
            simp only [Except.ok.injEq, Prod.mk.injEq] at h
            obtain ⟨_, rfl⟩ := h
            exact ⟨fun hc => by simp [Stream.crypting, hk, he] at hc, fun _ => ⟨_, _, rfl, rfl⟩⟩

/-- **secrets only sealed**: on a stream that holds a session key but is not encrypting, for
    every configuration and ad (strings NUL-free, shorter than 2 GiB), the payload bytes of ALL
    frames that travel unprotected are exactly the reference encodings of the expression count,
    the public expressions, a bare marker in place of every secret expression, and the type
    trailer (evaluated without the private attributes); the secret expressions — name and
    value — make up exactly the payload of the protected frames, as length-prefixed strings. -/
theorem secrets_only_sealed (ev : Eval) (c : Config) (s : Stream) (ad : Ad) (hs : MarkerState s)
    (hw : ∀ it ∈ items ev c s ad, it.wf) :
    clearBytes (sendAd ev c s ad) = Spec.encAll false ((items ev c s ad).map Item.clearVal) ∧
    sealedBytes (sendAd ev c s ad) = Spec.encAll true (secretVals (items ev c s ad)) := by
  obtain ⟨h1, h2, h3⟩ := emitItems_marker (items ev c s ad) s [] hs hw
  unfold sendAd putAd putAdWith
  simp only [items] at h1 h2 h3 ⊢
  simp only [clearBytes_append, sealedBytes_append]
  constructor
  · simp only [clearBytes, flushOn, h3.crypting] at h1 ⊢
    simpa using h1
  · simp only [sealedBytes, flushOn, h3.crypting] at h2 ⊢
    simpa using h2

/-- **values travel only inside encrypted frames** (non-interference form): on a stream that
    holds a session key but is not encrypting, two ads with the same attribute names in the same
    order that differ only in the VALUES of private attributes put exactly the same bytes into the
    unprotected frames — for every configuration (opt-in included), whitelist, peer, evaluator.
    The only cleartext trace of a private attribute that is sent is a bare marker. -/
theorem clear_independent_of_private_values (ev : Eval) (c : Config) (s : Stream) (ad1 ad2 : Ad)
    (hs : MarkerState s) (h : SameButPrivateValues ad1 ad2)
    (hw1 : ∀ it ∈ items ev c s ad1, it.wf) (hw2 : ∀ it ∈ items ev c s ad2, it.wf) :
    clearBytes (sendAd ev c s ad1) = clearBytes (sendAd ev c s ad2) := by
  rw [(secrets_only_sealed ev c s ad1 hs hw1).1, (secrets_only_sealed ev c s ad2 hs hw2).1,
    clearVals_same ev c s ad1 ad2 hs h]

/-- which items are secrets on the marker path: exactly the serialised attributes that are
    private (or listed in EncryptedAttrs) -/
theorem marker_items (c : Config) (s : Stream) (hs : MarkerState s) (a : Attr) :
    attrItem (!secretIsNoop s) c.encryptedAttrs a =
      if isSecretName c.encryptedAttrs a.name then .secret (exprStr a) else .val (.str (exprStr a)) := by
  have : secretIsNoop s = false := by
    have hk := hs.keyed
    simp only [Option.isSome_iff_exists] at hk
    obtain ⟨k, hk⟩ := hk
    simp [secretIsNoop, hs.clear, hk]
  simp [attrItem, this]

/-- **encrypting stream**: when the stream is already encrypting, every frame is protected — no
    payload byte of the ad travels in the clear, private or not. -/
theorem encrypting_all_sealed (ev : Eval) (c : Config) (s : Stream) (ad : Ad)
    (hk : s.key.isSome = true) (he : s.encrypted = true) :
    clearBytes (sendAd ev c s ad) = [] := by
  have hnoop : secretIsNoop s = true := by simp [secretIsNoop, he]
  have hcr : s.crypting = true := by simp [Stream.crypting, hk, he]
  obtain ⟨g1, g2⟩ := emitItems_allVal (items ev c s ad) s [] (items_allVal ev c s ad hnoop)
  unfold sendAd putAd putAdWith
  simp only [items] at g1 g2 ⊢
  have hall : ∀ f ∈ (emitItems s [] (itemsWith typeView ev c s ad)).2.2 ++
      [flushOn (emitItems s [] (itemsWith typeView ev c s ad)).1 (emitItems s [] (itemsWith typeView ev c s ad)).2.1 true],
      f.sealed = true := by
    intro f hf
    rcases List.mem_append.mp hf with h | h
    · rw [g2 f h, hcr]
    · simp only [List.mem_singleton] at h
      rw [h, g1]; simp [flushOn, hcr]
  unfold clearBytes
  rw [List.filter_eq_nil_iff.mpr (fun f hf => by simp [hall f hf])]
  rfl

/-- **the receiver still reassembles the ad**, in all stream states: no key, keyed and
    encrypting, keyed but not encrypting (where each secret arrives as a marker in an unprotected
    frame followed by a protected frame of its own). A receiver whose stream is in the sender's
    state (same key presence, same encryption flag) reads back from exactly the frames written
    the expressions that were to be sent — secret ones included, in order — and the two type
    strings; the crypto toggle of `getSecretString` always meets a frame boundary. For every
    configuration that sends the types, every evaluator, every ad whose strings are NUL-free,
    shorter than 2 GiB and do not start with byte 0xFF (no valid UTF-8 string does). -/
theorem secret_roundtrip (ev : Eval) (c : Config) (s r : Stream) (ad : Ad)
    (hk : r.key.isSome = s.key.isSome) (he : r.encrypted = s.encrypted)
    (hty : hasOpt c.options optNoTypes = false) (hw : ∀ it ∈ items ev c s ad, it.wf) :
    ∃ d', recvAd r ⟨[], false, sendAd ev c s ad⟩ =
      .ok (⟨expectedExprs c ad, (ev (typeView ad c.encryptedAttrs) myTypeName).getD [],
            (ev (typeView ad c.encryptedAttrs) targetTypeName).getD []⟩, d') :=
  recvAd_sendAd ev c s r ad hk he hty hw

/-- what the receiver gets is exactly what `sent_iff` selects, rendered `name = value` -/
theorem received_exprs (c : Config) (ad : Ad) (h : hasOpt c.options optServerTime = false) :
    expectedExprs c ad = (attrsToSend c ad).map exprStr := by
  simp [expectedExprs, h]

/-! ## Non-vacuity -/

def demoAd : Ad :=
  [⟨asciiBytes "Name", asciiBytes "\"slot1\""⟩, ⟨asciiBytes "cLaImId", asciiBytes "\"secret#1\""⟩,
   ⟨asciiBytes "_CONDOR_PRIVx", asciiBytes "7"⟩, ⟨asciiBytes "MyType", asciiBytes "\"Machine\""⟩]

def keyedClear : Stream := { key := some 1, encrypted := false }

-- default options: only the public attributes
example : (attrsToSend {} demoAd).map (·.name) = [asciiBytes "Name", asciiBytes "MyType"] := by decide
-- opted in: everything; opted in and NoPrivate: public only; opted in towards a 9.8.99 peer: no prefix attribute
example : (attrsToSend { options := 32 } demoAd).length = 4 := by decide
example : (attrsToSend { options := 34 } demoAd).length = 2 := by decide
example : (attrsToSend { options := 32, peer := some ⟨9, 8, 99⟩ } demoAd).map (·.name) =
    [asciiBytes "Name", asciiBytes "cLaImId", asciiBytes "MyType"] := by decide
-- a whitelist naming the private attribute does not get it through
example : attrsToSend { whitelist := [asciiBytes "cLaImId"] } demoAd = [] := by decide
-- the marker path really produces protected frames, and the clear ones carry the marker, not the secret
example : ((sendAd (refEval 3) { options := 32 } keyedClear demoAd).map (·.sealed)) =
    [false, true, false, true, false] := by decide
example : MarkerState keyedClear := ⟨rfl, rfl⟩
-- and the model receiver reads all four expressions back on the marker path
example : (match recvAd keyedClear ⟨[], false, sendAd (refEval 3) { options := 32 } keyedClear demoAd⟩ with
    | .ok (ra, _) => ra.exprs == demoAd.map exprStr && ra.myType == asciiBytes "Machine"
    | .error _ => false) = true := by decide
-- a protected frame that arrives unprotected is refused
example : (match recvAd keyedClear ⟨[], false, (sendAd (refEval 3) { options := 32 } keyedClear demoAd).map
      (fun f => { f with sealed := false })⟩ with
    | .error .authFail => true
    | _ => false) = true := by decide

end Cedar.C09
