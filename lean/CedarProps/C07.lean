/-
  C07 — A client reuses a cached session only for the same server, command and tag.
-/
import CedarProofs.CacheLemmas
import CedarProofs.RouteInv

namespace Cedar.C07
open Cedar Cedar.SC

/-- **key_injective**: the rendered command-map key determines the triple — for ALL tags, addresses
    and commands (commas and backslashes inside a part are escaped, fix D17) — so routes for
    different (tag, server, command) never collide. -/
theorem key_injective (tag addr cmd tag' addr' cmd' : Str)
    (h : cmdKey tag addr cmd = cmdKey tag' addr' cmd') : tag = tag' ∧ addr = addr' ∧ cmd = cmd' :=
  cmdKey_injective tag addr cmd tag' addr' cmd' h

/-- the triples that collided before the fix (tag "a", server "b" vs no tag, server "a,b") now have
    different keys; comma-free triples keep the keys they always had -/
theorem comma_triples_distinct :
    cmdKey "a".toList "b".toList "1".toList ≠ cmdKey [] "a,b".toList "1".toList := by decide
example : cmdKey "t".toList "<1.2.3.4:9618>".toList "60007".toList = "{t,<1.2.3.4:9618>,<60007>}".toList := by decide

/-- `MapCommand` sets exactly one route and leaves every other triple's route alone -/
theorem mapCommand_route (c : Cache) (tag addr cmd sid t a m : Str) :
    (c.mapCommand tag addr cmd sid).cmdMap.lookup (cmdKey t a m) =
      if (t, a, m) = (tag, addr, cmd) then some sid else c.cmdMap.lookup (cmdKey t a m) := by
  unfold Cache.mapCommand
  by_cases heq : (t, a, m) = (tag, addr, cmd)
  · simp only [Prod.mk.injEq] at heq
    obtain ⟨rfl, rfl, rfl⟩ := heq
    simp [List.lookup]
  · rw [if_neg heq]
    have hk : cmdKey t a m ≠ cmdKey tag addr cmd := by
      intro hkk
      obtain ⟨e1, e2, e3⟩ := cmdKey_injective _ _ _ _ _ _ hkk
      exact heq (by rw [e1, e2, e3])
    have hb : (cmdKey t a m == cmdKey tag addr cmd) = false := beq_eq_false_iff_ne.mpr hk
    simp only [List.lookup, hb]
    exact lookup_filter_ne _ _ _ hk

/-- **reuse only under the same triple**: a client resumes a session for (tag, server, command)
    only if the command map routes exactly that rendered triple to a session that is present,
    unexpired at that moment and keyed, and the server confirmed it. Together with `mapCommand_route`
    (routes are only ever created by `storeClientSession` for the handshake's own tag, the server it
    connected to, and the commands the server declared valid) a handshake with a different tag, or
    none, never rides it. -/
theorem resume_only_routed (c : Cache) (now : Nat) (tag addr cmd : Str) (ans : ServerAnswer) (ra : Bool)
    (c' : Cache) (sid : Str) (key : Option Nat) (user : String) (auth : Bool)
    (h : clientTry c now tag addr cmd ans ra = (c', .resumed sid key user auth)) :
    ∃ sid' e, c.cmdMap.lookup (cmdKey tag addr cmd) = some sid' ∧ c.get sid' = some e ∧
      e.expired now = false ∧ e.key.isSome = true ∧ sid = e.id ∧ key = e.key ∧ ans = .authorized ∧
      auth = e.authenticated ∧ (ra = true → e.authenticated = true) := by
  unfold clientTry at h
  by_cases ha : addr = []
  · simp [ha] at h
  · rw [if_neg ha] at h
    cases hl : c.lookupByCommand now tag addr cmd with
    | none => simp [hl] at h
    | some e =>
      simp only [hl] at h
      obtain ⟨sid', hs, hg, hx⟩ := lookupByCommand_id c now tag addr cmd e hl
      cases hkk : (e.key.isSome && (e.crypto == "AES" || e.crypto == "AESGCM") && (!ra || e.authenticated)) with
      | false => simp [hkk] at h
      | true =>
        simp only [hkk, Bool.not_true, Bool.false_eq_true, if_false] at h
        have hkey : e.key.isSome = true := by
          simp only [Bool.and_eq_true] at hkk; exact hkk.1.1
        have hra : ra = true → e.authenticated = true := by
          intro hr; simp only [Bool.and_eq_true, hr, Bool.not_true, Bool.false_or] at hkk; exact hkk.2
        cases ans with
        | authorized =>
          simp only [Prod.mk.injEq, ClientStep.resumed.injEq] at h
          obtain ⟨_, hid, hk2, _, ha2⟩ := h
          exact ⟨sid', e, hs, hg, hx, hkey, hid.symm, hk2.symm, rfl, ha2.symm, hra⟩
        | sidNotFound => simp at h
        | broken => simp at h
        | other rc => simp at h

/-- well-formed cache: every entry is filed under its own identifier (what `Store` does) -/
def WF (c : Cache) : Prop := ∀ id e, c.get id = some e → e.id = id

theorem wf_empty : WF {} := by intro id e h; simp [Cache.get] at h

theorem wf_store (c : Cache) (e : Entry) (h : WF c) : WF (c.store e) := by
  intro id e' hg
  by_cases hid : id = e.id
  · subst hid; rw [get_store_self] at hg; injection hg with hg; rw [← hg]
  · rw [get_store_other c e id hid] at hg; exact h id e' hg

theorem wf_invalidate (c : Cache) (sid : Str) (h : WF c) : WF (c.invalidate sid) := by
  intro id e' hg
  by_cases hid : id = sid
  · subst hid; rw [get_invalidate_self] at hg; cases hg
  · rw [get_invalidate_other c sid id hid] at hg; exact h id e' hg

/-- **drop_on_failure**: when the server no longer knows the session (SID_NOT_FOUND) or the
    exchange breaks, the session is gone from the cache, no command route leads to it any more,
    and the cache stays well-formed (so the next handshake for that triple is a full one:
    `lookupByCommand` finds no session behind any route). -/
theorem drop_on_failure (c : Cache) (hwf : WF c) (now : Nat) (tag addr cmd : Str) (ans : ServerAnswer) (ra : Bool)
    (c' : Cache) (sid : Str) (hans : ans = .sidNotFound ∨ ans = .broken)
    (h : clientTry c now tag addr cmd ans ra = (c', .resumeFailed sid)) :
    c'.get sid = none ∧ (∀ p ∈ c'.cmdMap, p.2 ≠ sid) ∧ WF c' := by
  unfold clientTry at h
  by_cases ha : addr = []
  · simp [ha] at h
  · rw [if_neg ha] at h
    cases hl : c.lookupByCommand now tag addr cmd with
    | none => simp [hl] at h
    | some e =>
      simp only [hl] at h
      obtain ⟨sid', hs, hg, hx⟩ := lookupByCommand_id c now tag addr cmd e hl
      have hid : e.id = sid' := hwf sid' e hg
      cases hkk : (e.key.isSome && (e.crypto == "AES" || e.crypto == "AESGCM") && (!ra || e.authenticated)) with
      | false => simp [hkk] at h
      | true =>
        simp only [hkk, Bool.not_true, Bool.false_eq_true, if_false] at h
        rcases hans with rfl | rfl
        all_goals (
          simp only [Prod.mk.injEq, ClientStep.resumeFailed.injEq] at h
          obtain ⟨rfl, rfl⟩ := h
          exact ⟨get_invalidate_self c e.id,
                 invalidate_no_routes c e.id (by rw [hid, hg]; rfl),
                 wf_invalidate c e.id hwf⟩)

/-- after the drop the same triple finds nothing to resume: the next handshake is full -/
theorem next_is_full (c : Cache) (now : Nat) (tag addr cmd sid : Str) (ans : ServerAnswer) (ra : Bool)
    (hnone : c.get sid = none) (hroute : c.cmdMap.lookup (cmdKey tag addr cmd) = some sid) :
    (clientTry c now tag addr cmd ans ra).2 = .full := by
  unfold clientTry
  by_cases ha : addr = []
  · simp [ha]
  · rw [if_neg ha]
    have : c.lookupByCommand now tag addr cmd = none := by
      unfold Cache.lookupByCommand; simp [hroute, hnone]
    simp [this]

/-- **invalidate_removes_routes / expire_removes_routes**: no route resolves to an invalidated
    session, and a route to an expired session resolves to nothing. -/
theorem invalidate_removes_routes (c : Cache) (sid : Str) (now : Nat) (tag addr cmd : Str) (e : Entry)
    (hwf : WF c) (h : (c.invalidate sid).lookupByCommand now tag addr cmd = some e) : e.id ≠ sid := by
  obtain ⟨sid', _, hg, _⟩ := lookupByCommand_id _ now tag addr cmd e h
  have hid := wf_invalidate c sid hwf sid' e hg
  intro heq
  rw [hid] at heq
  rw [heq, get_invalidate_self] at hg
  cases hg

theorem expire_removes_routes (c : Cache) (now : Nat) (tag addr cmd : Str) (e : Entry)
    (h : c.lookupByCommand now tag addr cmd = some e) : e.expired now = false := by
  obtain ⟨_, _, _, hx⟩ := lookupByCommand_id c now tag addr cmd e h
  exact hx

/-! Non-vacuity (tests): a session stored under tag "A" is found under "A" and not without a tag. -/
def e1 : Entry := { id := "s1".toList, addr := "srv".toList, key := some 3, crypto := "AES", user := "u", authenticated := true,
                    validCommands := ["60007".toList], expiration := some 5000, lease := 10, tag := [] }
def c1 : Cache := clientStore {} "A".toList "srv".toList e1
example : (clientTry c1 1000 "A".toList "srv".toList "60007".toList .authorized).2 = .resumed "s1".toList (some 3) "u" true := by decide
example : (clientTry c1 1000 [] "srv".toList "60007".toList .authorized).2 = .full := by decide
example : (clientTry c1 1000 "B".toList "srv".toList "60007".toList .authorized).2 = .full := by decide
example : (clientTry c1 1000 "A".toList "other".toList "60007".toList .authorized).2 = .full := by decide
example : (clientTry c1 1000 "A".toList "srv".toList "60008".toList .authorized).2 = .full := by decide
example : (clientTry c1 9000 "A".toList "srv".toList "60007".toList .authorized).2 = .full := by decide

/-- **invalidate_leaves_no_route** (last clause, on the RAW command map): after `Invalidate sid` no
    mapping leads to `sid` and no entry is filed under it — whether or not an entry was still there
    (a by-id lookup may have dropped an expired entry and left its mappings; fix D24). -/
theorem invalidate_leaves_no_route (c : Cache) (sid : Str) :
    (∀ p ∈ (c.invalidate sid).cmdMap, p.2 ≠ sid) ∧ (c.invalidate sid).get sid = none :=
  ⟨invalidate_no_routes' c sid, get_invalidate_self c sid⟩

/-- **sweep_leaves_no_dangling_route** (last clause, on the RAW command map): after the expiry sweep
    (`InvalidateExpired`) — run on ANY cache, in particular one where earlier by-id lookups already
    dropped expired entries, so that this pass itself expires nothing — every mapping that is left
    leads to an identifier the cache holds. -/
theorem sweep_leaves_no_dangling_route (c : Cache) (now : Nat) :
    ∀ p ∈ (c.invalidateExpired now).cmdMap, ((c.invalidateExpired now).get p.2).isSome = true := by
  intro p hp
  unfold Cache.invalidateExpired at hp ⊢
  simp only [List.mem_filter] at hp
  simpa [Cache.get] using hp.2

/-- … and such a mapping leads to a session that has not expired -/
theorem sweep_routes_live (c : Cache) (now : Nat) (p : Str × Str) (e : Entry)
    (hp : p ∈ (c.invalidateExpired now).cmdMap) (hg : (c.invalidateExpired now).get p.2 = some e) :
    e.expired now = false := by
  unfold Cache.invalidateExpired Cache.get at hg
  simp only at hg
  have hm := lookup_mem _ _ _ hg
  have := (List.mem_filter.mp hm).2
  simpa using this

/-- **legacy_invalidate_leaves_route**: what `Invalidate` did before fix D24, as a concrete history:
    the session expires, a by-id lookup drops the entry, `Invalidate` finds no entry and leaves the
    routes — they lead to whatever is filed under the identifier next. -/
theorem legacy_invalidate_leaves_route :
    ((c1.lookupNonExpired 9000 "s1".toList).1.invalidateLegacy "s1".toList).cmdMap ≠ [] := by decide
example : ((c1.lookupNonExpired 9000 "s1".toList).1.invalidate "s1".toList).cmdMap = [] := by decide
example : ((c1.lookupNonExpired 9000 "s1".toList).1.invalidateExpired 9000).cmdMap = [] := by decide

/-- **explicit_id_plants_no_route**: a handshake that names a cached session by id (under whatever
    tag, server and command the connection is for) never adds a binding to the command map — every
    (key ↦ session) pair present afterwards was present before. So no later ordinary handshake can
    ride a session through a route such a connection left behind. -/
theorem explicit_id_plants_no_route (c : Cache) (now : Nat) (sid : Str) (answer : ServerAnswer) (ra : Bool) (b : Str × Str) :
    b ∈ (clientById c now sid answer ra).1.cmdMap → b ∈ c.cmdMap := by
  unfold clientById Cache.lookupNonExpired
  cases hg : c.get sid with
  | none => simp [hg]
  | some e =>
    simp only [hg]
    by_cases hx : e.expired now = true
    · simp [hx]
    · simp only [hx, Bool.false_eq_true, if_false]
      by_cases hra : (!(e.key.isSome && (e.crypto == "AES" || e.crypto == "AESGCM")) || (ra && !e.authenticated)) = true
      · rw [if_pos hra]; simp
      rw [if_neg hra]
      cases answer with
      | authorized => simp [Cache.store]
      | sidNotFound =>
        unfold Cache.invalidate
        intro h; exact (List.mem_filter.mp h).1
      | broken =>
        unfold Cache.invalidate
        intro h; exact (List.mem_filter.mp h).1
      | other rc => simp


/-- **routes_lead_home**: after ANY history of client operations — full handshakes in which the
    server chooses the session identifier (possibly one the cache already knows), resumption attempts
    by route or by explicit id with any server answer, invalidations, expiry sweeps, lookups — every
    command route leads only to sessions that were established under the route's own tag, with the
    route's own server, and for which the server declared the route's command valid. -/
theorem routes_lead_home (ops : List ClientOp) : Inv (runOps {} ops) :=
  inv_runOps ops {} inv_empty

/-- **resume_only_same_triple** (the property's first sentence, at full strength): in any reachable
    cache, a client that resumes a cached session for (tag, server, command) resumes a session that
    was established under that same tag, with that same server, and for which the server declared
    that command valid — and it is that session's key and identity the handshake returns. -/
theorem resume_only_same_triple (ops : List ClientOp) (now : Nat) (tag addr cmd : Str) (ans : ServerAnswer)
    (ra : Bool) (c' : Cache) (sid : Str) (key : Option Nat) (user : String) (auth : Bool)
    (h : clientTry (runOps {} ops) now tag addr cmd ans ra = (c', .resumed sid key user auth)) :
    ∃ e, (sid, e) ∈ (runOps {} ops).sessions ∧ e.tag = tag ∧ e.addr = addr ∧ cmd ∈ e.validCommands ∧
      key = e.key ∧ user = e.user ∧ auth = e.authenticated := by
  have hinv := routes_lead_home ops
  generalize runOps {} ops = c at h hinv
  unfold clientTry at h
  by_cases ha : addr = []
  · simp [ha] at h
  · rw [if_neg ha] at h
    cases hl : c.lookupByCommand now tag addr cmd with
    | none => simp [hl] at h
    | some e =>
      simp only [hl] at h
      obtain ⟨sid', hs, hg, _⟩ := lookupByCommand_id c now tag addr cmd e hl
      have hmem := get_mem c sid' e hg
      have hid : e.id = sid' := hinv.1 sid' e hmem
      have hroute := hinv.2 tag addr cmd sid' e (lookup_mem _ _ _ hs) hmem
      split at h
      · simp at h
      · cases ans with
        | authorized =>
          simp only [Prod.mk.injEq, ClientStep.resumed.injEq] at h
          obtain ⟨_, h1, h2, h3, h4⟩ := h
          exact ⟨e, by rw [← h1, hid]; exact hmem, hroute.1, hroute.2.1, hroute.2.2, h2.symm, h3.symm, h4.symm⟩
        | sidNotFound => simp at h
        | broken => simp at h
        | other rc => simp at h

/-- **legacy_store_breaks_routes**: what the code did before fix D20, as a concrete history. The
    client holds session "s" for (tag A, srvA); a second server, contacted under (tag B, srvB), hands
    out the same identifier; connecting to srvA under tag A the client then resumes the session of
    srvB — its key 99, its user. (Found by asking for the invariant above; confirmed on the real
    cache by the `clientcache` engine: F-C07-sid-collision.) -/
theorem legacy_store_breaks_routes :
    let eA : Entry := { id := "s".toList, addr := [], key := some 3, crypto := "AES", user := "alice", authenticated := true,
                        validCommands := ["60007".toList], expiration := none, lease := 0, tag := [] }
    let eB : Entry := { eA with key := some 99, user := "mallory" }
    let c := clientStoreLegacy (clientStoreLegacy {} "A".toList "srvA".toList eA) "B".toList "srvB".toList eB
    (clientTry c 0 "A".toList "srvA".toList "60007".toList .authorized).2 = .resumed "s".toList (some 99) "mallory" true := by
  decide

/-- the same history on the repaired code: the route of (A, srvA) is gone, a full handshake follows -/
example :
    let eA : Entry := { id := "s".toList, addr := [], key := some 3, crypto := "AES", user := "alice", authenticated := true,
                        validCommands := ["60007".toList], expiration := none, lease := 0, tag := [] }
    let eB : Entry := { eA with key := some 99, user := "mallory" }
    let c := clientStore (clientStore {} "A".toList "srvA".toList eA) "B".toList "srvB".toList eB
    (clientTry c 0 "A".toList "srvA".toList "60007".toList .authorized).2 = .full := by
  decide

end Cedar.C07
