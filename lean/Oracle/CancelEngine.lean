/-
  Line-protocol driver for the Cancel model (engine `cancel`, property C19).
  Stateless: every op carries the whole operation and the environment's schedule.

    run <ctx> <closed01> <steps> <envs>
      ctx    never | live | fired:c | fired:d
      steps  string over R W (aborting read / write) and r w (error swallowed), `-` = none
      envs   comma-separated, one token per step (or `<n>x<token>` for n equal ones), `-` = none;
             token = <pre><peer><mid>  pre,mid ∈ {-,c,d}   peer ∈ {D done, S stall, F eof, X closed, H short, O other}
    reply  ok ret=<ok|blocked|io:<e>|ctx:<canceled|deadline>> closed=<0|1> io=<n> err=<-|canceled|deadline>
           (closed is taken after the watcher goroutine has run: `settle`)
    hs <ctx> <closed01> <steps> <envs>
      the same for a handshake: the property promises "an error", not which one (handshakes wrap
      and occasionally replace the error), so ret is rendered as ok | blocked | err
-/
import CedarModel.Cancel
import Oracle.Util

namespace Oracle.CancelEngine
open Cedar Cedar.Cancel Oracle

def ctxErr? : Char → Option (Option CtxErr)
  | '-' => some none
  | 'c' => some (some .canceled)
  | 'd' => some (some .deadline)
  | _ => none

def peer? : Char → Option Peer
  | 'D' => some .done
  | 'S' => some .stall
  | 'F' => some (.fail .eof)
  | 'X' => some (.fail .closed)
  | 'H' => some (.fail .short)
  | 'O' => some (.fail .other)
  | _ => none

def envTok? (s : String) : Option StepEnv :=
  match s.toList with
  | [a, b, c] => do
      let pre ← ctxErr? a
      let p ← peer? b
      let mid ← ctxErr? c
      pure { pre := pre, peer := p, mid := mid }
  | _ => none

def envPart? (s : String) : Option (List StepEnv) :=
  match s.splitOn "x" with
  | [t] => (envTok? t).map (fun e => [e])
  | [n, t] => do
      let k ← n.toNat?
      let e ← envTok? t
      pure (List.replicate k e)
  | _ => none

def envs? (s : String) : Option (List StepEnv) :=
  if s == "-" then some []
  else (s.splitOn ",").foldlM (fun acc p => do let l ← envPart? p; pure (acc ++ l)) []

def stepCh? : Char → Option Step
  | 'R' => some { kind := .rd, onErr := .abort }
  | 'W' => some { kind := .wr, onErr := .abort }
  | 'r' => some { kind := .rd, onErr := .swallow }
  | 'w' => some { kind := .wr, onErr := .swallow }
  | _ => none

def steps? (s : String) : Option (List Step) :=
  if s == "-" then some [] else s.toList.mapM stepCh?

def world? (c cl : String) : Option World := do
  let closed ← (if cl == "1" then some true else if cl == "0" then some false else none)
  match c with
  | "never" => some { cancellable := false, closed := closed }
  | "live" => some { cancellable := true, closed := closed }
  | "fired:c" => some { cancellable := true, err := some .canceled, closed := closed }
  | "fired:d" => some { cancellable := true, err := some .deadline, closed := closed }
  | _ => none

def showCtxErr : CtxErr → String
  | .canceled => "canceled"
  | .deadline => "deadline"

def showIoErr : IoErr → String
  | .eof => "eof" | .closed => "closed" | .short => "short" | .other => "other"

def showRet : Ret → String
  | .ok => "ok"
  | .blocked => "blocked"
  | .io e => "io:" ++ showIoErr e
  | .ctx e => "ctx:" ++ showCtxErr e

def zipExact {α β : Type} : List α → List β → Option (List (α × β))
  | [], [] => some []
  | a :: as, b :: bs => (zipExact as bs).map ((a, b) :: ·)
  | _, _ => none

def showRetCoarse : Ret → String
  | .ok => "ok"
  | .blocked => "blocked"
  | _ => "err"

def exec (coarse : Bool) (c cl st en : String) : String :=
  match world? c cl, steps? st, envs? en with
  | some w, some ss, some es =>
    match zipExact ss es with
    | some p =>
      let r := run cur w p
      let w' := settle r.1
      let ret := if coarse then showRetCoarse r.2 else showRet r.2
      s!"ok ret={ret} closed={if w'.closed then 1 else 0} io={w'.io} err={match w'.err with | none => "-" | some e => showCtxErr e}"
    | none => "bad-op"
  | _, _, _ => "bad-op"

def step (_ : Unit) (toks : List String) : Unit × String :=
  ((), match toks with
  | ["run", c, cl, st, en] => exec false c cl st en
  | ["hs", c, cl, st, en] => exec true c cl st en
  | _ => "bad-op")

def run : IO Unit := runEngine () step

end Oracle.CancelEngine
