/-
  Line-protocol driver for the C17 model (engine `conc`).

  Cache as a sequential object (a linearization found by the harness is replayed here):
    reset
    ent <uid> <key> <never|past|future>      declare entry object <uid>
    store <uid> | lookup <k> | lookupne <k> | bycmd <ck> | mapcmd <ck> <k> | invalidate <k>
    gc | clear | size | snapshot | dump
  Configuration cell:
    cfg <shared 0|1> <i> <id,id,...>          -> ok pc=<n> agree=<0|1>
  Two directions of one established stream A (peer B feeds A's incoming wire):
    dnew <keyed 0|1>
    dpeer <payload> <flag>                    B sends one frame towards A
    dpeersecret <payload>                     B sends a secret (payload + NUL, crypto forced on)
    dsend frame <payload> <flag> | dsend write <payload> | dsend end | dsend start | dsend secret <payload>
    drecv frameend | frame | complete | start | read <n> | endread | secret
  Fact table:
    facts                                     -> ok cache=<0|1> sections=<0|1> globals=<0|1> sites=<0|1> writes=<0|1> foot=<0|1> disjoint=<0|1>
-/
import CedarModel.Lockset
import Oracle.Util

namespace Oracle.LocksetEngine
open Cedar Cedar.Lockset Oracle

structure St where
  info : List (Nat × Lin.EntInfo) := []
  cc : Lin.CC := {}
  a : Dir.World := { s := {}, wire := [] }
  b : Stream := {}
  deriving Inhabited

def infoOf (st : St) (u : Nat) : Lin.EntInfo :=
  match st.info.find? (fun p => p.1 == u) with
  | some p => p.2
  | none => ⟨0, .never⟩

def insertNat (x : Nat) : List Nat → List Nat
  | [] => [x]
  | y :: t => if x ≤ y then x :: y :: t else y :: insertNat x t

def sortNat (l : List Nat) : List Nat := l.foldr insertNat []

def insertPair (x : Nat × String) : List (Nat × String) → List (Nat × String)
  | [] => [x]
  | y :: t => if x.1 < y.1 || (x.1 == y.1 && x.2 ≤ y.2) then x :: y :: t else y :: insertPair x t

def sortPairs (l : List (Nat × String)) : List (Nat × String) := l.foldr insertPair []

def showRes (st : St) : Lin.Res → String
  | .unit => "ok"
  | .ent none => "ok none"
  | .ent (some u) => s!"ok u{u}"
  | .bool b => if b then "ok true" else "ok false"
  | .nat n => s!"ok {n}"
  | .objs l => "ok [" ++ ",".intercalate ((sortNat l).map (fun u => s!"u{u}")) ++ "]"
  | .dump s c =>
    let ss := sortPairs (s.map (fun p => (p.1, p.2.name)))
    let cs := sortPairs (c.map (fun p => (p.1, toString p.2)))
    let _ := st
    "ok s=[" ++ ",".intercalate (ss.map (fun p => s!"{p.1}:{p.2}")) ++ "] c=[" ++
      ",".intercalate (cs.map (fun p => s!"{p.1}:{p.2}")) ++ "]"

def linOp (st : St) (o : Lin.Op) : St × String :=
  let (c1, r) := Lin.apply (infoOf st) st.cc o
  ({ st with cc := c1 }, showRes st r)

def expOf : String → Option Lin.ExpC
  | "never" => some .never | "past" => some .past | "future" => some .future | _ => none

def framePlain (f : WireFrame) : String :=
  match f.body with
  | .raw b => s!"{f.flag}:p:{showBytes b}"
  | .ct _ c => s!"{f.flag}:c:{showBytes c.plain}"

def showObs : Option Dir.Obs → String
  | none => "ok dead"
  | some (.sent (.ok fs)) => "ok f=[" ++ ",".intercalate (fs.map framePlain) ++ "]"
  | some (.sent (.error e)) => errStr e
  | some (.got (.ok d)) => "ok " ++ showBytes d
  | some (.got (.error e)) => errStr e

def dstep (st : St) (o : Sum Dir.SendOp Dir.RecvOp) : St × String :=
  let (w1, ob) := Dir.stepWorld st.a o
  ({ st with a := w1 }, showObs ob)

def ivA : IV := ⟨11, [1]⟩
def ivB : IV := ⟨22, [2]⟩

def step (st : St) (toks : List String) : St × String :=
  match toks with
  | ["reset"] => ({}, "ok")
  | ["ent", u, k, e] =>
    match u.toNat?, k.toNat?, expOf e with
    | some u, some k, some e => ({ st with info := (u, ⟨k, e⟩) :: st.info.filter (fun p => p.1 != u) }, "ok")
    | _, _, _ => (st, "bad-op")
  | ["store", u] => match u.toNat? with | some u => linOp st (.store u) | none => (st, "bad-op")
  | ["lookup", k] => match k.toNat? with | some k => linOp st (.lookup k) | none => (st, "bad-op")
  | ["lookupne", k] => match k.toNat? with | some k => linOp st (.lookupNE k) | none => (st, "bad-op")
  | ["bycmd", k] => match k.toNat? with | some k => linOp st (.byCmd k) | none => (st, "bad-op")
  | ["mapcmd", ck, k] =>
    match ck.toNat?, k.toNat? with
    | some ck, some k => linOp st (.mapCmd ck k)
    | _, _ => (st, "bad-op")
  | ["invalidate", k] => match k.toNat? with | some k => linOp st (.invalidate k) | none => (st, "bad-op")
  | ["gc"] => linOp st .gc
  | ["clear"] => linOp st .clear
  | ["size"] => linOp st .size
  | ["snapshot"] => linOp st .snapshot
  | ["dump"] => linOp st .dump
  | ["cfg", sh, i, sched] =>
    match i.toNat?, (if sched == "-" then some [] else (sched.splitOn ",").mapM (·.toNat?)) with
    | some i, some sc =>
      if sh != "0" && sh != "1" then (st, "bad-op") else
      let s := Cfg.runSched (sh == "1") {} sc
      (st, s!"ok pc={s.pc i} agree={if Cfg.keysAgree s i then 1 else 0}")
    | _, _ => (st, "bad-op")
  | ["dnew", keyed] =>
    if keyed == "1" then
      ({ st with a := { s := ({} : Stream).setKey 7 ivA, wire := [] }, b := ({} : Stream).setKey 7 ivB }, "ok")
    else if keyed == "0" then
      ({ st with a := { s := ({} : Stream).finalizeDigests, wire := [] }, b := ({} : Stream).finalizeDigests }, "ok")
    else (st, "bad-op")
  | ["dpeer", pl, flag] =>
    match parsePayload pl, flag.toNat? with
    | some d, some fl =>
      match st.b.sendFrame d fl with
      | .ok (b1, f) => ({ st with b := b1, a := { st.a with wire := st.a.wire ++ [f] } }, "ok")
      | .error e => (st, errStr e)
    | _, _ => (st, "bad-op")
  | ["dpeersecret", pl] =>
    match parsePayload pl with
    | some d =>
      match Dir.applySend st.b (.secret d) with
      | .ok (b1, fs) => ({ st with b := b1, a := { st.a with wire := st.a.wire ++ fs } }, "ok")
      | .error e => (st, errStr e)
    | none => (st, "bad-op")
  | ["dsend", "frame", pl, flag] =>
    match parsePayload pl, flag.toNat? with
    | some d, some fl => dstep st (.inl (.frame d fl))
    | _, _ => (st, "bad-op")
  | ["dsend", "write", pl] =>
    match parsePayload pl with
    | some d => dstep st (.inl (.write d))
    | none => (st, "bad-op")
  | ["dsend", "end"] => dstep st (.inl .endMsg)
  | ["dsend", "start"] => dstep st (.inl .startMsg)
  | ["dsend", "secret", pl] =>
    match parsePayload pl with
    | some d => dstep st (.inl (.secret d))
    | none => (st, "bad-op")
  | ["drecv", "frameend"] => dstep st (.inr .frameEnd)
  | ["drecv", "frame"] => dstep st (.inr .frame)
  | ["drecv", "complete"] => dstep st (.inr .complete)
  | ["drecv", "start"] => dstep st (.inr .startRead)
  | ["drecv", "read", n] => match n.toNat? with | some n => dstep st (.inr (.readBytes n)) | none => (st, "bad-op")
  | ["drecv", "endread"] => dstep st (.inr .endRead)
  | ["drecv", "secret"] => dstep st (.inr .secret)
  | ["facts"] =>
    let b := fun (x : Bool) => if x then "1" else "0"
    (st, s!"ok cache={b (tableOK CedarGen.FactsLock.cacheMethods)} sections={b (cacheSectionsOK CedarGen.FactsLock.cacheMethods)} globals={b (globalsOK CedarGen.FactsLock.globals)} sites={b (Cfg.authSitesOK CedarGen.FactsLock.authSites)} writes={b (Cfg.configWritesOK CedarGen.FactsLock.configWrites)} foot={b (Dir.footprintCovers CedarGen.FactsLock.streamMethods)} disjoint={b Dir.directionsDisjoint}")
  | _ => (st, "bad-op")

def run : IO Unit := runEngine ({} : St) step

end Oracle.LocksetEngine
