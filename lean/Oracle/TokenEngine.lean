/-
  Line-protocol driver for the Token model (engine `token`, property C11).

  set-up ops (all reply `ok`):
    new
    key pool <payload|unreadable>          pool key file configured, contents (scrambled, as on disk)
    key dir                                a key directory is configured
    key named <kid> <payload|unreadable>   file <dir>/<kid>
    cfg <TokenMaxAge> <SEC_TOKEN_MAX_AGE seconds|-> <TrustDomain>
    seg h <segment> b64|json|ok a|ok n|ok s <kid>
    seg p <segment> b64|json|ok <exp> <iat> <sub> <nbf>   exp,iat,nbf: a | b | n:<int>   sub: a | n | s:<payload>
    seg s <segment> b64|ok <sig-term>
    mac <bytes> <mac-term>
  terms:  sig  S.<key>.<tok> | R.<bytes>      mkey  D.<sig>.<tok> | N      mac  H.<mkey>.<msg> | R.<bytes>
  exchange ops:
    srv1 <now> <rb> <frame>...     -> ok m2 <status> id= sid= ra= rb= mac=   | abort <Err>
    srv3 <frame>...                -> accept user=<bytes|none> | reject net:<Err> | reject auth:<Rej>
    cli0 <token> <usable 0|1> <ra> -> ok m1 <status> id= tok= ra=
    cli2 <frame>...                -> ok m3 <status> id= rb= mac= ; <verdict>     | abort <Err>
    verify <now> <token>           -> accept sub= exp= iat= | reject <Rej>
  frames: <payload>/<0|1>
-/
import CedarModel.Token
import Oracle.Util

namespace Oracle.TokenEngine
open Cedar Cedar.Token Oracle

structure St where
  poolSet : Bool := false
  pool : Option Bytes := none
  dirSet : Bool := false
  named : List (Bytes × Option Bytes) := []
  cfgMaxAge : Int := 0
  envMaxAge : Option Int := none
  trustDomain : Bytes := []
  hdrT : List (Bytes × Seg KidV) := []
  clT : List (Bytes × Seg Claims) := []
  sigT : List (Bytes × Seg Sig) := []
  macT : List (Bytes × Mac) := []
  srv : Option AuthData := none
  cli : Option AuthData := none
  deriving Inhabited

def St.cfg (st : St) : SrvCfg :=
  { ks := { poolSet := st.poolSet, pool := st.pool, dirSet := st.dirSet,
            named := fun k => (st.named.lookup k).getD none },
    cfgMaxAge := st.cfgMaxAge, envMaxAge := st.envMaxAge, trustDomain := st.trustDomain }

def St.env (st : St) : Env :=
  { hdr := fun b => (st.hdrT.lookup b).getD .undefined,
    claims := fun b => (st.clT.lookup b).getD .undefined,
    sigOf := fun b => (st.sigT.lookup b).getD .undefined,
    macOf := fun b => (st.macT.lookup b).getD (.raw b) }

/-! terms -/

def parseSigToks : List String → Option Sig
  | ["S", k, t] => do pure (.sign (← parsePayload k) (← parsePayload t))
  | ["R", b] => do pure (.raw (← parsePayload b))
  | _ => none

def parseMacToks : List String → Option Mac
  | ["R", b] => do pure (.raw (← parsePayload b))
  | ["H", "N", m] => do pure (.hmac .nil (← parsePayload m))
  | ["H", "D", "S", k, t, t2, m] => do
      pure (.hmac (.derive (.sign (← parsePayload k) (← parsePayload t)) (← parsePayload t2)) (← parsePayload m))
  | ["H", "D", "R", b, t2, m] => do
      pure (.hmac (.derive (.raw (← parsePayload b)) (← parsePayload t2)) (← parsePayload m))
  | _ => none

def parseSig (s : String) : Option Sig := parseSigToks (s.splitOn ".")
def parseMac (s : String) : Option Mac := parseMacToks (s.splitOn ".")

def showSig : Sig → String
  | .sign k t => s!"S.{showBytes k}.{showBytes t}"
  | .raw b => s!"R.{showBytes b}"
def showKey : MKey → String
  | .derive s t => s!"D.{showSig s}.{showBytes t}"
  | .nil => "N"
def showMac : Mac → String
  | .hmac k m => s!"H.{showKey k}.{showBytes m}"
  | .raw b => s!"R.{showBytes b}"

def parseNum (s : String) : Option NumV :=
  if s == "a" then some .absent
  else if s == "b" then some .bad
  else match s.splitOn ":" with
    | ["n", v] => v.toInt?.map .num
    | _ => none

def parseSub (s : String) : Option SubV :=
  if s == "a" then some .absent
  else if s == "n" then some .nonStr
  else match s.splitOn ":" with
    | ["s", v] => (parsePayload v).map .str
    | _ => none

def parseFrames (specs : List String) : Option (List OutFrame) :=
  specs.mapM (fun sp => match sp.splitOn "/" with
    | [pl, e] => if e == "0" || e == "1" then (parsePayload pl).map (fun b => (b, e == "1")) else none
    | _ => none)

def showOutcome : Outcome → String
  | .accept none => "accept user=none"
  | .accept (some u) => s!"accept user={showBytes u}"
  | .reject (.net e) => s!"reject net:{e.name}"
  | .reject (.auth r) => s!"reject auth:{r.name}"

def showM2 (m : M2) : String :=
  s!"ok m2 {m.status} id={showBytes m.clientID} sid={showBytes m.serverID} ra={showBytes m.ra} rb={showBytes m.rb} mac={showMac m.mac}"
def showM1 (m : M1) : String :=
  s!"ok m1 {m.status} id={showBytes m.clientID} tok={showBytes m.token} ra={showBytes m.ra}"
def showM3 (m : M3) : String :=
  s!"ok m3 {m.status} id={showBytes m.clientID} rb={showBytes m.rb} mac={showMac m.mac}"

def fileArg (s : String) : Option (Option Bytes) :=
  if s == "unreadable" then some none else (parsePayload s).map some

def step (st : St) (toks : List String) : St × String :=
  match toks with
  | ["new"] => ({}, "ok")
  | ["key", "pool", f] =>
    match fileArg f with
    | some c => ({ st with poolSet := true, pool := c }, "ok")
    | none => (st, "bad-op")
  | ["key", "dir"] => ({ st with dirSet := true }, "ok")
  | ["key", "named", k, f] =>
    match parsePayload k, fileArg f with
    | some k, some c => ({ st with named := (k, c) :: st.named }, "ok")
    | _, _ => (st, "bad-op")
  | ["cfg", ma, ema, td] =>
    match ma.toInt?, (if ema == "-" then some none else ema.toInt?.map some), parsePayload td with
    | some ma, some ema, some td => ({ st with cfgMaxAge := ma, envMaxAge := ema, trustDomain := td }, "ok")
    | _, _, _ => (st, "bad-op")
  | "seg" :: "h" :: sg :: rest =>
    match parsePayload sg with
    | none => (st, "bad-op")
    | some b =>
      let v : Option (Seg KidV) := match rest with
        | ["b64"] => some .b64err
        | ["json"] => some .jsonerr
        | ["ok", "a"] => some (.ok .absent)
        | ["ok", "n"] => some (.ok .nonStr)
        | ["ok", "s", k] => (parsePayload k).map (fun k => .ok (.str k))
        | _ => none
      match v with
      | some v => ({ st with hdrT := (b, v) :: st.hdrT }, "ok")
      | none => (st, "bad-op")
  | "seg" :: "p" :: sg :: rest =>
    match parsePayload sg with
    | none => (st, "bad-op")
    | some b =>
      let v : Option (Seg Claims) := match rest with
        | ["b64"] => some .b64err
        | ["json"] => some .jsonerr
        | ["ok", e, i, s, n] => do
            let e ← parseNum e
            let i ← parseNum i
            let s ← parseSub s
            let n ← parseNum n
            pure (.ok { exp := e, iat := i, sub := s, nbf := n })
        | _ => none
      match v with
      | some v => ({ st with clT := (b, v) :: st.clT }, "ok")
      | none => (st, "bad-op")
  | "seg" :: "s" :: sg :: rest =>
    match parsePayload sg with
    | none => (st, "bad-op")
    | some b =>
      let v : Option (Seg Sig) := match rest with
        | ["b64"] => some .b64err
        | ["ok", t] => (parseSig t).map .ok
        | _ => none
      match v with
      | some v => ({ st with sigT := (b, v) :: st.sigT }, "ok")
      | none => (st, "bad-op")
  | ["mac", b, t] =>
    match parsePayload b, parseMac t with
    | some b, some m => ({ st with macT := (b, m) :: st.macT }, "ok")
    | _, _ => (st, "bad-op")
  | "srv1" :: now :: rb :: frames =>
    match now.toInt?, parsePayload rb, parseFrames frames with
    | some now, some rb, some fs =>
      match srvPhase1 st.cfg st.env now rb fs with
      | .error e => ({ st with srv := none }, s!"abort {e.name}")
      | .ok (s, m2) => ({ st with srv := some s }, showM2 m2)
    | _, _, _ => (st, "bad-op")
  | "srv3" :: frames =>
    match st.srv, parseFrames frames with
    | some s, some fs => ({ st with srv := none }, showOutcome (srvPhase2 st.env s fs))
    | _, _ => (st, "bad-op")
  | ["cli0", tok, usable, ra] =>
    match parsePayload tok, parsePayload ra with
    | some tok, some ra =>
      if usable == "0" || usable == "1" then
        let (s, m1) := cliPhase0 st.env tok (usable == "1") ra
        ({ st with cli := some s }, showM1 m1)
      else (st, "bad-op")
    | _, _ => (st, "bad-op")
  | "cli2" :: frames =>
    match st.cli, parseFrames frames with
    | some s, some fs =>
      match cliPhase2 st.env s fs with
      | .error e => ({ st with cli := none }, s!"abort {e.name}")
      | .ok (m3, o) => ({ st with cli := none }, s!"{showM3 m3} ; {showOutcome o}")
    | _, _ => (st, "bad-op")
  | ["verify", now, tok] =>
    match now.toInt?, parsePayload tok with
    | some now, some tok =>
      match verifyIDToken st.cfg st.env now tok with
      | .ok c => (st, s!"accept sub={showBytes c.subject} exp={c.expiry} iat={c.issuedAt}")
      | .error r => (st, s!"reject {r.name}")
    | _, _ => (st, "bad-op")
  | _ => (st, "bad-op")

def run : IO Unit := runEngine ({} : St) step

end Oracle.TokenEngine
