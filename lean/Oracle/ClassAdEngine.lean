/-
  Line-protocol driver for the ClassAd wire and literal models (engines `literal` and `adwire` of C08).

    expr <hex>                          parseAndInsertExpression on one `name = value` string
                                        -> ok <name> lit bool <0|1> | lit int <n> | lit real <neg> <text> | lit str <hex>
                                           ok <name> full <text> (old <hex> | rej)     (the parser decides; what follows if it rejects)
                                           err malformed
    gram <hex>                          LitGrammar's reading of a value text -> gram bool 1 | int n | real neg text | str hex | none
    rd <enc> <keyed> <srcerr> <payload>/<eom> ...   receiver state: string mode, key present, the error the
                                        frame source reports when exhausted, the frames it hands over
    getad | getraw | skip               the three receivers   (a failing getad also lists the items it got through:
                                        `err <class> after <item>...`)
    rest                                GetRemainingBytes
    putmsg <enc> <keyed> <my> <tg> (p:<hex> | s:<hex>)...   putClassAdToMessageWithOptions (after selection) +
                                        PutInt(77) + PutString("tail") + FinishMessage -> the frames, with crypto state
-/
import CedarModel.ClassAdWire
import Oracle.Util

namespace Oracle.ClassAdEngine
open Cedar Oracle

structure St where
  r : Rd := { d := {} }
  srcErr : String := "eof"
  deriving Inhabited

def hx (b : Bytes) : String := if b.isEmpty then "-" else hexOf b

def unhx (s : String) : Option Bytes := if s == "-" then some [] else unhexAux s.toList

def showLit : LitVal → List String
  | .bool b => ["bool", if b then "1" else "0"]
  | .int v => ["int", toString v]
  | .real neg t => ["real", if neg then "1" else "0", hx t]
  | .str s => ["str", hx s]

def noFErr : Bytes → Bool := fun _ => false
def accept : Bytes → Bool := fun _ => true
def reject : Bytes → Bool := fun _ => false

/-- outcome tokens; for `full t` also what parseAndInsertExpression does with the same value text when
    the parser rejects it (`X=` ++ t is read back as the value text t) -/
def showOutcome (o : Outcome) : List String :=
  match o with
  | .lit v => "lit" :: showLit v
  | .old s => ["old", hx s]
  | .full t => ["full", hx t] ++ (match parseAndInsert noFErr reject ([88, 61] ++ t) with
      | .ok (_, .old s) => ["old", hx s]
      | _ => ["rej"])

def showItem (sep : String) (it : Bytes × Outcome) : String :=
  sep.intercalate (hx it.1 :: showOutcome it.2)

def errS (st : St) (e : Err) : String :=
  match e with
  | .eof => "err " ++ st.srcErr
  | e => errStr e

/-- the items of the longest prefix of expressions a failing getad run still got through: the real
    run stops at the first of them the parser rejects, which the model (parser = parameter) cannot know -/
def prefixItems (r1 : Rd) : Nat → Nat → List Item → List Item
  | 0, _, best => best
  | fuel + 1, k, best =>
    match adLoop noFErr accept (k + 1) r1 [] with
    | .ok (items, _) => prefixItems r1 fuel (k + 1) items
    | .error _ => best

def showTFrames (fs : List TFrame) : String :=
  "[" ++ ",".intercalate (fs.map (fun f => s!"{f.1.1.length}:{showBytes f.1.1}:{if f.1.2 then 1 else 0}:{if f.2 then 1 else 0}")) ++ "]"

def parseItem (s : String) : Option SendItem :=
  match s.splitOn ":" with
  | ["p", h] => (unhx h).map SendItem.plain
  | ["s", h] => (unhx h).map SendItem.secret
  | _ => none

/-- `PutClassAdRawBytes`: count, every expression through `PutStringBytes` (same wire bytes as
    `PutString`; frame boundaries differ for an expression that does not fit one frame), the two
    type names through `PutString`. models: message.PutClassAdRawBytes -/
def putItemsB (enc : Bool) : Bytes → List Bytes → Bytes × List TFrame
  | buf, [] => (buf, [])
  | buf, s :: rest =>
    let r := putStringBytes enc buf s
    let (b, fl) := putItemsB enc r.1 rest
    (b, tag enc r.2 ++ fl)

def putAdB (enc : Bool) (buf : Bytes) (exprs : List Bytes) (my tg : Bytes) : Bytes × List TFrame :=
  let r0 := putInt buf exprs.length
  let (b1, fl1) := putItemsB enc r0.1 exprs
  let r2 := putString enc b1 my
  let r3 := putString enc r2.1 tg
  (r3.1, tag enc r0.2 ++ fl1 ++ tag enc r2.2 ++ tag enc r3.2)

def step (st : St) (toks : List String) : St × String :=
  match toks with
  | ["expr", h] =>
    match unhx h with
    | none => (st, "bad-op")
    | some e =>
      match parseAndInsert noFErr accept e with
      | .error er => (st, errStr er)
      | .ok it => (st, "ok " ++ showItem " " it)
  | ["gram", h] =>
    match unhx h with
    | none => (st, "bad-op")
    | some t =>
      match litParse t with
      | some v => (st, "gram " ++ " ".intercalate (showLit v))
      | none => (st, "gram none")
  | "rd" :: enc :: keyed :: srcErr :: specs =>
    match specs.mapM (fun sp => match sp.splitOn "/" with
        | [pl, e] => (parsePayload pl).map (fun b => (b, e == "1"))
        | _ => none) with
    | some fs => ({ r := { d := { src := fs }, mode := enc == "1", keyed := keyed == "1" }, srcErr := srcErr }, "ok")
    | none => (st, "bad-op")
  | ["getad"] =>
    match st.r.getAd noFErr accept with
    | .error e =>
      let items := match st.r.getInt with
        | .ok (n, r1) => prefixItems r1 (min n.toNat 100000) 0 []
        | .error _ => []
      (st, " ".intercalate (errS st e :: "after" :: items.map (showItem "|")))
    | .ok (items, r') =>
      ({ st with r := r' }, " ".intercalate ("ok" :: items.map (showItem "|")))
  | ["getraw"] =>
    match st.r.getRaw with
    | .error e => (st, errS st e)
    | .ok (ad, r') =>
      let lines := (ad.exprs.map (· ++ [10])).flatten
      ({ st with r := r' }, s!"ok raw {hx lines} {hx ad.myType} {hx ad.targetType}")
  | ["skip"] =>
    match st.r.skipAd with
    | .error e => (st, errS st e)
    | .ok r' => ({ st with r := r' }, "ok")
  | ["rest"] =>
    match st.r.d.getRemaining with
    | .error e => (st, errS st e)
    | .ok (v, d) => ({ st with r := { st.r with d := d } }, s!"ok {showBytes v}")
  | "putmsgb" :: enc :: _keyed :: my :: tg :: items =>
    -- the raw-bytes sender: every item is a plain expression (`p:<hex>`)
    match unhx my, unhx tg, items.mapM (fun it => match parseItem it with | some (.plain b) => some b | _ => none) with
    | some my, some tg, some exprs =>
      let e := enc == "1"
      let (b1, fl1) := putAdB e [] exprs my tg
      let r2 := putInt b1 77
      let r3 := putString e r2.1 [116, 97, 105, 108]
      let all := fl1 ++ tag e r2.2 ++ tag e r3.2 ++ [((r3.1, true), e)]
      (st, "ok f=" ++ showTFrames all)
    | _, _, _ => (st, "bad-op")
  | "putmsg" :: enc :: keyed :: my :: tg :: items =>
    match unhx my, unhx tg, items.mapM parseItem with
    | some my, some tg, some its =>
      let e := enc == "1"
      let (b1, fl1) := putAd e (keyed == "1") [] its my tg
      let r2 := putInt b1 77
      let r3 := putString e r2.1 [116, 97, 105, 108]
      let all := fl1 ++ tag e r2.2 ++ tag e r3.2 ++ [((r3.1, true), e)]
      (st, "ok f=" ++ showTFrames all)
    | _, _, _ => (st, "bad-op")
  | _ => (st, "bad-op")

def run : IO Unit := runEngine ({} : St) step

end Oracle.ClassAdEngine
