/-
  Line-protocol driver for the Stream model: engines `framing` (C01), `tamper` (C02),
  `gcmformat` (C12), `handoff` (C15) all speak this vocabulary.
-/
import CedarModel.Stream
import CedarModel.Session
import CedarModel.Export
import Oracle.Util

namespace Oracle.StreamEngine
open Cedar Oracle

structure World where
  a : Stream := {}
  b : Stream := {}
  toA : List WireFrame := []      -- frames in flight towards A
  toB : List WireFrame := []
  sentA : Array WireFrame := #[]  -- everything A ever emitted (for adversarial wire specs)
  sentB : Array WireFrame := #[]
  deriving Inhabited

def showDigest : Digest → String
  | .zero => "Z"
  | .H fed => "H:" ++ digestOf fed
  | .raw b => "R:" ++ digestOf b

def showFrame (f : WireFrame) : String :=
  match f.body with
  | .raw b => s!"F({f.flag},{f.len},raw,{showBytes b})"
  | .ct iv s =>
    let ivs := match iv with
      | some i => s!"iv={i.w0}:{hexOf i.tail}"
      | none => "iv=-"
    let aad := match s.aad.digests with
      | some (x, y) => s!"aad=D[{showDigest x}|{showDigest y}]"
      | none => "aad=H"
    s!"F({f.flag},{f.len},ct,{ivs},n={s.nonce.w0},{aad},k={s.key},{showBytes s.plain})"

def showFrames (fs : List WireFrame) : String :=
  " ".intercalate (fs.map showFrame)

def getEp (w : World) (e : String) : Option Stream :=
  if e == "A" then some w.a else if e == "B" then some w.b else none

def setEp (w : World) (e : String) (s : Stream) : World :=
  if e == "A" then { w with a := s } else { w with b := s }

/-- frames emitted by endpoint `e` travel to the peer -/
def emit (w : World) (e : String) (fs : List WireFrame) : World :=
  if e == "A" then { w with toB := w.toB ++ fs, sentA := w.sentA ++ fs.toArray }
  else { w with toA := w.toA ++ fs, sentB := w.sentB ++ fs.toArray }

def inWire (w : World) (e : String) : List WireFrame := if e == "A" then w.toA else w.toB
def setInWire (w : World) (e : String) (fs : List WireFrame) : World :=
  if e == "A" then { w with toA := fs } else { w with toB := fs }
def peerSent (w : World) (e : String) : Array WireFrame := if e == "A" then w.sentB else w.sentA
def ownSent (w : World) (e : String) : Array WireFrame := if e == "A" then w.sentA else w.sentB

def parseIV (w0 tail : String) : Option IV := do
  let n ← w0.toNat?
  let t ← if tail == "-" then some [] else unhexAux tail.toList
  pure ⟨n, t⟩

/-- wire spec: `h<i>[/f<flag>][/noiv][/iv:<w0>:<tailhex>]` (frame i the PEER emitted), `o<i>[…]`
    (frame i this endpoint itself emitted: reflection) or `r<flag>:<payload>` -/
def parseSpecFrom (sent : Array WireFrame) (spec : String) : Option WireFrame :=
  if spec.startsWith "r" then
    match (spec.drop 1).toString.splitOn ":" with
    | fl :: rest => do
      let flag ← fl.toNat?
      let b ← parsePayload (":".intercalate rest)
      pure ⟨flag, b.length, .raw b⟩
    | _ => none
  else if spec.startsWith "h" || spec.startsWith "o" then
    match (spec.drop 1).toString.splitOn "/" with
    | idx :: mods => do
      let i ← idx.toNat?
      let f ← sent[i]?
      let f' ← mods.foldlM (fun (f : WireFrame) (m : String) =>
        if m.startsWith "f" then do
          let fl ← (m.drop 1).toString.toNat?
          pure { f with flag := fl }
        else if m == "noiv" then
          match f.body with
          | .ct _ s => some { f with body := .ct none s }
          | _ => none
        else if m.startsWith "iv:" then
          match m.splitOn ":" with
          | [_, w0, tl] => do
            let iv ← parseIV w0 tl
            match f.body with
            | .ct _ s => some { f with body := .ct (some iv) s }
            | _ => none
          | _ => none
        else none) f
      pure { f' with len := f'.body.wireLen }
    | _ => none
  else none

def parseSpec (peer own : Array WireFrame) (spec : String) : Option WireFrame :=
  if spec.startsWith "o" then parseSpecFrom own spec else parseSpecFrom peer spec

def boolStr (b : Bool) : String := if b then "1" else "0"

/-- byte `i` of the position-dependent test pattern `seed` (top byte of a multiplicative hash of the
    position): compact op encoding for MiB-sized payloads whose content must reveal a dropped,
    duplicated or reordered chunk. The harness computes the same function (`patByte`). -/
def patByte (seed i : Nat) : UInt8 :=
  UInt8.ofNat (((i + seed) * 2654435761 % 4294967296) / 16777216)

/-- payload syntax of this engine: `pat:<n>:<seed>:<off>` (bytes off .. off+n-1 of pattern `seed`),
    else the common syntax (`-`, hex, `fill:<n>:<byte>`, joined by `+`) -/
def parsePayloadX (s : String) : Option Bytes :=
  match s.splitOn ":" with
  | ["pat", n, seed, off] => do
      let n ← n.toNat?
      let seed ← seed.toNat?
      let off ← off.toNat?
      pure ((List.range n).map (fun j => patByte seed (off + j)))
  | _ => parsePayload s

def step (w : World) (toks : List String) : World × String :=
  match toks with
  | ["new"] => ({}, "ok")
  | ["key", e, k, w0, tl] =>
    match getEp w e, k.toNat?, parseIV w0 tl with
    | some s, some k, some iv => (setEp w e (s.setKey k iv), "ok")
    | _, _, _ => (w, "bad-op")
  | ["send", e, fl, pl] =>
    match getEp w e, fl.toNat?, parsePayloadX pl with
    | some s, some fl, some d =>
      match s.sendFrame d fl with
      | .error er => (w, errStr er)
      | .ok (s', f) => (emit (setEp w e s') e [f], "ok " ++ showFrame f)
    | _, _, _ => (w, "bad-op")
  | ["write", e, pl] =>
    match getEp w e, parsePayloadX pl with
    | some s, some d =>
      match s.writeMessage d with
      | .error er => (w, errStr er)
      | .ok (s', fs) => (emit (setEp w e s') e fs, ("ok " ++ showFrames fs).trimAsciiEnd.toString)
    | _, _ => (w, "bad-op")
  | ["end", e] =>
    match getEp w e with
    | some s =>
      match s.endMessage with
      | .error er => (w, errStr er)
      | .ok (s', fs) => (emit (setEp w e s') e fs, ("ok " ++ showFrames fs).trimAsciiEnd.toString)
    | _ => (w, "bad-op")
  | ["start", e] =>
    match getEp w e with
    | some s => (setEp w e s.startMessage, "ok")
    | _ => (w, "bad-op")
  | ["secret", e, pl] =>
    match getEp w e, parsePayload pl with
    | some s, some d =>
      match s.putSecret d with
      | .error er => (w, errStr er)
      | .ok (s', f) => (emit (setEp w e s') e [f], "ok " ++ showFrame f)
    | _, _ => (w, "bad-op")
  | ["crypto", e, on] =>
    match getEp w e with
    | some s =>
      let (s', r) := s.setCryptoMode (on == "1")
      (setEp w e s', "ok " ++ boolStr r)
    | _ => (w, "bad-op")
  | ["finalize", e] =>
    match getEp w e with
    | some s => (setEp w e s.finalizeDigests, "ok")
    | _ => (w, "bad-op")
  | ["recvc", e] =>
    match getEp w e with
    | some s =>
      match s.recvComplete (inWire w e) with
      | .error er => (w, errStr er)
      | .ok (s', msg, rest) => (setInWire (setEp w e s') e rest, "ok " ++ showBytes msg)
    | _ => (w, "bad-op")
  | ["mrest", e] =>
    match getEp w e with
    | some s =>
      match s.recvRestAux [] (inWire w e) with
      | .error er => (w, errStr er)
      | .ok (s', msg, rest) => (setInWire (setEp w e s') e rest, "ok " ++ showBytes msg)
    | _ => (w, "bad-op")
  | ["recvf", e] =>
    match getEp w e, inWire w e with
    | some _, [] => (w, errStr .eof)
    | some s, f :: rest =>
      match s.recvFrameWithEnd f with
      | .error er => (w, errStr er)
      | .ok (s', d, fl) => (setInWire (setEp w e s') e rest, s!"ok {fl} {showBytes d}")
    | _, _ => (w, "bad-op")
  | ["recvp", e] =>
    match getEp w e, inWire w e with
    | some _, [] => (w, errStr .eof)
    | some s, f :: rest =>
      match s.recvFrame f with
      | .error er => (w, errStr er)
      | .ok (s', d) => (setInWire (setEp w e s') e rest, s!"ok {showBytes d}")
    | _, _ => (w, "bad-op")
  | ["getsecret", e] =>
    match getEp w e, inWire w e with
    | some _, [] => (w, errStr .eof)
    | some s, f :: rest =>
      match s.getSecret f with
      | .error er => (w, errStr er)
      | .ok (s', d) => (setInWire (setEp w e s') e rest, s!"ok {showBytes d}")
    | _, _ => (w, "bad-op")
  | ["startread", e] =>
    match getEp w e with
    | some s =>
      match s.startMessageRead (inWire w e) with
      | .error er => (w, errStr er)
      | .ok (s', rest) => (setInWire (setEp w e s') e rest, "ok")
    | _ => (w, "bad-op")
  | ["read", e, n] =>
    match getEp w e, n.toNat? with
    | some s, some n =>
      match s.readMessageBytes n with
      | .error er => (w, errStr er)
      | .ok (s', d) => (setEp w e s', s!"ok {showBytes d}")
    | _, _ => (w, "bad-op")
  | ["endread", e] =>
    match getEp w e with
    | some s =>
      match s.endMessageRead with
      | .error er => (w, errStr er)
      | .ok s' => (setEp w e s', "ok")
    | _ => (w, "bad-op")
  | "wire" :: e :: specs =>
    match specs.mapM (parseSpec (peerSent w e) (ownSent w e)) with
    | some fs => (setInWire w e fs, "ok")
    | none => (w, "bad-op")
  | ["export", e] =>
    match getEp w e with
    | some s =>
      match s.exportFields (fun _ => List.replicate 32 0) with
      | .error er => (w, errStr er)
      | .ok f => (w, s!"ok flags={f.flags} key={f.key} eiv={f.encIV.w0}:{hexOf f.encIV.tail} div={f.decIV.w0}:{hexOf f.decIV.tail} ectr={f.encCtr} dctr={f.decCtr} fs={f.fs.length} fr={f.fr.length} peer={showBytes f.peer}")
    | _ => (w, "bad-op")
  | ["import", e, blobHex] =>
    match (if blobHex == "-" then some [] else unhexAux blobHex.toList) with
    | some blob =>
      match importBlob blob with
      | .error er => (w, errStr er)
      | .ok s => (setEp w e s, "ok")
    | none => (w, "bad-op")
  | ["import", e, blobHex, addr] =>
    -- the stream is rebuilt around a connection whose remote address is `addr`
    match (if blobHex == "-" then some [] else unhexAux blobHex.toList), parsePayload addr with
    | some blob, some a =>
      match importBlobAround a blob with
      | .error er => (w, errStr er)
      | .ok s => (setEp w e s, "ok")
    | _, _ => (w, "bad-op")
  | ["connaddr", e, addr] =>
    -- NewStream(conn): the remote address of the connection, as the stream records it
    match getEp w e, parsePayload addr with
    | some s, some a => (setEp w e { s with peerAddr := a }, "ok")
    | _, _ => (w, "bad-op")
  | ["setpeer", e, addr] =>
    match getEp w e, parsePayload addr with
    | some s, some a => (setEp w e { s with peerAddr := a }, "ok")
    | _, _ => (w, "bad-op")
  | ["setauth", e, on] =>
    match getEp w e with
    | some s => (setEp w e { s with authenticated := on == "1" }, "ok")
    | _ => (w, "bad-op")
  | ["ident", e] =>
    match getEp w e with
    | some s => (w, s!"ok auth={boolStr s.authenticated} peer={showBytes s.peerAddr}")
    | _ => (w, "bad-op")
  | ["state", e] =>
    match getEp w e with
    | some s => (w, s!"ok enc={boolStr s.encrypted} key={boolStr s.key.isSome} ectr={s.encCtr} dctr={s.decCtr}")
    | _ => (w, "bad-op")
  | _ => (w, "bad-op")

def run : IO Unit := runEngine ({} : World) step

end Oracle.StreamEngine
