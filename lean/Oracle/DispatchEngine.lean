/-
  Line-protocol driver for the dispatch model (engine `dispatch`, C05), composed with the
  handshake model: a connection = honest handshake under the first command's policy, then the
  dispatch loop over follow-on commands.
    server pol=<cmd:A/E/I;...> perms=<cmd:P|P;...> raw=<cmd,cmd> authz=<none|P=u|u|*;...>
    reconfig pol= perms= raw= authz=      (same fields; the cached session is kept)
    conn cauth= cenc= cmethods= cciphers= user= first=<cmd> follow=<c,c|-> keep=<c,c|->
    reconn resumed=<0|1> cauth= cenc= cmethods= cciphers= user= first=<cmd> follow= keep=
    stage pol= perms= raw= authz=         (the configuration the NEXT connsw switches to)
    connsw at=<n> + the fields of conn    (the first n commands arrive under the current server, the rest under the staged one)
    raw cmd=<cmd>
-/
import CedarModel.Dispatch
import Oracle.Util

namespace Oracle.DispatchEngine
open Cedar Cedar.HS Cedar.Disp Oracle

structure St where
  pol : List (Nat × Policy) := []
  handlers : List (Nat × Handler) := []
  authz : Option (List (String × List String)) := none    -- perm ↦ allowed users ("*" = anyone)
  base : Option Policy := none     -- the server's base SecurityConfig: in force for a command without a policy of its own
  sess : Option Sess := none
  staged : Option (List (Nat × Policy) × List (Nat × Handler) × Option (List (String × List String)) × Option Policy) := none
  deriving Inhabited

def kv (toks : List String) (k : String) : Option String :=
  toks.findSome? (fun t => if t.startsWith (k ++ "=") then some (t.drop (k.length + 1)).toString else none)

def str (s : String) : String := if s == "~" then "" else s
def lst (s : String) : List String := if s == "-" || s == "" then [] else (s.splitOn ",").map str
def nats (s : String) : List Nat := (lst s).filterMap (·.toNat?)

def lvlOf (s : String) : String :=
  if s == "R" then lvlRequired else if s == "P" then lvlPreferred else if s == "N" then lvlNever else lvlOptional

def mkServer (st : St) : Server :=
  { handlers := st.handlers
    policyFor := fun c => match st.pol.lookup c with
      | some p => some p
      | none => st.base
    authorizer := st.authz.map (fun tbl => fun perm user =>
      match tbl.lookup perm with
      | some us => us.contains "*" || us.contains user
      | none => false) }

def showEvs (evs : List Ev) : String :=
  " ".intercalate (evs.map (fun e => match e with | .ran c => s!"ran:{c}" | .closed => "closed"))

def srvCfg (p : Policy) : ServerCfg :=
  { auth := p.auth, enc := p.enc, integ := p.integ, methods := ["CLAIMTOBE"], ciphers := ["AES"] }

def doConn (st : St) (toks : List String) (resumed : Bool) (sw : Option Nat := none) : St × String :=
  let g := kv toks
  match g "cauth", g "cenc", g "cmethods", g "cciphers", g "user", g "first", g "follow", g "keep" with
  | some ca, some ce, some cm, some cc, some user, some first, some follow, some keep =>
    match first.toNat? with
    | none => (st, "bad-op")
    | some f =>
      let srv := mkServer st
      let keepL := nats keep
      let sessR : Option Sess :=
        if resumed then st.sess
        else
          let p := (st.pol.lookup f).getD (st.base.getD ⟨lvlOptional, lvlOptional, lvlOptional⟩)
          let c : ClientCfg := { auth := lvlOf ca, enc := lvlOf ce, integ := lvlOptional, methods := lst cm, ciphers := lst cc }
          match (honestRun c (srvCfg p) (fun m => m == "CLAIMTOBE") (str user) "sid").server with
          | .ok o => some ⟨o.reportedAuth, o.reportedEnc, o.user⟩
          | .error _ => none
      match sessR with
      | none => ({ st with sess := none }, "ok hs-failed")
      | some sess =>
        let evs := match sw, st.staged with
          | some n, some (p2, h2, a2, b2) =>
            serveAuthSw srv (mkServer { pol := p2, handlers := h2, authz := a2, base := b2 }) sess (fun c => keepL.contains c) n f (nats follow)
          | _, _ => srv.serveAuth sess (fun c => keepL.contains c) f (nats follow)
        -- the post-auth advertisement of a FULL handshake: postAuthPolicy's list; without an authorizer
        -- the security layer advertises just the negotiated command
        let vc : List Nat := if resumed then [] else
          match srv.authorizer with
          | none => [f]
          | some _ =>
            -- createPostAuthAd: an empty list from the policy leaves the default (the negotiated command)
            if (srv.validCommands sess).isEmpty then [f] else ((srv.validCommands sess).toArray.qsort (· < ·)).toList
        let vcs := if vc.isEmpty then "-" else ",".intercalate (vc.map toString)
        ({ st with sess := some sess }, s!"ok a={if sess.authenticated then 1 else 0} e={if sess.encrypted then 1 else 0} vc={vcs} {showEvs evs}")
  | _, _, _, _, _, _, _, _ => (st, "bad-op")

def step (st : St) (toks : List String) : St × String :=
  let g := kv toks
  match toks with
  | "server" :: _ | "reconfig" :: _ | "stage" :: _ =>
    match g "pol", g "perms", g "raw", g "authz" with
    | some pol, some perms, some raw, some authz =>
      let pols : List (Nat × Policy) := (pol.splitOn ";").filterMap (fun e =>
        match e.splitOn ":" with
        | [c, lv] => match c.toNat?, lv.splitOn "/" with
          | some c, [a, en, i] => some (c, ⟨lvlOf a, lvlOf en, lvlOf i⟩)
          | _, _ => none
        | _ => none)
      let permL : List (Nat × List String) := (perms.splitOn ";").filterMap (fun e =>
        match e.splitOn ":" with
        | [c, ps] => c.toNat?.map (fun c => (c, if ps == "-" then [] else ps.splitOn "|"))
        | _ => none)
      let hs : List (Nat × Handler) := permL.map (fun (c, ps) => (c, ⟨false, ps⟩)) ++ (nats raw).map (fun c => (c, ⟨true, []⟩))
      let az : Option (List (String × List String)) :=
        if authz == "none" then none
        else some ((authz.splitOn ";").filterMap (fun e =>
          match e.splitOn "=" with
          | [p, us] => some (p, us.splitOn "|")
          | _ => none))
      -- `reconfig`: the server's policy function and authorizer change between connections; the
      -- cached session survives
      let base : Option Policy := match g "base" with
        | some b => match b.splitOn "/" with
          | [a, en, i] => some ⟨lvlOf a, lvlOf en, lvlOf i⟩
          | _ => none
        | none => none
      if toks.head? == some "stage" then ({ st with staged := some (pols, hs, az, base) }, "ok")
      else ({ pol := pols, handlers := hs, authz := az, base := base, sess := if toks.head? == some "reconfig" then st.sess else none }, "ok")
    | _, _, _, _ => (st, "bad-op")
  | "conn" :: _ => doConn st toks false
  | "connsw" :: _ =>
    match (g "at").bind (·.toNat?) with
    | some n => doConn st toks false (some n)
    | none => (st, "bad-op")
  | "reconn" :: _ => doConn st toks ((g "resumed") == some "1")
  | "raw" :: _ =>
    match (g "cmd").bind (·.toNat?) with
    | some c => (st, "ok " ++ showEvs ((mkServer st).serveRaw c))
    | none => (st, "bad-op")
  | _ => (st, "bad-op")

def run : IO Unit := runEngine ({} : St) step

end Oracle.DispatchEngine
