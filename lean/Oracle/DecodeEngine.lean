/-
  Line-protocol driver for the Decode model (engine `decode`, property C13).
  Typed-layer ops act on a decoder state (frames given by `frames`), reply `ok <value>` /
  `err <class>` followed by the cumulative meters ` f=<frames pulled> q=<string-level calls>`.
  Frame-layer ops act on raw wire bytes. The claim-id / session-info / crypto-state-blob ops are
  delegated to the engines that already drive those models.
-/
import CedarModel.Decode
import Oracle.Util
import Oracle.ClaimEngine
import Oracle.StreamEngine

namespace Oracle.DecodeEngine
open Cedar Cedar.Decode Oracle

structure ESt where
  s : St := {}
  wire : Bytes := []
  encOn : Bool := false
  deriving Inhabited

def meters (s : St) : String := s!" f={s.m.frames} q={s.m.calls}"

def reply {α : Type} (st : ESt) (r : Res α) (shw : α → String) : ESt × String :=
  match r with
  | (.ok v, s1) => ({ st with s := s1 }, "ok" ++ shw v ++ meters s1)
  | (.error e, s1) => ({ st with s := s1 }, errStr e ++ meters s1)

def showB (b : Bytes) : String := " " ++ showBytes b
def showU (_ : Unit) : String := ""

def wireReply (st : ESt) (r : Except Err (Bytes × Bytes) × WMeter) : ESt × String :=
  match r with
  | (.ok (p, rest), _) => ({ st with wire := rest }, s!"ok {showBytes p} rest={rest.length}")
  | (.error e, _) => (st, errStr e)

def step (st : ESt) (toks : List String) : ESt × String :=
  match toks with
  | ["new", e, k] => ({ s := { enc := e == "1", key := k == "1" } }, "ok")
  | "frames" :: specs =>
    match specs.mapM (fun sp => match sp.splitOn "/" with
        | [pl, e] => (parsePayload pl).map (fun b => (b, e == "1"))
        | _ => none) with
    | some fs => ({ st with s := { st.s with d := { src := fs }, m := {} } }, "ok")
    | none => (st, "bad-op")
  | ["char"] => reply st (getChar st.s) (fun c => s!" {c.toNat}")
  | ["int"] => reply st (getInt st.s) (fun v => s!" {v}")
  | ["int32"] => reply st (getInt32 st.s) (fun v => s!" {v}")
  | ["str"] => reply st (getString st.s) showB
  | ["strmax", cap] =>
    match cap.toInt? with
    | some c => reply st (getStringMax c.toNat st.s) showB
    | none => (st, "bad-op")
  | ["bytes", n] =>
    match n.toInt? with
    | some n => reply st (getBytes n st.s) showB
    | none => (st, "bad-op")
  | ["skipstr"] => reply st (skipString st.s) showU
  | ["ad", cap, pf] =>
    match cap.toInt?, (if pf == "-" then some none else pf.toNat?.map some) with
    | some c, some pfail => reply st (getClassAd c.toNat pfail st.s) showU
    | _, _ => (st, "bad-op")
  | ["adraw"] => reply st (getClassAdRaw st.s) showB
  | ["rawbody", n] =>
    match n.toInt? with
    | some n => reply st (rawBody n st.s) showB
    | none => (st, "bad-op")
  | ["skipad"] => reply st (skipClassAdRaw st.s) showU
  | ["tls"] => reply st (tlsRecv st.s) showB
  | ["krb"] => reply st (krbRead st.s) showB
  | ["rawfield"] => reply st (rawField st.s) showU
  | ["xkey"] => reply st (exchangeKey st.s) showU
  | ["idstr"] => reply st (getIDString st.s) showB
  | ["token"] => reply st (getToken st.s) showB
  | ["rest"] =>
    match st.s.d.getRemaining with
    | .ok (v, d) => ({ st with s := { st.s with d := d } }, s!"ok {showBytes v}")
    | .error e => (st, errStr e)
  | ["wire", e, pl] =>
    match parsePayload pl with
    | some b => ({ st with wire := b, encOn := e == "1" }, "ok")
    | none => (st, "bad-op")
  | ["recvc"] => wireReply st (recvComplete st.encOn (wireFuel st.wire) st.wire [] {})
  | ["readmsg"] => wireReply st (readMessage st.encOn (wireFuel st.wire) st.wire [] {})
  | ["recvf"] =>
    match recvFrame st.encOn st.wire {} with
    | (.ok (fl, p, rest), _) => ({ st with wire := rest }, s!"ok {fl} {showBytes p} rest={rest.length}")
    | (.error e, _) => (st, errStr e)
  | ["recvn"] => wireReply st (recvFrameNE st.encOn st.wire {})
  | ["getsecret"] => wireReply st (getSecretW st.encOn st.encOn st.wire {})
  | ["getfile"] =>
    match getFile st.encOn st.wire {} with
    | (.ok (n, rest), _) => ({ st with wire := rest }, s!"ok {n} rest={rest.length}")
    | (.error e, _) => (st, errStr e)
  | ["passsock", pl] =>
    match parsePayload pl with
    | some b =>
      (match readPassSock b with
       | (.ok (), _) => (st, "ok")
       | (.error e, _) => (st, errStr e))
    | none => (st, "bad-op")
  | ["parse", _] => (st, (Oracle.ClaimEngine.step {} toks).2)
  | ["attrs", _] => (st, (Oracle.ClaimEngine.step {} toks).2)
  | ["importinfo", _] => (st, (Oracle.ClaimEngine.step {} toks).2)
  | ["blob", hex] =>
    match (if hex == "-" then some [] else unhexAux hex.toList) with
    | some b =>
      (match importBlob b with
       | .ok _ => (st, "ok")
       | .error e => (st, errStr e))
    | none => (st, "bad-op")
  | _ => (st, "bad-op")

def run : IO Unit := runEngine ({} : ESt) step

end Oracle.DecodeEngine
