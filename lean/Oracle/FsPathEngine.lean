/-
  Line-protocol driver for the FsPath model (engine `fspath`, property C18).
  Stateless: every op carries its whole input.
-/
import CedarModel.FsPath
import Oracle.Util

namespace Oracle.FsPathEngine
open Cedar Cedar.FsPath Oracle

def b01? (s : String) : Option Bool :=
  if s == "1" then some true else if s == "0" then some false else none

/-- `nil` | `bad` | `hp:<hosthex>:<porthex>` -/
def peer? (s : String) : Option Peer :=
  if s == "nil" then some .nil
  else if s == "bad" then some .bad
  else match s.splitOn ":" with
    | ["hp", h, p] => do
        let h ← parsePayload h
        let p ← parsePayload p
        pure (.hp h p)
    | _ => none

/-- `r:<int>` | `x` | `f` -/
def intMsg? (s : String) : Option IntMsg :=
  if s == "x" then some .extra
  else if s == "f" then some .fail
  else match s.splitOn ":" with
    | ["r", n] => n.toInt?.map .result
    | _ => none

/-- `p:<payload>` | `broken` -/
def pathMsg? (s : String) : Option PathMsg :=
  if s == "broken" then some .broken
  else if s.startsWith "p:" then (parsePayload (s.drop 2).toString).map .payload
  else none

def octal? (s : String) : Option Nat :=
  s.toList.foldlM (fun a c => if '0' ≤ c ∧ c ≤ '7' then some (a * 8 + (c.toNat - 48)) else none) 0

/-- `none` | `<dir01>,<symlink01>,<perm octal>,<nlink>,<uid>` -/
def stat? (s : String) : Option (Option Stat) :=
  if s == "none" then some none
  else match s.splitOn "," with
    | [d, l, p, n, u] => do
        let d ← b01? d
        let l ← b01? l
        let p ← octal? p
        let n ← n.toNat?
        let u ← u.toNat?
        pure (some ⟨d, l, p, n, u⟩)
    | _ => none

def showEff : Eff → String
  | .mkdir l => s!"mkdir:{showBytes l}:700"
  | .remove l => s!"remove:{showBytes l}"

def showEffs (es : List Eff) : String :=
  if es.isEmpty then "-" else ",".intercalate (es.map showEff)

def showOptInt : Option Int → String
  | none => "-"
  | some n => toString n

def strHex (s : String) : String := hexOf s.toUTF8.toList

def step (_ : Unit) (toks : List String) : Unit × String :=
  ((), match toks with
  | ["consts"] =>
    -- the leaf-name expressions are compared by behaviour in the engine (not by their source text)
    s!"ok base={hexOf baseDir} max={maxDirPathSize}"
  | ["path", pl] =>
    match parsePayload pl with
    | some p => s!"ok abs={if isAbs p then 1 else 0} clean={showBytes (clean p)} dir={showBytes (dir p)} base={showBytes (base p)}"
    | none => "bad-op"
  | ["parseip", pl] =>
    match parsePayload pl with
    | some s => match parseIP s with
      | some a => s!"ok {hexOf a}"
      | none => "ok none"
    | none => "bad-op"
  | ["addrleaf", r, pl] =>
    match b01? r, parsePayload pl with
    | some r, some l => match fsAddrLeaf l r with
      | some (ip, port) => s!"ok {showBytes ip} {showBytes port}"
      | none => "ok none"
    | _, _ => "bad-op"
  | ["endpoint", ip, port, pr] =>
    match parsePayload ip, parsePayload port, peer? pr with
    | some ip, some port, some pr => match verifyEndpoint ip port pr with
      | .ok _ => "ok"
      | .error e => "err " ++ e.name
    | _, _, _ => "bad-op"
  | ["validate", r, pr, pl] =>
    match b01? r, peer? pr, parsePayload pl with
    | some r, some pr, some p => match validate p r pr with
      | .ok leaf => s!"ok {showBytes leaf}"
      | .error e => "err " ++ e.name
    | _, _, _ => "bad-op"
  | ["client", r, pr, mk, snd, srv, msg] =>
    match b01? r, peer? pr, b01? mk, b01? snd, intMsg? srv, pathMsg? msg with
    | some r, some pr, some mk, some snd, some srv, some msg =>
      let o := client { peer := pr, mkdirOk := mk, sendOk := snd, srv := srv } r msg
      let ret := match o.ret with | .ok _ => "ok" | .error e => e.name
      let reply := if snd then showOptInt o.reply else (if o.reply.isSome then "lost" else "-")
      s!"ok eff={showEffs o.eff} reply={reply} ret={ret}"
    | _, _, _, _, _, _ => "bad-op"
  | ["server", gen, cli, st, lk, snd] =>
    match b01? gen, intMsg? cli, stat? st, b01? snd with
    | some gen, some cli, some st, some snd =>
      let name : Option (Option Bytes) := if lk == "none" then some none else (parsePayload lk).map some
      match name with
      | none => "bad-op"
      | some name =>
        let o := server { genOk := gen, cli := cli, lstat := st, lookup := fun _ => name, sendOk := snd }
        let ret := match o.ret with | .ok _ => "ok" | .error e => e.name
        let user := match o.user with | some u => showBytes u | none => "none"
        s!"ok result={showOptInt o.result} user={user} removed={if o.removed then 1 else 0} ret={ret}"
    | _, _, _, _ => "bad-op"
  | _ => "bad-op")

def run : IO Unit := runEngine () step

end Oracle.FsPathEngine
