/-
  Line-protocol driver for the CcbDial model (engine `ccb`, property C20).

  Greeting token:  closed | garbage | silent | h:<cmd>:<claim>     (claim `-` = empty string,
                   `@<a>` = the id of launched attempt a, only inside a `dial` world)
  Standard attempt:  std <id> | arrive <g> | reply success|readerr|failure:<msg> | cancel |
                     pick accept|reply|ctx | brokerfail | state | accstate
  Proxied request:   proxy <id> <up> <sok> <require> <reply> <g>    reply = ok | fail:<msg> | unsup | readerr
                     nested <id> <up> <sok> <reply> <g>
  Whole Dial:        dial <seq> <proxy> <require> <anon> <contacts f|n|x …> |
                     att <a> <std-attempt op …> | prx <a> <up> <sok> <reply> <g> | deliver <a> |
                     stagger | dcancel | dpickctx | dstate
-/
import CedarModel.CcbDial
import Oracle.Util

namespace Oracle.CcbEngine
open Cedar Cedar.Ccb Oracle

structure St where
  std : Option Std := none
  sys : Option Sys := none
  deriving Inhabited

def rng (i : Nat) : Id := s!"R{i}"

def unDash (s : String) : String := if s == "-" then "" else s

def parseGreeting (resolve : String → Option String) (t : String) : Option Greeting :=
  match t.splitOn ":" with
  | ["closed"] => some .closed
  | ["garbage"] => some .garbage
  | ["silent"] => some .silent
  | ["h", cmd, claim] => do
    let c ← cmd.toInt?
    let cl ← resolve claim
    pure (.hello c cl)
  | _ => none

def plainClaim (s : String) : Option String := some (unDash s)

def parseReply (t : String) : Option Reply :=
  match t.splitOn ":" with
  | ["success"] => some .success
  | ["readerr"] => some .readErr
  | ["failure", m] => some (.failure (unDash m))
  | _ => none

def parsePReply (t : String) : Option PReply :=
  match t.splitOn ":" with
  | ["ok"] => some (.ad { result := true })
  | ["ok", cl] => some (.ad { result := true, claim := some (unDash cl) })   -- the success reply names a connect id itself
  | ["fail", m] => some (.ad { result := false, err := unDash m })
  | ["fail", m, cl] => some (.ad { result := false, err := unDash m, claim := some (unDash cl) })
  | ["unsup"] => some (.ad { result := false, unsupported := true })
  | ["readerr"] => some .readErr
  | _ => none

def parseBool (t : String) : Option Bool :=
  if t == "1" then some true else if t == "0" then some false else none

def parseEv (resolve : String → Option String) : List String → Option Ev
  | ["arrive", g] => (parseGreeting resolve g).map .arrive
  | ["reply", r] => (parseReply r).map .reply
  | ["cancel"] => some .cancel
  | ["pick", "accept"] => some .pickAccept
  | ["pick", "reply"] => some .pickReply
  | ["pick", "ctx"] => some .pickCtx
  | ["brokerfail"] => some .brokerFail
  | _ => none

def showNats (l : List Nat) : String :=
  "[" ++ ",".intercalate (l.map toString) ++ "]"

def insertSorted (x : Nat) : List Nat → List Nat
  | [] => [x]
  | y :: ys => if x ≤ y then x :: y :: ys else y :: insertSorted x ys

def sortNats (l : List Nat) : List Nat := l.foldr insertSorted []

def showRes : Option (Except AErr Nat) → String
  | none => "none"
  | some (.ok k) => s!"conn:{k}"
  | some (.error e) => s!"err:{e.name}"

instance : BEq (Except AErr Nat) where
  beq a b := match a, b with
    | .ok x, .ok y => x == y
    | .error x, .error y => x == y
    | _, _ => false

/-- observable state of one standard attempt.  Connections that presented the attempt's own id
    but were not handed back are listed apart (`spare`): C20 says nothing about them, the
    harness does not compare them. -/
def showStd (s : Std) : String :=
  let idx := List.range s.seen.length
  let isRet (k : Nat) : Bool := s.result == some (.ok k)
  let spare := idx.filter (fun k => ((s.seen[k]?).map (·.presents s.id)).getD false && !isRet k)
  let rest := idx.filter (fun k => !spare.contains k && !isRet k)
  let closed := rest.filter (fun k => s.closed.contains k)
  let opn := rest.filter (fun k => !s.closed.contains k)
  let spareS := spare.map (fun k => s!"{k}{if s.closed.contains k then "c" else "o"}")
  s!"ret={showRes s.result} closed={showNats (sortNats closed)} open={showNats (sortNats opn)} spare=[{",".intercalate spareS}]"

def showAcc : Acc → String
  | .accepting => "accepting" | .reading k => s!"reading:{k}" | .got k => s!"got:{k}" | .failed => "failed"

/-- the accept goroutine's own view (hook-level runs of acceptReversed) -/
def showAccState (s : Std) : String :=
  let idx := List.range s.seen.length
  let isGot (k : Nat) : Bool := s.acc == .got k
  let spare := idx.filter (fun k => ((s.seen[k]?).map (·.presents s.id)).getD false && !isGot k)
  let rest := idx.filter (fun k => !spare.contains k && !isGot k)
  let closed := rest.filter (fun k => s.closed.contains k)
  let opn := rest.filter (fun k => !s.closed.contains k)
  let spareS := spare.map (fun k => s!"{k}{if s.closed.contains k then "c" else "o"}")
  s!"acc={showAcc s.acc} closed={showNats (sortNats closed)} open={showNats (sortNats opn)} spare=[{",".intercalate spareS}]"

def showDRes : Option (Except DErr (Nat × Nat)) → String
  | none => "none"
  | some (.ok (a, k)) => s!"conn:{a}:{k}"
  | some (.error .timeout) => "err:timeout"
  | some (.error (.allFailed es)) => "err:allFailed[" ++ ",".intercalate (es.map AErr.name) ++ "]"

def showAtt : Att → String
  | .std s => "std " ++ showStd s
  | .prx _ _ r => "prx ret=" ++ (match r with
      | none => "none" | some (.ok _) => "conn" | some (.error e) => "err:" ++ e.name) ++
      -- any error return closes the broker socket (deferred Close unless handed off)
      (match r with
      | some (.error _) => " closed=[0] open=[]"
      | _ => " closed=[] open=[]")

def showDraw : Option Nat → String
  | none => "-"
  | some d => s!"R{d}"

def showSys (y : Sys) : String :=
  s!"ret={showDRes y.result} launched={y.atts.length} ids=[{",".intercalate (y.draws.map showDraw)}] draws={y.ctr}" ++
    String.join (y.atts.map (fun a => " | " ++ showAtt a))

def parseContacts (t : String) : Option (List Contact) :=
  t.toList.mapM (fun c => if c == 'f' then some Contact.flat else if c == 'n' then some (Contact.nested true)
    else if c == 'x' then some (Contact.nested false) else none)

def sysResolve (y : Sys) (claim : String) : Option String :=
  if claim.startsWith "@" then do
    let a ← (claim.drop 1).toString.toNat?
    let t ← y.atts[a]?
    pure t.id
  else some (unDash claim)

def stepSys (st : St) (y : Sys) (e : DEv) : St × String :=
  let before := y.result
  let y' := y.step rng e
  let r := if before.isNone && y'.result.isSome then s!"ok ret {showDRes y'.result}" else "ok"
  ({ st with sys := some y' }, r)

def step (st : St) (toks : List String) : St × String :=
  match toks with
  | ["std", id] => ({ st with std := some (Std.init id) }, "ok")
  | ["state"] =>
    match st.std with
    | some s => (st, "ok " ++ showStd s)
    | none => (st, "bad-op")
  | ["accstate"] =>
    match st.std with
    | some s => (st, "ok " ++ showAccState s)
    | none => (st, "bad-op")
  | ["proxy", id, up, sok, req, reply, g] =>
    match parseBool up, parseBool sok, parseBool req, parsePReply reply, parseGreeting plainClaim g with
    | some up, some sok, some req, some reply, some g =>
      match dialProxy id { up := up, streamingOk := sok } req reply g with
      | .ok _ => (st, "ok conn")
      | .error e => (st, "err " ++ e.name)
    | _, _, _, _, _ => (st, "bad-op")
  | ["nested", id, up, sok, reply, g] =>
    match parseBool up, parseBool sok, parsePReply reply, parseGreeting plainClaim g with
    | some up, some sok, some reply, some g =>
      match proxyRequestDial id { up := up, streamingOk := sok } reply g with
      | .ok _ => (st, "ok conn")
      | .error e => (st, "err " ++ e.name)
    | _, _, _, _ => (st, "bad-op")
  | ["dial", sq, px, rq, an, cs] =>
    match parseBool sq, parseBool px, parseBool rq, parseBool an, parseContacts cs with
    | some sq, some px, some rq, some an, some cs =>
      if cs.isEmpty then (st, "bad-op") else
      let y := Sys.init rng cs { proxy := px, requireStreaming := rq, anonEndpoint := an } sq
      ({ st with sys := some y }, "ok")
    | _, _, _, _, _ => (st, "bad-op")
  | "att" :: a :: rest =>
    match st.sys, a.toNat? with
    | some y, some a =>
      match parseEv (sysResolve y) rest with
      | some ev => stepSys st y (.att a ev)
      | none => (st, "bad-op")
    | _, _ => (st, "bad-op")
  | ["prx", a, up, sok, reply, g] =>
    match st.sys, a.toNat?, parseBool up, parseBool sok, parsePReply reply with
    | some y, some a, some up, some sok, some reply =>
      match parseGreeting (sysResolve y) g with
      | some g => stepSys st y (.prx a { up := up, streamingOk := sok } reply g)
      | none => (st, "bad-op")
    | _, _, _, _, _ => (st, "bad-op")
  | ["deliver", a] =>
    match st.sys, a.toNat? with
    | some y, some a => stepSys st y (.deliver a)
    | _, _ => (st, "bad-op")
  | ["stagger"] => match st.sys with
    | some y => stepSys st y .stagger
    | none => (st, "bad-op")
  | ["dcancel"] => match st.sys with
    | some y => stepSys st y .cancel
    | none => (st, "bad-op")
  | ["dpickctx"] => match st.sys with
    | some y => stepSys st y .pickCtx
    | none => (st, "bad-op")
  | ["dstate"] => match st.sys with
    | some y => (st, "ok " ++ showSys y)
    | none => (st, "bad-op")
  | _ =>
    -- the remaining ops drive the single standard attempt
    match st.std with
    | none => (st, "bad-op")
    | some s =>
      match parseEv plainClaim toks with
      | none => (st, "bad-op")
      | some ev =>
        let s' := s.step ev
        let r := if s.result.isNone && s'.result.isSome then s!"ok ret {showRes s'.result}" else "ok"
        ({ st with std := some s' }, r)

def run : IO Unit := runEngine ({} : St) step

end Oracle.CcbEngine
