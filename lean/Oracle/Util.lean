import CedarModel.Basic
namespace Oracle
open Cedar

/-- generic line loop: `step` maps a state and a tokenised line to a new state and a reply -/
partial def loop {σ : Type} (h : IO.FS.Stream) (out : IO.FS.Stream) (step : σ → List String → σ × String) (s : σ) : IO Unit := do
  let line ← h.getLine
  if line.isEmpty then
    out.flush
    return ()
  let l := line.trimAscii.toString
  if l.isEmpty || l.startsWith "#" then
    loop h out step s
  else
    let toks := (l.splitOn " ").filter (· ≠ "")
    let (s', r) := step s toks
    out.putStrLn r
    loop h out step s'

def runEngine {σ : Type} (init : σ) (step : σ → List String → σ × String) : IO Unit := do
  let stdin ← IO.getStdin
  let stdout ← IO.getStdout
  loop stdin stdout step init

def errStr (e : Err) : String := "err " ++ e.name

def natArg (s : String) : Option Nat := s.toNat?
def intArg (s : String) : Option Int := s.toInt?

end Oracle
