/-
  Line-protocol driver for the handshake model (engines `hsadv` C03, `matrix` C10).
  One op per line, key=value tokens:
    client auth= enc= integ= methods= ciphers= key=0|1 tok=0|1 | rc= sauth= senc= smethods= sciphers= skey=absent|bad|good replies= ok= haskey= post=
    server auth= enc= integ= methods= ciphers= key=0|1 | cauth= cenc= cmethods= cciphers= ckey= masks= ok= user=
           [pc=<cmd>:<auth>:<enc>:<integ>:<methods>/… cmd=<int>|none acmd=<int>|none]   (per-command policies)
    honest cauth= cenc= cinteg= cmethods= cciphers= sauth= senc= sinteg= smethods= sciphers= ok= user=
  Lists are comma separated, `-` = empty; strings use `~` for the empty string.
-/
import CedarModel.Handshake
import Oracle.Util

namespace Oracle.HandshakeEngine
open Cedar Cedar.HS Oracle

def kv (toks : List String) (k : String) : Option String :=
  toks.findSome? (fun t => if t.startsWith (k ++ "=") then some (t.drop (k.length + 1)).toString else none)

def str (s : String) : String := if s == "~" then "" else s
def lst (s : String) : List String := if s == "-" || s == "" then [] else (s.splitOn ",").map str
def ilst (s : String) : Option (List Int) := if s == "-" || s == "" then some [] else (s.splitOn ",").mapM (·.toInt?)

def keyKind (s : String) (id : Nat) : KeyKind :=
  if s == "good" then .good id else if s == "bad" then .bad else .absent

def showRan (ran : List (String × Bool)) : String :=
  let ok := ran.filter (·.2) |>.map (·.1)
  if ok.isEmpty then "-" else ",".intercalate ok

def b01 (b : Bool) : String := if b then "1" else "0"

def showOutcome (o : Outcome) : String :=
  s!"ok auth={b01 o.reportedAuth} enc={b01 o.reportedEnc} method={if o.reportedAuth then o.reportedMethod else "-"} keyed={b01 o.streamKey.isSome} ran={showRan o.ran}"

def parsePost (s : String) : Option (Option PostAuth) :=
  if s == "none" then some none
  else match s.splitOn ":" with
    | [sealed, rc, sid, user, vc] =>
      some (some ⟨sealed == "1", (if rc == "none" then none else some (str rc)), str sid, str user, str vc⟩)
    | _ => none

def optInt (s : String) : Option (Option Int) := if s == "none" then some none else s.toInt?.map some

/-- per-command policy table `cmd:auth:enc:integ:methods/…` (ciphers and key pair are the connection's) -/
def parseTable (dflt : ServerCfg) (s : String) : Option (List (Int × ServerCfg)) :=
  if s == "-" then some []
  else (s.splitOn "/").mapM (fun e => match e.splitOn ":" with
    | [c, a, en, i, ms] => c.toInt?.map (fun k => (k, { dflt with auth := str a, enc := str en, integ := str i, methods := lst ms }))
    | _ => none)

def step (_ : Unit) (toks : List String) : Unit × String :=
  let g := kv toks
  match toks with
  | "client" :: _ =>
    match g "auth", g "enc", g "integ", g "methods", g "ciphers", g "key", g "tok",
          g "rc", g "sauth", g "senc", g "smethods", g "sciphers", g "skey", g "replies", g "ok", g "haskey", g "post" with
    | some a, some e, some i, some ms, some cs, some k, some tk,
      some rc, some sa, some se, some sms, some scs, some sk, some rp, some okm, some hk, some post =>
      match ilst rp, parsePost post with
      | some replies, some pa =>
        let cfg : ClientCfg := { auth := str a, enc := str e, integ := str i, methods := lst ms, ciphers := lst cs,
                                 keyId := if k == "1" then some 1 else none, tokenCompat := tk == "1" }
        let okl := lst okm
        let srv : ServerScript := { returnCode := if rc == "none" then none else some (str rc), auth := str sa, enc := str se,
                                    methods := lst sms, ciphers := lst scs, key := keyKind sk 2, replies := replies,
                                    authOK := fun m => okl.contains m,
                                    hasKeyMsg := if hk == "none" then none else (if hk.endsWith "r" then (hk.dropRight 1).toInt? else hk.toInt?),
                                    keyRecord := hk.endsWith "r", postAuth := pa }
        match clientFull cfg srv with
        | .ok o => ((), showOutcome o)
        | .error er => ((), errStr er)
      | _, _ => ((), "bad-op")
    | _, _, _, _, _, _, _, _, _, _, _, _, _, _, _, _, _ => ((), "bad-op")
  | "server" :: _ =>
    match g "auth", g "enc", g "integ", g "methods", g "ciphers", g "key",
          g "cauth", g "cenc", g "cmethods", g "cciphers", g "ckey", g "masks", g "ok", g "user" with
    | some a, some e, some i, some ms, some cs, some k,
      some ca, some ce, some cms, some ccs, some ck, some mk, some okm, some user =>
      match ilst mk with
      | some masks =>
        let cfg : ServerCfg := { auth := str a, enc := str e, integ := str i, methods := lst ms, ciphers := lst cs,
                                 keyId := if k == "1" then some 2 else none }
        let okl := lst okm
        let cli : ClientScript := { auth := str ca, enc := str ce, methods := lst cms, ciphers := lst ccs,
                                    key := keyKind ck 1, masks := masks,
                                    authOK := fun m => if okl.contains m then some (str user) else none }
        -- optional per-command policies: pc=<cmd>:<auth>:<enc>:<integ>:<methods>/... with cmd= and acmd=
        -- (`none` = attribute not sent); without pc= the plain machine
        let res : Option SrvResult :=
          match g "pc" with
          | none => some (serverFull cfg cli "sid")
          | some pc =>
            match parseTable cfg pc, g "cmd", g "acmd" with
            | some table, some c, some ac =>
              match optInt c, optInt ac with
              | some cmd, some acmd =>
                some (serverPerCommand cfg (fun k => (table.find? (·.1 == k)).map (·.2)) ⟨cmd, acmd⟩ cli "sid")
              | _, _ => none
            | _, _, _ => none
        match res with
        | some (.ok o _) => ((), showOutcome o ++ s!" user={if o.user == "" then "~" else o.user}")
        | some (.denied _ d) => ((), s!"denied auth={b01 d.authentication} enc={b01 d.encryption}")
        | some (.failed er) => ((), errStr er)
        | none => ((), "bad-op")
      | none => ((), "bad-op")
    | _, _, _, _, _, _, _, _, _, _, _, _, _, _ => ((), "bad-op")
  | "honest" :: _ =>
    match g "cauth", g "cenc", g "cinteg", g "cmethods", g "cciphers",
          g "sauth", g "senc", g "sinteg", g "smethods", g "sciphers", g "ok", g "user" with
    | some ca, some ce, some ci, some cms, some ccs, some sa, some se, some si, some sms, some scs, some okm, some user =>
      let c : ClientCfg := { auth := str ca, enc := str ce, integ := str ci, methods := lst cms, ciphers := lst ccs }
      let s : ServerCfg := { auth := str sa, enc := str se, integ := str si, methods := lst sms, ciphers := lst scs }
      let okl := lst okm
      let r := honestRun c s (fun m => okl.contains m) (str user) "sid"
      let sh (x : Except Err Outcome) : String := match x with
        | .ok o => showOutcome o
        | .error er => errStr er
      -- the identities the two ends report: equal, or the display-only fallback of an anonymous session
      let users : String := match r.client, r.server with
        | .ok co, .ok so =>
          if co.user == so.user then "same"
          else if so.user == "" && co.user == "unauthenticated@unmapped" then "anon" else "differ"
        | _, _ => "-"
      ((), s!"client[{sh r.client}] server[{sh r.server}] denied={b01 r.denied} users={users}")
    | _, _, _, _, _, _, _, _, _, _, _, _ => ((), "bad-op")
  | _ => ((), "bad-op")

def run : IO Unit := runEngine () step

end Oracle.HandshakeEngine
