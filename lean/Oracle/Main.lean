import Oracle.StreamEngine
import Oracle.CodecEngine
import Oracle.HandshakeEngine
import Oracle.CacheEngine
import Oracle.DispatchEngine
import Oracle.ClaimEngine
import Oracle.FsPathEngine
import Oracle.TokenEngine
import Oracle.CcbEngine
import Oracle.CancelEngine
import Oracle.PrivacyEngine
import Oracle.DecodeEngine
import Oracle.LocksetEngine
import Oracle.ClassAdEngine

def main (args : List String) : IO UInt32 := do
  match args with
  | ["stream"] => Oracle.StreamEngine.run; return 0
  | ["codec"] => Oracle.CodecEngine.run; return 0
  | ["hs"] => Oracle.HandshakeEngine.run; return 0
  | ["sc"] => Oracle.CacheEngine.run; return 0
  | ["dispatch"] => Oracle.DispatchEngine.run; return 0
  | ["claim"] => Oracle.ClaimEngine.run; return 0
  | ["fspath"] => Oracle.FsPathEngine.run; return 0
  | ["token"] => Oracle.TokenEngine.run; return 0
  | ["ccb"] => Oracle.CcbEngine.run; return 0
  | ["cancel"] => Oracle.CancelEngine.run; return 0
  | ["privacy"] => Oracle.PrivacyEngine.run; return 0
  | ["decode"] => Oracle.DecodeEngine.run; return 0
  | ["conc"] => Oracle.LocksetEngine.run; return 0
  | ["classad"] => Oracle.ClassAdEngine.run; return 0
  | _ =>
    IO.eprintln "usage: cedar_oracle <engine>   (one op per stdin line, one reply per line)"
    return 2
