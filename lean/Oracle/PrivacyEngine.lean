/-
  Line-protocol driver for the Privacy model (engine `privacy`, property C09).

    new                                   fresh case (empty ad, default config, stream without key)
    attr <name> <value>                   append an attribute (payload syntax of Basic.parsePayload)
    opt <n> | wl <name> | enc <name> | peer <M> <m> <p> | peer - | now <int>
    chan <keyed 0|1> <encrypted 0|1>      stream state of sender and receiver
    types <my> <target> <myR> <targetR>   what the classad evaluator yields for MyType/TargetType on the
                                          whole ad and on the ad without its private attributes (`~` = not a string)
    isp <name>                            -> ok v1=<b> v2=<b>
    ver <M> <m> <p>                       -> ok <BuiltSinceVersion(cut-off)>
    filter                                -> ok <names of attrsToSend>
    send                                  -> ok <frames>      PutClassAdWithOptions + FinishMessage
    frames <payload>/<eom>/<sealed> ...   receiver input given explicitly
    recv                                  -> ok n=<exprs> e=[..] mt=.. tt=.. left=<0|1>   GetClassAdRaw on the frames
-/
import CedarModel.Privacy
import Oracle.Util

namespace Oracle.PrivacyEngine
open Cedar Cedar.Privacy Oracle

structure St where
  ad : Ad := []
  cfg : Config := {}
  keyed : Bool := false
  encrypted : Bool := false
  full : Option Bytes × Option Bytes := (none, none)
  red : Option Bytes × Option Bytes := (none, none)
  wire : List PFrame := []
  deriving Inhabited

def St.stream (st : St) : Stream :=
  { key := if st.keyed then some 1 else none, encrypted := st.encrypted }

/-- the evaluator handed over by the harness: one answer for the whole ad, one for any other view -/
def St.ev (st : St) : Eval := fun view n =>
  let t := if view == st.ad then st.full else st.red
  if n == myTypeName then t.1 else if n == targetTypeName then t.2 else none

def b01 (b : Bool) : String := if b then "1" else "0"

def showPFrame (f : PFrame) : String := s!"F({b01 f.eom},{b01 f.sealed},{f.payload.length}:{showBytes f.payload})"

def showList (l : List Bytes) : String := "[" ++ ",".intercalate (l.map showBytes) ++ "]"

def optPayload (s : String) : Option (Option Bytes) :=
  if s == "~" then some none else (parsePayload s).map some

def parseFrame (sp : String) : Option PFrame :=
  match sp.splitOn "/" with
  | [pl, e, z] =>
    if (e == "0" || e == "1") && (z == "0" || z == "1") then
      (parsePayload pl).map (fun b => ⟨b, e == "1", z == "1"⟩)
    else none
  | _ => none

def step (st : St) (toks : List String) : St × String :=
  match toks with
  | ["new"] => ({}, "ok")
  | ["attr", n, v] =>
    match parsePayload n, parsePayload v with
    | some n, some v => ({ st with ad := st.ad ++ [⟨n, v⟩] }, "ok")
    | _, _ => (st, "bad-op")
  | ["opt", n] =>
    match n.toNat? with
    | some n => ({ st with cfg := { st.cfg with options := n } }, "ok")
    | none => (st, "bad-op")
  | ["wl", n] =>
    match parsePayload n with
    | some n => ({ st with cfg := { st.cfg with whitelist := st.cfg.whitelist ++ [n] } }, "ok")
    | none => (st, "bad-op")
  | ["enc", n] =>
    match parsePayload n with
    | some n => ({ st with cfg := { st.cfg with encryptedAttrs := st.cfg.encryptedAttrs ++ [n] } }, "ok")
    | none => (st, "bad-op")
  | ["peer", "-"] => ({ st with cfg := { st.cfg with peer := none } }, "ok")
  | ["peer", a, b, c] =>
    match a.toInt?, b.toInt?, c.toInt? with
    | some a, some b, some c => ({ st with cfg := { st.cfg with peer := some ⟨a, b, c⟩ } }, "ok")
    | _, _, _ => (st, "bad-op")
  | ["now", t] =>
    match t.toInt? with
    | some t => ({ st with cfg := { st.cfg with now := t } }, "ok")
    | none => (st, "bad-op")
  | ["chan", k, e] =>
    if (k == "0" || k == "1") && (e == "0" || e == "1") then
      ({ st with keyed := k == "1", encrypted := e == "1" }, "ok")
    else (st, "bad-op")
  | ["types", a, b, c, d] =>
    match optPayload a, optPayload b, optPayload c, optPayload d with
    | some a, some b, some c, some d => ({ st with full := (a, b), red := (c, d) }, "ok")
    | _, _, _, _ => (st, "bad-op")
  | ["isp", n] =>
    match parsePayload n with
    | some n => (st, s!"ok v1={b01 (isPrivV1 n)} v2={b01 (isPrivV2 n)}")
    | none => (st, "bad-op")
  | ["ver", a, b, c] =>
    match a.toInt?, b.toInt?, c.toInt? with
    | some a, some b, some c =>
      (st, s!"ok {b01 ((⟨a, b, c⟩ : Version).builtSince CedarGen.Private.v2CutoffMajor CedarGen.Private.v2CutoffMinor CedarGen.Private.v2CutoffPatch)}")
    | _, _, _ => (st, "bad-op")
  | ["filter"] => (st, "ok " ++ showList ((attrsToSend st.cfg st.ad).map (·.name)))
  | ["send"] =>
    let fs := sendAd st.ev st.cfg st.stream st.ad
    ({ st with wire := fs }, "ok " ++ " ".intercalate (fs.map showPFrame))
  | "frames" :: specs =>
    match specs.mapM parseFrame with
    | some fs => ({ st with wire := fs }, "ok")
    | none => (st, "bad-op")
  | ["recv"] =>
    match recvAd st.stream ⟨[], false, st.wire⟩ with
    | .error e => (st, errStr e)
    | .ok (ra, d) =>
      (st, s!"ok n={ra.exprs.length} e={showList ra.exprs} mt={showBytes ra.myType} tt={showBytes ra.targetType} left={if d.src.isEmpty then 0 else 1}")
  | _ => (st, "bad-op")

def run : IO Unit := runEngine ({} : St) step

end Oracle.PrivacyEngine
