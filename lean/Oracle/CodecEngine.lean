/-
  Line-protocol driver for the Codec model (engines `codec` for C14 / C01-typed / C13-typed).
-/
import CedarModel.Codec
import CedarModel.CodecLarge
import Oracle.Util

namespace Oracle.CodecEngine
open Cedar Oracle

structure St where
  enc : Bool := false
  buf : Bytes := []
  frames : List OutFrame := []   -- flushed so far (in order)
  dec : Dec := {}
  deriving Inhabited

def showFrames (fs : List OutFrame) : String :=
  "[" ++ ",".intercalate (fs.map (fun f => s!"{f.1.length}:{showBytes f.1}")) ++ "]"

def applyPut (st : St) (r : PutRes) : St × String :=
  ({ st with buf := r.1, frames := st.frames ++ r.2 }, s!"ok f={showFrames r.2}")

/-- Go: frac, exp := math.Frexp(x); fracInt := int32(frac * FracConst) -/
def encodeDouble (x : Float) : Int × Int :=
  let (frac, exp) := x.frExp
  let fi := (frac * Float.ofNat fracConst).toInt32
  (fi.toInt, exp)

def decodeDouble (fi exp : Int) : Float :=
  (Float.ofInt fi / Float.ofNat fracConst).scaleB exp

/-- re-cut all wire bytes of the finished message at the given ascending positions -/
def recut (all : Bytes) (cuts : List Nat) : List OutFrame :=
  let rec go (rest : Bytes) (pos : Nat) : List Nat → List OutFrame
    | [] => [(rest, true)]
    | c :: cs => (rest.take (c - pos), false) :: go (rest.drop (c - pos)) c cs
  go all 0 cuts

def step (st : St) (toks : List String) : St × String :=
  match toks with
  | ["new", e] => ({ enc := e == "1" }, "ok")
  | ["put", "int", v] =>
    match v.toInt? with
    | some v => applyPut st (putInt st.buf v)
    | none => (st, "bad-op")
  | ["put", "char", v] =>
    match v.toNat? with
    | some v => applyPut st (putChar st.buf (UInt8.ofNat v))
    | none => (st, "bad-op")
  | ["put", "str", pl] =>
    match parsePayload pl with
    | some s => applyPut st (putString st.enc st.buf s)
    | none => (st, "bad-op")
  | ["put", "strbytes", pl] =>
    match parsePayload pl with
    | some s => applyPut st (putStringBytesL st.enc st.buf s)
    | none => (st, "bad-op")
  | ["put", "strb", pl] =>
    match parsePayload pl with
    | some s => applyPut st (putStringBytes st.enc st.buf s)
    | none => (st, "bad-op")
  | ["put", "bytes", pl] =>
    match parsePayload pl with
    | some s => applyPut st (putBytes st.enc st.buf s)
    | none => (st, "bad-op")
  | ["put", "dbl", bits] =>
    match bits.toNat? with
    | some b =>
      let (fi, ex) := encodeDouble (Float.ofBits (UInt64.ofNat b))
      let r1 := putInt st.buf fi
      let r2 := seqPut r1 (fun b => putInt b ex)
      applyPut st r2
    | none => (st, "bad-op")
  | ["finish"] =>
    let f := finishMessage st.buf
    let all := st.frames ++ [f]
    ({ st with buf := [], frames := [], dec := { src := all } }, s!"ok f={showFrames [f]} n={all.length}")
  | "recut" :: cuts =>
    -- the decoder's pending frames are replaced by the same bytes cut elsewhere
    let all := (st.dec.src.map (·.1)).flatten
    match cuts.mapM (·.toNat?) with
    | some cs => ({ st with dec := { src := recut all cs } }, s!"ok n={cs.length + 1}")
    | none => (st, "bad-op")
  | "frames" :: specs =>
    -- explicit decoder input: <payload>/<0|1> ...
    match specs.mapM (fun sp => match sp.splitOn "/" with
        | [pl, e] => (parsePayload pl).map (fun b => (b, e == "1"))
        | _ => none) with
    | some fs => ({ st with dec := { src := fs } }, "ok")
    | none => (st, "bad-op")
  | ["newmsg"] =>
    -- `NewMessageFromStream` on the same stream: an empty buffer, the frames not yet read stay on the wire
    ({ st with dec := { src := st.dec.src } }, "ok")
  | ["get", "int"] =>
    match st.dec.getInt with
    | .ok (v, d) => ({ st with dec := d }, s!"ok {v}")
    | .error e => (st, errStr e)
  | ["get", "int32"] =>
    match st.dec.getInt32 with
    | .ok (v, d) => ({ st with dec := d }, s!"ok {v}")
    | .error e => (st, errStr e)
  | ["get", "uint32"] =>
    match st.dec.getUint32 with
    | .ok (v, d) => ({ st with dec := d }, s!"ok {v}")
    | .error e => (st, errStr e)
  | ["get", "char"] =>
    match st.dec.getChar with
    | .ok (v, d) => ({ st with dec := d }, s!"ok {v.toNat}")
    | .error e => (st, errStr e)
  | ["get", "str"] =>
    match st.dec.getString st.enc with
    | .ok (v, d) => ({ st with dec := d }, s!"ok {showBytes v}")
    | .error e => (st, errStr e)
  | ["get", "dbl"] =>
    match st.dec.getInt32 with
    | .error e => (st, errStr e)
    | .ok (fi, d1) =>
      match d1.getInt32 with
      | .error e => (st, errStr e)
      | .ok (ex, d2) => ({ st with dec := d2 }, s!"ok {(decodeDouble fi ex).toBits.toNat}")
  | ["get", "flt"] =>
    -- GetFloat / CodeFloat: the decoded double rounded to float32 (shown as the bits of its float64 value)
    match st.dec.getInt32 with
    | .error e => (st, errStr e)
    | .ok (fi, d1) =>
      match d1.getInt32 with
      | .error e => (st, errStr e)
      | .ok (ex, d2) => ({ st with dec := d2 }, s!"ok {(decodeDouble fi ex).toFloat32.toFloat.toBits.toNat}")
  | ["get", "bytes", n] =>
    match n.toInt? with
    | some n =>
      match st.dec.getBytes n with
      | .ok (v, d) => ({ st with dec := d }, s!"ok {showBytes v}")
      | .error e => (st, errStr e)
    | none => (st, "bad-op")
  | ["get", "rest"] =>
    match st.dec.getRemaining with
    | .ok (v, d) => ({ st with dec := d }, s!"ok {showBytes v}")
    | .error e => (st, errStr e)
  | _ => (st, "bad-op")

def run : IO Unit := runEngine ({} : St) step

end Oracle.CodecEngine
