/-
  Line-protocol driver for the ClaimId model (engine `claim`, property C16).
  Strings travel as hex (`-` = empty). One case = `new` followed by ops on named caches.
-/
import CedarModel.ClaimId
import Oracle.Util

namespace Oracle.ClaimEngine
open Cedar Cedar.Claim Oracle

structure St where
  caches : List (String × Cache) := []
  deriving Inhabited

def h (b : Bytes) : String := if b.isEmpty then "-" else hexOf b

def cacheOf (st : St) (n : String) : Cache := (st.caches.lookup n).getD []
def setCache (st : St) (n : String) (c : Cache) : St :=
  { st with caches := (n, c) :: st.caches.filter (fun kv => kv.1 != n) }

def showVal : Val → String
  | .s v => "s:" ++ h v
  | .i v => s!"i:{v}"
  | .b v => if v then "b:1" else "b:0"

/-- attribute names the engine prints, in this order (name as text, name as bytes) -/
def shownNames : List (String × Bytes) :=
  [("Encryption", nEncryption), ("Integrity", nIntegrity), ("CryptoMethods", nCryptoMethods),
   ("CryptoMethodsList", nCryptoMethodsList), ("ValidCommands", nValidCommands),
   ("SessionExpires", nSessionExpires), ("RemoteVersion", nRemoteVersion), ("ShortVersion", nShortVersion),
   ("SecUseSession", nSecUseSession), ("Sid", nSid), ("Enact", nEnact),
   ("NegotiatedSession", nNegotiatedSession), ("AuthMethods", nAuthMethods), ("User", nUser),
   ("Authenticated", nAuthenticated)]

def showPolicy (p : Policy) : String :=
  let parts := shownNames.filterMap (fun (t, n) => (p.lookup n).map (fun v => t ++ "=" ++ showVal v))
  s!"n={p.length}[" ++ ",".intercalate parts ++ "]"

def showExpiry (now : Int) : Expiry → String
  | .never => "never"
  | .unix s => s!"unix:{s}"
  | .at t => s!"fallback:{t - now}"

def showEntry (now : Int) (e : Entry) : String :=
  let k := match e.key with | .hkdf s => "hkdf:" ++ h s
  s!"id={h e.id} addr={h e.addr} key={k} proto={h e.proto} exp={showExpiry now e.expiry} tag={h e.tag} inh={if e.inherited then 1 else 0} pol={showPolicy e.policy}"

/-- command-map keys as `SessionCache.MapCommand` builds them, sorted, without duplicates -/
def cmdKey (m : CmdMap) : Bytes :=
  if m.tag = [] then 123 :: (m.addr ++ b!",<" ++ m.cmd ++ b!">}")
  else 123 :: (m.tag ++ 44 :: (m.addr ++ b!",<" ++ m.cmd ++ b!">}"))

def showCmds (ms : List CmdMap) : String :=
  let ks := ((ms.map (fun m => hexOf (cmdKey m))).mergeSort (fun a b => decide (a ≤ b))).eraseDups
  "[" ++ ",".intercalate ks ++ "]"

def kv (toks : List String) (k : String) : Option String :=
  toks.findSome? (fun t => if t.startsWith (k ++ "=") then some ((t.drop (k.length + 1)).toString) else none)

def kvBytes (toks : List String) (k : String) : Option Bytes := (kv toks k).bind parsePayload
def kvInt (toks : List String) (k : String) : Option Int := (kv toks k).bind (·.toInt?)
def kvInts (toks : List String) (k : String) : Option (List Int) :=
  (kv toks k).bind (fun s => if s == "-" then some [] else (s.splitOn ",").mapM (·.toInt?))
def kvOptBool (toks : List String) (k : String) : Option (Option Bool) :=
  match kv toks k with
  | some "n" => some none
  | some "1" => some (some true)
  | some "0" => some (some false)
  | _ => none

def parseVal (s : String) : Option Val :=
  match s.splitOn ":" with
  | ["s", x] => (parsePayload x).map Val.s
  | ["i", x] => x.toInt?.map Val.i
  | ["b", "1"] => some (.b true)
  | ["b", "0"] => some (.b false)
  | _ => none

/-- `Name=type:value` with the name given as hex -/
def parseAttr (t : String) : Option (Bytes × Val) :=
  match t.splitOn "=" with
  | [n, v] => do
      let nb ← parsePayload n
      let vv ← parseVal v
      pure (nb, vv)
  | _ => none

def mintOpts (t : List String) : Option MintOpts := do
  pure { sinful := ← kvBytes t "sinful", birthdate := ← kvInt t "bday", seq := ← kvInt t "seq",
         peerFQU := ← kvBytes t "fqu", peerAddr := ← kvBytes t "peer",
         encryption := ← kvOptBool t "enc", integrity := ← kvOptBool t "int",
         cryptoMethods := ← kvBytes t "cm", remoteVersion := ← kvBytes t "rv",
         lifetime := ← kvInt t "life", extraValidCommands := ← kvInts t "xcmds",
         validCommands := ← kvInts t "cmds", tag := ← kvBytes t "tag" }

def importOpts (t : List String) : Option ImportOpts := do
  pure { peerAddr := ← kvBytes t "peer", peerFQU := ← kvBytes t "fqu", duration := ← kvInt t "dur",
         tag := ← kvBytes t "tag", extraValidCommands := ← kvInts t "xcmds" }

def sortedAttrs (a : List (Bytes × Bytes)) : String :=
  -- newest binding first: keep the first occurrence of every key
  let rec dedup : List (Bytes × Bytes) → List Bytes → List (Bytes × Bytes)
    | [], _ => []
    | (k, v) :: rest, seen => if seen.contains k then dedup rest seen else (k, v) :: dedup rest (k :: seen)
  let items := (dedup a []).map (fun (k, v) => h k ++ "=" ++ h v)
  "[" ++ ",".intercalate (items.mergeSort (fun a b => decide (a ≤ b))) ++ "]"

def step (st : St) (toks : List String) : St × String :=
  match toks with
  | ["new"] => ({}, "ok")
  | ["parse", c] =>
    match parsePayload c with
    | some cb =>
      let p := parseStrict cb
      (st, s!"ok sid={h p.sid} info={h p.info} key={h p.key} ssid={h p.secSessionId} pub={h p.publicId}")
    | none => (st, "bad-op")
  | ["attrs", i] =>
    match parsePayload i with
    | some ib =>
      (match importAttrs ib with
       | .ok a => (st, "ok " ++ sortedAttrs a)
       | .error e => (st, errStr e))
    | none => (st, "bad-op")
  | ["importinfo", i] =>
    match parsePayload i with
    | some ib =>
      (match importInfo ib with
       | .ok p => (st, "ok " ++ showPolicy p)
       | .error e => (st, errStr e))
    | none => (st, "bad-op")
  | "export" :: attrs =>
    match attrs.mapM parseAttr with
    | some kvs =>
      -- Set in the order given
      let p : Policy := kvs.foldl (fun p kv => p.set kv.1 kv.2) []
      (match exportInfo p with
       | .ok t => (st, "ok " ++ h t)
       | .error e => (st, errStr e))
    | none => (st, "bad-op")
  | "mint" :: cache :: rest =>
    match mintOpts rest, kvInt rest "now", kvBytes rest "secret" with
    | some o, some now, some secret =>
      (match mint o now secret with
       | .ok m =>
         (setCache st cache ((cacheOf st cache).store m.entry),
          s!"ok claim={h m.claimId} pub={h m.publicId} sid={h m.sid} {showEntry now m.entry} cmds={showCmds m.cmds}")
       | .error e => (st, errStr e))
    | _, _, _ => (st, "bad-op")
  | "import" :: cache :: rest =>
    match importOpts rest, kvInt rest "now", kvBytes rest "claim" with
    | some o, some now, some claim =>
      (match importClaim claim o now with
       | .ok m =>
         (setCache st cache ((cacheOf st cache).store m.entry),
          s!"ok sid={h m.sid} {showEntry now m.entry} cmds={showCmds m.cmds}")
       | .error e => (st, errStr e))
    | _, _, _ => (st, "bad-op")
  | "importft" :: cache :: rest =>
    match importOpts rest, kvInt rest "now", kvBytes rest "claim" with
    | some o, some now, some claim =>
      (match importFileTransfer claim o now with
       | .ok m =>
         (setCache st cache ((cacheOf st cache).store m.entry),
          s!"ok sid={h m.sid} {showEntry now m.entry} cmds={showCmds m.cmds}")
       | .error e => (st, errStr e))
    | _, _, _ => (st, "bad-op")
  | ["resume", cl, sv, sid, now] =>
    match parsePayload sid, now.toInt? with
    | some sidb, some n =>
      (match resume (cacheOf st cl) (cacheOf st sv) sidb n with
       | .clientNotFound => (st, "err clientNotFound")
       | .serverNotFound => (st, "err serverNotFound")
       | .resumed d => (st, s!"ok resumed deliver={if d then 1 else 0}"))
    | _, _ => (st, "bad-op")
  | _ => (st, "bad-op")

def run : IO Unit := runEngine ({} : St) step

end Oracle.ClaimEngine
