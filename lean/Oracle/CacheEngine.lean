/-
  Line-protocol driver for the session-cache / resumption model (engines `resume` C06, `clientcache` C07).
  Two caches: S (server side) and C (client side). Strings travel as tokens (`~` = empty); a virtual
  clock `now` (seconds) starts at 1000.
    sstore <sid> key=<n|none> crypto=<s> user=<s> auth=<0|1> exp=<never|n> lease=<n>
    sresume <sid> want=<0|1> [req=1] -> reply=<none|sidNotFound|authorized> [user= auth= enc=]   (req=1: the server's policy REQUIRES authentication)
    sexpire <sid> | srenew <sid> | sinvalidate <sid> | sgc | tick <n>
    ostore <sid> ... | oinvalidate <sid> | oexpire <sid>     (the server's own isolated cache; `sresume` consults it first)
    chs tag=<s> addr=<s> cmd=<s> answer=<authorized|sidNotFound|broken|other> full=<sid>:<key>:<user>:<auth>:<cmd,cmd>
    cexpire <sid> | cinvalidate <sid> | cgc
    clookup tag=<s> addr=<s> cmd=<s>
    cget <sid>          `LookupNonExpired` on the client cache (an expired entry is deleted, its mappings stay) -> ok sid=<sid> | ok none
    cmap                the RAW command map, sorted: ok [<key>-><sid> ...]   (what `LookupByCommand` cannot show: mappings whose session is gone)
-/
import CedarModel.SessionCache
import Oracle.Util

namespace Oracle.CacheEngine
open Cedar Cedar.SC Oracle

structure St where
  s : Cache := {}
  o : Cache := {}     -- the server's own (isolated) cache; empty unless `ostore` is used
  c : Cache := {}
  now : Nat := 1000
  nonce : Nat := 1
  deriving Inhabited

def kv (toks : List String) (k : String) : Option String :=
  toks.findSome? (fun t => if t.startsWith (k ++ "=") then some (t.drop (k.length + 1)).toString else none)

def str (s : String) : String := if s == "~" then "" else s
def chars (s : String) : Str := (str s).toList
def shows (l : Str) : String := if l.isEmpty then "~" else String.ofList l
def b01 (b : Bool) : String := if b then "1" else "0"

def setExp (c : Cache) (id : Str) (exp : Option Nat) : Cache :=
  match c.get id with
  | some e => c.store { e with expiration := exp }
  | none => c

def step (st : St) (toks : List String) : St × String :=
  let g := kv toks
  match toks with
  | ["reset"] => ({}, "ok")
  | "sstore" :: sid :: _ =>
    match g "key", g "crypto", g "user", g "auth", g "exp", g "lease" with
    | some k, some cr, some u, some a, some ex, some le =>
      let e : Entry := { id := chars sid, addr := [], key := if k == "none" then none else k.toNat?, crypto := str cr,
                         user := str u, authenticated := a == "1", validCommands := [],
                         expiration := if ex == "never" then none else ex.toNat?, lease := le.toNat?.getD 0, tag := [] }
      ({ st with s := st.s.store e }, "ok")
    | _, _, _, _, _, _ => (st, "bad-op")
  | "sresume" :: sid :: _ =>
    match g "want" with
    | some w =>
      let (o', c', reply, out) := serverResume2 st.o st.s st.now (chars sid) (w == "1") st.nonce (g "req" == some "1")
      let rs := match reply with
        | .none => "none" | .sidNotFound => "sidNotFound" | .authorized _ => "authorized"
      let os := match out with
        | some o => s!" user={if o.user == "" then "~" else o.user} auth={b01 o.authenticated} enc={b01 o.encrypted}"
        | none => " refused"
      ({ st with s := c', o := o', nonce := st.nonce + 1 }, s!"ok reply={rs}{os}")
    | none => (st, "bad-op")
  | "ostore" :: sid :: _ =>
    match g "key", g "crypto", g "user", g "auth", g "exp", g "lease" with
    | some k, some cr, some u, some a, some ex, some le =>
      let e : Entry := { id := chars sid, addr := [], key := if k == "none" then none else k.toNat?, crypto := str cr,
                         user := str u, authenticated := a == "1", validCommands := [],
                         expiration := if ex == "never" then none else ex.toNat?, lease := le.toNat?.getD 0, tag := [] }
      ({ st with o := st.o.store e }, "ok")
    | _, _, _, _, _, _ => (st, "bad-op")
  | ["oinvalidate", sid] => ({ st with o := st.o.invalidate (chars sid) }, "ok")
  | ["oexpire", sid] => ({ st with o := setExp st.o (chars sid) (some 0) }, "ok")
  | ["sremain", sid] =>
    let e := match st.o.get (chars sid) with
      | some e => some e
      | none => st.s.get (chars sid)
    match e with
    | none => (st, "ok none")
    | some e =>
      match e.expiration with
      | none => (st, "ok never")
      | some t =>
        let cls := if t ≤ st.now then "past"
          else if e.lease ≠ 0 ∧ t - st.now = e.lease then "lease"   -- one lease (the entry's own) from now
          else s!"other:{t - st.now}"
        (st, s!"ok {cls}")
  | ["sexpire", sid] => ({ st with s := setExp st.s (chars sid) (some 0) }, "ok")
  | ["srenew", sid] =>
    match st.s.get (chars sid) with
    | some e => ({ st with s := st.s.store (e.renew st.now) }, "ok")
    | none => (st, "ok")
  | ["sinvalidate", sid] => ({ st with s := st.s.invalidate (chars sid) }, "ok")
  | ["sgc"] => ({ st with s := st.s.invalidateExpired st.now }, "ok")
  | ["tick", n] => ({ st with now := st.now + n.toNat?.getD 0 }, "ok")
  | "chs" :: _ =>
    match g "tag", g "addr", g "cmd", g "answer", g "full" with
    | some tg, some ad, some cm, some an, some fu =>
      let answer : ServerAnswer := if an == "authorized" then .authorized else if an == "sidNotFound" then .sidNotFound
        else if an == "broken" then .broken else .other an
      let (c1, stp) := clientTry st.c st.now (chars tg) (chars ad) (chars cm) answer (g "req" == some "1")
      match stp with
      | .resumed sid key user auth =>
        ({ st with c := c1 }, s!"ok resumed sid={shows sid} keyed={b01 key.isSome} user={if user == "" then "~" else user} auth={b01 auth}")
      | .resumeFailed sid => ({ st with c := c1 }, s!"ok resume-failed sid={shows sid}")
      | .full =>
        match fu.splitOn "|" with
        | [sid, key, user, auth, cmds] =>
          let e : Entry := { id := chars sid, addr := chars ad, key := if key == "none" then none else key.toNat?, crypto := "AES",
                             user := str user, authenticated := auth == "1",
                             validCommands := (if cmds == "-" then [] else (cmds.splitOn ",").map chars),
                             expiration := some (st.now + 3600), lease := 1800, tag := chars tg }
          ({ st with c := clientStore c1 (chars tg) (chars ad) e }, s!"ok full sid={sid}")
        | _ => ({ st with c := c1 }, "ok full sid=~")
    | _, _, _, _, _ => (st, "bad-op")
  | "cid" :: _ =>
    match g "sid", g "answer" with
    | some sid, some an =>
      let answer : ServerAnswer := if an == "authorized" then .authorized else if an == "sidNotFound" then .sidNotFound
        else if an == "broken" then .broken else .other an
      let (c1, stp) := clientById st.c st.now (chars sid) answer (g "req" == some "1")
      match stp with
      | .resumed sid _ _ _ => ({ st with c := c1 }, s!"ok resumed sid={shows sid}")
      | .resumeFailed sid => ({ st with c := c1 }, s!"ok resume-failed sid={shows sid}")
      | .full => ({ st with c := c1 }, "ok other")
    | _, _ => (st, "bad-op")
  | ["cexpire", sid] => ({ st with c := setExp st.c (chars sid) (some 0) }, "ok")
  | ["cinvalidate", sid] => ({ st with c := st.c.invalidate (chars sid) }, "ok")
  | ["cgc"] => ({ st with c := st.c.invalidateExpired st.now }, "ok")
  | ["cget", sid] =>
    match st.c.lookupNonExpired st.now (chars sid) with
    | (c1, some e) => ({ st with c := c1 }, s!"ok sid={shows e.id}")
    | (c1, none) => ({ st with c := c1 }, "ok none")
  | ["cmap"] =>
    let rows := (st.c.cmdMap.map (fun p => String.ofList p.1 ++ "->" ++ shows p.2)).toArray.qsort (· < ·)
    (st, rows.foldl (fun acc r => acc ++ " " ++ r) "ok")
  | "clookup" :: _ =>
    match g "tag", g "addr", g "cmd" with
    | some tg, some ad, some cm =>
      match st.c.lookupByCommand st.now (chars tg) (chars ad) (chars cm) with
      | some e => (st, s!"ok sid={shows e.id}")
      | none => (st, "ok none")
    | _, _, _ => (st, "bad-op")
  | _ => (st, "bad-op")

def run : IO Unit := runEngine ({} : St) step

end Oracle.CacheEngine
