/-
  Bit-level facts used by the completeness proof of the authentication retry loop (C10):
  single-bit masks, and removing a set bit by subtraction.
-/
namespace Cedar.Bits

theorem and_two_pow_ne_zero {mask i : Nat} : (mask &&& 2 ^ i ≠ 0) ↔ mask.testBit i = true := by
  constructor
  · intro h
    obtain ⟨j, hj⟩ := Nat.exists_testBit_of_ne_zero h
    rw [Nat.testBit_and, Nat.testBit_two_pow] at hj
    simp only [Bool.and_eq_true, decide_eq_true_eq] at hj
    obtain ⟨h1, rfl⟩ := hj
    exact h1
  · intro h hz
    have : (mask &&& 2 ^ i).testBit i = true := by
      rw [Nat.testBit_and, Nat.testBit_two_pow_self, h]; rfl
    rw [hz] at this
    simp at this

theorem two_pow_and_eq {mask i : Nat} (h : mask.testBit i = true) : 2 ^ i &&& mask = 2 ^ i := by
  apply Nat.eq_of_testBit_eq
  intro j
  rw [Nat.testBit_and, Nat.testBit_two_pow]
  by_cases hij : i = j
  · subst hij; simp [h]
  · simp [hij]

theorem two_pow_and_eq_iff {mask i : Nat} : (2 ^ i &&& mask = 2 ^ i) ↔ mask.testBit i = true := by
  constructor
  · intro h
    have : (2 ^ i &&& mask).testBit i = true := by rw [h]; exact Nat.testBit_two_pow_self
    rw [Nat.testBit_and] at this
    simp only [Bool.and_eq_true] at this
    exact this.2
  · exact two_pow_and_eq

/-- removing a set bit by subtraction clears exactly that bit -/
theorem testBit_sub_two_pow {mask i : Nat} (h : mask.testBit i = true) (j : Nat) :
    (mask - 2 ^ i).testBit j = (mask.testBit j && decide (i ≠ j)) := by
  -- mask = q * 2^(i+1) + 2^i + r with r < 2^i
  have hb : mask / 2 ^ i % 2 = 1 := by
    have := @Nat.testBit_eq_decide_div_mod_eq i mask
    rw [this] at h
    simpa using h
  have hr : mask % 2 ^ i < 2 ^ i := Nat.mod_lt _ (Nat.two_pow_pos i)
  have hdecomp : mask = 2 ^ (i + 1) * (mask / 2 ^ (i + 1)) + (2 ^ i + mask % 2 ^ i) := by
    have h1 : mask = 2 ^ i * (mask / 2 ^ i) + mask % 2 ^ i := (Nat.div_add_mod mask (2 ^ i)).symm
    have h2 : mask / 2 ^ i = 2 * (mask / 2 ^ i / 2) + 1 := by
      have := Nat.div_add_mod (mask / 2 ^ i) 2
      omega
    have h3 : mask / 2 ^ i / 2 = mask / 2 ^ (i + 1) := by
      rw [Nat.div_div_eq_div_mul, Nat.pow_succ]
    rw [h3] at h2
    have h4 : 2 ^ (i + 1) = 2 ^ i * 2 := Nat.pow_succ 2 i
    rw [h4]
    calc mask = 2 ^ i * (mask / 2 ^ i) + mask % 2 ^ i := h1
      _ = 2 ^ i * (2 * (mask / (2 ^ i * 2)) + 1) + mask % 2 ^ i := by rw [h4] at h2; rw [← h2]
      _ = 2 ^ i * 2 * (mask / (2 ^ i * 2)) + (2 ^ i + mask % 2 ^ i) := by
        rw [Nat.mul_add, Nat.mul_one, Nat.mul_assoc, Nat.add_assoc]
  have hsub : mask - 2 ^ i = 2 ^ (i + 1) * (mask / 2 ^ (i + 1)) + mask % 2 ^ i := by omega
  have hlt : mask % 2 ^ i < 2 ^ (i + 1) := by
    have : 2 ^ i ≤ 2 ^ (i + 1) := Nat.pow_le_pow_right (by decide) (Nat.le_succ i)
    omega
  rw [hsub, Nat.testBit_two_pow_mul_add _ hlt]
  by_cases hji : j < i + 1
  · rw [if_pos hji, Nat.testBit_mod_two_pow]
    by_cases hj : j < i
    · have : i ≠ j := by omega
      simp [hj, this]
    · have : i = j := by omega
      subst this
      simp
  · rw [if_neg hji]
    have hne : i ≠ j := by omega
    have : mask.testBit j = (mask / 2 ^ (i + 1)).testBit (j - (i + 1)) := by
      rw [Nat.testBit_div_two_pow]
      congr 1
      omega
    rw [this]
    simp [hne]

theorem sub_two_pow_lt {mask i : Nat} (h : mask.testBit i = true) : mask - 2 ^ i < mask := by
  have := Nat.ge_two_pow_of_testBit h
  have := Nat.two_pow_pos i
  omega

end Cedar.Bits
