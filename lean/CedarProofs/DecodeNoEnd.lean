/-
  C13 helper lemmas, part 4: the frame reader without end flag (`stream.ReceiveFrame`) and its
  callers `GetSecret` / `GetFile`. A sequence of frame reads is summarised by `SeqFacts`, which
  composes (`SeqFacts.bind`): what a successful prefix allocated was paid for by wire bytes it
  consumed, and only the last, failing read may have sized a buffer (≤ MaxMessageSize) from a header.
-/
import CedarProofs.DecodeEntry

namespace Cedar.Decode
open Cedar

theorem recvFrameNE_eq (encOn : Bool) (w : Bytes) (m : WMeter) :
    recvFrameNE encOn w m =
      (match recvFrame encOn w m with
       | (.error e, m1) => (.error e, m1)
       | (.ok (_, p, rest), m1) => (.ok (p, rest), m1)) := by
  unfold recvFrameNE recvFrame
  by_cases h5 : (!lenGe w headerSize) = true
  · rw [if_pos h5, if_pos h5]
  · rw [if_neg h5, if_neg h5]
    simp only
    by_cases hbig : beVal ((w.drop 1).take 4) > maxMessageSize
    · rw [if_pos hbig, if_pos hbig]
    · rw [if_neg hbig, if_neg hbig]
      by_cases hflag : ((w.take 1).headD 0).toNat > 10
      · rw [if_pos hflag, if_pos hflag]
      · rw [if_neg hflag, if_neg hflag]
        by_cases hz : beVal ((w.drop 1).take 4) = 0
        · rw [if_pos hz, if_pos hz]
          cases encOn <;> rfl
        · rw [if_neg hz, if_neg hz]
          by_cases hshort : (!lenGe (w.drop headerSize) (beVal ((w.drop 1).take 4))) = true
          · rw [if_pos hshort, if_pos hshort]
          · rw [if_neg hshort, if_neg hshort]

/-- what a sequence of frame reads from `w` costs -/
structure SeqFacts {α : Type} (w : Bytes) (m : WMeter) (r : Except Err (α × Bytes)) (m' : WMeter) : Prop where
  np : r ≠ .error .panic
  frames : headerSize * m'.frames ≤ headerSize * m.frames + w.length + headerSize
  alloc : m'.alloc ≤ m.alloc + w.length + maxMessageSize
  depth : m'.depth = m.depth
  ok : ∀ v rest, r = .ok (v, rest) →
    headerSize * m'.frames + rest.length ≤ headerSize * m.frames + w.length ∧
    m'.alloc + rest.length ≤ m.alloc + w.length ∧ rest.length ≤ w.length

theorem recvFrameNE_facts (encOn : Bool) (w : Bytes) (m : WMeter) (r) (m' : WMeter)
    (h : recvFrameNE encOn w m = (r, m')) : SeqFacts w m r m' := by
  rw [recvFrameNE_eq] at h
  generalize hf : recvFrame encOn w m = fr at h
  obtain ⟨r1, m1⟩ := fr
  have ff := recvFrame_facts _ _ _ _ _ hf
  have hfr : headerSize * m1.frames ≤ headerSize * m.frames + headerSize := by
    have := ff.frames
    calc headerSize * m1.frames ≤ headerSize * (m.frames + 1) := Nat.mul_le_mul_left _ this
      _ = headerSize * m.frames + headerSize := by rw [Nat.mul_add, Nat.mul_one]
  cases r1 with
  | error e =>
    simp only [Prod.mk.injEq] at h
    obtain ⟨rfl, rfl⟩ := h
    refine ⟨np_of_ne (fun hh => ff.np (by rw [hh])), by omega, ?_, ff.depth, fun _ _ hv => (nomatch hv)⟩
    have := ff.alloc; omega
  | ok t =>
    obtain ⟨fl, p, rest⟩ := t
    simp only [Prod.mk.injEq] at h
    obtain ⟨rfl, rfl⟩ := h
    obtain ⟨hw, ha⟩ := ff.ok fl p rest rfl
    refine ⟨np_ok _, by omega, by omega, ff.depth, ?_⟩
    intro v rest' hv
    simp only [Except.ok.injEq, Prod.mk.injEq] at hv
    obtain ⟨_, rfl⟩ := hv
    exact ⟨by omega, by omega, by omega⟩

/-- a successful sequence followed by another sequence on what it left -/
theorem SeqFacts.bind {α β : Type} {w rest : Bytes} {m m1 m2 : WMeter} {v : α} {r : Except Err (β × Bytes)}
    (a : SeqFacts w m (.ok (v, rest)) m1) (b : SeqFacts rest m1 r m2) : SeqFacts w m r m2 := by
  have ha := a.ok v rest rfl
  refine ⟨b.np, ?_, ?_, by rw [b.depth, a.depth], ?_⟩
  · have := b.frames; omega
  · have := b.alloc; omega
  · intro v' rest' hv
    have := b.ok v' rest' hv
    exact ⟨by omega, by omega, by omega⟩

/-- the same facts at another result type (an error carries no value) -/
theorem SeqFacts.castErr {α β : Type} {w : Bytes} {m m1 : WMeter} {e : Err}
    (a : SeqFacts (α := α) w m (.error e) m1) : SeqFacts (α := β) w m (.error e) m1 :=
  ⟨np_of_ne (fun hh => a.np (by rw [hh])), a.frames, a.alloc, a.depth, fun _ _ hv => (nomatch hv)⟩

/-- replacing the value of a result keeps the facts -/
theorem SeqFacts.mapOk {α β : Type} {w rest : Bytes} {m m1 : WMeter} {v : α} (v' : β)
    (a : SeqFacts w m (.ok (v, rest)) m1) : SeqFacts w m (.ok (v', rest)) m1 := by
  refine ⟨np_ok _, a.frames, a.alloc, a.depth, ?_⟩
  intro x rest' hv
  simp only [Except.ok.injEq, Prod.mk.injEq] at hv
  obtain ⟨_, rfl⟩ := hv
  exact a.ok v rest rfl

/-- failing after a successful sequence -/
theorem SeqFacts.failAfter {α β : Type} {w rest : Bytes} {m m1 : WMeter} {v : α} {e : Err} (he : e ≠ .panic)
    (a : SeqFacts w m (.ok (v, rest)) m1) : SeqFacts (α := β) w m (.error e) m1 :=
  ⟨np_of_ne he, a.frames, a.alloc, a.depth, fun _ _ hv => (nomatch hv)⟩

theorem SeqFacts.refl {α : Type} (w : Bytes) (m : WMeter) (v : α) : SeqFacts w m (.ok (v, w)) m :=
  ⟨np_ok _, by omega, by omega, rfl, by
    intro v' rest hv
    simp only [Except.ok.injEq, Prod.mk.injEq] at hv
    obtain ⟨_, rfl⟩ := hv
    exact ⟨by omega, by omega, by omega⟩⟩

theorem getSecretW_facts (key encOn : Bool) (w : Bytes) (m : WMeter) (r) (m' : WMeter)
    (h : getSecretW key encOn w m = (r, m')) : SeqFacts w m r m' := by
  unfold getSecretW at h
  generalize hf : recvFrameNE (encOn || key) w m = fr at h
  obtain ⟨r1, m1⟩ := fr
  have ff := recvFrameNE_facts _ _ _ _ _ hf
  cases r1 with
  | error e =>
    simp only [Prod.mk.injEq] at h
    obtain ⟨rfl, rfl⟩ := h
    exact ff
  | ok t =>
    obtain ⟨p, rest⟩ := t
    simp only [Prod.mk.injEq] at h
    obtain ⟨rfl, rfl⟩ := h
    exact ff.mapOk _

/-- the chunk loop: facts, and what it wrote came off the wire -/
theorem fileChunks_facts (encOn : Bool) (size : Int) : ∀ (fuel total : Nat) (w : Bytes) (m : WMeter) (r) (m' : WMeter),
    fileChunks encOn size fuel total w m = (r, m') →
    SeqFacts w m r m' ∧ ∀ t rest, r = .ok (t, rest) → t + rest.length ≤ total + w.length := by
  intro fuel
  induction fuel with
  | zero =>
    intro total w m r m' h
    simp only [fileChunks, Prod.mk.injEq] at h
    obtain ⟨rfl, rfl⟩ := h
    exact ⟨⟨np_of_ne (by decide), by omega, by omega, rfl, fun _ _ hv => (nomatch hv)⟩, fun _ _ hv => (nomatch hv)⟩
  | succ fuel ih =>
    intro total w m r m' h
    simp only [fileChunks] at h
    by_cases hlt : (total : Int) < size
    · rw [if_pos hlt] at h
      generalize hf : recvFrameNE encOn w m = fr at h
      obtain ⟨r1, m1⟩ := fr
      have ff := recvFrameNE_facts _ _ _ _ _ hf
      cases r1 with
      | error e =>
        simp only [Prod.mk.injEq] at h
        obtain ⟨rfl, rfl⟩ := h
        exact ⟨ff.castErr, fun _ _ hv => (nomatch hv)⟩
      | ok t =>
        obtain ⟨p, rest⟩ := t
        simp only at h
        obtain ⟨sf, hwr⟩ := ih _ _ _ _ _ h
        refine ⟨ff.bind sf, ?_⟩
        intro t rest' hv
        have h1 := hwr t rest' hv
        -- the frame's payload came off the wire
        rw [recvFrameNE_eq] at hf
        generalize hg : recvFrame encOn w m = gr at hf
        obtain ⟨r2, m2⟩ := gr
        have gf := recvFrame_facts _ _ _ _ _ hg
        cases r2 with
        | error e => simp at hf
        | ok t2 =>
          obtain ⟨fl, p2, rest2⟩ := t2
          simp only [Prod.mk.injEq, Except.ok.injEq] at hf
          obtain ⟨⟨rfl, rfl⟩, _⟩ := hf
          obtain ⟨hw, _⟩ := gf.ok fl p2 rest2 rfl
          omega
    · rw [if_neg hlt] at h
      simp only [Prod.mk.injEq] at h
      obtain ⟨rfl, rfl⟩ := h
      refine ⟨SeqFacts.refl w m total, ?_⟩
      intro t rest hv
      simp only [Except.ok.injEq, Prod.mk.injEq] at hv
      obtain ⟨rfl, rfl⟩ := hv
      omega

theorem getFile_facts (encOn : Bool) (w : Bytes) (m : WMeter) (r) (m' : WMeter)
    (h : getFile encOn w m = (r, m')) :
    SeqFacts w m r m' ∧ ∀ t rest, r = .ok (t, rest) → t + rest.length ≤ w.length := by
  unfold getFile at h
  generalize hf : recvFrameNE encOn w m = fr at h
  obtain ⟨r1, m1⟩ := fr
  have f1 := recvFrameNE_facts _ _ _ _ _ hf
  cases r1 with
  | error e =>
    simp only [Prod.mk.injEq] at h
    obtain ⟨rfl, rfl⟩ := h
    exact ⟨f1.castErr, fun _ _ hv => (nomatch hv)⟩
  | ok t =>
    obtain ⟨p, rest⟩ := t
    simp only at h
    have hrest : rest.length ≤ w.length := (f1.ok p rest rfl).2.2
    by_cases h8 : p.length ≠ 8
    · rw [if_pos h8] at h
      simp only [Prod.mk.injEq] at h
      obtain ⟨rfl, rfl⟩ := h
      exact ⟨f1.failAfter (by decide), fun _ _ hv => (nomatch hv)⟩
    · rw [if_neg h8] at h
      generalize hc : fileChunks encOn (ofU64 (beVal p)) (wireFuel rest) 0 rest m1 = cr at h
      obtain ⟨r2, m2⟩ := cr
      obtain ⟨f2, hwr⟩ := fileChunks_facts _ _ _ _ _ _ _ _ hc
      cases r2 with
      | error e =>
        simp only [Prod.mk.injEq] at h
        obtain ⟨rfl, rfl⟩ := h
        exact ⟨f1.bind f2, fun _ _ hv => (nomatch hv)⟩
      | ok t2 =>
        obtain ⟨total, rest2⟩ := t2
        simp only at h
        have h12 := f1.bind f2
        have hw2 := hwr total rest2 rfl
        generalize hq : recvFrameNE encOn rest2 m2 = qr at h
        obtain ⟨r3, m3⟩ := qr
        have f3 := recvFrameNE_facts _ _ _ _ _ hq
        cases r3 with
        | error e =>
          simp only [Prod.mk.injEq] at h
          obtain ⟨rfl, rfl⟩ := h
          exact ⟨h12.bind f3.castErr, fun _ _ hv => (nomatch hv)⟩
        | ok t3 =>
          obtain ⟨q, rest3⟩ := t3
          simp only at h
          have h123 := h12.bind f3
          have hr3 : rest3.length ≤ rest2.length := (f3.ok q rest3 rfl).2.2
          by_cases h4 : q.length ≠ 4
          · rw [if_pos h4] at h
            simp only [Prod.mk.injEq] at h
            obtain ⟨rfl, rfl⟩ := h
            exact ⟨h123.failAfter (by decide), fun _ _ hv => (nomatch hv)⟩
          · rw [if_neg h4] at h
            by_cases h6 : beVal q ≠ eofMarker
            · rw [if_pos h6] at h
              simp only [Prod.mk.injEq] at h
              obtain ⟨rfl, rfl⟩ := h
              exact ⟨h123.failAfter (by decide), fun _ _ hv => (nomatch hv)⟩
            · rw [if_neg h6] at h
              simp only [Prod.mk.injEq] at h
              obtain ⟨rfl, rfl⟩ := h
              refine ⟨h123.mapOk _, ?_⟩
              intro t rest' hv
              simp only [Except.ok.injEq, Prod.mk.injEq] at hv
              obtain ⟨rfl, rfl⟩ := hv
              omega

/-! ## the remaining length-prefixed handshake readers -/

theorem krbRead_eq (s : St) : krbRead s = tlsRecv s := rfl

theorem rawField_facts (s : St) (r : Except Err Unit) (s' : St) (h : rawField s = (r, s')) :
    EntryFacts 0 s r s' := by
  unfold rawField at h
  generalize hg : getInt s = gr at h
  obtain ⟨r1, s1⟩ := gr
  obtain ⟨f1, _⟩ := getInt_facts _ _ _ hg
  cases r1 with
  | error e =>
    simp only [Prod.mk.injEq] at h
    obtain ⟨rfl, rfl⟩ := h
    exact ⟨f1.law.toQ, np_of_ne (fun hh => f1.np (by rw [hh]))⟩
  | ok len =>
    simp only at h
    by_cases hpos : len > 0
    · rw [if_pos hpos] at h
      generalize hb : getBytes len s1 = br at h
      obtain ⟨r2, s2⟩ := br
      have f2 := getBytes_facts _ _ _ _ hb
      cases r2 with
      | error e =>
        simp only [Prod.mk.injEq] at h
        obtain ⟨rfl, rfl⟩ := h
        exact ⟨by simpa using (f1.law.trans f2.law).toQ, np_of_ne (fun hh => f2.np (by rw [hh]))⟩
      | ok v =>
        simp only [Prod.mk.injEq] at h
        obtain ⟨rfl, rfl⟩ := h
        exact ⟨by simpa using (f1.law.trans f2.law).toQ, np_ok _⟩
    · rw [if_neg hpos] at h
      simp only [Prod.mk.injEq] at h
      obtain ⟨rfl, rfl⟩ := h
      exact ⟨f1.law.toQ, np_ok _⟩

/-! ## a capped read FAILS once the cap is exceeded -/

theorem ensure_one_buffered (s : St) (c : UInt8) (rest : Bytes) (hb : s.d.buf = c :: rest) :
    ensure 1 s = (.ok (), { s with m := { s.m with need := max s.m.need 1 } }) := by
  obtain ⟨⟨buf, eom, src⟩, enc, key, m⟩ := s
  simp only at hb
  subst hb
  unfold ensure
  rw [pull_of_le 1 _ _ _ _ (by simp)]
  simp [lenGe]

/-- the plaintext loop of the capped string reader on `fuel` buffered non-NUL bytes: it runs out of
    budget and FAILS -/
theorem cstrMax_fails (cap : Nat) : ∀ (fuel : Nat) (s : St) (acc : Bytes) (k : Nat) (pre rest : Bytes),
    s.d.buf = pre ++ rest → pre.length = fuel → (∀ b ∈ pre, b ≠ 0) →
    (cstrMax cap fuel s acc k).1 = .error .sizeExceeded := by
  intro fuel
  induction fuel with
  | zero => intro s acc k pre rest _ _ _; rfl
  | succ fuel ih =>
    intro s acc k pre rest hb hl hnz
    cases pre with
    | nil => simp at hl
    | cons c pre' =>
      have hb' : s.d.buf = c :: (pre' ++ rest) := by rw [hb]; rfl
      have hc : c ≠ 0 := hnz c (List.mem_cons_self ..)
      simp only [cstrMax, ensure_one_buffered s c _ hb', hb', if_neg hc]
      apply ih _ _ _ pre' rest
      · rfl
      · simpa using hl
      · intro b hbm; exact hnz b (List.mem_cons_of_mem _ hbm)


theorem getStringMax_plain_fails (cap : Nat) (hc : 0 < cap) (s : St) (pre rest : Bytes) (henc : s.enc = false)
    (hb : s.d.buf = pre ++ rest) (hl : pre.length = cap) (hnz : ∀ b ∈ pre, b ≠ 0) :
    (getStringMax cap s).1 = .error .sizeExceeded := by
  unfold getStringMax
  rw [if_neg (by omega)]
  have h1 : (s.call).enc = false := henc
  simp only [h1]
  exact cstrMax_fails cap cap s.call [] 0 pre rest hb hl hnz

theorem getStringMax_enc_fails (cap : Nat) (hc : 0 < cap) (s : St) (len : Int) (s1 : St) (henc : s.enc = true)
    (hlen : getInt32 s.call = (.ok len, s1)) (hbig : (cap : Int) < len) :
    ∀ v, (getStringMax cap s).1 ≠ .ok v := by
  intro v
  unfold getStringMax
  rw [if_neg (by omega)]
  have h1 : (s.call).enc = true := henc
  simp only [h1, if_true, hlen]
  rw [if_neg (by omega)]
  generalize ensure (min len.toNat cap) s1 = er
  obtain ⟨r, s2⟩ := er
  cases r with
  | error e => simp
  | ok u =>
    simp only
    rw [if_pos (by omega)]
    simp

theorem adString_over_budget (cap total : Nat) (hc : 0 < cap) (ht : cap ≤ total) (s : St) :
    adString cap total s = (.error .sizeExceeded, s) ∧ adSecret cap total s = (.error .sizeExceeded, s) := by
  unfold adString adSecret
  rw [if_neg (by omega), if_pos ht, if_neg (by omega), if_pos ht]
  exact ⟨rfl, rfl⟩

end Cedar.Decode
