/-
  Helper lemmas for C02 / C12 / C15: what an honest keyed sender puts on the wire, and
  what a keyed receiver can be made to accept by an on-path adversary.
-/
import CedarModel.Stream
import CedarModel.Session

namespace Cedar

/-- What the application handed to `sendMessageWithEnd`, plus the header length it got. -/
structure Item where
  flag : Nat
  len : Nat
  plain : Bytes
  deriving DecidableEq, Repr

/-- The seal an honest sender (key `k`, base IV `iv`, handshake digests `dg`) produces for its
    `c`-th protected frame. -/
def sealedAt (k : Nat) (iv : IV) (dg : Digest × Digest) (c : Nat) (it : Item) : Sealed :=
  ⟨k, iv.nonce c, ⟨if c = 0 then some dg else none, it.flag, it.len⟩, it.plain⟩

def frameAt (k : Nat) (iv : IV) (dg : Digest × Digest) (c : Nat) (it : Item) : WireFrame :=
  ⟨it.flag, it.len, .ct (if c = 0 then some iv else none) (sealedAt k iv dg c it)⟩

/-- Sender-side invariant of an established protected direction. -/
structure SendInv (s : Stream) (k : Nat) (iv : IV) (dg : Digest × Digest) (c : Nat) : Prop where
  key : s.key = some k
  enc : s.encrypted = true
  iv : s.encIV = iv
  ctr : s.encCtr = c
  fin : s.finSendAAD = decide (c ≠ 0)
  fs : s.dig.finalSend = some dg.1
  fr : s.dig.finalRecv = some dg.2
  bound : c ≤ counterLimit

@[simp] theorem Dig.finalize_finalSend (d : Dig) : d.finalize.finalSend = some d.fs := rfl
@[simp] theorem Dig.finalize_finalRecv (d : Dig) : d.finalize.finalRecv = some d.fr := rfl

theorem Dig.fs_of_final {d : Dig} {x} (h : d.finalSend = some x) : d.fs = x := by simp [Dig.fs, h]
theorem Dig.fr_of_final {d : Dig} {x} (h : d.finalRecv = some x) : d.fr = x := by simp [Dig.fr, h]

theorem Dig.feedSend_of_final {d : Dig} {x} (h : d.finalSend = some x) (b : Bytes) : d.feedSend b = d := by
  simp [Dig.feedSend, h]
theorem Dig.feedRecv_of_final {d : Dig} {x} (h : d.finalRecv = some x) (b : Bytes) : d.feedRecv b = d := by
  simp [Dig.feedRecv, h]

theorem setKey_sendInv (s : Stream) (k : Nat) (iv : IV) :
    SendInv (s.setKey k iv) k iv (s.dig.fs, s.dig.fr) 0 :=
  ⟨rfl, rfl, rfl, rfl, by simp [Stream.setKey], rfl, rfl, by simp [counterLimit]⟩

/-- One protected send: exactly `frameAt`, the counter advances by one, never at the limit. -/
theorem sendFrame_spec {s s' : Stream} {k iv dg c data flag f}
    (h : SendInv s k iv dg c) (hs : s.sendFrame data flag = .ok (s', f)) :
    c < counterLimit ∧ f.len ≤ maxMessageSize ∧
    f = frameAt k iv dg c ⟨flag, f.len, data⟩ ∧
    f.len = data.length + tagLen + (if c = 0 then ivLen else 0) ∧
    SendInv s' k iv dg (c + 1) ∧
    s'.sendBuf = s.sendBuf ∧ s'.sendEOM = s.sendEOM := by
  obtain ⟨hk, he, hiv, hc, hf, hfs, hfr, hb⟩ := h
  unfold Stream.sendFrame at hs
  simp only [hk, he] at hs
  by_cases h1 : data.length > maxMessageSize
  · rw [if_pos h1] at hs; cases hs
  · rw [if_neg h1] at hs
    by_cases h2 : data.length + tagLen + (if s.encCtr = 0 then ivLen else 0) > maxMessageSize
    · rw [if_pos h2] at hs; cases hs
    · rw [if_neg h2] at hs
      by_cases h3 : s.encCtr = counterLimit
      · rw [if_pos h3] at hs; cases hs
      · rw [if_neg h3] at hs
        simp only [Except.ok.injEq, Prod.mk.injEq] at hs
        obtain ⟨rfl, rfl⟩ := hs
        have hfs' := Dig.fs_of_final hfs
        have hfr' := Dig.fr_of_final hfr
        have hlt : c < counterLimit := by omega
        refine ⟨hlt, ?_, ?_, ?_, ?_, rfl, rfl⟩
        · simp only [Stream.sealFrame]; omega
        · simp only [Stream.sealFrame, frameAt, sealedAt, hiv, hc, hf, hfs', hfr']
          by_cases hc0 : c = 0 <;> simp [hc0]
        · simp only [Stream.sealFrame, hc]
        · refine ⟨rfl, rfl, hiv, by simp [hc], by simp, ?_, ?_, by omega⟩
          · by_cases hc0 : c = 0
            · simp [hc0] at hf; simp [hf, Dig.feedSend, hfs']
            · simp [hc0] at hf; simp [hf, Dig.feedSend_of_final hfs, hfs]
          · by_cases hc0 : c = 0
            · simp [hc0] at hf; simp [hf, Dig.feedSend, hfr']
            · simp [hc0] at hf; simp [hf, Dig.feedSend_of_final hfs, hfr]

/-- What the on-path adversary can put into a frame body: any bytes, and any seal it has seen
    (with the visible IV prefix kept, stripped or replaced). It never makes a seal under `k`. -/
def Known (k : Nat) (iv : IV) (dg : Digest × Digest) (c0 : Nat) (items : List Item) (s : Sealed) : Prop :=
  ∃ j it, items[j]? = some it ∧ s = sealedAt k iv dg (c0 + j) it

/-- A seal under the session key that did NOT come from this sender — in a two-party session:
    one of the receiver's own outgoing frames, reflected back at it. It carries a nonce of the
    other direction (never one of the sender's `iv.nonce a`), and if it carries digests at all (a
    first frame) its nonce is the receiver's own base IV `ownIV`, which the receiver refuses to
    accept as a peer's IV (fix D16). -/
def Foreign (iv ownIV : IV) (c : Sealed) : Prop :=
  (∀ a, c.nonce ≠ iv.nonce a) ∧ (c.aad.digests ≠ none → c.nonce = ownIV.nonce 0)

def AdvFrame (k : Nat) (iv : IV) (dg : Digest × Digest) (ownIV : IV) (c0 : Nat) (items : List Item) (g : WireFrame) : Prop :=
  match g.body with
  | .raw _ => True
  | .ct ivo c => (∀ i, ivo = some i → i.w0 < 2^32) ∧ (c.key = k → Known k iv dg c0 items c ∨ Foreign iv ownIV c)

/-- Receiver-side invariant: `m` honest frames accepted so far. -/
structure RecvInv (r : Stream) (k : Nat) (iv : IV) (c0 m : Nat) : Prop where
  key : r.key = some k
  enc : r.encrypted = true
  ctr : r.decCtr = c0 + m
  fin : r.finRecvAAD = decide (c0 + m ≠ 0)
  iv : c0 + m ≠ 0 → r.decIV = iv

theorem ite_ok {α ε : Type} {P : Prop} [Decidable P] {a b : α} {e : ε}
    (h : (if P then (Except.ok a : Except ε α) else Except.error e) = Except.ok b) : P ∧ a = b := by
  by_cases hp : P
  · rw [if_pos hp] at h; exact ⟨hp, by injection h⟩
  · rw [if_neg hp] at h; cases h

theorem nonce_inj {iv : IV} {a b : Nat} (ha : a < 2^32) (hb : b < 2^32)
    (h : iv.nonce a = iv.nonce b) : a = b := by
  unfold IV.nonce at h
  simp only [IV.mk.injEq, and_true] at h
  simp only [Nat.reducePow] at *
  omega

/-- The crux at the `decryptDataWithAAD` level: whatever body the adversary presents, if it
    opens then it is the next honest seal, and the base IV is the sender's. -/
theorem open_only_next {r : Stream} {k iv dg ownIV c0 m items g ivr p}
    (hiv : iv.w0 < 2^32) (hlim : c0 + items.length ≤ counterLimit) (hm : m ≤ items.length)
    (hr : RecvInv r k iv c0 m) (hown : c0 + m = 0 → r.encIV = ownIV ∧ ownIV.w0 < 2^32)
    (hg : AdvFrame k iv dg ownIV c0 items g)
    (h : r.openBody k g = .ok (ivr, p)) :
    ∃ it, items[m]? = some it ∧ g.flag = it.flag ∧ p = it.plain ∧ ivr = iv := by
  obtain ⟨hk, he, hc, hf, hdiv⟩ := hr
  unfold Stream.openBody at h
  split at h
  · cases h
  · split at h
    · cases h
    · by_cases hz : c0 + m = 0
      · -- first protected frame of the direction
        have hc' : r.decCtr = 0 := by omega
        have hfin : r.finRecvAAD = false := by simpa [hz] using hf
        simp only [hc', if_true] at h
        cases hb : g.body with
        | raw b => simp [hb] at h
        | ct ivo c =>
          cases ivo with
          | none => simp [hb] at h
          | some i =>
            unfold AdvFrame at hg
            simp only [hb] at h hg
            simp only [hfin, Bool.false_eq_true, if_false] at h
            by_cases hie : i = r.encIV
            · rw [if_pos hie] at h; cases h
            rw [if_neg hie] at h
            obtain ⟨hcond, hab⟩ := ite_ok h
            · obtain ⟨hck, hcn, hca⟩ := hcond
              obtain ⟨hiw, hkn⟩ := hg
              have hnf : ¬ Foreign iv ownIV c := by
                intro hf
                have hne : c.aad.digests ≠ none := by rw [hca]; simp
                have hn0 := hf.2 hne
                obtain ⟨hoe, how⟩ := hown hz
                apply hie
                rw [hoe]
                rw [hcn] at hn0
                have hi := hiw i rfl
                simp only [IV.nonce, IV.mk.injEq] at hn0
                obtain ⟨h1, h2⟩ := hn0
                cases i; cases ownIV
                simp only [IV.mk.injEq] at *
                simp only [Nat.reducePow] at *
                exact ⟨by omega, h2⟩
              obtain ⟨j, it, hj, hcs⟩ := (hkn hck).resolve_right hnf
              have hi := hiw i rfl
              -- the AAD carries digests, so the seal is the sender's first one
              have hj0 : c0 + j = 0 := by
                rw [hcs] at hca
                simp only [sealedAt] at hca
                by_cases hh : c0 + j = 0
                · exact hh
                · simp [hh] at hca; omega
              have hj' : j = 0 := by omega
              have hm' : m = 0 := by omega
              have hc0 : c0 = 0 := by omega
              subst hj' hm' hc0
              -- and the IV prefix must be the sender's IV
              have hii : i = iv := by
                rw [hcs] at hcn
                simp only [sealedAt, IV.nonce, IV.mk.injEq] at hcn
                obtain ⟨h1, h2⟩ := hcn
                cases i; cases iv
                simp only [IV.mk.injEq] at *
                simp only [Nat.reducePow] at *
                exact ⟨by omega, h2.symm⟩
              simp only [Prod.mk.injEq] at hab
              obtain ⟨rfl, rfl⟩ := hab
              refine ⟨it, by simpa using hj, ?_, ?_, hii⟩
              · rw [hcs] at hca; simp [sealedAt] at hca; exact hca.2.1.symm
              · rw [hcs]; simp [sealedAt]
      · -- a later frame: the base IV is already fixed
        have hc' : r.decCtr ≠ 0 := by omega
        have hfin : r.finRecvAAD = true := by rw [hf]; exact decide_eq_true hz
        have hdi := hdiv hz
        simp only [hc', if_false] at h
        cases hb : g.body with
        | raw b => simp [hb] at h
        | ct ivo c =>
          cases ivo with
          | some i => simp [hb] at h
          | none =>
            unfold AdvFrame at hg
            simp only [hb] at h hg
            simp only [hfin, if_true] at h
            obtain ⟨hcond, hab⟩ := ite_ok h
            · obtain ⟨hck, hcn, hca⟩ := hcond
              obtain ⟨_, hkn⟩ := hg
              have hnf : ¬ Foreign iv ownIV c := by
                intro hf
                apply hf.1 r.decCtr
                rw [hcn, hdi]
              obtain ⟨j, it, hj, hcs⟩ := (hkn hck).resolve_right hnf
              have hjl : j < items.length := (List.getElem?_eq_some_iff.mp hj).1
              have hjm : c0 + j = c0 + m := by
                rw [hcs, hdi, hc] at hcn
                simp only [sealedAt] at hcn
                exact @nonce_inj iv (c0 + j) (c0 + m)
                  (by unfold counterLimit at hlim; simp only [Nat.reducePow]; omega)
                  (by unfold counterLimit at hlim; simp only [Nat.reducePow]; omega) hcn
              have hjm' : j = m := by omega
              subst hjm'
              simp only [Prod.mk.injEq] at hab
              obtain ⟨rfl, rfl⟩ := hab
              refine ⟨it, hj, ?_, ?_, hdi⟩
              · rw [hcs] at hca; simp [sealedAt] at hca; exact hca.2.1.symm
              · rw [hcs]; simp [sealedAt]

theorem afterOpen_recvInv {r : Stream} {k iv c0 m} (hr : RecvInv r k iv c0 m) (b : Bytes) :
    RecvInv ((r.afterOpen iv).feedRecv b) k iv c0 (m + 1) := by
  obtain ⟨hk, he, hc, hf, hdiv⟩ := hr
  refine ⟨hk, he, ?_, ?_, fun _ => rfl⟩
  · simp [Stream.afterOpen, Stream.feedRecv, hc]; omega
  · simp [Stream.afterOpen, Stream.feedRecv]

/-- Frame-level statement: if `ReceiveFrameWithEnd` accepts, it accepted the next honest frame —
    same end flag, same plaintext — and the receiver stays in step. Empty frames included. -/
theorem recv_accepts_only_next {r r' : Stream} {k iv dg ownIV c0 m items g d fl}
    (hiv : iv.w0 < 2^32) (hlim : c0 + items.length ≤ counterLimit) (hm : m ≤ items.length)
    (hr : RecvInv r k iv c0 m) (hdg : c0 + m = 0 → r.encIV = ownIV ∧ ownIV.w0 < 2^32)
    (hg : AdvFrame k iv dg ownIV c0 items g)
    (h : r.recvFrameWithEnd g = .ok (r', d, fl)) :
    ∃ it, items[m]? = some it ∧ fl = it.flag ∧ d = it.plain ∧ RecvInv r' k iv c0 (m + 1) := by
  have hk := hr.key
  have he := hr.enc
  unfold Stream.recvFrameWithEnd at h
  split at h
  · cases h
  · split at h
    · simp [Stream.crypting, hk, he] at h
    · simp only [hk, he] at h
      split at h
      · cases h
      · rename_i ivr p hopen
        simp only [Except.ok.injEq, Prod.mk.injEq] at h
        obtain ⟨rfl, rfl, rfl⟩ := h
        obtain ⟨it, hit, hfl, hp, hivr⟩ := open_only_next hiv hlim hm hr hdg hg hopen
        subst hivr
        exact ⟨it, hit, hfl, hp, afterOpen_recvInv hr _⟩


/-! ### Message level -/

def Item.op (it : Item) : SendOp := (it.plain, it.flag)

/-- `ReceiveCompleteMessage` under attack: if it returns a message, the receiver consumed a run
    of consecutive honest frames ending in a complete one, and the message is their concatenation. -/
theorem recvComplete_spec {k iv dg ownIV c0 items}
    (hiv : iv.w0 < 2^32) (hlim : c0 + items.length ≤ counterLimit) :
    ∀ (w : List WireFrame) (r : Stream) (m : Nat) (acc : Bytes) r' msg w',
      m ≤ items.length → RecvInv r k iv c0 m → (c0 + m = 0 → r.encIV = ownIV ∧ ownIV.w0 < 2^32) →
      (∀ g ∈ w, AdvFrame k iv dg ownIV c0 items g) →
      r.recvCompleteAux acc w = .ok (r', msg, w') →
      ∃ m', m < m' ∧ m' ≤ items.length ∧ RecvInv r' k iv c0 m' ∧ (∀ g ∈ w', AdvFrame k iv dg ownIV c0 items g) ∧
        messagesOf acc ((items.drop m).map Item.op) = msg :: messagesOf [] ((items.drop m').map Item.op) := by
  intro w
  induction w with
  | nil => intro r m acc r' msg w' _ _ _ _ h; simp [Stream.recvCompleteAux] at h
  | cons g w ih =>
    intro r m acc r' msg w' hm hr hdg hadv h
    unfold Stream.recvCompleteAux at h
    split at h
    · cases h
    · rename_i s1 d fl hrecv
      obtain ⟨it, hit, hfl, hd, hr1⟩ :=
        recv_accepts_only_next hiv hlim hm hr hdg (hadv g (List.mem_cons_self ..)) hrecv
      have hml : m < items.length := (List.getElem?_eq_some_iff.mp hit).1
      have hdrop : items.drop m = it :: items.drop (m + 1) := by
        rw [List.drop_eq_getElem_cons hml]
        congr 1
        exact (List.getElem?_eq_some_iff.mp hit).2
      by_cases h1 : fl = 1
      · rw [if_pos h1] at h
        simp only [Except.ok.injEq, Prod.mk.injEq] at h
        obtain ⟨rfl, rfl, rfl⟩ := h
        refine ⟨m + 1, by omega, by omega, hr1, fun g hg => hadv g (List.mem_cons_of_mem _ hg), ?_⟩
        rw [hdrop]
        simp [messagesOf, Item.op, ← hfl, h1, hd]
      · rw [if_neg h1] at h
        by_cases h0 : fl = 0
        · rw [if_pos h0] at h
          obtain ⟨m', hm1, hm2, hr', hadv', hmsg⟩ :=
            ih s1 (m + 1) (acc ++ d) r' msg w' (by omega) hr1 (fun h => by omega)
              (fun g hg => hadv g (List.mem_cons_of_mem _ hg)) h
          refine ⟨m', by omega, hm2, hr', hadv', ?_⟩
          rw [hdrop]
          have : it.flag ≠ 1 := by omega
          simp only [List.map_cons, messagesOf, Item.op, this, if_false, ← hd]
          exact hmsg
        · rw [if_neg h0] at h; cases h

/-- The receive loop hands the application only a prefix of the messages that were sent. -/
theorem deliver_prefix {k iv dg ownIV c0 items}
    (hiv : iv.w0 < 2^32) (hlim : c0 + items.length ≤ counterLimit) :
    ∀ (n : Nat) (r : Stream) (w : List WireFrame) (m : Nat),
      m ≤ items.length → RecvInv r k iv c0 m → (c0 + m = 0 → r.encIV = ownIV ∧ ownIV.w0 < 2^32) →
      (∀ g ∈ w, AdvFrame k iv dg ownIV c0 items g) →
      Stream.deliverFuel n r w <+: messagesOf [] ((items.drop m).map Item.op) := by
  intro n
  induction n with
  | zero => intro r w m _ _ _ _; simp [Stream.deliverFuel]
  | succ n ih =>
    intro r w m hm hr hdg hadv
    unfold Stream.deliverFuel
    split
    · simp
    · rename_i r' msg w' hrc
      obtain ⟨m', hm1, hm2, hr', hadv', hmsg⟩ :=
        recvComplete_spec hiv hlim w r m [] r' msg w' hm hr hdg hadv hrc
      rw [hmsg]
      exact List.prefix_cons_inj msg |>.mpr (ih r' w' m' hm2 hr' (fun h => by omega) hadv')

/-! ### What an honest sender emits -/

def framesFrom (k : Nat) (iv : IV) (dg : Digest × Digest) : Nat → List Item → List WireFrame
  | _, [] => []
  | c, it :: rest => frameAt k iv dg c it :: framesFrom k iv dg (c + 1) rest

theorem mem_framesFrom {k iv dg} : ∀ (items : List Item) (c : Nat) (f : WireFrame),
    f ∈ framesFrom k iv dg c items → ∃ j it, items[j]? = some it ∧ f = frameAt k iv dg (c + j) it := by
  intro items
  induction items with
  | nil => intro c f h; simp [framesFrom] at h
  | cons it rest ih =>
    intro c f h
    simp only [framesFrom, List.mem_cons] at h
    rcases h with h | h
    · exact ⟨0, it, by simp, by simpa using h⟩
    · obtain ⟨j, it', hj, hf⟩ := ih (c + 1) f h
      exact ⟨j + 1, it', by simpa using hj, by rw [hf]; congr 1; omega⟩

theorem sendAll_spec {k iv dg} : ∀ (ops : List SendOp) (s s' : Stream) (c : Nat) (sent : List WireFrame),
    SendInv s k iv dg c → s.sendAll ops = .ok (s', sent) →
    ∃ items, sent = framesFrom k iv dg c items ∧ items.map Item.op = ops ∧
      c + items.length ≤ counterLimit ∧ SendInv s' k iv dg (c + items.length) ∧
      (∀ f ∈ sent, f.len ≤ maxMessageSize ∧ f.len = f.body.wireLen) := by
  intro ops
  induction ops with
  | nil =>
    intro s s' c sent hinv h
    simp only [Stream.sendAll, Except.ok.injEq, Prod.mk.injEq] at h
    obtain ⟨rfl, rfl⟩ := h
    exact ⟨[], rfl, rfl, by simpa using hinv.bound, by simpa using hinv, by simp⟩
  | cons op rest ih =>
    intro s s' c sent hinv h
    obtain ⟨d, fl⟩ := op
    unfold Stream.sendAll at h
    split at h
    · cases h
    · rename_i s1 f hsf
      split at h
      · cases h
      · rename_i s2 fs hrest
        simp only [Except.ok.injEq, Prod.mk.injEq] at h
        obtain ⟨rfl, rfl⟩ := h
        obtain ⟨hlt, hmax, hf, hlen, hinv1, _, _⟩ := sendFrame_spec hinv hsf
        obtain ⟨items, hsent, hops, hl, hinv2, hall⟩ := ih s1 s2 (c + 1) fs hinv1 hrest
        refine ⟨⟨fl, f.len, d⟩ :: items, ?_, ?_, ?_, ?_, ?_⟩
        · simp [framesFrom, ← hf, hsent]
        · simp [Item.op, hops]
        · simp; omega
        · have : c + (items.length + 1) = c + 1 + items.length := by omega
          simpa [this] using hinv2
        · intro g hg
          simp only [List.mem_cons] at hg
          rcases hg with rfl | hg
          · refine ⟨hmax, ?_⟩
            rw [hlen]
            rw [hf]
            by_cases hc0 : c = 0 <;> simp [frameAt, Body.wireLen, sealedAt, hc0] <;> omega
          · exact hall g hg


/-- per-frame facts about what `sendAll` emitted, by position -/
theorem sendAll_items {k iv dg} : ∀ (ops : List SendOp) (s s' : Stream) (c : Nat) (sent : List WireFrame),
    SendInv s k iv dg c → s.sendAll ops = .ok (s', sent) →
    ∃ items, sent = framesFrom k iv dg c items ∧ items.map Item.op = ops ∧
      c + items.length ≤ counterLimit ∧
      (∀ j it, items[j]? = some it →
         it.len = it.plain.length + tagLen + (if c + j = 0 then ivLen else 0) ∧ it.len ≤ maxMessageSize) := by
  intro ops
  induction ops with
  | nil =>
    intro s s' c sent hinv h
    simp only [Stream.sendAll, Except.ok.injEq, Prod.mk.injEq] at h
    obtain ⟨rfl, rfl⟩ := h
    exact ⟨[], rfl, rfl, by simpa using hinv.bound, by simp⟩
  | cons op rest ih =>
    intro s s' c sent hinv h
    obtain ⟨d, fl⟩ := op
    unfold Stream.sendAll at h
    split at h
    · cases h
    · rename_i s1 f hsf
      split at h
      · cases h
      · rename_i s2 fs hrest
        simp only [Except.ok.injEq, Prod.mk.injEq] at h
        obtain ⟨rfl, rfl⟩ := h
        obtain ⟨hlt, hmax, hf, hlen, hinv1, _, _⟩ := sendFrame_spec hinv hsf
        obtain ⟨items, hsent, hops, hl, hall⟩ := ih s1 s2 (c + 1) fs hinv1 hrest
        refine ⟨⟨fl, f.len, d⟩ :: items, ?_, ?_, ?_, ?_⟩
        · simp [framesFrom, ← hf, hsent]
        · simp [Item.op, hops]
        · simp; omega
        · intro j it hj
          cases j with
          | zero =>
            simp only [List.getElem?_cons_zero, Option.some.injEq] at hj
            subst hj
            exact ⟨by simpa using hlen, hmax⟩
          | succ j =>
            simp only [List.getElem?_cons_succ] at hj
            have := hall j it hj
            have e : c + 1 + j = c + (j + 1) := by omega
            simpa [e] using this

end Cedar
