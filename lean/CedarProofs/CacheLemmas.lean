/-
  Helper lemmas for C06 / C07: the cache as a finite map, and the command-map key.
-/
import CedarModel.SessionCache

namespace Cedar.SC

/-! ### association lists -/

theorem lookup_filter_ne {α β : Type} [BEq α] [LawfulBEq α] [DecidableEq α] (l : List (α × β)) (k k' : α) (h : k' ≠ k) :
    (l.filter (fun p => decide (p.1 ≠ k))).lookup k' = l.lookup k' := by
  induction l with
  | nil => rfl
  | cons p rest ih =>
    obtain ⟨a, b⟩ := p
    rw [List.filter_cons]
    by_cases ha : a = k
    · have hd : decide ((a, b).1 ≠ k) = false := by simp [ha]
      have hb : (k' == a) = false := by rw [ha]; exact beq_eq_false_iff_ne.mpr h
      rw [hd]
      simp only [Bool.false_eq_true, if_false, List.lookup, hb]
      exact ih
    · have hd : decide ((a, b).1 ≠ k) = true := by simp [ha]
      rw [hd]
      simp only [if_true, List.lookup]
      cases hb : (k' == a) with
      | true => rfl
      | false => exact ih

theorem lookup_filter_self {α β : Type} [BEq α] [LawfulBEq α] [DecidableEq α] (l : List (α × β)) (k : α) :
    (l.filter (fun p => decide (p.1 ≠ k))).lookup k = none := by
  induction l with
  | nil => rfl
  | cons p rest ih =>
    obtain ⟨a, b⟩ := p
    rw [List.filter_cons]
    by_cases ha : a = k
    · have hd : decide ((a, b).1 ≠ k) = false := by simp [ha]
      rw [hd]
      simp only [Bool.false_eq_true, if_false]
      exact ih
    · have hd : decide ((a, b).1 ≠ k) = true := by simp [ha]
      have hb : (k == a) = false := beq_eq_false_iff_ne.mpr (fun h => ha h.symm)
      rw [hd]
      simp only [if_true, List.lookup, hb]
      exact ih

/-! ### the cache as a map -/

theorem get_store_self (c : Cache) (e : Entry) : (c.store e).get e.id = some e := by
  simp [Cache.store, Cache.get, List.lookup]

theorem get_store_other (c : Cache) (e : Entry) (id : Str) (h : id ≠ e.id) : (c.store e).get id = c.get id := by
  have : (id == e.id) = false := by simpa using h
  simp only [Cache.store, Cache.get, List.lookup, this]
  exact lookup_filter_ne _ _ _ h

theorem get_invalidate_self (c : Cache) (id : Str) : (c.invalidate id).get id = none := by
  unfold Cache.invalidate
  cases h : c.get id with
  | none => simpa using h
  | some e => simp only [Cache.get]; exact lookup_filter_self _ _

theorem get_invalidate_other (c : Cache) (id id' : Str) (h : id' ≠ id) : (c.invalidate id).get id' = c.get id' := by
  unfold Cache.invalidate
  cases hg : c.get id with
  | none => rfl
  | some e => simp only [Cache.get]; exact lookup_filter_ne _ _ _ h

/-- after an invalidation no command route leads to the session any more -/
theorem invalidate_no_routes (c : Cache) (id : Str) (h : (c.get id).isSome) :
    ∀ p ∈ (c.invalidate id).cmdMap, p.2 ≠ id := by
  unfold Cache.invalidate
  cases hg : c.get id with
  | none => simp [hg] at h
  | some e =>
    intro p hp
    simp only [List.mem_filter] at hp
    simpa using hp.2

theorem lookupByCommand_id (c : Cache) (now : Nat) (tag addr cmd : Str) (e : Entry)
    (h : c.lookupByCommand now tag addr cmd = some e) :
    ∃ sid, c.cmdMap.lookup (cmdKey tag addr cmd) = some sid ∧ c.get sid = some e ∧ e.expired now = false := by
  unfold Cache.lookupByCommand at h
  split at h
  · cases h
  · rename_i sid hs
    split at h
    · cases h
    · rename_i e' he
      split at h
      · cases h
      · rename_i hx
        simp only [Option.some.injEq] at h; subst h
        exact ⟨sid, hs, he, by simpa using hx⟩

theorem lookup_mem {α β : Type} [BEq α] [LawfulBEq α] (l : List (α × β)) (k : α) (v : β)
    (h : l.lookup k = some v) : (k, v) ∈ l := by
  induction l with
  | nil => simp [List.lookup] at h
  | cons p rest ih =>
    obtain ⟨a, b⟩ := p
    by_cases hk : k = a
    · subst hk
      simp only [List.lookup, beq_self_eq_true, Option.some.injEq] at h
      subst h; exact List.mem_cons_self ..
    · have : (k == a) = false := by simpa using hk
      simp only [List.lookup, this] at h
      exact List.mem_cons_of_mem _ (ih h)

/-! ### the command-map key -/

def NoComma (s : Str) : Prop := ∀ ch ∈ s, ch ≠ ','

/-- a comma-free prefix followed by a comma splits uniquely -/
theorem split_comma : ∀ (a a' r r' : Str), NoComma a → NoComma a' →
    a ++ ',' :: r = a' ++ ',' :: r' → a = a' ∧ r = r' := by
  intro a
  induction a with
  | nil =>
    intro a' r r' _ ha' h
    cases a' with
    | nil => simp at h; exact ⟨rfl, h⟩
    | cons x xs =>
      simp only [List.nil_append, List.cons_append, List.cons.injEq] at h
      exact absurd h.1.symm (ha' x (List.mem_cons_self ..))
  | cons x xs ih =>
    intro a' r r' ha ha' h
    cases a' with
    | nil =>
      simp only [List.nil_append, List.cons_append, List.cons.injEq] at h
      exact absurd h.1 (ha x (List.mem_cons_self ..))
    | cons y ys =>
      simp only [List.cons_append, List.cons.injEq] at h
      obtain ⟨rfl, h2⟩ := h
      obtain ⟨e1, e2⟩ := ih ys r r' (fun ch hc => ha ch (List.mem_cons_of_mem _ hc))
        (fun ch hc => ha' ch (List.mem_cons_of_mem _ hc)) h2
      exact ⟨by rw [e1], e2⟩

theorem noComma_of_append_comma (a r : Str) : ¬ NoComma (a ++ ',' :: r) := by
  intro h
  exact h ',' (by simp) rfl

/-- **key_injective**: the rendered key determines (tag, address, command) when none of them
    contains a comma. -/
theorem cmdKey_injective (tag addr cmd tag' addr' cmd' : Str)
    (ht : NoComma tag) (ha : NoComma addr) (hc : NoComma cmd)
    (ht' : NoComma tag') (ha' : NoComma addr') (hc' : NoComma cmd')
    (h : cmdKey tag addr cmd = cmdKey tag' addr' cmd') : tag = tag' ∧ addr = addr' ∧ cmd = cmd' := by
  unfold cmdKey at h
  by_cases h1 : tag ≠ []
  · by_cases h2 : tag' ≠ []
    · rw [if_pos h1, if_pos h2] at h
      simp only [List.cons.injEq, true_and] at h
      obtain ⟨e1, r1⟩ := split_comma _ _ _ _ ht ht' h
      obtain ⟨e2, r2⟩ := split_comma _ _ _ _ ha ha' r1
      simp only [List.cons.injEq, true_and] at r2
      exact ⟨e1, e2, List.append_cancel_right r2⟩
    · -- tagged vs untagged: the tagged key has one comma more
      rw [if_pos h1, if_neg h2] at h
      simp only [List.cons.injEq, true_and] at h
      obtain ⟨_, r1⟩ := split_comma _ _ _ _ ht ha' h
      exfalso
      have hn : NoComma ('<' :: (cmd' ++ ['>', '}'])) := by
        intro ch hch
        simp only [List.mem_cons, List.mem_append, List.mem_nil_iff, or_false] at hch
        rcases hch with rfl | hch | rfl | rfl
        · decide
        · exact hc' ch hch
        · decide
        · decide
      rw [← r1] at hn
      exact noComma_of_append_comma _ _ hn
  · by_cases h2 : tag' ≠ []
    · rw [if_neg h1, if_pos h2] at h
      simp only [List.cons.injEq, true_and] at h
      obtain ⟨_, r1⟩ := split_comma _ _ _ _ ha ht' h
      exfalso
      have hn : NoComma ('<' :: (cmd ++ ['>', '}'])) := by
        intro ch hch
        simp only [List.mem_cons, List.mem_append, List.mem_nil_iff, or_false] at hch
        rcases hch with rfl | hch | rfl | rfl
        · decide
        · exact hc ch hch
        · decide
        · decide
      rw [r1] at hn
      exact noComma_of_append_comma _ _ hn
    · have e1 : tag = [] := by simpa using h1
      have e2 : tag' = [] := by simpa using h2
      rw [if_neg h1, if_neg h2] at h
      simp only [List.cons.injEq, true_and] at h
      obtain ⟨e3, r2⟩ := split_comma _ _ _ _ ha ha' h
      simp only [List.cons.injEq, true_and] at r2
      exact ⟨by rw [e1, e2], e3, List.append_cancel_right r2⟩

end Cedar.SC
