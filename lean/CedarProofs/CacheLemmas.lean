/-
  Helper lemmas for C06 / C07: the cache as a finite map, and the command-map key.
-/
import CedarModel.SessionCache

namespace Cedar.SC

/-! ### association lists -/

theorem lookup_filter_ne {α β : Type} [BEq α] [LawfulBEq α] [DecidableEq α] (l : List (α × β)) (k k' : α) (h : k' ≠ k) :
    (l.filter (fun p => decide (p.1 ≠ k))).lookup k' = l.lookup k' := by
  induction l with
  | nil => rfl
  | cons p rest ih =>
    obtain ⟨a, b⟩ := p
    rw [List.filter_cons]
    by_cases ha : a = k
    · have hd : decide ((a, b).1 ≠ k) = false := by simp [ha]
      have hb : (k' == a) = false := by rw [ha]; exact beq_eq_false_iff_ne.mpr h
      rw [hd]
      simp only [Bool.false_eq_true, if_false, List.lookup, hb]
      exact ih
    · have hd : decide ((a, b).1 ≠ k) = true := by simp [ha]
      rw [hd]
      simp only [if_true, List.lookup]
      cases hb : (k' == a) with
      | true => rfl
      | false => exact ih

theorem lookup_filter_self {α β : Type} [BEq α] [LawfulBEq α] [DecidableEq α] (l : List (α × β)) (k : α) :
    (l.filter (fun p => decide (p.1 ≠ k))).lookup k = none := by
  induction l with
  | nil => rfl
  | cons p rest ih =>
    obtain ⟨a, b⟩ := p
    rw [List.filter_cons]
    by_cases ha : a = k
    · have hd : decide ((a, b).1 ≠ k) = false := by simp [ha]
      rw [hd]
      simp only [Bool.false_eq_true, if_false]
      exact ih
    · have hd : decide ((a, b).1 ≠ k) = true := by simp [ha]
      have hb : (k == a) = false := beq_eq_false_iff_ne.mpr (fun h => ha h.symm)
      rw [hd]
      simp only [if_true, List.lookup, hb]
      exact ih

/-! ### the cache as a map -/

theorem get_store_self (c : Cache) (e : Entry) : (c.store e).get e.id = some e := by
  simp [Cache.store, Cache.get, List.lookup]

theorem get_store_other (c : Cache) (e : Entry) (id : Str) (h : id ≠ e.id) : (c.store e).get id = c.get id := by
  have : (id == e.id) = false := by simpa using h
  simp only [Cache.store, Cache.get, List.lookup, this]
  exact lookup_filter_ne _ _ _ h

theorem get_invalidate_self (c : Cache) (id : Str) : (c.invalidate id).get id = none := by
  unfold Cache.invalidate
  simp only [Cache.get]; exact lookup_filter_self _ _

theorem get_invalidate_other (c : Cache) (id id' : Str) (h : id' ≠ id) : (c.invalidate id).get id' = c.get id' := by
  unfold Cache.invalidate
  simp only [Cache.get]; exact lookup_filter_ne _ _ _ h

/-- after an invalidation no command route leads to the session any more -/
theorem invalidate_no_routes (c : Cache) (id : Str) (h : (c.get id).isSome) :
    ∀ p ∈ (c.invalidate id).cmdMap, p.2 ≠ id := by
  unfold Cache.invalidate
  intro p hp
  simp only [List.mem_filter] at hp
  simpa using hp.2

/-- … whether or not an entry was still filed under the identifier (fix D24) -/
theorem invalidate_no_routes' (c : Cache) (id : Str) :
    ∀ p ∈ (c.invalidate id).cmdMap, p.2 ≠ id := by
  unfold Cache.invalidate
  intro p hp
  simp only [List.mem_filter] at hp
  simpa using hp.2

theorem lookupByCommand_id (c : Cache) (now : Nat) (tag addr cmd : Str) (e : Entry)
    (h : c.lookupByCommand now tag addr cmd = some e) :
    ∃ sid, c.cmdMap.lookup (cmdKey tag addr cmd) = some sid ∧ c.get sid = some e ∧ e.expired now = false := by
  unfold Cache.lookupByCommand at h
  split at h
  · cases h
  · rename_i sid hs
    split at h
    · cases h
    · rename_i e' he
      split at h
      · cases h
      · rename_i hx
        simp only [Option.some.injEq] at h; subst h
        exact ⟨sid, hs, he, by simpa using hx⟩

theorem lookup_mem {α β : Type} [BEq α] [LawfulBEq α] (l : List (α × β)) (k : α) (v : β)
    (h : l.lookup k = some v) : (k, v) ∈ l := by
  induction l with
  | nil => simp [List.lookup] at h
  | cons p rest ih =>
    obtain ⟨a, b⟩ := p
    by_cases hk : k = a
    · subst hk
      simp only [List.lookup, beq_self_eq_true, Option.some.injEq] at h
      subst h; exact List.mem_cons_self ..
    · have : (k == a) = false := by simpa using hk
      simp only [List.lookup, this] at h
      exact List.mem_cons_of_mem _ (ih h)

/-! ### the command-map key -/

/-- one escaped character is a prefix code: it determines the character and what follows -/
theorem esc1_cancel (c d : Char) (x y : Str) (h : esc1 c ++ x = esc1 d ++ y) : c = d ∧ x = y := by
  unfold esc1 at h
  by_cases hc1 : c = ','
  · by_cases hd1 : d = ','
    · subst hc1 hd1; simp at h; exact ⟨rfl, h⟩
    · by_cases hd2 : d = '\\'
      · subst hc1 hd2; simp at h
      · rw [if_pos hc1, if_neg hd1, if_neg hd2] at h
        simp only [List.cons_append, List.nil_append, List.cons.injEq] at h
        exact absurd h.1.symm hd2
  · by_cases hc2 : c = '\\'
    · by_cases hd1 : d = ','
      · subst hc2 hd1; simp at h
      · by_cases hd2 : d = '\\'
        · subst hc2 hd2; simp at h; exact ⟨rfl, h⟩
        · rw [if_neg hc1, if_pos hc2, if_neg hd1, if_neg hd2] at h
          simp only [List.cons_append, List.nil_append, List.cons.injEq] at h
          exact absurd h.1.symm hd2
    · rw [if_neg hc1, if_neg hc2] at h
      by_cases hd1 : d = ','
      · rw [if_pos hd1] at h
        simp only [List.cons_append, List.nil_append, List.cons.injEq] at h
        exact absurd h.1 hc2
      · by_cases hd2 : d = '\\'
        · rw [if_neg hd1, if_pos hd2] at h
          simp only [List.cons_append, List.nil_append, List.cons.injEq] at h
          exact absurd h.1 hc2
        · rw [if_neg hd1, if_neg hd2] at h
          simp only [List.cons_append, List.nil_append, List.cons.injEq] at h
          exact h

/-- an escaped character never starts with a bare comma -/
theorem esc1_ne_comma (c : Char) (x y : Str) : esc1 c ++ x ≠ ',' :: y := by
  unfold esc1
  by_cases hc1 : c = ','
  · rw [if_pos hc1]; simp
  · by_cases hc2 : c = '\\'
    · rw [if_neg hc1, if_pos hc2]; simp
    · rw [if_neg hc1, if_neg hc2]
      simp only [List.cons_append, List.nil_append, ne_eq, List.cons.injEq, not_and]
      intro h; exact absurd h hc1

/-- an escaped part followed by a separating comma splits uniquely — for ANY strings -/
theorem split_esc : ∀ (a a' r r' : Str), esc a ++ ',' :: r = esc a' ++ ',' :: r' → a = a' ∧ r = r' := by
  intro a
  induction a with
  | nil =>
    intro a' r r' h
    cases a' with
    | nil => simp [esc] at h; exact ⟨rfl, h⟩
    | cons y ys =>
      simp only [esc, List.nil_append, List.append_assoc] at h
      exact absurd h.symm (esc1_ne_comma y _ _)
  | cons x xs ih =>
    intro a' r r' h
    cases a' with
    | nil =>
      simp only [esc, List.nil_append, List.append_assoc] at h
      exact absurd h (esc1_ne_comma x _ _)
    | cons y ys =>
      simp only [esc, List.append_assoc] at h
      obtain ⟨rfl, h2⟩ := esc1_cancel x y _ _ h
      obtain ⟨e1, e2⟩ := ih ys r r' h2
      exact ⟨by rw [e1], e2⟩

/-- an escaped string contains no separating comma: it is never "escaped part, comma, rest" -/
theorem esc_ne_split : ∀ (w a z : Str), esc w ≠ esc a ++ ',' :: z := by
  intro w
  induction w with
  | nil =>
    intro a z h
    cases a with
    | nil => simp [esc] at h
    | cons y ys =>
      simp only [esc, List.append_assoc] at h
      unfold esc1 at h
      split at h <;> (try split at h) <;> simp at h
  | cons x xs ih =>
    intro a z h
    cases a with
    | nil =>
      simp only [esc, List.nil_append] at h
      have := esc1_ne_comma x (esc xs) z
      exact this h
    | cons y ys =>
      simp only [esc, List.append_assoc] at h
      obtain ⟨_, h2⟩ := esc1_cancel x y _ _ h
      exact ih ys z h2

theorem esc_append (a b : Str) : esc (a ++ b) = esc a ++ esc b := by
  induction a with
  | nil => rfl
  | cons x xs ih => simp [esc, ih]

theorem esc_injective : ∀ (a b : Str), esc a = esc b → a = b := by
  intro a b h
  have : esc a ++ ',' :: [] = esc b ++ ',' :: [] := by rw [h]
  exact (split_esc a b [] [] this).1

/-- **key_injective**: the rendered key determines (tag, address, command) — for all strings. -/
theorem cmdKey_injective (tag addr cmd tag' addr' cmd' : Str)
    (h : cmdKey tag addr cmd = cmdKey tag' addr' cmd') : tag = tag' ∧ addr = addr' ∧ cmd = cmd' := by
  have tail_eq : ∀ (c c' : Str), '<' :: (esc c ++ ['>', '}']) = '<' :: (esc c' ++ ['>', '}']) → c = c' := by
    intro c c' hh
    simp only [List.cons.injEq, true_and] at hh
    exact esc_injective _ _ (List.append_cancel_right hh)
  -- the untagged remainder `<cmd>}` is itself an escaped string, so it has no separating comma
  have no_sep : ∀ (c a z : Str), '<' :: (esc c ++ ['>', '}']) ≠ esc a ++ ',' :: z := by
    intro c a z hh
    have e : '<' :: (esc c ++ ['>', '}']) = esc ('<' :: (c ++ ['>', '}'])) := by
      simp [esc, esc1, esc_append]
    rw [e] at hh
    exact esc_ne_split _ _ _ hh
  unfold cmdKey at h
  by_cases h1 : tag ≠ []
  · by_cases h2 : tag' ≠ []
    · rw [if_pos h1, if_pos h2] at h
      simp only [List.cons.injEq, true_and] at h
      obtain ⟨e1, r1⟩ := split_esc _ _ _ _ h
      obtain ⟨e2, r2⟩ := split_esc _ _ _ _ r1
      exact ⟨e1, e2, tail_eq _ _ r2⟩
    · rw [if_pos h1, if_neg h2] at h
      simp only [List.cons.injEq, true_and] at h
      obtain ⟨_, r1⟩ := split_esc _ _ _ _ h
      exact absurd r1.symm (no_sep _ _ _)
  · by_cases h2 : tag' ≠ []
    · rw [if_neg h1, if_pos h2] at h
      simp only [List.cons.injEq, true_and] at h
      obtain ⟨_, r1⟩ := split_esc _ _ _ _ h
      exact absurd r1 (no_sep _ _ _)
    · have e1 : tag = [] := by simpa using h1
      have e2 : tag' = [] := by simpa using h2
      rw [if_neg h1, if_neg h2] at h
      simp only [List.cons.injEq, true_and] at h
      obtain ⟨e3, r2⟩ := split_esc _ _ _ _ h
      exact ⟨by rw [e1, e2], e3, tail_eq _ _ r2⟩

end Cedar.SC
